package cqlspec

import (
	"encoding/binary"
	"errors"
	"fmt"
)

// MaxFrameBody is the largest body length FrameLen / DecodeRequest accept (256 MiB,
// the limit stated by the protocol specification).
const MaxFrameBody = 256 << 20

// ParseHeader decodes a frame header. b must hold at least HeaderSize(b[0]) bytes.
// Only the version is validated; everything else is reported as found on the wire.
func ParseHeader(b []byte) (Header, error) {
	if len(b) == 0 {
		return Header{}, errors.New("header: empty input")
	}
	v := int(b[0] & 0x7f)
	if v < 1 || v > 5 {
		return Header{}, fmt.Errorf("header: unsupported protocol version %d (byte 0 = 0x%02x)", v, b[0])
	}
	hs := HeaderSize(b[0])
	if len(b) < hs {
		return Header{}, fmt.Errorf("header: v%d header needs %d bytes, have %d", v, hs, len(b))
	}
	h := Header{Version: v, Response: b[0]&0x80 != 0, Flags: b[1]}
	if hs == 8 {
		h.Stream = int(int8(b[2]))
		h.Opcode = b[3]
		h.Length = int(int32(binary.BigEndian.Uint32(b[4:8])))
	} else {
		h.Stream = int(int16(binary.BigEndian.Uint16(b[2:4])))
		h.Opcode = b[4]
		h.Length = int(int32(binary.BigEndian.Uint32(b[5:9])))
	}
	return h, nil
}

// FrameLen reports the total length (header + body) of the frame starting at buf[0].
// ok is false when buf does not yet hold a complete header. err is set when the
// version byte is invalid (as soon as one byte is available) or the length field is
// negative or larger than MaxFrameBody.
func FrameLen(buf []byte) (n int, ok bool, err error) {
	if len(buf) == 0 {
		return 0, false, nil
	}
	if v := int(buf[0] & 0x7f); v < 1 || v > 5 {
		return 0, false, fmt.Errorf("header: unsupported protocol version %d (byte 0 = 0x%02x)", v, buf[0])
	}
	hs := HeaderSize(buf[0])
	if len(buf) < hs {
		return 0, false, nil
	}
	h, err := ParseHeader(buf)
	if err != nil {
		return 0, false, err
	}
	if h.Length < 0 {
		return 0, false, fmt.Errorf("header: negative body length %d", h.Length)
	}
	if h.Length > MaxFrameBody {
		return 0, false, fmt.Errorf("header: body length %d exceeds the 256 MiB limit", h.Length)
	}
	return hs + h.Length, true, nil
}

// RawFrame puts a header in front of body. Nothing is validated: the version selects
// the header layout (8 bytes for <= 2, 9 bytes otherwise), stream is truncated to the
// field width, and the length field is len(body).
func RawFrame(version int, response bool, flags byte, stream int, op byte, body []byte) []byte {
	v := byte(version) & 0x7f
	if response {
		v |= 0x80
	}
	out := make([]byte, 0, 9+len(body))
	out = append(out, v, flags)
	if version <= 2 {
		out = append(out, byte(int8(stream)))
	} else {
		out = binary.BigEndian.AppendUint16(out, uint16(int16(stream)))
	}
	out = append(out, op)
	out = binary.BigEndian.AppendUint32(out, uint32(int32(len(body))))
	return append(out, body...)
}

// OpName returns the spec name of an opcode ("QUERY", ...), or "opcode 0x.." if unknown.
func OpName(op byte) string {
	switch op {
	case OpError:
		return "ERROR"
	case OpStartup:
		return "STARTUP"
	case OpReady:
		return "READY"
	case OpAuthenticate:
		return "AUTHENTICATE"
	case 0x04:
		return "CREDENTIALS"
	case OpOptions:
		return "OPTIONS"
	case OpSupported:
		return "SUPPORTED"
	case OpQuery:
		return "QUERY"
	case OpResult:
		return "RESULT"
	case OpPrepare:
		return "PREPARE"
	case OpExecute:
		return "EXECUTE"
	case OpRegister:
		return "REGISTER"
	case OpEvent:
		return "EVENT"
	case OpBatch:
		return "BATCH"
	case OpAuthChallenge:
		return "AUTH_CHALLENGE"
	case OpAuthResponse:
		return "AUTH_RESPONSE"
	case OpAuthSuccess:
		return "AUTH_SUCCESS"
	}
	return fmt.Sprintf("opcode 0x%02x", op)
}
