package scen

import (
	"bytes"
	"context"
	"encoding/binary"
	"fmt"
	"runtime"
	"runtime/debug"
	"strings"
	"sync"
	"time"

	"github.com/gocql/gocql"
	"github.com/gocql/gocql/verifsim/cqlspec"
	"github.com/gocql/gocql/verifsim/kernel"
	"github.com/gocql/gocql/verifsim/node"
)

// Scenario byz (C05): a byzantine node. Every frame the simulated node sends (handshake,
// system tables, results, errors, events) passes a hook that, for a few tape-chosen
// frames per run, truncates it at a byte offset, poisons a length/count field, flips a
// byte, replaces it by a well-formed frame of another kind, lies in the header, or
// duplicates it. Oracle: no panic in any goroutine (a panic in a driver goroutine kills
// the child process: the runner attributes it to the run), callers get an error or a
// value and return within a bound, allocation stays in proportion.

func init() {
	register(&Scenario{
		Name:       "byz",
		Properties: []string{"C05"},
		Run:        runByz,
		Real:       []string{"gocql Conn.recv/serve, framer.parseFrame and all frame parsers, Iter.Scan/Scanner/MapScan/SliceMap, Unmarshal for the generated cell types, startup/auth handshake, control connection, event handling, heartbeats (real code)"},
		Stub:       []string{"byzantine Cassandra node: well-formed frames from the independent encoder, then mutated"},
		Rule:       "one run = one session (protocol 2-5, control connection on/off, authentication on/off, compression on/off) against a node that corrupts 1-3 tape-chosen outgoing frames (class x occurrence x mutation: truncate at any offset, poison any int/short, flip a byte, wrong-kind frame, unknown opcode/kind/code, stream id, header flags/version/length lies, duplicate, garbage) while callers run queries, prepared executions, batches and paged iterations with every consumer; distinct = distinct canonical-log fingerprint; non-trivial = at least one mutation fired and at least one operation completed",
	})
}

type byzMut struct {
	class string
	nth   int
	kind  int
	fired bool
}

var byzClasses = []string{"ROWS tok", "ROWS schema", "PREPARED schema", "SUPPORTED", "READY", "PREPARED", "ERROR(", "VOID", "ROWS(local)", "ROWS(peers)", "EVENT",
	"AUTHENTICATE", "AUTH_SUCCESS", "SET_KEYSPACE", "ROWS(schema_version)", "ANY"}

const byzMutKinds = 17

// panicSite extracts the first driver function below the panic from a stack dump.
func panicSite(stack string) string {
	lines := strings.Split(stack, "\n")
	after := false
	for _, l := range lines {
		if strings.HasPrefix(l, "panic(") {
			after = true
			continue
		}
		if !after || !strings.HasPrefix(l, "github.com/gocql/gocql") || strings.Contains(l, "verifsim") ||
			strings.Contains(l, ".parseFrame.func1") {
			continue // parseFrame's deferred function only re-panics runtime errors
		}
		if i := strings.LastIndex(l, "("); i > 0 {
			l = l[:i]
		}
		l = strings.TrimPrefix(l, "github.com/gocql/gocql.")
		return strings.TrimPrefix(l, "github.com/gocql/gocql/")
	}
	return "?"
}

// guard runs fn and turns a panic on the caller's goroutine into a C05 violation.
func guard(k *kernel.Kernel, what string, fn func()) {
	defer func() {
		if r := recover(); r != nil {
			st := string(debug.Stack())
			k.Violate("C05", "C05/panic-in-caller:"+panicSite(st), "%s panicked in the caller's goroutine: %v\n%s", what, r, st)
		}
	}()
	fn()
}

func runByz(e *Env) {
	k := e.K
	tp := k.Tape
	cl := node.NewCluster(k, 1)
	InstallHooks(k)
	extraScalars = true
	defer func() { extraScalars = false }()
	var ms0 runtime.MemStats
	runtime.ReadMemStats(&ms0)

	proto := []int{4, 3, 5, 2, 1}[tp.Next(5)]
	ctrl := tp.Next(3) != 1
	auth := tp.Chance(1, 5) && proto > 1
	compress := tp.Chance(1, 5)
	nTasks := 1 + tp.Next(2)
	nOps := 2 + tp.Next(5)
	tokenAware := false
	e.Note("proto", proto)
	e.Note("control", ctrl)
	e.Note("auth", auth)
	e.Note("compress", compress)
	garbageCells := !e.NoFaults && tp.Chance(1, 3)
	e.Note("garbageCells", garbageCells)
	// a node older than Cassandra 3.0: the driver then reads the old schema tables
	// (system.schema_*: marshal-class validators and comparators, JSON alias lists)
	legacy := ""
	if ctrl && (proto <= 2 || tp.Chance(1, 4)) && proto < 5 {
		legacy = []string{"2.1.13", "2.2.8", "2.0.17"}[tp.Next(3)]
		cl.Hosts[0].Version = legacy
		k.Fault("byz.pre-3.0-schema-tables")
	}
	e.Note("legacy", legacy)
	// the statement does not bind the whole partition key: a PREPARED result without
	// partition-key indexes, so that routing information comes from the schema tables
	pkLess := ctrl && tp.Chance(1, 5)
	// pages of one result that do not agree on their columns
	shiftyPages := !e.NoFaults && tp.Chance(1, 4)

	cfg := BaseConfig(cl, "10.0.0.1")
	if !ctrl {
		gocql.VerifDisableControlConn(cfg, true)
	}
	cfg.ProtoVersion = proto
	cfg.NumConns = 1 + tp.Next(2)
	cfg.Timeout = 300 * time.Millisecond
	cfg.ConnectTimeout = 300 * time.Millisecond
	cfg.ReconnectInterval = time.Second
	cfg.ReconnectionPolicy = &gocql.ConstantReconnectionPolicy{MaxRetries: 2, Interval: 200 * time.Millisecond}
	cfg.PageSize = 3
	if ctrl && tp.Chance(1, 3) {
		// token-aware routing: the policy reads the keyspaces' replication settings from the
		// schema tables (on its own goroutine, whenever a keyspace or the ring changes)
		cfg.PoolConfig.HostSelectionPolicy = gocql.TokenAwareHostPolicy(gocql.RoundRobinHostPolicy())
		cfg.Keyspace = "ks"
		k.Fault("byz.token-aware-policy")
		// (the policy fetches the keyspace's metadata holding the schema describer's mutex
		// across its queries; a caller or an event handler that wants the same mutex meanwhile
		// would freeze the bubble: one caller, no events, so the fetches follow one another)
		tokenAware = true
		nTasks = 1
		// the ring's partitioner and the node's tokens are what system.local says they are
		part := tp.Weighted([]int{4, 3, 2, 1})
		cl.Partitioner = []string{"org.apache.cassandra.dht.Murmur3Partitioner", "org.apache.cassandra.dht.RandomPartitioner",
			"org.apache.cassandra.dht.ByteOrderedPartitioner", "com.example.UnheardOfPartitioner"}[part]
		var toks []string
		for i := 1 + tp.Next(4); i > 0; i-- {
			tok := ""
			switch part {
			case 0, 3:
				tok = fmt.Sprintf("%d", int64(tp.Next(1<<30))<<33-int64(tp.Next(2))<<63)
			case 1:
				tok = fmt.Sprintf("%d%018d", tp.Next(1<<30), tp.Next(1<<30))
			case 2:
				tok = fmt.Sprintf("%08x", tp.Next(1<<30))
			}
			if !e.NoFaults && tp.Chance(1, 4) {
				tok = []string{"", "0x1f", "12a", "-", "99999999999999999999999999999999999999999999", " 5", "1e3", "\x00"}[tp.Next(8)]
				k.Fault("byz.malformed-token")
			}
			toks = append(toks, tok)
		}
		cl.Hosts[0].Tokens = toks
		e.Note("partitioner", part)
	}
	// a wrong-kind SCHEMA_CHANGE result legitimately makes the driver wait for schema
	// agreement for up to this long; keep it short so that bounds stay tight
	cfg.MaxWaitSchemaAgreement = 2 * time.Second
	if tp.Chance(1, 4) {
		// event classes the session does not register for (the node may push them anyway)
		cfg.Events.DisableNodeStatusEvents = tp.Chance(1, 2)
		cfg.Events.DisableTopologyEvents = tp.Chance(1, 2)
		cfg.Events.DisableSchemaEvents = tp.Chance(1, 2)
		k.Fault("byz.event-classes-disabled")
	}
	if !e.NoFaults && ctrl && tp.Chance(1, 25) {
		cl.LocalWithoutAddress = true
		k.Fault("byz.local-row-without-address")
	}
	if !e.NoFaults && ctrl && tp.Chance(1, 3) {
		// (without a control connection - an internal test switch, not a public option -
		// the session has nothing to handle events with)
		cl.EventsToAll = true
		k.Fault("byz.events-on-unregistered-connections")
	}
	if auth {
		cl.AuthClass = "org.apache.cassandra.auth.PasswordAuthenticator"
		cfg.Authenticator = gocql.PasswordAuthenticator{Username: "u", Password: "p"}
	}
	if compress {
		cfg.Compressor = gocql.SnappyCompressor{}
		cl.ResponseCompress = true
	}

	// ---- mutation plan ----
	var muts []*byzMut
	nm := 1 + tp.Next(3)
	if e.NoFaults {
		nm = 0
	}
	for i := 0; i < nm; i++ {
		muts = append(muts, &byzMut{class: byzClasses[tp.Next(len(byzClasses))], nth: 1 + tp.Next(4), kind: tp.Next(byzMutKinds)})
	}
	seen := map[string]int{}
	hookOn := true
	byzDiscarded = 0
	cl.FrameHook = func(sc *node.SConn, stream int, label string, frame []byte) ([]byte, bool) {
		if !hookOn {
			return frame, false
		}
		for _, m := range muts {
			if m.fired {
				continue
			}
			if m.class != "ANY" && !strings.HasPrefix(label, m.class) {
				continue
			}
			seen[m.class]++
			if seen[m.class] != m.nth {
				continue
			}
			m.fired = true
			out, cls, desc := byzMutate(tp, sc, m.kind, frame)
			if len(frame) > 1<<20 {
				// a frame of megabytes: building it, copying it for the mutation and growing
				// the connection's buffer are the simulator's allocations, several times its size
				byzDiscarded += int64(len(frame))
			}
			if len(out) < len(frame) {
				// the node built this frame (the simulator's own allocations, inside the
				// bubble) and the mutation then put a shorter one in its place
				byzDiscarded += int64(len(frame) - len(out))
			}
			k.Fault("byz." + desc)
			k.Rec("mutate %s %s -> %s (%d -> %d bytes, close=%v)", sc.C.Name, label, desc, len(frame), len(out), cls)
			return out, cls
		}
		return frame, false
	}

	// ---- node behaviour: generated well-formed answers ----
	var mu sync.Mutex
	prepCols := map[string][]wireCol{}
	schemaCols := map[string][]cqlspec.ColSpec{}
	pages := map[string]int{}
	genCols := func() []wireCol {
		n := 1 + tp.Next(4)
		var cols []wireCol
		for i := 0; i < n; i++ {
			cols = append(cols, wireCol{name: fmt.Sprintf("col%d", i), t: genCellType(tp, proto, true)})
		}
		if proto >= 3 && !e.NoFaults && tp.Chance(1, 40) {
			// a type description no server would send: a tuple without elements
			cols[tp.Next(len(cols))].t = wType{ID: cqlspec.TTuple}
			k.Fault("byz.empty-tuple-type")
		}
		return cols
	}
	rowsResp := func(cols []wireCol, noMeta bool, more []byte) *cqlspec.Response {
		r := wireResp{kind: "rows", cols: cols, global: true}
		nr := tp.Next(4)
		for i := 0; i < nr; i++ {
			var row []wireCell
			for _, c := range cols {
				if tp.Chance(1, 8) {
					row = append(row, wireCell{null: true})
					continue
				}
				v, b := genValue(tp, c.t, proto)
				if garbageCells && (c.t.ID == cqlspec.TTuple || c.t.ID == cqlspec.TUDT) && len(b) >= 4 && tp.Chance(1, 4) {
					// the length of the first field of a tuple / UDT value, poisoned
					b = append([]byte{}, b...)
					binary.BigEndian.PutUint32(b, []uint32{0x7fffffff, 0x7ffffffc, 0x7ffffffd, 0x80000000, 0xfffffffe, 0x7ffffffe, uint32(len(b)), uint32(len(b)) - 3}[tp.Next(8)])
					k.Fault("byz.garbage-field-length")
				} else if garbageCells && tp.Chance(1, 3) {
					// a well-framed cell whose bytes are not a value of its type
					switch tp.Next(6) {
					case 4: // one byte short
						if len(b) > 0 {
							b = b[:len(b)-1]
						}
					case 5: // one byte too long
						b = append(append([]byte{}, b...), byte(tp.Next(256)))
					case 0:
						b = b[:tp.Next(len(b)+1)]
					case 1:
						b = append(append([]byte{}, b...), byte(tp.Next(256)), 0xff)
					case 2:
						if len(b) > 0 {
							b = append([]byte{}, b...)
							b[tp.Next(len(b))] ^= byte(1 + tp.Next(255))
						}
					default:
						b = make([]byte, tp.Next(6))
						for i := range b {
							b[i] = byte(tp.Next(256))
						}
					}
					k.Fault("byz.garbage-cell")
				}
				row = append(row, wireCell{val: v, bytes: b})
			}
			r.rows = append(r.rows, row)
		}
		if more != nil {
			r.hasMore, r.nextState = true, more
		}
		resp := &cqlspec.Response{Op: cqlspec.OpResult, Kind: cqlspec.KindRows, Rows: wireRowsMeta(&r, noMeta)}
		for _, row := range r.rows {
			var cells []cqlspec.Cell
			for _, c := range row {
				cells = append(cells, cqlspec.Cell{Null: c.null, Bytes: c.bytes})
			}
			resp.RowData = append(resp.RowData, cells)
		}
		if proto >= 4 && tp.Chance(1, 6) {
			resp.Warnings = []string{"w"}
		}
		return resp
	}
	cl.App = func(sc *node.SConn, rec *node.ReqRec) {
		mu.Lock()
		defer mu.Unlock()
		rq := rec.Req
		switch rq.Header.Opcode {
		case cqlspec.OpPrepare:
			if table, scols, ok := schemaColumns(rq.Query); ok {
				id := []byte("schema:" + table + ":" + fmt.Sprint(len(scols)))
				schemaCols[string(id)] = scols
				pm := &cqlspec.PreparedMeta{GlobalSpec: true, Columns: []cqlspec.ColSpec{{Keyspace: "system_schema", Table: "x", Name: "keyspace_name", Type: cqlspec.ColType{ID: cqlspec.TVarchar}}}}
				if proto >= 4 {
					pm.PKIndices = []uint16{0}
				}
				cl.Send(sc, rec, &cqlspec.Response{Op: cqlspec.OpResult, Kind: cqlspec.KindPrepared, PreparedID: id, Prepared: pm,
					PreparedRows: &cqlspec.RowsMeta{GlobalSpec: true, Columns: scols}}, node.Auto, "PREPARED schema")
				k.Probe("schema-table-prepared")
				return
			}
			tok := tokenRe.FindString(rq.Query)
			cols := genCols()
			if strings.Contains(rq.Query, " IF ") && tp.Chance(1, 2) {
				cols = append([]wireCol{{name: "[applied]", t: wType{ID: cqlspec.TBoolean}}}, cols...)
			}
			id := []byte("id:" + tok)
			prepCols[string(id)] = cols
			pm := &cqlspec.PreparedMeta{GlobalSpec: true, Columns: []cqlspec.ColSpec{{Keyspace: "ks", Table: "t", Name: "c0", Type: cqlspec.ColType{ID: cqlspec.TVarchar}}}}
			if tp.Chance(1, 4) {
				// other bind layouts: several columns, tuple columns
				pm.Columns = nil
				for i := 1 + tp.Next(3); i > 0; i-- {
					pm.Columns = append(pm.Columns, cqlspec.ColSpec{Keyspace: "ks", Table: "t", Name: fmt.Sprintf("c%d", i), Type: genCellType(tp, proto, true).col()})
				}
				k.Fault("byz.varied-bind-metadata")
			}
			if proto >= 4 && !pkLess {
				pm.PKIndices = []uint16{0}
				if tp.Chance(1, 8) {
					pm.PKIndices = []uint16{uint16(tp.Next(4)), uint16(tp.Next(300))}
					k.Fault("byz.odd-pk-indexes")
				}
			}
			if !e.NoFaults && tp.Chance(1, 12) {
				// a flag the specification does not define for bind metadata: columns
				// announced, none described
				pm.NoMetadata = true
				k.Fault("byz.prepared-without-bind-metadata")
			}
			r := wireResp{cols: cols, global: true}
			cl.Send(sc, rec, &cqlspec.Response{Op: cqlspec.OpResult, Kind: cqlspec.KindPrepared, PreparedID: id, Prepared: pm, PreparedRows: wireRowsMeta(&r, false)}, node.Auto, "PREPARED "+tok)
		case cqlspec.OpQuery, cqlspec.OpExecute:
			var cols []wireCol
			tok := tokenRe.FindString(rq.Query)
			noMeta := false
			if scols, ok := schemaCols[string(rq.PreparedID)]; ok && rq.Header.Opcode == cqlspec.OpExecute {
				meta := &cqlspec.RowsMeta{GlobalSpec: true, Columns: scols}
				if rq.Params.SkipMetadata {
					meta = &cqlspec.RowsMeta{NoMetadata: true, ColumnCount: len(scols)}
				}
				var rows [][]cqlspec.Cell
				for i := tp.Next(4); i > 0; i-- {
					var row []cqlspec.Cell
					for _, c := range scols {
						row = append(row, schemaCell(tp, proto, c, i))
					}
					rows = append(rows, row)
				}
				cl.Send(sc, rec, &cqlspec.Response{Op: cqlspec.OpResult, Kind: cqlspec.KindRows, Rows: meta, RowData: rows}, node.Auto, "ROWS schema")
				k.Probe("schema-table-rows")
				return
			}
			if rq.Header.Opcode == cqlspec.OpExecute {
				cols = prepCols[string(rq.PreparedID)]
				tok = strings.TrimPrefix(string(rq.PreparedID), "id:")
				noMeta = rq.Params.SkipMetadata
				if cols == nil {
					cl.Send(sc, rec, &cqlspec.Response{Op: cqlspec.OpError, Error: &cqlspec.ErrorBody{Code: cqlspec.ErrUnprepared, Message: "unprepared", UnpreparedID: rq.PreparedID}}, node.Auto, "ERROR(unprepared)")
					return
				}
			} else {
				cols = genCols()
				if strings.Contains(rq.Query, " IF ") && tp.Chance(1, 2) {
					cols = append([]wireCol{{name: "[applied]", t: wType{ID: cqlspec.TBoolean}}}, cols...)
				}
			}
			switch tp.Weighted([]int{8, 2, 2}) {
			case 1:
				cl.Send(sc, rec, &cqlspec.Response{Op: cqlspec.OpResult, Kind: cqlspec.KindVoid}, node.Auto, "VOID "+tok)
			case 2:
				code := allErrorCodes[tp.Next(len(allErrorCodes))]
				cl.Send(sc, rec, &cqlspec.Response{Op: cqlspec.OpError, Error: &cqlspec.ErrorBody{Code: code, Message: "e " + tok, WriteType: "SIMPLE", Keyspace: "ks", Table: "t", Function: "f", ArgTypes: []string{"int"}}}, node.Auto, fmt.Sprintf("ERROR(%#x) %s", code, tok))
			default:
				var more []byte
				if strings.Contains(rq.Query, "PAGED") || rq.Params.HasPagingState {
					pages[tok]++
					if pages[tok] < 3 {
						more = []byte(fmt.Sprintf("st:%s:%d", tok, pages[tok]))
					}
					if first, seen := prepCols["q:"+tok]; rq.Header.Opcode == cqlspec.OpQuery && shiftyPages && seen {
						k.Fault("byz.page-with-other-columns")
						if tp.Chance(1, 2) {
							// as many values per row as before, in another number of columns:
							// tuple columns come back as one column per element
							cols = nil
							for _, c := range first {
								if c.t.ID == cqlspec.TTuple && len(c.t.Elems) > 0 {
									for j, et := range c.t.Elems {
										cols = append(cols, wireCol{name: fmt.Sprintf("%s_%d", c.name, j), t: et})
									}
								} else {
									cols = append(cols, c)
								}
							}
						}
					} else if rq.Header.Opcode == cqlspec.OpQuery {
						// all pages of one query share their columns
						if c, ok := prepCols["q:"+tok]; ok {
							cols = c
						} else {
							prepCols["q:"+tok] = cols
						}
					}
				}
				cl.Send(sc, rec, rowsResp(cols, noMeta, more), node.Auto, "ROWS "+tok)
			}
		case cqlspec.OpBatch:
			switch tp.Weighted([]int{4, 2, 2}) {
			case 1: // what a conditional batch is answered with
				cl.Send(sc, rec, rowsResp(append([]wireCol{{name: "[applied]", t: wType{ID: cqlspec.TBoolean}}}, genCols()...), false, nil), node.Auto, "ROWS batch")
			case 2:
				cl.Send(sc, rec, rowsResp(genCols(), false, nil), node.Auto, "ROWS batch")
			default:
				cl.Send(sc, rec, &cqlspec.Response{Op: cqlspec.OpResult, Kind: cqlspec.KindVoid}, node.Auto, "VOID batch")
			}
		default:
			cl.SendError(sc, rec, cqlspec.ErrProtocol, "unexpected", node.Auto)
		}
	}

	// ---- session creation is itself exposed to garbage ----
	type sres struct {
		s   *gocql.Session
		err error
	}
	sch := make(chan sres, 1)
	go func() {
		var r sres
		guard(k, "NewSession", func() { r.s, r.err = gocql.NewSession(*cfg) })
		sch <- r
	}()
	var sess *gocql.Session
	bootOK := k.SettleUntil(60*time.Second, 5*time.Millisecond, cl.Process, func() bool {
		select {
		case r := <-sch:
			sess = r.s
			if r.err != nil {
				k.Rec("session: %s", ErrClass(r.err))
			}
			return true
		default:
			return false
		}
	})
	if !bootOK {
		k.Violate("C05", "C05/hang:NewSession", "NewSession did not return within 60 simulated seconds against a node that corrupts %d frame(s); driver goroutines:\n%s", nm, strings.Join(DriverGoroutines(), "\n\n"))
		cl.CloseAll()
		return
	}
	if sess == nil {
		k.OpDone()
		byzFinish(k, cl, nil, &ms0, compress)
		return
	}

	// no asynchronous prefetch: a consumer reaching the page end during one blocks on the
	// sync.Once inside nextIter.fetch, which synctest cannot see through (any reply can be
	// turned into a page with a paging state by the wrong-kind menu)
	sess.SetPrefetch(0)

	// ---- workload ----
	hasSchemaOps := false
	for ti := 0; ti < nTasks; ti++ {
		ti := ti
		kinds := make([]int, nOps)
		cons := make([]int, nOps)
		for i := range kinds {
			kinds[i] = tp.Weighted([]int{4, 4, 1, 2, 2, 2, 2})
			if kinds[i] == 4 && (ti != 0 || !ctrl) {
				// schema lookups hold a driver mutex across their queries: one caller only
				kinds[i] = 0
			}
			if kinds[i] == 4 || (kinds[i] == 1 && ti == 0 && (pkLess || proto < 4) && ctrl) {
				hasSchemaOps = true
			}
			cons[i] = tp.Next(4)
		}
		k.Spawn(fmt.Sprintf("b%d", ti), func(t *kernel.Task) {
			for oi := range kinds {
				token := fmt.Sprintf("tok-%d-%d", ti, oi)
				if !t.Step(fmt.Sprintf("op%d %s", kinds[oi], token)) {
					return
				}
				guard(k, "operation "+token, func() {
					ctx, cancel := context.WithTimeout(context.Background(), 20*time.Second)
					defer cancel()
					switch kinds[oi] {
					case 0:
						byzConsume(sess.Query("ECHO '"+token+"'").WithContext(ctx).Iter(), cons[oi])
					case 1:
						q := sess.Query("SELECT * FROM ks.t /*"+token+"*/ WHERE c0 = ?", token).WithContext(ctx)
						if proto >= 4 && !pkLess && cons[oi]%2 == 0 {
							// what a token-aware policy does first: routing key from the
							// partition-key indexes of the PREPARED result
							_, _ = q.GetRoutingKey()
						} else if (pkLess || proto < 4) && ctrl && ti == 0 && cons[oi]%2 == 0 {
							// ... or, without indexes, from the table's schema (one caller only:
							// schema lookups hold a driver mutex across their queries)
							_, _ = q.GetRoutingKey()
						}
						byzConsume(q.Iter(), cons[oi])
					case 5:
						// a caller that sizes its values from the bind metadata it is given
						// (one value per column, one per element of a tuple column)
						q := sess.Bind("SELECT * FROM ks.t /*"+token+"*/ WHERE c0 = ?", func(qi *gocql.QueryInfo) ([]interface{}, error) {
							n := 0
							for _, a := range qi.Args {
								if tt, ok := a.TypeInfo.(gocql.TupleTypeInfo); ok {
									n += len(tt.Elems)
								} else {
									n++
								}
							}
							return make([]interface{}, n), nil
						}).WithContext(ctx)
						byzConsume(q.Iter(), cons[oi])
					case 2:
						b := sess.NewBatch(gocql.LoggedBatch).WithContext(ctx)
						b.Query("INSERT /*" + token + "*/ INTO ks.t (a) VALUES (1)")
						b.Query("INSERT INTO ks.t /*"+token+"x*/ (a) VALUES (?)", token)
						_ = sess.ExecuteBatch(b)
					case 4:
						_, _ = sess.KeyspaceMetadata("ks")
					case 6:
						// conditional statements: the four *CAS consumers expect an [applied]
						// column first; the node answers like for any other statement
						switch cons[oi] {
						case 0:
							_, _ = sess.Query("UPDATE ks.t /*"+token+"*/ SET a = 1 WHERE c0 = ? IF a = 0", token).WithContext(ctx).MapScanCAS(map[string]interface{}{})
						case 1:
							var a, b2 interface{}
							_, _ = sess.Query("INSERT INTO ks.t /*"+token+"*/ (a) VALUES (1) IF NOT EXISTS").WithContext(ctx).ScanCAS(&a, &b2)
						case 2:
							b := sess.NewBatch(gocql.LoggedBatch).WithContext(ctx)
							b.Query("UPDATE ks.t /*"+token+"*/ SET a = 1 WHERE c0 = ? IF a = 0", token)
							if _, it, err := sess.MapExecuteBatchCAS(b, map[string]interface{}{}); err == nil && it != nil {
								_ = it.Close()
							}
						default:
							b := sess.NewBatch(gocql.LoggedBatch).WithContext(ctx)
							b.Query("UPDATE ks.t /*"+token+"*/ SET a = 1 WHERE c0 = ? IF a = 0", token)
							var a interface{}
							if _, it, err := sess.ExecuteBatchCAS(b, &a); err == nil && it != nil {
								_ = it.Close()
							}
						}
					case 3:
						// Prefetch(0): an asynchronous prefetch would make the consumer block on the
						// sync.Once inside nextIter.fetch, which synctest cannot see through
						byzConsume(sess.Query("ECHO PAGED '"+token+"'").WithContext(ctx).PageSize(3).Prefetch(0).Iter(), cons[oi])
					}
				})
				k.OpDone()
			}
		})
	}
	// events (well-formed; the hook may corrupt them) as actions
	evN := 0
	schemaOps := hasSchemaOps
	k.Sources = append(k.Sources, func() []kernel.Action {
		if evN >= 4 || tokenAware {
			return nil
		}
		return []kernel.Action{{Key: "event", Rank: 4, Weight: 1, Do: func() {
			evN++
			ev := &cqlspec.Response{EventPort: 9042, EventIP: []byte{10, 0, 0, byte(1 + tp.Next(3))}}
			evKind := tp.Next(4)
			if evKind >= 2 && schemaOps {
				// a SCHEMA_CHANGE event takes the schema describer's mutex, which a schema
				// lookup holds across its queries: synctest cannot see through that
				evKind = 1
			}
			switch evKind {
			case 0:
				ev.EventType, ev.EventChange = "STATUS_CHANGE", []string{"UP", "DOWN"}[tp.Next(2)]
			case 1:
				ev.EventType, ev.EventChange = "TOPOLOGY_CHANGE", []string{"NEW_NODE", "REMOVED_NODE", "MOVED_NODE"}[tp.Next(3)]
			default:
				ev.EventType = "SCHEMA_CHANGE"
				tg := []string{"KEYSPACE", "TABLE", "TYPE", "FUNCTION", "AGGREGATE"}[tp.Next(5)]
				if proto < 4 && (tg == "FUNCTION" || tg == "AGGREGATE") {
					tg = "TABLE"
				}
				ev.Schema = &cqlspec.SchemaChange{Change: []string{"CREATED", "UPDATED", "DROPPED"}[tp.Next(3)], Target: tg, Keyspace: "ks", Name: "n", Args: []string{"int"}}
			}
			cl.PushEvent(ev)
		}}}
	})
	k.TimeMenu = []time.Duration{10 * time.Millisecond, time.Millisecond, 100 * time.Millisecond, time.Second, 5 * time.Second}
	k.PreStep = append(k.PreStep, cl.Process)
	k.Loop(nil)
	k.BeginSettle()
	hookOn = false
	if !k.SettleUntil(90*time.Second, 20*time.Millisecond, cl.Process, k.TasksDone) && k.Violation() == nil {
		k.Violate("C05", "C05/hang:operation", "after the node stopped sending garbage, calls were still blocked after 90 simulated seconds: %v", k.RunningOps())
	}
	byzFinish(k, cl, sess, &ms0, compress)
}

// byzDiscarded: bytes of frames the node built and a mutation replaced by something shorter,
// plus the size of every mutated frame above 1 MiB (the simulator's own share of the allocations)
// (root goroutine only; reset at the start of every run).
var byzDiscarded int64

func byzFinish(k *kernel.Kernel, cl *node.Cluster, sess *gocql.Session, ms0 *runtime.MemStats, compressedRun bool) {
	if sess != nil {
		closed := make(chan struct{})
		go func() {
			guard(k, "Session.Close", sess.Close)
			close(closed)
		}()
		k.SettleUntil(60*time.Second, 50*time.Millisecond, cl.Process, func() bool {
			select {
			case <-closed:
				return true
			default:
				return false
			}
		})
	}
	cl.CloseAll()
	// MaxWaitSchemaAgreement (60 s) bounds the longest background loop that ignores Close
	k.SettleUntil(150*time.Second, 200*time.Millisecond, nil, func() bool { return len(kernel.BubbleGoroutines()) == 0 })
	if gs := DriverGoroutines(); len(gs) > 0 && k.Violation() == nil {
		k.Violate("C06", "C06/goroutine-leak-after-garbage:"+TopFrames(gs[0], 1), "%d driver goroutine(s) still alive 150 s after Session.Close; first:\n%s", len(gs), gs[0])
	}
	var ms1 runtime.MemStats
	runtime.ReadMemStats(&ms1)
	switch mb := (ms1.TotalAlloc - ms0.TotalAlloc) >> 20; {
	case mb >= 64:
		k.Probe("alloc>=64MiB")
	case mb >= 16:
		k.Probe("alloc>=16MiB")
	case mb >= 4:
		k.Probe("alloc>=4MiB")
	}
	// the allocation clause of the property is about uncompressed data (a compressed block
	// states its own decoded size); and a frame header may announce up to the protocol's 256 MiB frame limit and the driver
	// allocates the announced body before reading it: that is the frame limit at work, not
	// a parser trusting a count, so runs whose mutation made the header lie are exempt
	// (the simulated node builds and copies what it sends, inside the same process: a few
	// times the bytes sent are allowed on top of the bound)
	var sent int64
	for _, c := range cl.Net.Conns() {
		sent += c.SentBytes()
	}
	if grown := ms1.TotalAlloc - ms0.TotalAlloc; grown > uint64(64<<20+16*(sent+byzDiscarded)) && k.Violation() == nil && !headerLied(k) && !compressedRun {
		k.Violate("C05", "C05/wild-allocation", "the run allocated %d MiB in total although the node sent only %d KiB, in uncompressed frames with truthful headers", grown>>20, sent>>10)
	}
}

// byzConsume drains an iterator with one of the four consumers and closes it.
func byzConsume(iter *gocql.Iter, consumer int) {
	switch consumer {
	case 0:
		_, _ = iter.SliceMap()
	case 1:
		for n := 0; n < 1000; n++ {
			m := map[string]interface{}{}
			if !iter.MapScan(m) {
				break
			}
		}
	case 2:
		for n := 0; n < 1000; n++ {
			rd, err := iter.RowData()
			if err != nil || !iter.Scan(rd.Values...) {
				break
			}
		}
	default:
		sc := iter.Scanner()
		for n := 0; n < 1000 && sc.Next(); n++ {
			rd, err := iter.RowData()
			if err != nil {
				break
			}
			if sc.Scan(rd.Values...) != nil {
				break
			}
		}
		_ = sc.Err()
		return
	}
	_ = iter.Warnings()
	_ = iter.Close()
}

// byzMutate applies mutation kind to a well-formed frame.
func byzMutate(tp *kernel.Tape, sc *node.SConn, kind int, frame []byte) (out []byte, closeAfter bool, desc string) {
	hs := cqlspec.HeaderSize(frame[0])
	f := append([]byte(nil), frame...)
	body := len(f) - hs
	setLen := func(b []byte, n int32) {
		binary.BigEndian.PutUint32(b[hs-4:hs], uint32(n))
	}
	switch kind {
	case 0: // truncate, then close
		return f[:tp.Next(len(f))], true, "truncate-close"
	case 1: // truncate, keep the connection open (the rest never comes)
		return f[:tp.Next(len(f))], false, "truncate-stall"
	case 2: // poison a 4-byte field
		if body < 4 {
			return f, false, "none"
		}
		o := hs + tp.Next(body-3)
		orig := int32(binary.BigEndian.Uint32(f[o:]))
		v := []int32{-1, 0, 1, 0x7fffffff, -0x80000000, orig + 1, orig - 1, 65536, -2, 2, 3, 4, 5, 6, 8, 16, 255, 256, 0x00ffffff, 0x0fffffff}[tp.Next(20)]
		binary.BigEndian.PutUint32(f[o:], uint32(v))
		return f, false, "poison-int"
	case 3: // poison a 2-byte field
		if body < 2 {
			return f, false, "none"
		}
		o := hs + tp.Next(body-1)
		orig := binary.BigEndian.Uint16(f[o:])
		v := []uint16{0xffff, 0, orig + 1, 0x8000}[tp.Next(4)]
		binary.BigEndian.PutUint16(f[o:], v)
		return f, false, "poison-short"
	case 4: // flip a byte of the body
		if body < 1 {
			return f, false, "none"
		}
		f[hs+tp.Next(body)] ^= byte(1 + tp.Next(255))
		return f, false, "flip-byte"
	case 5: // a well-formed frame of another kind on the same stream
		h, _ := cqlspec.ParseHeader(f)
		r := &cqlspec.Response{Version: h.Version, Stream: h.Stream}
		if h.Version == 5 {
			r.ExtraFlags = cqlspec.FlagBeta
		}
		switch tp.Next(13) {
		case 11: // rows without metadata, although nobody asked to skip it
			r.Op, r.Kind = cqlspec.OpResult, cqlspec.KindRows
			r.Rows = &cqlspec.RowsMeta{NoMetadata: true, ColumnCount: 1 + tp.Next(3)}
			for i := tp.Next(3); i > 0; i-- {
				row := make([]cqlspec.Cell, r.Rows.ColumnCount)
				for j := range row {
					row[j] = cqlspec.Cell{Bytes: []byte{0, 0, 0, byte(j)}}
				}
				r.RowData = append(r.RowData, row)
			}
		case 12: // rows with metadata and a paging state
			r.Op, r.Kind = cqlspec.OpResult, cqlspec.KindRows
			r.Rows = &cqlspec.RowsMeta{GlobalSpec: true, HasMorePages: true, PagingState: []byte("x"), Columns: []cqlspec.ColSpec{{Keyspace: "k", Table: "t", Name: "c", Type: cqlspec.ColType{ID: cqlspec.TInt}}}}
			r.RowData = [][]cqlspec.Cell{{{Bytes: []byte{0, 0, 0, 1}}}}
		case 0:
			r.Op = cqlspec.OpReady
		case 1:
			r.Op, r.Supported = cqlspec.OpSupported, map[string][]string{"X": {"y"}}
		case 2:
			r.Op, r.AuthClass = cqlspec.OpAuthenticate, "org.apache.cassandra.auth.PasswordAuthenticator"
		case 3:
			r.Op, r.AuthToken = cqlspec.OpAuthChallenge, []byte("c")
		case 4:
			r.Op, r.AuthNull = cqlspec.OpAuthSuccess, true
		case 5:
			r.Op, r.Error = cqlspec.OpError, &cqlspec.ErrorBody{Code: allErrorCodes[tp.Next(len(allErrorCodes))], Message: "m", WriteType: "SIMPLE"}
			if tp.Chance(1, 3) {
				// "unknown prepared id", whatever the request was (a plain QUERY, a PREPARE, a
				// handshake step, a system-table query of the control connection)
				r.Error = &cqlspec.ErrorBody{Code: cqlspec.ErrUnprepared, Message: "unprepared", UnpreparedID: [][]byte{[]byte("x"), {}, []byte("id:tok-0-0")}[tp.Next(3)]}
			}
		case 6:
			r.Op, r.Kind = cqlspec.OpResult, cqlspec.KindVoid
		case 7:
			r.Op, r.Kind, r.Keyspace = cqlspec.OpResult, cqlspec.KindSetKeyspace, "ks"
		case 8:
			r.Op, r.Kind, r.Schema = cqlspec.OpResult, cqlspec.KindSchemaChange, &cqlspec.SchemaChange{Change: "CREATED", Target: "TABLE", Keyspace: "ks", Name: "t"}
		case 9:
			r.Op, r.Kind, r.PreparedID, r.Prepared = cqlspec.OpResult, cqlspec.KindPrepared, []byte("x"), &cqlspec.PreparedMeta{}
		default:
			r.Op, r.EventType, r.EventChange, r.EventIP, r.EventPort = cqlspec.OpEvent, "STATUS_CHANGE", "UP", []byte{10, 0, 0, 1}, 9042
		}
		b, err := cqlspec.EncodeResponse(r)
		if err != nil {
			return f, false, "none"
		}
		return b, false, "wrong-kind"
	case 6: // unknown opcode / result kind / error code / event type
		h, _ := cqlspec.ParseHeader(f)
		switch {
		case tp.Chance(1, 3):
			f[hs-5] = []byte{0x7f, 0x04, 0x11, 0xff}[tp.Next(4)]
			return f, false, "unknown-opcode"
		case (h.Opcode == cqlspec.OpResult || h.Opcode == cqlspec.OpError) && h.Flags == 0 && body >= 4:
			binary.BigEndian.PutUint32(f[hs:], []uint32{0, 6, 99, 0x7fffffff, 0x1234}[tp.Next(5)])
			return f, false, "unknown-kind-or-code"
		case h.Opcode == cqlspec.OpEvent && body > 4:
			f[hs+3] ^= 0x20
			return f, false, "unknown-event-type"
		}
		return f, false, "none"
	case 7: // stream id
		v := []int{0, -1, 32767, 127, 300, -2}[tp.Next(6)]
		if hs == 9 {
			binary.BigEndian.PutUint16(f[2:], uint16(int16(v)))
		} else {
			f[2] = byte(int8(v))
		}
		return f, false, "stream-id"
	case 8: // header flags without the content they announce
		f[1] ^= []byte{cqlspec.FlagCompression, cqlspec.FlagTracing, cqlspec.FlagWarning, cqlspec.FlagCustomPayload, 0xe0}[tp.Next(5)]
		return f, false, "header-flags"
	case 9: // version byte
		f[0] = []byte{0x81, 0x82, 0x83, 0x84, 0x85, 0x04, 0x86, 0x80, 0xff}[tp.Next(9)]
		return f, false, "version-byte"
	case 10: // header length lies
		v := []int32{int32(body) + 1, int32(body) - 1, int32(body) + 1000, -1, 256<<20 + 1, 0}[tp.Next(6)]
		setLen(f, v)
		return f, false, "length-lie"
	case 11: // the same reply twice
		return append(f, frame...), false, "duplicate"
	case 12: // toggle one low bit of one of the first three ints of the body (kinds, flags, counts)
		if body < 4 {
			return f, false, "none"
		}
		n := body / 4
		if n > 3 {
			n = 3
		}
		o := hs + 4*tp.Next(n)
		f[o+3] ^= 1 << uint(tp.Next(5))
		return f, false, "flag-bit"
	case 14, 15: // a rows result whose column type is a tree no server would send
		var typ []byte
		desc := "type-tree-wide"
		if kind == 14 {
			// a tuple of 65535 elements whose first element is a tuple of 65535 elements ...
			for i := []int{1, 3, 40, 300, 2000}[tp.Next(5)]; i > 0; i-- {
				typ = append(typ, 0x00, 0x31, 0xff, 0xff)
			}
			if tp.Chance(1, 3) {
				// ... or a user-defined type that announces 65535 fields
				typ = append(typ, 0x00, 0x30, 0x00, 0x01, 'k', 0x00, 0x01, 'u', 0xff, 0xff)
			}
		} else {
			// list<list<list<...>>>
			desc = "type-tree-deep"
			typ = bytes.Repeat([]byte{0x00, 0x20}, []int{10, 2000, 200000, 4000000}[tp.Next(4)])
		}
		typ = append(typ, 0x00, 0x09)
		b := append([]byte(nil), f[:hs]...)
		b[1] &= cqlspec.FlagBeta
		b[hs-5] = byte(cqlspec.OpResult)
		b = append(b, 0, 0, 0, 2, 0, 0, 0, 1, 0, 0, 0, 1, 0, 2, 'k', 's', 0, 1, 't', 0, 1, 'c')
		b = append(b, typ...)
		b = append(b, 0, 0, 0, 0)
		setLen(b, int32(len(b)-hs))
		return b, false, desc
	case 16: // the header laid out as another protocol generation lays it out (8 bytes with a one-byte stream id before v3, 9 bytes with two from v3 on), stream ids at the edges of both ranges
		orig := int(int8(f[2]))
		if hs == 9 {
			orig = int(int16(binary.BigEndian.Uint16(f[2:])))
		}
		var b []byte
		if hs == 9 {
			v := []int{orig, 127, -128, 0, -1}[tp.Next(5)]
			b = []byte{[]byte{0x81, 0x82}[tp.Next(2)], f[1], byte(int8(v)), f[4]}
		} else {
			v := []int{orig, 128, 127, 129, 255, 256, 32767, -32768, -1}[tp.Next(9)]
			b = []byte{[]byte{0x83, 0x84, 0x85}[tp.Next(3)], f[1], byte(uint16(int16(v)) >> 8), byte(v), f[3]}
		}
		b = append(b, f[hs-4:]...)
		return b, false, "foreign-header"
	default: // garbage body behind a plausible header
		// (of a frame of many megabytes only the first 64 KiB are garbled: one tape value
		// per byte would make the tape itself the largest allocation of the run)
		end := len(f)
		if end-hs > 1<<16 {
			end = hs + 1<<16
		}
		for i := hs; i < end; i++ {
			f[i] = byte(tp.Next(256))
		}
		return f, false, "garbage-body"
	}
}

func headerLied(k *kernel.Kernel) bool {
	f := k.Finish().Faults
	// a truncated frame shifts the frame boundaries for what follows, which has the same
	// effect as a lying length
	return f["byz.version-byte"] > 0 || f["byz.length-lie"] > 0 || f["byz.truncate-stall"] > 0 || f["byz.truncate-close"] > 0
}
