// Package scen holds the simulation scenarios: workload generators, fault menus and
// oracles, one file per scenario.
package scen

import (
	"context"
	"errors"
	"fmt"
	"net"
	"sort"
	"strings"
	"sync"
	"time"

	"github.com/gocql/gocql"
	"github.com/gocql/gocql/verifsim/kernel"
	"github.com/gocql/gocql/verifsim/node"
	"github.com/gocql/gocql/verifsim/simnet"
)

// Env is what a scenario gets for one run.
type Env struct {
	K    *kernel.Kernel
	Tier string // quick | thorough
	// Cfg records the swarm configuration drawn for the run (reported in replay files).
	Cfg map[string]interface{}
	// NoFaults runs the scenario's fault-free configuration.
	NoFaults bool
	// Samples collects a few human-readable artefacts (decoded frames, histories).
	Samples []string
}

// Note records a configuration value.
func (e *Env) Note(key string, v interface{}) {
	if e.Cfg == nil {
		e.Cfg = map[string]interface{}{}
	}
	e.Cfg[key] = v
}

// Func is a scenario: it runs entirely inside the synctest bubble, on the root goroutine.
type Func func(e *Env)

// Scenario describes a registered scenario.
type Scenario struct {
	Name       string
	Properties []string
	Run        Func
	// Real / Stub list the components that ran real code and the ones simulated.
	Real, Stub []string
	Rule       string // how cases are generated and what counts as distinct / non-trivial
}

// Registry maps scenario names to scenarios.
var Registry = map[string]*Scenario{}

func register(s *Scenario) { Registry[s.Name] = s }

// Names lists registered scenarios in sorted order.
func Names() []string {
	var out []string
	for n := range Registry {
		out = append(out, n)
	}
	sort.Strings(out)
	return out
}

type nopLogger struct{}

func (nopLogger) Print(v ...interface{})                 {}
func (nopLogger) Printf(format string, v ...interface{}) {}
func (nopLogger) Println(v ...interface{})               {}

// ConnName names a driver connection after its simulated transport.
func ConnName(c *gocql.Conn) string {
	if c == nil {
		return "-"
	}
	if sc, ok := c.VerifNetConn().(*simnet.Conn); ok {
		return sc.Name
	}
	type netConner interface{ NetConn() net.Conn }
	if nc, ok := c.VerifNetConn().(netConner); ok {
		if sc, ok := nc.NetConn().(*simnet.Conn); ok {
			return sc.Name
		}
	}
	return "?"
}

// waiters tracks, per run, the requests that have been written and whose callers wait for
// the response inside the driver (between the yield points exec.afterWrite and the four
// ways out of the wait). It is fed by the yield hook, so it costs nothing without it.
type waiters struct {
	mu sync.Mutex
	m  map[*gocql.Conn]map[int]bool
}

var curWaiters *waiters

// InstallHooks routes the driver's yield points to the kernel for this run.
func InstallHooks(k *kernel.Kernel) {
	w := &waiters{m: map[*gocql.Conn]map[int]bool{}}
	curWaiters = w
	gocql.VerifHook = func(point string, c *gocql.Conn, stream int) {
		switch point {
		case "exec.gotResp", "exec.timedOut", "exec.ctxDone", "exec.connDone":
			w.mu.Lock()
			delete(w.m[c], stream)
			w.mu.Unlock()
		}
		k.Yield(point, fmt.Sprintf("%s/s%d", ConnName(c), stream))
		if point == "exec.afterWrite" {
			// (after a possible park here: from now on the caller goes on to wait)
			w.mu.Lock()
			if w.m[c] == nil {
				w.m[c] = map[int]bool{}
			}
			w.m[c][stream] = true
			w.mu.Unlock()
		}
	}
}

// CheckWaiters is an invariant for any quiescence (C06, "closing a connection unblocks
// every waiting caller"): once the driver has closed the transport of a connection, no
// caller is still waiting for a response on it. The driver closes the transport only after
// it has told the registered calls and cancelled the connection's context, and a woken
// caller reaches its way out before the bubble is quiescent again, so on a correct driver
// this holds at every quiescence, whatever is parked elsewhere.
func CheckWaiters(k *kernel.Kernel) {
	w := curWaiters
	if w == nil || k.Violation() != nil {
		return
	}
	w.mu.Lock()
	defer w.mu.Unlock()
	worst, worstIDs := "", []int(nil)
	for c, ids := range w.m {
		if len(ids) == 0 {
			continue
		}
		sc, _ := c.VerifNetConn().(*simnet.Conn)
		if sc == nil || !sc.ClientClosed() {
			continue
		}
		if worst == "" || sc.Name < worst {
			worst = sc.Name
			worstIDs = worstIDs[:0]
			for id := range ids {
				worstIDs = append(worstIDs, id)
			}
		}
	}
	if worst != "" {
		sort.Ints(worstIDs)
		k.Violate("C06", "C06/caller-still-waiting-on-closed-connection", "the driver has closed connection %s, but the callers of the requests on streams %v still wait for a response on it (nothing will wake them before their own timeout)", worst, worstIDs)
	}
}

// BaseConfig returns a ClusterConfig wired to the simulated network.
func BaseConfig(cl *node.Cluster, hosts ...string) *gocql.ClusterConfig {
	cfg := gocql.NewCluster(hosts...)
	cfg.Dialer = cl.Net
	cfg.Logger = nopLogger{}
	cfg.ProtoVersion = 4
	cfg.Timeout = 500 * time.Millisecond
	cfg.ConnectTimeout = 500 * time.Millisecond
	cfg.DisableInitialHostLookup = false
	cfg.ReconnectInterval = 0
	cl.Net.DialTimeout = cfg.ConnectTimeout
	return cfg
}

// Boot runs fn (typically gocql.NewSession) on its own goroutine while the root
// goroutine serves the network in fault-free FIFO mode. No tape values are drawn.
func Boot[T any](k *kernel.Kernel, cl *node.Cluster, bound time.Duration, fn func() (T, error)) (T, error) {
	type res struct {
		v   T
		err error
	}
	ch := make(chan res, 1)
	go func() {
		v, err := fn()
		ch <- res{v, err}
	}()
	deadline := time.Now().Add(bound)
	for {
		k.Quiesce()
		cl.Process()
		cl.DeliverAll()
		k.Quiesce()
		select {
		case r := <-ch:
			return r.v, r.err
		default:
		}
		if time.Now().After(deadline) {
			var zero T
			return zero, errors.New("boot: not finished within bound")
		}
		time.Sleep(time.Millisecond)
	}
}

// ErrClass maps an error returned by the driver to a short class name used by oracles
// and logs.
func ErrClass(err error) string {
	switch {
	case err == nil:
		return "ok"
	case errors.Is(err, gocql.ErrTimeoutNoResponse):
		return "timeout"
	case errors.Is(err, context.Canceled):
		return "ctx-canceled"
	case errors.Is(err, context.DeadlineExceeded):
		return "ctx-deadline"
	case errors.Is(err, gocql.ErrConnectionClosed):
		return "conn-closed"
	case errors.Is(err, gocql.ErrTooManyTimeouts):
		return "too-many-timeouts"
	case errors.Is(err, gocql.ErrNoStreams):
		return "no-streams"
	case errors.Is(err, gocql.ErrNoConnections):
		return "no-connections"
	case errors.Is(err, gocql.ErrSessionClosed):
		return "session-closed"
	case errors.Is(err, simnet.ErrInjected):
		return "write-error"
	case errors.Is(err, gocql.ErrNotFound):
		return "not-found"
	}
	var re gocql.RequestError
	if errors.As(err, &re) {
		return fmt.Sprintf("server-error(%#x)", re.Code())
	}
	var ne net.Error
	if errors.As(err, &ne) {
		if ne.Timeout() {
			return "net-timeout"
		}
		return "net-error"
	}
	s := err.Error()
	switch {
	case strings.Contains(s, "EOF"):
		return "eof"
	case strings.Contains(s, "use of closed network connection"):
		return "net-closed"
	}
	return "other:" + s
}

// DriverGoroutines filters bubble goroutine dumps to those with driver frames.
func DriverGoroutines() []string {
	var out []string
	for _, g := range kernel.BubbleGoroutines() {
		if strings.Contains(g, "github.com/gocql/gocql.") || strings.Contains(g, "github.com/gocql/gocql/internal") {
			out = append(out, g)
		}
	}
	return out
}

// TopFrames extracts a compact "func ← func" site description from a goroutine dump.
func TopFrames(dump string, n int) string {
	var fns []string
	for _, line := range strings.Split(dump, "\n") {
		if strings.HasPrefix(line, "\t") || strings.HasPrefix(line, "goroutine ") || line == "" {
			continue
		}
		if i := strings.LastIndex(line, "("); i > 0 {
			line = line[:i]
		}
		if !strings.Contains(line, "gocql/gocql") {
			continue
		}
		line = strings.TrimPrefix(line, "github.com/gocql/gocql.")
		fns = append(fns, line)
		if len(fns) >= n {
			break
		}
	}
	return strings.Join(fns, "<-")
}

// InUseStreams parses IDGenerator.String() (hex words, most significant bit = lowest
// stream of the word) into the list of reserved stream ids, without the reserved id 0.
func InUseStreams(state string) []int {
	var out []int
	for b, w := range strings.Fields(state) {
		var v uint64
		fmt.Sscanf(w, "%x", &v)
		for j := 0; j < 64; j++ {
			if v&(1<<(63-uint(j))) != 0 {
				if id := b*64 + j; id != 0 {
					out = append(out, id)
				}
			}
		}
	}
	return out
}
