package scen

import (
	"fmt"
	"sort"
	"sync"

	"github.com/gocql/gocql/internal/streams"
	"github.com/gocql/gocql/verifsim/kernel"
)

// Scenario ids (C08): 2-5 goroutines call GetStream / Clear on one IDGenerator; the hook
// before every atomic operation of the allocator parks the caller and the kernel
// releases exactly one goroutine at a time, so an execution is a tape-chosen sequence of
// atomic steps. Pre-fill phases run unparked to reach "all but k ids taken".

func init() {
	register(&Scenario{
		Name:       "ids",
		Properties: []string{"C08"},
		Run:        runIDs,
		Real:       []string{"internal/streams.IDGenerator (real code, yield before every atomic operation)"},
		Stub:       []string{"callers (scripted tasks)"},
		Rule:       "one run = one tape-chosen interleaving of the atomic steps of 2-5 callers doing 2-8 GetStream/Clear operations each on a generator pre-filled to a tape-chosen level; distinct = distinct canonical-log fingerprint; non-trivial = at least two callers were inside an operation at the same time (a park fired)",
	})
}

type idsEvent struct {
	task     string
	op       string // get | clear
	id       int
	ok       bool
	inv, ret int
}

func runIDs(e *Env) {
	k := e.K
	tp := k.Tape
	proto := []int{2, 4}[tp.Weighted([]int{3, 1})]
	capN := 128
	if proto > 2 {
		capN = 32768
	}
	g := streams.New(proto)
	e.Note("capacity", capN)

	// ---- releasing the reserved id, which nobody can hold: "not in use", nothing changes ----
	if !e.NoFaults && tp.Chance(1, 12) {
		k.Fault("ids.release-of-reserved-id")
		reported, panicked := false, false
		func() {
			defer func() {
				if recover() != nil {
					panicked = true
				}
			}()
			reported = g.Clear(0)
		}()
		if reported || panicked {
			// its own signature: this input is a recorded finding (known_findings.json)
			k.Violate("C08", "C08/release-of-the-reserved-id-takes-effect", "Clear(0) on a fresh allocator (capacity %d) reported in-use=%v, panicked=%v: id 0 is reserved and never handed out, releasing it must report false and change nothing", capN, reported, panicked)
			return
		}
	}

	// ---- (f) sequential use hands out every non-reserved id before failing ----
	if tp.Chance(1, 8) {
		seqCheck(k, proto, capN)
		if k.Violation() != nil {
			return
		}
	}

	// ---- pre-fill (unparked): leave `free` ids ----
	free := []int{capN - 1, 0, 1, 2, 3, 5, 64, 65}[tp.Next(8)]
	if free > capN-1 {
		free = capN - 1
	}
	e.Note("free_after_prefill", free)
	prefilled := map[int]bool{}
	for i := 0; i < capN-1-free; i++ {
		id, ok := g.GetStream()
		if !ok {
			k.Violate("C08", "C08/spurious-exhaustion-sequential", "sequential pre-fill: GetStream failed after %d of %d ids", i, capN-1)
			return
		}
		if id <= 0 || id >= capN || prefilled[id] {
			k.Violate("C08", "C08/bad-id-sequential", "sequential pre-fill returned id %d (capacity %d, duplicate=%v)", id, capN, prefilled[id])
			return
		}
		prefilled[id] = true
	}
	// release a tape-chosen few of the pre-filled ids so free ids sit in different words
	var pre []int
	for id := range prefilled {
		pre = append(pre, id)
	}
	sort.Ints(pre)
	nrel := tp.Next(4)
	for i := 0; i < nrel && len(pre) > 0; i++ {
		j := tp.Next(len(pre))
		id := pre[j]
		pre = append(pre[:j], pre[j+1:]...)
		if !g.Clear(id) {
			k.Violate("C08", "C08/clear-of-held-id-false", "sequential: Clear(%d) of a handed-out id returned false", id)
			return
		}
		delete(prefilled, id)
		free++
	}
	if got := g.Available(); got != free {
		k.Violate("C08", "C08/available-mismatch", "after sequential pre-fill Available()=%d, expected %d", got, free)
		return
	}

	// ---- concurrent phase: step-level schedules ----
	var mu sync.Mutex
	var events []*idsEvent
	held := map[int]string{} // id → task that holds it (acquire returned, release not yet invoked)
	// intervals during which an id may be in use: [acquire.inv, clear.ret]; open = -1
	type ival struct{ from, to int }
	inuse := map[int][]*ival{}
	for id := range prefilled {
		inuse[id] = []*ival{{from: 0, to: -1}}
	}
	nTasks := 2 + tp.Next(4)
	e.Note("tasks", nTasks)
	scripts := make([][]int, nTasks) // 0 = get, 1 = clear one of my ids, 2 = clear a pre-filled id
	for t := range scripts {
		n := 2 + tp.Next(7)
		for i := 0; i < n; i++ {
			scripts[t] = append(scripts[t], tp.Weighted([]int{5, 4, 1}))
		}
	}
	// each task gets some pre-filled ids to release, so that releases race acquisitions
	preOwned := make([][]int, nTasks)
	for i, id := range pre {
		if i >= 2*nTasks {
			break
		}
		preOwned[i%nTasks] = append(preOwned[i%nTasks], id)
	}
	// a few pre-filled ids are released by TWO tasks (a concurrent double release): exactly
	// one of the two calls may report that the id was in use
	shared := map[int][]bool{}
	var sharedIDs []int
	if len(pre) > 2*nTasks && nTasks >= 2 && tp.Chance(1, 2) {
		for i := 0; i < 1+tp.Next(2) && 2*nTasks+i < len(pre); i++ {
			sharedIDs = append(sharedIDs, pre[2*nTasks+i])
		}
		k.Fault("ids.concurrent-double-release")
		// "double release is harmless" presupposes that the id is not handed out again
		// between the two releases (else the second one releases somebody else's id):
		// runs with shared ids acquire nothing
		for t := range scripts {
			for i, op := range scripts[t] {
				if op == 0 {
					scripts[t][i] = 2
				}
			}
		}
	}
	streams.VerifHook = func(point string) { k.Yield(point, "") }
	defer func() { streams.VerifHook = nil }()
	k.ParkAll = true
	k.TimeWeight = 0
	k.MaxSteps = 4000

	for ti := 0; ti < nTasks; ti++ {
		ti := ti
		name := fmt.Sprintf("g%d", ti)
		k.Spawn(name, func(t *kernel.Task) {
			var mine []int
			if ti < 2 {
				for _, id := range sharedIDs {
					if !t.Step("clear-shared") {
						return
					}
					mu.Lock()
					delete(prefilled, id)
					mu.Unlock()
					inv := k.Step()
					ok := g.Clear(id)
					mu.Lock()
					shared[id] = append(shared[id], ok)
					if iv := inuse[id]; len(iv) > 0 && (iv[len(iv)-1].to == -1 || iv[len(iv)-1].to < k.Step()) {
						iv[len(iv)-1].to = k.Step()
					}
					mu.Unlock()
					_ = inv
					k.Rec("%s clear-shared %d -> %v", name, id, ok)
					k.OpDone()
				}
			}
			for _, op := range scripts[ti] {
				switch {
				case op == 0:
					if !t.Step("get") {
						return
					}
					ev := &idsEvent{task: name, op: "get", inv: k.Step()}
					id, ok := g.GetStream()
					mu.Lock()
					ev.id, ev.ok, ev.ret = id, ok, k.Step()
					events = append(events, ev)
					if ok {
						if id <= 0 || id >= capN {
							k.Violate("C08", "C08/id-out-of-range", "GetStream returned %d (valid 1..%d)", id, capN-1)
						} else if other, dup := held[id]; dup {
							k.Violate("C08", "C08/id-handed-out-twice", "GetStream returned %d to %s while %s still holds it", id, name, other)
						} else if prefilled[id] {
							k.Violate("C08", "C08/id-handed-out-twice", "GetStream returned %d to %s while it is still held from the pre-fill", id, name)
						}
						held[id] = name
						inuse[id] = append(inuse[id], &ival{from: ev.inv, to: -1})
						mine = append(mine, id)
					}
					mu.Unlock()
					k.Rec("%s get -> %d %v", name, id, ok)
					k.OpDone()
				case op == 1 && len(mine) > 0, op == 2 && len(preOwned[ti]) > 0:
					if !t.Step("clear") {
						return
					}
					var id int
					if op == 1 {
						id, mine = mine[0], mine[1:]
					} else {
						id, preOwned[ti] = preOwned[ti][0], preOwned[ti][1:]
					}
					mu.Lock()
					delete(held, id)
					delete(prefilled, id)
					mu.Unlock()
					ev := &idsEvent{task: name, op: "clear", id: id, inv: k.Step()}
					ok := g.Clear(id)
					mu.Lock()
					ev.ok, ev.ret = ok, k.Step()
					events = append(events, ev)
					if iv := inuse[id]; len(iv) > 0 {
						iv[len(iv)-1].to = ev.ret
					}
					mu.Unlock()
					if !ok {
						k.Violate("C08", "C08/clear-of-held-id-false", "%s: Clear(%d) of an id it held returned false", name, id)
					}
					k.Rec("%s clear %d -> %v", name, id, ok)
					k.OpDone()
				}
			}
		})
	}
	k.Loop(nil)
	k.BeginSettle()
	k.SettleUntil(1e9, 1e6, nil, k.TasksDone)
	if k.Violation() != nil {
		return
	}

	// (c) no spurious exhaustion: a failed GetStream during [inv, ret] is a violation if
	// some id was free for that whole interval (it was in no possibly-in-use interval
	// [inv of the acquire that returned it, ret of the Clear that freed it]).
	mu.Lock()
	defer mu.Unlock()
	for _, ev := range events {
		if ev.op != "get" || ev.ok {
			continue
		}
		k.Probe("exhaustion-reported")
		for id := 1; id < capN; id++ {
			busy := false
			for _, iv := range inuse[id] {
				if iv.from <= ev.ret && (iv.to == -1 || iv.to >= ev.inv) {
					busy = true
					break
				}
			}
			if !busy {
				k.Violate("C08", "C08/spurious-exhaustion", "%s: GetStream reported exhaustion during steps [%d,%d] although id %d was free for the whole call", ev.task, ev.inv, ev.ret, id)
				return
			}
		}
	}
	// (d') concurrent double release: of the two releases of a shared id exactly one saw it
	// in use (unless it was handed out again in between, in which case at most two)
	for id, res := range shared {
		trues := 0
		for _, ok := range res {
			if ok {
				trues++
			}
		}
		reacquired := len(inuse[id]) > 1
		if trues == 0 || (trues > 1 && !reacquired) {
			k.Violate("C08", "C08/double-release-miscounted", "id %d was released by two callers at once: results %v (exactly one may report that the id was in use)", id, res)
			return
		}
		k.Probe("concurrent-double-release-checked")
	}
	// (e) available count at quiescence
	want := capN - 1 - len(held) - len(prefilled)
	if got := g.Available(); got != want {
		k.Violate("C08", "C08/available-mismatch", "at quiescence Available()=%d, expected %d (%d ids held)", got, want, len(held)+len(prefilled))
		return
	}
	// (d) release reports whether the id was in use; double release is harmless
	for id := range held {
		if !g.Clear(id) {
			k.Violate("C08", "C08/clear-of-held-id-false", "final: Clear(%d) of a held id returned false", id)
			return
		}
		if g.Clear(id) {
			k.Violate("C08", "C08/double-clear-true", "final: second Clear(%d) returned true", id)
			return
		}
	}
	if got := g.Available(); got != capN-1-len(prefilled) {
		k.Violate("C08", "C08/available-mismatch", "after releasing everything Available()=%d, expected %d", got, capN-1-len(prefilled))
	}
}

// seqCheck: used sequentially the allocator hands out every non-reserved id exactly once
// before it fails, and then fails.
func seqCheck(k *kernel.Kernel, proto, capN int) {
	g := streams.New(proto)
	seen := make([]bool, capN)
	for i := 0; i < capN-1; i++ {
		id, ok := g.GetStream()
		if !ok {
			k.Violate("C08", "C08/spurious-exhaustion-sequential", "sequential use: GetStream failed after %d of %d ids", i, capN-1)
			return
		}
		if id <= 0 || id >= capN || seen[id] {
			k.Violate("C08", "C08/bad-id-sequential", "sequential use: GetStream returned %d (duplicate or out of range 1..%d)", id, capN-1)
			return
		}
		seen[id] = true
	}
	if id, ok := g.GetStream(); ok {
		k.Violate("C08", "C08/bad-id-sequential", "sequential use: GetStream returned %d after all %d ids were handed out", id, capN-1)
		return
	}
	if g.Available() != 0 {
		k.Violate("C08", "C08/available-mismatch", "full generator reports Available()=%d", g.Available())
	}
	k.Probe("sequential-full-sweep")
}
