package cqlspec

import (
	"errors"
	"fmt"
)

// Result metadata flag bits.
const (
	MetaGlobalSpec   = 0x0001
	MetaHasMorePages = 0x0002
	MetaNoMetadata   = 0x0004
)

// EncodeResponse builds a complete, well-formed response frame. Semantically odd but
// encodable content (column counts that disagree with the row width, unknown error
// codes, ...) is written as given; anything that cannot be laid out per the spec for
// r.Version is an error. Use W and RawFrame to build malformed frames.
func EncodeResponse(r *Response) ([]byte, error) {
	if r == nil {
		return nil, errors.New("response: nil")
	}
	v := r.Version
	ctx := fmt.Sprintf("%s v%d response", OpName(r.Op), v)
	if v < 1 || v > 5 {
		return nil, fmt.Errorf("%s: unsupported protocol version", ctx)
	}
	if lo, hi := streamRange(v); r.Stream < lo || r.Stream > hi {
		return nil, fmt.Errorf("%s: stream id %d outside %d..%d", ctx, r.Stream, lo, hi)
	}
	w := &W{}
	flags := r.ExtraFlags
	if r.TracingID != nil {
		if len(r.TracingID) != 16 {
			return nil, fmt.Errorf("%s: tracing id must be a 16-byte [uuid], have %d bytes", ctx, len(r.TracingID))
		}
		w.Raw(r.TracingID)
		flags |= FlagTracing
	}
	if len(r.Warnings) > 0 {
		if v < 4 {
			return nil, fmt.Errorf("%s: warnings are not defined before v4", ctx)
		}
		w.StringList(r.Warnings)
		flags |= FlagWarning
	}
	if r.CustomPayload != nil {
		if v < 4 {
			return nil, fmt.Errorf("%s: custom payload is not defined before v4", ctx)
		}
		w.BytesMap(r.CustomPayload)
		flags |= FlagCustomPayload
	}
	var err error
	switch r.Op {
	case OpReady:
	case OpAuthenticate:
		w.String(r.AuthClass)
	case OpAuthChallenge, OpAuthSuccess:
		w.Bytes(r.AuthToken, r.AuthNull)
	case OpSupported:
		w.StringMultiMap(r.Supported)
	case OpError:
		err = writeError(w, v, r.Error)
	case OpResult:
		err = writeResult(w, v, r)
	case OpEvent:
		err = writeEvent(w, v, r)
	default:
		err = errors.New("not a response opcode this encoder supports")
	}
	if err == nil {
		err = w.Err
	}
	if err != nil {
		return nil, fmt.Errorf("%s: %w", ctx, err)
	}
	body := w.B
	if r.Compress != nil {
		body = r.Compress(body)
		flags |= FlagCompression
	}
	if len(body) > MaxFrameBody {
		return nil, fmt.Errorf("%s: body of %d bytes exceeds the 256 MiB limit", ctx, len(body))
	}
	return RawFrame(v, true, flags, r.Stream, r.Op, body), nil
}

func streamRange(version int) (lo, hi int) {
	if version <= 2 {
		return -128, 127
	}
	return -32768, 32767
}

func writeError(w *W, v int, e *ErrorBody) error {
	if e == nil {
		return errors.New("Error is nil")
	}
	w.Int(e.Code)
	w.String(e.Message)
	failures := func() error {
		if v < 5 {
			w.Int(e.NumFailures)
			return nil
		}
		w.Int(int32(len(e.ReasonMap)))
		for i, fr := range e.ReasonMap {
			if len(fr.IP) != 4 && len(fr.IP) != 16 {
				return fmt.Errorf("reason map entry %d: address of %d bytes (want 4 or 16)", i, len(fr.IP))
			}
			w.InetAddr(fr.IP)
			w.Short(fr.Code)
		}
		return nil
	}
	switch e.Code {
	case ErrUnavailable:
		w.Short(e.Consistency)
		w.Int(e.Required)
		w.Int(e.Alive)
	case ErrWriteTimeout:
		w.Short(e.Consistency)
		w.Int(e.Received)
		w.Int(e.BlockFor)
		w.String(e.WriteType)
	case ErrReadTimeout:
		w.Short(e.Consistency)
		w.Int(e.Received)
		w.Int(e.BlockFor)
		w.Byte(e.DataPresent)
	case ErrReadFailure:
		w.Short(e.Consistency)
		w.Int(e.Received)
		w.Int(e.BlockFor)
		if err := failures(); err != nil {
			return err
		}
		w.Byte(e.DataPresent)
	case ErrWriteFailure:
		w.Short(e.Consistency)
		w.Int(e.Received)
		w.Int(e.BlockFor)
		if err := failures(); err != nil {
			return err
		}
		w.String(e.WriteType)
	case ErrFunctionFailure:
		w.String(e.Keyspace)
		w.String(e.Function)
		w.StringList(e.ArgTypes)
	case ErrCASWriteUnknown:
		w.Short(e.Consistency)
		w.Int(e.Received)
		w.Int(e.BlockFor)
	case ErrAlreadyExists:
		w.String(e.Keyspace)
		w.String(e.Table)
	case ErrUnprepared:
		w.ShortBytes(e.UnpreparedID)
	}
	return nil
}

// writeColumns writes [<global_table_spec>] <col_spec_1> ... <col_spec_n>.
func writeColumns(w *W, global bool, cols []ColSpec) error {
	if global {
		if len(cols) == 0 {
			// no column to take the spec from: a fixed one (the flag may be set on metadata
			// without columns; the keyspace and table are written all the same)
			w.String("ks")
			w.String("t")
		} else {
			w.String(cols[0].Keyspace)
			w.String(cols[0].Table)
		}
	}
	for _, c := range cols {
		if !global {
			w.String(c.Keyspace)
			w.String(c.Table)
		}
		w.String(c.Name)
		w.Option(c.Type)
	}
	return nil
}

// writeRowsMeta writes the <metadata> of a Rows result. A nil PagingState with
// HasMorePages set is written as a null [bytes].
func writeRowsMeta(w *W, m *RowsMeta) error {
	var flags int32
	if m.GlobalSpec {
		flags |= MetaGlobalSpec
	}
	if m.HasMorePages {
		flags |= MetaHasMorePages
	}
	if m.NoMetadata {
		flags |= MetaNoMetadata
	}
	count := m.ColumnCount
	if count == 0 {
		count = len(m.Columns)
	}
	w.Int(flags)
	w.Int(int32(count))
	if m.HasMorePages {
		w.Bytes(m.PagingState, m.PagingState == nil)
	}
	if m.NoMetadata {
		return nil
	}
	return writeColumns(w, m.GlobalSpec, m.Columns)
}

func writePreparedMeta(w *W, v int, m *PreparedMeta) error {
	var flags int32
	if m.GlobalSpec {
		flags |= MetaGlobalSpec
	}
	if m.NoMetadata {
		flags |= MetaNoMetadata
	}
	w.Int(flags)
	w.Int(int32(len(m.Columns)))
	if v >= 4 {
		w.Int(int32(len(m.PKIndices)))
		for _, i := range m.PKIndices {
			w.Short(i)
		}
	} else if len(m.PKIndices) > 0 {
		return errors.New("partition key indices are not defined before v4")
	}
	if m.NoMetadata {
		return nil
	}
	return writeColumns(w, m.GlobalSpec, m.Columns)
}

func writeSchemaChange(w *W, v int, s *SchemaChange) error {
	if s == nil {
		return errors.New("Schema is nil")
	}
	w.String(s.Change)
	if v <= 2 {
		w.String(s.Keyspace)
		if s.Target == "KEYSPACE" {
			w.String("")
		} else {
			w.String(s.Name)
		}
		return nil
	}
	w.String(s.Target)
	w.String(s.Keyspace)
	switch s.Target {
	case "KEYSPACE":
	case "TABLE", "TYPE":
		w.String(s.Name)
	case "FUNCTION", "AGGREGATE":
		if v < 4 {
			return fmt.Errorf("schema change target %s is not defined before v4", s.Target)
		}
		w.String(s.Name)
		w.StringList(s.Args)
	default:
		return fmt.Errorf("unknown schema change target %q", s.Target)
	}
	return nil
}

func writeResult(w *W, v int, r *Response) error {
	w.Int(r.Kind)
	switch r.Kind {
	case KindVoid:
	case KindRows:
		if r.Rows == nil {
			return errors.New("Rows is nil")
		}
		if err := writeRowsMeta(w, r.Rows); err != nil {
			return err
		}
		w.Int(int32(len(r.RowData)))
		for _, row := range r.RowData {
			for _, c := range row {
				w.Bytes(c.Bytes, c.Null)
			}
		}
	case KindSetKeyspace:
		w.String(r.Keyspace)
	case KindPrepared:
		if r.Prepared == nil {
			return errors.New("Prepared is nil")
		}
		w.ShortBytes(r.PreparedID)
		if err := writePreparedMeta(w, v, r.Prepared); err != nil {
			return err
		}
		if v >= 2 {
			rm := r.PreparedRows
			if rm == nil {
				// what a server sends for statements that return no rows
				rm = &RowsMeta{NoMetadata: true}
			}
			return writeRowsMeta(w, rm)
		}
	case KindSchemaChange:
		return writeSchemaChange(w, v, r.Schema)
	default:
		return fmt.Errorf("unknown result kind %d", r.Kind)
	}
	return nil
}

func writeEvent(w *W, v int, r *Response) error {
	w.String(r.EventType)
	switch r.EventType {
	case "TOPOLOGY_CHANGE", "STATUS_CHANGE":
		if len(r.EventIP) != 4 && len(r.EventIP) != 16 {
			return fmt.Errorf("event address of %d bytes (want 4 or 16)", len(r.EventIP))
		}
		w.String(r.EventChange)
		w.Inet(r.EventIP, r.EventPort)
	case "SCHEMA_CHANGE":
		return writeSchemaChange(w, v, r.Schema)
	default:
		return fmt.Errorf("unknown event type %q", r.EventType)
	}
	return nil
}
