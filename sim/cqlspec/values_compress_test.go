package cqlspec

import (
	"bytes"
	"math"
	"math/rand"
	"testing"
)

func TestScalarCodecs(t *testing.T) {
	eq(t, "EncInt", EncInt(-2), hx(t, "fffffffe"))
	eq(t, "EncBigint", EncBigint(1<<40), hx(t, "0000010000000000"))
	eq(t, "EncSmallint", EncSmallint(-2), hx(t, "fffe"))
	eq(t, "EncTinyint", EncTinyint(-1), hx(t, "ff"))
	eq(t, "EncBool", append(EncBool(true), EncBool(false)...), hx(t, "0100"))
	eq(t, "EncDouble", EncDouble(1), hx(t, "3ff0000000000000"))
	eq(t, "EncFloat", EncFloat(-2), hx(t, "c0000000"))
	eq(t, "EncText", EncText("hé"), hx(t, "68c3a9"))
	eq(t, "EncTimestamp", EncTimestamp(1000), hx(t, "00000000000003e8"))
	eq(t, "EncInet", EncInet([]byte{10, 0, 0, 1}), hx(t, "0a000001"))

	for _, v := range []int32{0, 1, -1, math.MaxInt32, math.MinInt32} {
		got, err := DecInt(EncInt(v))
		eq(t, "int round trip", []any{got, err}, []any{v, error(nil)})
	}
	for _, v := range []int64{0, -1, math.MaxInt64, math.MinInt64} {
		got, err := DecBigint(EncBigint(v))
		eq(t, "bigint round trip", []any{got, err}, []any{v, error(nil)})
		got, err = DecTimestamp(EncTimestamp(v))
		eq(t, "timestamp round trip", []any{got, err}, []any{v, error(nil)})
	}
	for _, v := range []int16{0, -1, math.MaxInt16, math.MinInt16} {
		got, err := DecSmallint(EncSmallint(v))
		eq(t, "smallint round trip", []any{got, err}, []any{v, error(nil)})
	}
	for _, v := range []int8{0, -1, math.MaxInt8, math.MinInt8} {
		got, err := DecTinyint(EncTinyint(v))
		eq(t, "tinyint round trip", []any{got, err}, []any{v, error(nil)})
	}
	for _, v := range []bool{true, false} {
		got, err := DecBool(EncBool(v))
		eq(t, "bool round trip", []any{got, err}, []any{v, error(nil)})
	}
	for _, v := range []float64{0, -1.5, math.Inf(1), math.SmallestNonzeroFloat64} {
		got, err := DecDouble(EncDouble(v))
		eq(t, "double round trip", []any{got, err}, []any{v, error(nil)})
		got32, err := DecFloat(EncFloat(float32(v)))
		eq(t, "float round trip", []any{got32, err}, []any{float32(v), error(nil)})
	}
	s, err := DecText(EncText("hé\x00llo"))
	eq(t, "text round trip", []any{s, err}, []any{"hé\x00llo", error(nil)})
	ip, err := DecInet(EncInet(hx(t, id16)))
	eq(t, "inet round trip", []any{ip, err}, []any{hx(t, id16), error(nil)})

	// strictness: wrong sizes, bad bool, bad utf8
	_, e1 := DecInt(hx(t, "000000"))
	_, e2 := DecInt(hx(t, "0000000000"))
	_, e3 := DecInt(nil)
	_, e4 := DecBigint(hx(t, "00000000"))
	_, e5 := DecSmallint(hx(t, "00"))
	_, e6 := DecTinyint(hx(t, "0000"))
	_, e7 := DecBool(hx(t, "02"))
	_, e8 := DecBool(nil)
	_, e9 := DecDouble(hx(t, "00000000"))
	_, e10 := DecFloat(hx(t, "0000000000000000"))
	_, e11 := DecText(hx(t, "ff"))
	_, e12 := DecTimestamp(hx(t, "00"))
	_, e13 := DecInet(hx(t, "0a0000"))
	for i, e := range []error{e1, e2, e3, e4, e5, e6, e7, e8, e9, e10, e11, e12, e13} {
		if e == nil {
			t.Errorf("strictness case %d: no error", i+1)
		}
	}
}

func TestCollectionCodecs(t *testing.T) {
	a, b, null := Cell{Bytes: EncInt(1)}, Cell{Bytes: EncText("xy")}, Cell{Null: true}
	empty := Cell{Bytes: []byte{}}
	eq(t, "list v2", EncList(2, []Cell{a, b}), hx(t, "0002 0004 00000001 0002 'xy'"))
	eq(t, "list v3", EncList(3, []Cell{a, null, empty}), hx(t, "00000003 00000004 00000001 ffffffff 00000000"))
	eq(t, "list v4 empty", EncList(4, nil), hx(t, "00000000"))
	eq(t, "map v1", EncMap(1, []Cell{a, b}), hx(t, "0001 0004 00000001 0002 'xy'"))
	eq(t, "map v5", EncMap(5, []Cell{a, b, b, null}), hx(t, "00000002 00000004 00000001 00000002 'xy' 00000002 'xy' ffffffff"))
	eq(t, "tuple", EncTuple([]Cell{a, null, b}), hx(t, "00000004 00000001 ffffffff 00000002 'xy'"))

	for v := 1; v <= 5; v++ {
		cells := []Cell{a, b, empty, a}
		if v >= 3 {
			cells = []Cell{a, null, empty, b}
		}
		got, err := DecList(v, EncList(v, cells))
		eq(t, "list round trip", []any{got, err}, []any{cells, error(nil)})
		got, err = DecMap(v, EncMap(v, cells))
		eq(t, "map round trip", []any{got, err}, []any{cells, error(nil)})
		got, err = DecList(v, EncList(v, nil))
		eq(t, "empty list round trip", []any{len(got), err}, []any{0, error(nil)})
	}
	cells := []Cell{a, null, b}
	got, err := DecTuple(EncTuple(cells), 3)
	eq(t, "tuple round trip", []any{got, err}, []any{cells, error(nil)})
	got, err = DecTuple(EncTuple(cells), -1)
	eq(t, "tuple any arity", []any{got, err}, []any{cells, error(nil)})
	got, err = DecTuple(nil, 0)
	eq(t, "empty tuple", []any{len(got), err}, []any{0, error(nil)})

	bad := []struct {
		name string
		f    func() error
	}{
		{"list v3 trailing", func() error { _, err := DecList(3, hx(t, "00000001 00000001 aa 00")); return err }},
		{"list v3 truncated element", func() error { _, err := DecList(3, hx(t, "00000001 00000002 aa")); return err }},
		{"list v3 missing element", func() error { _, err := DecList(3, hx(t, "00000002 00000001 aa")); return err }},
		{"list v3 negative count", func() error { _, err := DecList(3, hx(t, "ffffffff")); return err }},
		{"list v3 huge count", func() error { _, err := DecList(3, hx(t, "7fffffff 00000000")); return err }},
		{"list v3 length -2", func() error { _, err := DecList(3, hx(t, "00000001 fffffffe")); return err }},
		{"list v3 short count", func() error { _, err := DecList(3, hx(t, "0001")); return err }},
		{"list v3 given v2 bytes", func() error { _, err := DecList(3, hx(t, "0001 0001 aa")); return err }},
		{"list v2 given v3 bytes", func() error { _, err := DecList(2, hx(t, "00000001 00000001 aa")); return err }},
		{"list v2 trailing", func() error { _, err := DecList(2, hx(t, "0001 0001 aa 00")); return err }},
		{"list empty input", func() error { _, err := DecList(4, nil); return err }},
		{"map odd cells", func() error { _, err := DecMap(3, hx(t, "00000001 00000001 aa")); return err }},
		{"map v2 truncated", func() error { _, err := DecMap(2, hx(t, "0001 0001 aa 0002 bb")); return err }},
		{"tuple too few fields", func() error { _, err := DecTuple(hx(t, "00000001 aa"), 2); return err }},
		{"tuple too many fields", func() error { _, err := DecTuple(hx(t, "00000001 aa ffffffff"), 1); return err }},
		{"tuple truncated", func() error { _, err := DecTuple(hx(t, "00000002 aa"), -1); return err }},
		{"tuple length -2", func() error { _, err := DecTuple(hx(t, "fffffffe"), 1); return err }},
	}
	for _, c := range bad {
		if c.f() == nil {
			t.Errorf("%s: no error", c.name)
		}
	}
	for name, f := range map[string]func(){
		"odd map":        func() { EncMap(4, []Cell{a}) },
		"null in v2":     func() { EncList(2, []Cell{null}) },
		"bad inet":       func() { EncInet([]byte{1}) },
		"oversize in v2": func() { EncList(2, []Cell{{Bytes: make([]byte, 65536)}}) },
	} {
		func() {
			defer func() {
				if recover() == nil {
					t.Errorf("%s: unrepresentable input did not panic", name)
				}
			}()
			f()
		}()
	}
}

func TestSnappy(t *testing.T) {
	// literal encoder vectors
	eq(t, "empty", SnappyEncodeLiteral(nil), hx(t, "00"))
	eq(t, "short literal", SnappyEncodeLiteral([]byte("abc")), hx(t, "03 08 'abc'"))
	big := bytes.Repeat([]byte{7}, 61)
	eq(t, "61-byte literal", SnappyEncodeLiteral(big), append(hx(t, "3d f0 3c"), big...))
	rnd := rand.New(rand.NewSource(1))
	for _, n := range []int{0, 1, 59, 60, 61, 255, 256, 257, 65535, 65536, 65537, 200000} {
		b := make([]byte, n)
		rnd.Read(b)
		enc := SnappyEncodeLiteral(b)
		got, err := SnappyDecode(enc)
		if err != nil || !bytes.Equal(got, b) {
			t.Errorf("literal round trip of %d bytes: err=%v equal=%v", n, err, bytes.Equal(got, b))
		}
	}
	// hand-built blocks
	good := []struct{ name, block, want string }{
		{"copy-1 overlapping (offset 4, len 8)", "0c 0c 'abcd' 11 04", "abcdabcdabcd"},
		{"copy-1 run (offset 1, len 11)", "0c 00 'a' 1d 01", "aaaaaaaaaaaa"},
		{"copy-2", "08 0c 'abcd' 0e 0400", "abcdabcd"},
		{"copy-4", "08 0c 'abcd' 0f 04000000", "abcdabcd"},
		{"copy-2 then literal", "09 10 'abcde' 0a 0300 00 'Z'", "abcdecdeZ"},
		{"literal with 1-byte length", "03 f0 02 'abc'", "abc"},
		{"literal with 2-byte length", "03 f4 0200 'abc'", "abc"},
		{"literal with 3-byte length", "03 f8 020000 'abc'", "abc"},
		{"literal with 4-byte length", "03 fc 02000000 'abc'", "abc"},
	}
	// multi-byte preamble; 299 x 'a' + 'b', then copy-1 with offset 256+44=300 (tag bits 7..5 = 1), length 4
	lit300 := bytes.Repeat([]byte("a"), 299)
	lit300 = append(lit300, 'b')
	blk := append(hx(t, "b0 02 f4 2b01"), lit300...) // preamble 304 = b0 02, literal len 300 -> 299 = 0x012b
	blk = append(blk, hx(t, "21 2c")...)             // copy-1: len 4, offset 0x12c = 300
	if got, err := SnappyDecode(blk); err != nil || !bytes.Equal(got, append(append([]byte{}, lit300...), "aaaa"...)) {
		t.Errorf("copy-1 with high offset bits: err=%v", err)
	}
	for _, c := range good {
		got, err := SnappyDecode(hx(t, c.block))
		if err != nil || string(got) != c.want {
			t.Errorf("%s: got %q, %v; want %q", c.name, got, err, c.want)
		}
	}
	bad := map[string]string{
		"empty input":                   "",
		"unterminated preamble":         "80",
		"preamble over 32 bits":         "ffffffff1f",
		"length too small":              "02 08 'abc'",
		"length too large":              "04 08 'abc'",
		"missing data":                  "01",
		"literal truncated":             "03 08 'ab'",
		"literal length truncated":      "03 f4 02",
		"copy offset 0":                 "08 0c 'abcd' 0e 0000",
		"copy offset beyond output":     "08 0c 'abcd' 0e 0500",
		"copy before any output":        "04 01 01",
		"copy-1 offset truncated":       "08 0c 'abcd' 11",
		"copy-2 offset truncated":       "08 0c 'abcd' 0e 04",
		"copy-4 offset truncated":       "08 0c 'abcd' 0f 040000",
		"copy overruns announced":       "06 0c 'abcd' 0e 0400",
		"trailing element after length": "04 0c 'abcd' 00 'x'",
	}
	for name, b := range bad {
		if got, err := SnappyDecode(hx(t, b)); err == nil {
			t.Errorf("%s: no error, got %q", name, got)
		}
	}
}

func TestLZ4(t *testing.T) {
	eq(t, "empty", LZ4BlockEncodeLiteral(nil), hx(t, "00"))
	eq(t, "short", LZ4BlockEncodeLiteral([]byte("abc")), hx(t, "30 'abc'"))
	eq(t, "15 literals", LZ4BlockEncodeLiteral(bytes.Repeat([]byte("x"), 15)), hx(t, "f0 00 'xxxxxxxxxxxxxxx'"))
	eq(t, "270 literals", LZ4BlockEncodeLiteral(make([]byte, 270))[:3], hx(t, "f0 ff 00"))
	eq(t, "cassandra empty", CassandraLZ4EncodeLiteral(nil), hx(t, "00000000 00"))
	eq(t, "cassandra short", CassandraLZ4EncodeLiteral([]byte("abc")), hx(t, "00000003 30 'abc'"))
	rnd := rand.New(rand.NewSource(2))
	for _, n := range []int{0, 1, 14, 15, 16, 269, 270, 271, 524, 525, 526, 100000} {
		b := make([]byte, n)
		rnd.Read(b)
		got, err := LZ4BlockDecode(LZ4BlockEncodeLiteral(b), n)
		if err != nil || !bytes.Equal(got, b) {
			t.Errorf("literal round trip of %d bytes: err=%v", n, err)
		}
		got, err = CassandraLZ4Decode(CassandraLZ4EncodeLiteral(b))
		if err != nil || !bytes.Equal(got, b) {
			t.Errorf("cassandra round trip of %d bytes: err=%v", n, err)
		}
	}
	got, err := CassandraLZ4Decode(hx(t, "00000000"))
	eq(t, "cassandra length 0 without block", []any{len(got), err}, []any{0, error(nil)})

	good := []struct {
		name, block string
		n           int
		want        string
	}{
		{"overlapping match (offset 4, len 8)", "44 'abcd' 0400 50 'vwxyz'", 17, "abcdabcdabcdvwxyz"},
		{"run (offset 1, extended match len 19)", "1f 'a' 0100 00 50 'bcdef'", 25, "aaaaaaaaaaaaaaaaaaaabcdef"},
		{"non-overlapping match", "80 'abcdefgh' 0800 80 'stuvwxyz'", 20, "abcdefghabcdstuvwxyz"},
		{"two matches, second without literals", "40 'abcd' 0400 00 0200 80 'stuvwxyz'", 20, "abcdabcdcdcdstuvwxyz"},
		{"extended literal length", "f0 01 'abcdefghijklmnop' 1000 80 'stuvwxyz'", 28, "abcdefghijklmnopabcdstuvwxyz"},
		{"match length extension 255+1", "1f 'a' 0100 ff 01 50 'bcdef'", 281, ""},
	}
	for _, c := range good {
		got, err := LZ4BlockDecode(hx(t, c.block), c.n)
		if c.want == "" {
			c.want = string(bytes.Repeat([]byte("a"), 276)) + "bcdef"
		}
		if err != nil || string(got) != c.want {
			t.Errorf("%s: got %q, %v; want %q", c.name, got, err, c.want)
		}
	}
	got, err = CassandraLZ4Decode(hx(t, "00000011 44 'abcd' 0400 50 'vwxyz'"))
	eq(t, "cassandra with match", []any{string(got), err}, []any{"abcdabcdabcdvwxyz", error(nil)})

	bad := []struct {
		name, block string
		n           int
	}{
		{"empty block", "", 0},
		{"negative length", "00", -1},
		{"produces less than wanted", "30 'abc'", 4},
		{"produces more than wanted", "30 'abc'", 2},
		{"literals truncated", "40 'abc'", 4},
		{"literal length truncated", "f0", 15},
		{"literal length extension truncated", "f0 ff", 300},
		{"offset truncated", "44 'abcd' 04", 17},
		{"offset zero", "44 'abcd' 0000 50 'vwxyz'", 17},
		{"offset beyond output", "44 'abcd' 0500 50 'vwxyz'", 17},
		{"match before any output", "04 0100 50 'vwxyz'", 13},
		{"match length truncated", "4f 'abcd' 0400", 40},
		{"match overruns length", "44 'abcd' 0400 50 'vwxyz'", 10},
		{"ends with a match", "44 'abcd' 0400", 12},
		{"fewer than 5 final literals", "45 'abcd' 0400 40 'wxyz'", 17},
		{"match starts in the last 12 bytes", "80 'abcdefgh' 0800 50 'vwxyz'", 17},
		{"ends after a long match", "4f 'abcd' 0400 00", 23},
		{"trailing garbage", "30 'abc' 00", 3},
	}
	for _, c := range bad {
		if got, err := LZ4BlockDecode(hx(t, c.block), c.n); err == nil {
			t.Errorf("%s: no error, got %q", c.name, got)
		}
	}
	for name, b := range map[string]string{
		"short body":           "000000",
		"negative length":      "ffffffff 00",
		"length over limit":    "10000001 00",
		"length 0 with data":   "00000000 10 'a'",
		"length without block": "00000003",
		"length mismatch":      "00000004 30 'abc'",
	} {
		if got, err := CassandraLZ4Decode(hx(t, b)); err == nil {
			t.Errorf("cassandra %s: no error, got %q", name, got)
		}
	}
}
