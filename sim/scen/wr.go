package scen

import (
	"context"
	"fmt"
	"strings"
	"sync"
	"time"

	"github.com/gocql/gocql"
	"github.com/gocql/gocql/verifsim/cqlspec"
	"github.com/gocql/gocql/verifsim/kernel"
	"github.com/gocql/gocql/verifsim/node"
	"github.com/gocql/gocql/verifsim/simnet"
)

// Scenario wr (C07): concurrent writers of mixed frame sizes through one connection,
// with and without write coalescing, over a transport whose Write can be cut short,
// fail, stall to the deadline, or be non-atomic (chunked with a yield between chunks).
// Oracle on the recorded client→server byte stream, parsed by the independent decoder.

func init() {
	register(&Scenario{
		Name:       "wr",
		Properties: []string{"C07"},
		Run:        runWr,
		Real:       []string{"gocql Conn.exec, deadlineContextWriter, writeCoalescer/flusher, framer (real code)"},
		Stub:       []string{"transport with injectable short/failed/stalled/chunked writes (simnet)", "Cassandra node (answers immediately)"},
		Rule:       "one run = 2-6 concurrent callers x 2-6 requests of sizes 30 B..200 KiB through one connection with a tape-chosen coalescing window, write faults at tape-chosen byte offsets, chunked non-atomic writes, cancels and parks at writer yield points; distinct = distinct canonical-log fingerprint; non-trivial = at least one write fault, cancel or park fired and at least one operation completed",
	})
}

type wrOp struct {
	token     string
	size      int
	preCancel bool
	cancel    context.CancelFunc
	canceled  bool
	inflight  bool
	done      bool
	outcome   string
	connOpen  bool
}

func runWr(e *Env) {
	k := e.K
	tp := k.Tape
	cl := node.NewCluster(k, 1)
	InstallHooks(k)
	faultsOn := !e.NoFaults

	proto := []int{4, 3, 2, 5}[tp.Next(4)]
	coalesce := []time.Duration{0, 200 * time.Microsecond, 5 * time.Millisecond}[tp.Next(3)]
	// (0: no request timeout and no write deadline - the documented meaning of Timeout 0)
	timeout := []time.Duration{300 * time.Millisecond, 100 * time.Millisecond, 0}[tp.Weighted([]int{3, 3, 1})]
	nTasks := 2 + tp.Next(5)
	nOps := 2 + tp.Next(5)
	chunk := 0
	if faultsOn {
		chunk = []int{0, 0, 7, 64, 4096}[tp.Next(5)]
	}
	e.Note("proto", proto)
	e.Note("coalesce", coalesce.String())
	e.Note("timeout", timeout.String())
	e.Note("tasks", nTasks)
	e.Note("ops", nOps)
	e.Note("chunk", chunk)

	cfg := BaseConfig(cl, "10.0.0.1")
	gocql.VerifDisableControlConn(cfg, true)
	cfg.ProtoVersion = proto
	cfg.NumConns = 1
	cfg.Timeout = timeout
	cfg.WriteCoalesceWaitTime = coalesce
	cfg.ReconnectInterval = 500 * time.Millisecond

	valMeta := &cqlspec.RowsMeta{GlobalSpec: true, Columns: []cqlspec.ColSpec{{Keyspace: "ks", Table: "t", Name: "v", Type: cqlspec.ColType{ID: cqlspec.TVarchar}}}}
	cl.App = func(sc *node.SConn, rec *node.ReqRec) {
		tok := tokenRe.FindString(rec.Req.Query)
		row := [][]cqlspec.Cell{{{Bytes: cqlspec.EncText(tok)}}}
		cl.Send(sc, rec, &cqlspec.Response{Op: cqlspec.OpResult, Kind: cqlspec.KindRows, Rows: valMeta, RowData: row}, node.Auto, "ROWS "+tok)
	}
	if chunk > 0 {
		prev := cl.Net.OnConnect
		cl.Net.OnConnect = func(c *simnet.Conn) {
			c.Chunk = chunk
			prev(c)
		}
	}

	sess, err := Boot(k, cl, 10*time.Second, func() (*gocql.Session, error) { return gocql.NewSession(*cfg) })
	if err != nil {
		k.Violate("HARNESS", "wr/boot", "session creation failed in a fault-free boot: %v", err)
		cl.CloseAll()
		return
	}
	if faultsOn {
		k.DrawPlan([]string{"net.chunk", "dw.acquired", "wc.enqueued", "wc.beforeFlush", "wc.afterWrite", "exec.beforeWrite",
			"exec.writeErr", "exec.afterWrite", "net.chunk", "close.unlocked", "close.beforeCancel"}, 5, 10)
	}

	var mu sync.Mutex
	ops := map[string]*wrOp{}
	sizes := []int{0, 10, 100, 1000, 5000, 70000, 200000}
	for ti := 0; ti < nTasks; ti++ {
		ti := ti
		// sizes and pre-cancel decisions are drawn up front on the root goroutine
		type plan struct {
			size int
			pre  bool
			// deadline > 0: the request's context has a deadline this far away (shorter than
			// the connection's write timeout: a stalled write is then cut by the context)
			deadline time.Duration
			// a point at which this very request is held on its way through the driver
			arm string
			// > 0: the connection's next write is cut short after this many bytes
			tearAt int
		}
		var plans []plan
		for oi := 0; oi < nOps; oi++ {
			pl := plan{size: sizes[tp.Weighted([]int{4, 3, 3, 2, 2, 1, 1})], pre: faultsOn && tp.Chance(1, 12)}
			if faultsOn && tp.Chance(1, 5) {
				pl.deadline = []time.Duration{50 * time.Millisecond, 5 * time.Millisecond, 150 * time.Millisecond}[tp.Next(3)]
			}
			if faultsOn && timeout > 0 && tp.Chance(1, 8) {
				// the write of this very request stalls until its deadline with part of the frame sent, and the caller is slow to act on
				// the error (held right after it): what others write meanwhile is what counts
				pl.tearAt = 1 + []int{0, 8, 9, 40, 4096, 20000, 60000}[tp.Next(7)]
				pl.arm = "exec.writeErr"
				if tp.Chance(1, 2) {
					pl.size = sizes[5+tp.Next(2)] // a large frame
				}
			} else if faultsOn && tp.Chance(1, 5) {
				pl.arm = []string{"exec.writeErr", "exec.writeErr", "exec.beforeWrite", "wc.enqueued", "dw.acquired", "exec.afterWrite"}[tp.Next(6)]
			}
			plans = append(plans, pl)
		}
		k.Spawn(fmt.Sprintf("w%d", ti), func(t *kernel.Task) {
			for oi, pl := range plans {
				token := fmt.Sprintf("tok-%d-%d", ti, oi)
				op := &wrOp{token: token, size: pl.size, preCancel: pl.pre}
				if !t.Step("q " + token) {
					return
				}
				ctx, cancel := context.WithCancel(context.Background())
				if pl.deadline > 0 {
					ctx, cancel = context.WithTimeout(context.Background(), pl.deadline)
					k.Fault("client.context-deadline")
				}
				op.cancel = cancel
				if pl.pre {
					cancel()
					k.Fault("client.cancel-before-call")
				}
				mu.Lock()
				ops[token] = op
				op.inflight = true
				mu.Unlock()
				stmt := "ECHO '" + token + "' /*" + strings.Repeat("x", pl.size) + "*/"
				var got string
				if pl.tearAt > 0 {
					k.Fault("write.stall-with-slow-caller")
					for _, sc := range cl.SConns() {
						if !sc.Dead && !sc.C.ClientClosed() {
							sc.C.ArmWriteFault(simnet.WriteFault{Kind: simnet.WriteStall, K: pl.tearAt})
						}
					}
				}
				if pl.arm != "" {
					k.ArmNext(pl.arm)
				}
				err := sess.Query(stmt).WithContext(ctx).Scan(&got)
				cancel()
				mu.Lock()
				op.inflight, op.done = false, true
				op.outcome = ErrClass(err)
				mu.Unlock()
				k.OpDone()
				k.Rec("ret %s %s", token, op.outcome)
				if err == nil && got != token {
					k.Violate("C01", "C01/misrouted-response", "caller of %s received %q", token, got)
				}
			}
		})
	}
	if faultsOn {
		k.Sources = append(k.Sources, func() []kernel.Action {
			var acts []kernel.Action
			mu.Lock()
			for _, op := range ops {
				if op.inflight && !op.canceled && !op.preCancel {
					op := op
					acts = append(acts, kernel.Action{Key: "cancel:" + op.token, Rank: 5, Weight: 1, Do: func() {
						mu.Lock()
						op.canceled = true
						mu.Unlock()
						k.Fault("client.cancel")
						op.cancel()
					}})
				}
			}
			mu.Unlock()
			for _, sc := range cl.SConns() {
				if sc.Dead || sc.C.ClientClosed() {
					continue
				}
				sc := sc
				acts = append(acts, kernel.Action{Key: "wfault:" + sc.C.Name, Rank: 6, Weight: 3, Do: func() {
					kind := []simnet.WriteFaultKind{simnet.WriteStall, simnet.WriteShort, simnet.WriteErr0, simnet.WriteDeadlineErr}[tp.Next(4)]
					if timeout == 0 && (kind == simnet.WriteStall || kind == simnet.WriteDeadlineErr) {
						// (without a write deadline a stalled write lasts as long as the stall)
						kind = simnet.WriteShort
					}
					off := []int{0, 1, 8, 9, 10, 40, 100, 4096, 50000}[tp.Next(9)]
					k.Fault([]string{"", "write.short", "write.err0", "write.stall", "write.set-deadline-error"}[kind])
					sc.C.ArmWriteFault(simnet.WriteFault{Kind: kind, K: off})
				}})
				acts = append(acts, kernel.Action{Key: "srvclose:" + sc.C.Name, Rank: 6, Weight: 1, Do: func() {
					k.Fault("conn.server-close")
					cl.CloseConn(sc, false)
				}})
			}
			return acts
		})
	}
	k.PreStep = append(k.PreStep, cl.Process)
	k.Loop(nil)

	k.BeginSettle()
	bound := 2*timeout + 8*time.Second
	if !k.SettleUntil(bound, 20*time.Millisecond, cl.Process, k.TasksDone) && k.Violation() == nil {
		k.Violate("C06", "C06/request-never-completed", "after faults stopped, calls still blocked after %v simulated: %v", bound, k.RunningOps())
	}
	// connections with a torn tail must get closed by the driver
	k.SettleUntil(bound, 20*time.Millisecond, cl.Process, func() bool {
		for _, c := range cl.Net.Conns() {
			if _, torn := wrParse(c); torn && !c.ClientClosed() {
				return false
			}
		}
		return true
	})
	if k.Violation() == nil {
		wrOracle(k, cl, ops)
	}

	closed := make(chan struct{})
	go func() { sess.Close(); close(closed) }()
	k.SettleUntil(20*time.Second, 50*time.Millisecond, cl.Process, func() bool {
		select {
		case <-closed:
			return true
		default:
			return false
		}
	})
	cl.CloseAll()
	k.SettleUntil(20*time.Second, 100*time.Millisecond, nil, func() bool { return len(kernel.BubbleGoroutines()) == 0 })
}

type wrFrame struct {
	off, n int
	token  string
	op     byte
}

// wrParse cuts the recorded client→server bytes of a connection into frames. torn
// reports an incomplete (or unparseable) tail.
func wrParse(c *simnet.Conn) (frames []wrFrame, torn bool) {
	stream, _ := c.ClientStream()
	pos := 0
	for pos < len(stream) {
		n, ok, err := cqlspec.FrameLen(stream[pos:])
		if err != nil || !ok || pos+n > len(stream) {
			return frames, true
		}
		f := wrFrame{off: pos, n: n}
		if h, herr := cqlspec.ParseHeader(stream[pos:]); herr == nil {
			f.op = h.Opcode
		}
		if rq, derr := cqlspec.DecodeRequest(stream[pos:pos+n], nil); derr == nil && rq.Header.Opcode == cqlspec.OpQuery {
			f.token = tokenRe.FindString(rq.Query)
		} else if derr != nil {
			f.token = "!" + derr.Error()
		}
		frames = append(frames, f)
		pos += n
	}
	return frames, false
}

func wrOracle(k *kernel.Kernel, cl *node.Cluster, ops map[string]*wrOp) {
	count := map[string]int{}
	for _, c := range cl.Net.Conns() {
		stream, recs := c.ClientStream()
		frames, torn := wrParse(c)
		// (1) whole frames; an incomplete tail only on a connection that is then closed
		for _, f := range frames {
			if strings.HasPrefix(f.token, "!") {
				k.Violate("C07", "C07/garbled-frame", "connection %s: bytes at offset %d (%d bytes) have a frame header but do not decode as a request: %s", c.Name, f.off, f.n, f.token[1:])
				return
			}
			if f.token != "" {
				count[f.token]++
			}
		}
		if torn {
			k.Probe("torn-tail")
			if !c.ClientClosed() {
				k.Violate("C07", "C07/incomplete-frame-on-open-connection", "connection %s: the byte stream (%d bytes) ends in an incomplete or unparseable frame but the driver left the connection open", c.Name, len(stream))
				return
			}
		}
		// (2) nothing is written after a partial write
		partialAt := -1
		for i, r := range recs {
			if partialAt >= 0 && r.N > 0 {
				k.Violate("C07", "C07/bytes-written-after-partial-write", "connection %s: write call #%d (%d of %d bytes accepted, %s) was followed by write call #%d which put %d more bytes on the wire",
					c.Name, partialAt, recs[partialAt].N, recs[partialAt].Len, recs[partialAt].Err, i, r.N)
				return
			}
			if r.N < r.Len && partialAt < 0 && r.N > 0 {
				partialAt = i
			}
		}
	}
	// (3) each request frame at most once; success implies the whole frame is there;
	// a call that was cancelled before it began leaves nothing
	for tok, n := range count {
		if n > 1 {
			k.Violate("C07", "C07/frame-written-twice", "request %s appears %d times on the wire", tok, n)
			return
		}
	}
	for tok, op := range ops {
		if !op.done {
			continue
		}
		switch {
		case op.outcome == "ok" || op.outcome == "timeout":
			if count[tok] != 1 {
				k.Violate("C07", "C07/success-without-whole-frame", "request %s ended with %q (the driver believed the write succeeded) but its whole frame appears %d times in the byte stream", tok, op.outcome, count[tok])
				return
			}
		case op.preCancel:
			if count[tok] != 0 {
				k.Violate("C07", "C07/bytes-for-cancelled-request", "request %s had its context cancelled before the call, yet its frame is on the wire", tok)
				return
			}
		}
	}
}
