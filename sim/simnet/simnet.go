// Package simnet is the simulated network: an in-memory net.Conn whose server side is
// driven by simulator actions, and a dialer the driver uses through ClusterConfig.Dialer.
// Nothing here uses real sockets or real time; blocking is on channels and timers so it
// is durable inside a testing/synctest bubble.
package simnet

import (
	"context"
	"errors"
	"fmt"
	"io"
	"net"
	"os"
	"sync"
	"syscall"
	"time"
)

// timeoutError is a net.Error with Timeout() == true, like an expired deadline.
type timeoutError struct{ op string }

func (e *timeoutError) Error() string   { return "simnet: " + e.op + " i/o timeout" }
func (e *timeoutError) Timeout() bool   { return true }
func (e *timeoutError) Temporary() bool { return true }
func (e *timeoutError) Is(target error) bool {
	return target == os.ErrDeadlineExceeded
}

// ErrInjected is the cause of injected write failures.
var ErrInjected = errors.New("simnet: injected i/o error")

// WriteFaultKind selects what the next Write on a connection does.
type WriteFaultKind int

const (
	WriteOK          WriteFaultKind = iota
	WriteShort                      // accept K bytes, then fail
	WriteErr0                       // fail with n = 0
	WriteStall                      // accept K bytes, then block until the write deadline
	WriteDeadlineErr                // the next SetWriteDeadline that arms a deadline fails; writes are untouched
)

// WriteFault is armed on a connection by a simulator action and consumed by the next Write.
type WriteFault struct {
	Kind WriteFaultKind
	K    int
}

// WriteRec records one Write call for the byte-stream oracle.
type WriteRec struct {
	Off int // offset in the client→server stream where this call's bytes start
	Len int // len(p)
	N   int // bytes accepted
	Err string
}

// DialMode says what a dial to an address does.
type DialMode int

const (
	DialAccept    DialMode = iota
	DialRefuse             // non-temporary *net.OpError
	DialRefuseTmp          // temporary *net.OpError
	DialHang               // block until the context ends or the dial timeout passes
)

// Net is the simulated network.
type Net struct {
	// Rec receives log records; Yield is an optional cooperative yield for chunked writes.
	Rec   func(format string, args ...interface{})
	Yield func(point, ident string)
	// DialTimeout emulates net.Dialer.Timeout (the driver's ConnectTimeout).
	DialTimeout time.Duration
	// OnConnect is called (with the lock released) for every accepted connection.
	OnConnect func(c *Conn)
	// Wake tells the simulator that the client produced output (bytes, a dial, a close).
	Wake func()
	// CloseErrAll makes the first Close of every connection report an error.
	CloseErrAll bool
	// SameRemoteAddr (off = every connection reports the address that was dialled) makes
	// every accepted connection report ONE fixed remote address, as behind an SNI proxy or a
	// port-forwarding / tunnelling dialer: RemoteAddr() no longer tells the nodes apart. The
	// dialled address still decides the node (Conn.Host, Conn.Name and routing are unchanged);
	// the fixed address keeps the dialled port (the driver's control connection reads it).
	SameRemoteAddr bool

	mu       sync.Mutex
	sameAddr *net.TCPAddr
	ordinals map[string]int
	modes    map[string]DialMode
	once     map[string][]DialMode // one-shot modes for the next dials to a host
	conns    []*Conn
	dials    int
}

// New returns an empty network.
func New() *Net {
	return &Net{ordinals: map[string]int{}, modes: map[string]DialMode{}, once: map[string][]DialMode{}, Rec: func(string, ...interface{}) {}, Wake: func() {}}
}

// SetDialMode sets what dials to host (an IP literal) do from now on.
func (n *Net) SetDialMode(host string, m DialMode) {
	n.mu.Lock()
	n.modes[host] = m
	n.mu.Unlock()
}

// Conns returns all connections ever accepted, in creation order per host.
func (n *Net) Conns() []*Conn {
	n.mu.Lock()
	defer n.mu.Unlock()
	return append([]*Conn(nil), n.conns...)
}

// Dials returns the number of dial attempts so far.
func (n *Net) Dials() int {
	n.mu.Lock()
	defer n.mu.Unlock()
	return n.dials
}

// DialContext implements gocql.Dialer.
func (n *Net) DialContext(ctx context.Context, network, addr string) (net.Conn, error) {
	host, portStr, err := net.SplitHostPort(addr)
	if err != nil {
		return nil, &net.OpError{Op: "dial", Net: network, Err: err}
	}
	ip := net.ParseIP(host)
	if ip == nil {
		return nil, &net.OpError{Op: "dial", Net: network, Err: fmt.Errorf("simnet: not an IP literal: %q", host)}
	}
	port := 0
	fmt.Sscanf(portStr, "%d", &port)
	raddr := &net.TCPAddr{IP: ip, Port: port}

	n.mu.Lock()
	n.dials++
	mode := n.modes[host]
	if q := n.once[host]; len(q) > 0 {
		mode, n.once[host] = q[0], q[1:]
	}
	ord := n.ordinals[host]
	n.ordinals[host] = ord + 1
	connAddr := raddr
	if n.SameRemoteAddr {
		if n.sameAddr == nil {
			n.sameAddr = &net.TCPAddr{IP: net.IPv4(10, 255, 255, 254), Port: port}
		}
		connAddr = n.sameAddr
	}
	n.mu.Unlock()
	name := fmt.Sprintf("%s#%d", host, ord)

	if err := ctx.Err(); err != nil {
		return nil, &net.OpError{Op: "dial", Net: network, Addr: raddr, Err: err}
	}
	switch mode {
	case DialRefuse:
		n.Rec("dial %s refused", name)
		return nil, &net.OpError{Op: "dial", Net: network, Addr: raddr, Err: os.NewSyscallError("connect", syscall.ECONNREFUSED)}
	case DialRefuseTmp:
		n.Rec("dial %s refused-temporary", name)
		return nil, &net.OpError{Op: "dial", Net: network, Addr: raddr, Err: &timeoutError{op: "dial"}}
	case DialHang:
		n.Rec("dial %s hangs", name)
		var tch <-chan time.Time
		if n.DialTimeout > 0 {
			t := time.NewTimer(n.DialTimeout)
			defer t.Stop()
			tch = t.C
		}
		select {
		case <-ctx.Done():
			return nil, &net.OpError{Op: "dial", Net: network, Addr: raddr, Err: ctx.Err()}
		case <-tch:
			return nil, &net.OpError{Op: "dial", Net: network, Addr: raddr, Err: &timeoutError{op: "dial"}}
		}
	}
	c := &Conn{
		Name:   name,
		Host:   host,
		net:    n,
		raddr:  connAddr,
		laddr:  &net.TCPAddr{IP: net.IPv4(10, 9, 9, 9), Port: 40000 + ord},
		rdWake: make(chan struct{}, 1),
		wrWake: make(chan struct{}, 1),
	}
	n.mu.Lock()
	n.conns = append(n.conns, c)
	n.mu.Unlock()
	n.Rec("dial %s ok", name)
	n.Wake()
	if n.OnConnect != nil {
		n.OnConnect(c)
	}
	return c, nil
}

// Conn is the client end of a simulated TCP connection; the server end is driven through
// the Server* methods by simulator actions.
type Conn struct {
	Name string // "<ip>#<per-host dial ordinal>"
	Host string
	net  *Net
	// CloseErr makes the (first) Close of this connection report an error.
	CloseErr bool

	raddr, laddr *net.TCPAddr

	mu sync.Mutex
	// client → server
	c2s      []byte
	consumed int
	writes   []WriteRec
	wfault   *WriteFault
	broken   bool // a write failed part-way: nothing more is accepted
	Chunk    int  // >0: writes are appended in pieces of at most Chunk bytes with a yield between
	// server → client
	s2c    []byte
	s2cOff int

	clientClosed bool
	serverClosed bool
	serverErr    error
	closeCount   int
	stalling     int

	rdDeadline, wrDeadline time.Time
	rdWake, wrWake         chan struct{}
	sentBytes              int64
}

func wake(ch chan struct{}) {
	select {
	case ch <- struct{}{}:
	default:
	}
}

// Read implements net.Conn.
func (c *Conn) Read(p []byte) (int, error) {
	for {
		c.mu.Lock()
		if c.clientClosed {
			c.mu.Unlock()
			return 0, &net.OpError{Op: "read", Net: "tcp", Addr: c.raddr, Err: net.ErrClosed}
		}
		if avail := len(c.s2c) - c.s2cOff; avail > 0 {
			n := copy(p, c.s2c[c.s2cOff:])
			c.s2cOff += n
			if c.s2cOff == len(c.s2c) {
				c.s2c, c.s2cOff = c.s2c[:0], 0
			}
			c.mu.Unlock()
			return n, nil
		}
		if c.serverClosed {
			err := c.serverErr
			c.mu.Unlock()
			return 0, err
		}
		dl := c.rdDeadline
		c.mu.Unlock()
		if len(p) == 0 {
			return 0, nil
		}
		var tch <-chan time.Time
		var t *time.Timer
		if !dl.IsZero() {
			d := time.Until(dl)
			if d <= 0 {
				return 0, &net.OpError{Op: "read", Net: "tcp", Addr: c.raddr, Err: &timeoutError{op: "read"}}
			}
			t = time.NewTimer(d)
			tch = t.C
		}
		select {
		case <-c.rdWake:
		case <-tch:
		}
		if t != nil {
			t.Stop()
		}
	}
}

// Write implements net.Conn.
func (c *Conn) Write(p []byte) (int, error) {
	c.mu.Lock()
	if c.clientClosed {
		c.mu.Unlock()
		return 0, &net.OpError{Op: "write", Net: "tcp", Addr: c.raddr, Err: net.ErrClosed}
	}
	if c.broken {
		c.writes = append(c.writes, WriteRec{Off: len(c.c2s), Len: len(p), N: 0, Err: "broken"})
		c.mu.Unlock()
		return 0, &net.OpError{Op: "write", Net: "tcp", Addr: c.raddr, Err: syscall.EPIPE}
	}
	f := c.wfault
	if f != nil && f.Kind == WriteDeadlineErr {
		f = nil // waits for a SetWriteDeadline
	} else {
		c.wfault = nil
	}
	off := len(c.c2s)
	if f == nil || f.Kind == WriteOK {
		if c.Chunk > 0 && len(p) > c.Chunk && c.net.Yield != nil {
			// non-atomic write: legal for a user-supplied net.Conn
			c.mu.Unlock()
			return c.writeChunked(p, off)
		}
		c.c2s = append(c.c2s, p...)
		c.writes = append(c.writes, WriteRec{Off: off, Len: len(p), N: len(p)})
		c.mu.Unlock()
		c.net.Wake()
		return len(p), nil
	}
	k := f.K
	if k > len(p) {
		k = len(p)
	}
	if k < 0 {
		k = 0
	}
	switch f.Kind {
	case WriteErr0:
		c.writes = append(c.writes, WriteRec{Off: off, Len: len(p), N: 0, Err: "err0"})
		c.mu.Unlock()
		c.net.Rec("write-fault %s err0 len=%d", c.Name, len(p))
		return 0, &net.OpError{Op: "write", Net: "tcp", Addr: c.raddr, Err: ErrInjected}
	case WriteShort:
		if k == len(p) && k > 0 {
			k--
		}
		c.c2s = append(c.c2s, p[:k]...)
		if k > 0 {
			c.broken = true
		}
		c.writes = append(c.writes, WriteRec{Off: off, Len: len(p), N: k, Err: "short"})
		c.mu.Unlock()
		c.net.Rec("write-fault %s short %d/%d", c.Name, k, len(p))
		return k, &net.OpError{Op: "write", Net: "tcp", Addr: c.raddr, Err: ErrInjected}
	case WriteStall:
		if k == len(p) && k > 0 {
			k--
		}
		c.c2s = append(c.c2s, p[:k]...)
		// a write that runs into its deadline leaves a real socket writable: later
		// writes would succeed, so the connection is deliberately not marked broken
		c.writes = append(c.writes, WriteRec{Off: off, Len: len(p), N: k, Err: "stall"})
		dl := c.wrDeadline
		c.stalling++
		c.mu.Unlock()
		defer func() {
			c.mu.Lock()
			c.stalling--
			c.mu.Unlock()
		}()
		c.net.Rec("write-fault %s stall %d/%d", c.Name, k, len(p))
		var tch <-chan time.Time
		if !dl.IsZero() {
			d := time.Until(dl)
			if d < 0 {
				d = 0
			}
			t := time.NewTimer(d)
			defer t.Stop()
			tch = t.C
		}
		for {
			select {
			case <-tch:
				return k, &net.OpError{Op: "write", Net: "tcp", Addr: c.raddr, Err: &timeoutError{op: "write"}}
			case <-c.wrWake:
				c.mu.Lock()
				closed := c.clientClosed
				c.mu.Unlock()
				if closed {
					return k, &net.OpError{Op: "write", Net: "tcp", Addr: c.raddr, Err: net.ErrClosed}
				}
			}
		}
	}
	c.mu.Unlock()
	return 0, errors.New("simnet: unknown write fault")
}

func (c *Conn) writeChunked(p []byte, off int) (int, error) {
	written := 0
	for written < len(p) {
		n := c.Chunk
		if n > len(p)-written {
			n = len(p) - written
		}
		c.mu.Lock()
		if c.clientClosed {
			c.writes = append(c.writes, WriteRec{Off: off, Len: len(p), N: written, Err: "closed"})
			c.mu.Unlock()
			return written, &net.OpError{Op: "write", Net: "tcp", Addr: c.raddr, Err: net.ErrClosed}
		}
		c.c2s = append(c.c2s, p[written:written+n]...)
		c.mu.Unlock()
		written += n
		if written < len(p) {
			c.net.Yield("net.chunk", c.Name)
		}
	}
	c.mu.Lock()
	c.writes = append(c.writes, WriteRec{Off: off, Len: len(p), N: len(p), Err: "chunked"})
	c.mu.Unlock()
	return len(p), nil
}

// Close implements net.Conn: nil the first time (as TCP), an error afterwards.
func (c *Conn) Close() error {
	c.mu.Lock()
	c.closeCount++
	if c.clientClosed {
		c.mu.Unlock()
		return &net.OpError{Op: "close", Net: "tcp", Addr: c.raddr, Err: net.ErrClosed}
	}
	c.clientClosed = true
	fail := c.CloseErr || c.net.CloseErrAll
	c.mu.Unlock()
	c.net.Rec("client-close %s", c.Name)
	c.net.Wake()
	wake(c.rdWake)
	wake(c.wrWake)
	if fail {
		// the connection is closed all the same; the caller is told that closing it was not
		// clean (what tls.Conn.Close reports when the peer is gone and close_notify fails)
		return &net.OpError{Op: "close", Net: "tcp", Addr: c.raddr, Err: syscall.EPIPE}
	}
	return nil
}

func (c *Conn) LocalAddr() net.Addr  { return c.laddr }
func (c *Conn) RemoteAddr() net.Addr { return c.raddr }

func (c *Conn) SetDeadline(t time.Time) error {
	c.SetReadDeadline(t)
	c.SetWriteDeadline(t)
	return nil
}

func (c *Conn) SetReadDeadline(t time.Time) error {
	c.mu.Lock()
	if c.clientClosed {
		c.mu.Unlock()
		return &net.OpError{Op: "set", Net: "tcp", Addr: c.raddr, Err: net.ErrClosed}
	}
	c.rdDeadline = t
	c.mu.Unlock()
	wake(c.rdWake)
	return nil
}

func (c *Conn) SetWriteDeadline(t time.Time) error {
	c.mu.Lock()
	if c.clientClosed {
		c.mu.Unlock()
		return &net.OpError{Op: "set", Net: "tcp", Addr: c.raddr, Err: net.ErrClosed}
	}
	if f := c.wfault; f != nil && f.Kind == WriteDeadlineErr && !t.IsZero() {
		c.wfault = nil
		c.mu.Unlock()
		c.net.Rec("write-fault %s set-deadline-error", c.Name)
		return &net.OpError{Op: "set", Net: "tcp", Addr: c.raddr, Err: syscall.EINVAL}
	}
	c.wrDeadline = t
	c.mu.Unlock()
	return nil
}

// ---------------------------------------------------------------------------------
// server side (simulator actions; never block)

// Inbox returns the bytes the client wrote that the server has not consumed yet.
func (c *Conn) Inbox() []byte {
	c.mu.Lock()
	defer c.mu.Unlock()
	return c.c2s[c.consumed:]
}

// Consume marks n inbox bytes as consumed by the server.
func (c *Conn) Consume(n int) {
	c.mu.Lock()
	c.consumed += n
	c.mu.Unlock()
}

// ClientStream returns everything the client ever wrote, and the per-call records.
func (c *Conn) ClientStream() ([]byte, []WriteRec) {
	c.mu.Lock()
	defer c.mu.Unlock()
	return append([]byte(nil), c.c2s...), append([]WriteRec(nil), c.writes...)
}

// ServerSend makes b readable by the client.
func (c *Conn) ServerSend(b []byte) {
	c.mu.Lock()
	if c.serverClosed {
		c.mu.Unlock()
		return
	}
	c.s2c = append(c.s2c, b...)
	c.sentBytes += int64(len(b))
	c.mu.Unlock()
	wake(c.rdWake)
}

// ServerClose closes the server side: the client reads EOF (reset=false) or a
// connection-reset error after draining what was sent.
func (c *Conn) ServerClose(reset bool) {
	c.mu.Lock()
	if c.serverClosed {
		c.mu.Unlock()
		return
	}
	c.serverClosed = true
	if reset {
		c.serverErr = &net.OpError{Op: "read", Net: "tcp", Addr: c.raddr, Err: os.NewSyscallError("read", syscall.ECONNRESET)}
	} else {
		c.serverErr = io.EOF
	}
	c.mu.Unlock()
	c.net.Rec("server-close %s reset=%v", c.Name, reset)
	wake(c.rdWake)
}

// ArmWriteFault makes the next Write on the connection misbehave.
func (c *Conn) ArmWriteFault(f WriteFault) {
	c.mu.Lock()
	c.wfault = &f
	c.mu.Unlock()
}

// SentBytes is the number of bytes the server side has sent on the connection.
func (c *Conn) SentBytes() int64 {
	c.mu.Lock()
	defer c.mu.Unlock()
	return c.sentBytes
}

// ClientClosed reports whether the driver closed the connection.
func (c *Conn) ClientClosed() bool {
	c.mu.Lock()
	defer c.mu.Unlock()
	return c.clientClosed
}

// ServerClosed reports whether the simulator closed the server side.
func (c *Conn) ServerClosed() bool {
	c.mu.Lock()
	defer c.mu.Unlock()
	return c.serverClosed
}

// CloseCount returns how many times Close was called.
func (c *Conn) CloseCount() int {
	c.mu.Lock()
	defer c.mu.Unlock()
	return c.closeCount
}

// Unread returns how many server bytes the client has not read yet.
func (c *Conn) Unread() int {
	c.mu.Lock()
	defer c.mu.Unlock()
	return len(c.s2c) - c.s2cOff
}

// Busy reports whether a write is stalled on the connection or a write fault is armed
// and not yet consumed.
func (c *Conn) Busy() bool {
	c.mu.Lock()
	defer c.mu.Unlock()
	return c.stalling > 0 || c.wfault != nil || c.broken
}

// PartialWrite reports whether some Write call on the connection was cut short after
// accepting at least one byte: from then on the byte stream is legitimately torn.
func (c *Conn) PartialWrite() bool {
	c.mu.Lock()
	defer c.mu.Unlock()
	for _, r := range c.writes {
		if r.N > 0 && r.N < r.Len {
			return true
		}
	}
	return false
}

// DialOnce makes the next dial to host behave as m, whatever the standing mode is.
func (n *Net) DialOnce(host string, m DialMode) {
	n.mu.Lock()
	n.once[host] = append(n.once[host], m)
	n.mu.Unlock()
}

// ClearDialOnce forgets the one-shot dial behaviours that were not used up.
func (n *Net) ClearDialOnce() {
	n.mu.Lock()
	n.once = map[string][]DialMode{}
	n.mu.Unlock()
}
