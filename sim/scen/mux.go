package scen

import (
	"context"
	"errors"
	"fmt"
	"regexp"
	"sort"
	"strings"
	"sync"
	"time"

	"github.com/gocql/gocql"
	"github.com/gocql/gocql/verifsim/cqlspec"
	"github.com/gocql/gocql/verifsim/kernel"
	"github.com/gocql/gocql/verifsim/node"
	"github.com/gocql/gocql/verifsim/simnet"
)

// Scenario mux: many callers multiplexed on few connections; the simulated node chooses
// answer order, lateness and silence; callers time out and cancel; connections fail.
// Oracles: C01 (own token back, stream id not reused while its answer is outstanding) and
// C06 (each call returns once with an allowed outcome within a bound after faults stop,
// stream accounting at settled quiescence, StreamObserver at-most-once, no goroutine of
// the session survives Close).

func init() {
	register(&Scenario{
		Name:       "mux",
		Properties: []string{"C01", "C06"},
		Run:        runMux,
		Real:       []string{"gocql Session/queryExecutor/pool/Conn/framer/streams (real code)", "Go runtime scheduler, channels, timers (fake clock)"},
		Stub:       []string{"Cassandra node (independent state machine + cqlspec codec)", "TCP (simnet)", "clock (testing/synctest)"},
		Rule:       "one run = one seeded schedule of 2-6 callers x 3-8 requests over 1-2 connections with tape-chosen reply order/lateness/silence/errors, cancels, connection faults and yield-point parks; distinct = distinct canonical-log fingerprint; non-trivial = at least one fault, park or out-of-order delivery fired and at least one operation completed",
	})
}

var tokenRe = regexp.MustCompile(`tok-[0-9]+-[0-9]+`)

type muxOp struct {
	token    string
	prepared bool
	// a batch with a named value: its statement is prepared, its frame cannot be built
	// (named values are not supported in batches), nothing of it may reach the wire
	unbuildable bool
	cancel      context.CancelFunc
	canceled    bool
	inflight    bool
	invoke      int
	ret         int
	outcome     string
	got         string
	// the node answered (at least once) under another protocol version
	otherVersion bool
	// the node answered (at least once) with a body the driver cannot take in
	undecodable bool
}

type streamObs struct {
	mu       sync.Mutex
	k        *kernel.Kernel
	started  int
	finished int
	abandon  int
}

type streamObsCtx struct {
	o       *streamObs
	mu      sync.Mutex
	started bool
	ended   int
}

func (o *streamObs) StreamContext(ctx context.Context) gocql.StreamObserverContext {
	return &streamObsCtx{o: o}
}

func (c *streamObsCtx) StreamStarted(gocql.ObservedStream) {
	c.mu.Lock()
	c.started = true
	c.mu.Unlock()
	c.o.mu.Lock()
	c.o.started++
	c.o.mu.Unlock()
}

func (c *streamObsCtx) end(kind string) {
	c.mu.Lock()
	c.ended++
	n := c.ended
	c.mu.Unlock()
	if n > 1 {
		c.o.k.Violate("C06", "C06/stream-observer-ended-twice", "a stream was reported %s after it had already been reported finished/abandoned", kind)
	}
}

func (c *streamObsCtx) StreamAbandoned(gocql.ObservedStream) {
	c.end("abandoned")
	c.o.mu.Lock()
	c.o.abandon++
	c.o.mu.Unlock()
}

func (c *streamObsCtx) StreamFinished(gocql.ObservedStream) {
	c.end("finished")
	c.o.mu.Lock()
	c.o.finished++
	c.o.mu.Unlock()
}

func runMux(e *Env) {
	k := e.K
	tp := k.Tape
	cl := node.NewCluster(k, 1)
	InstallHooks(k)

	// ---- swarm configuration (index 0 = boring) ----
	proto := []int{4, 2, 3}[tp.Next(3)]
	numConns := 1 + tp.Next(2)
	timeout := []time.Duration{300 * time.Millisecond, 100 * time.Millisecond, 700 * time.Millisecond}[tp.Next(3)]
	coalesce := []time.Duration{0, 200 * time.Microsecond, 5 * time.Millisecond}[tp.Next(3)]
	nTasks := 2 + tp.Next(5)
	nOps := 3 + tp.Next(6)
	flood := proto == 2 && tp.Chance(1, 3) // drive a 7-bit connection towards exhaustion
	// gocql.TimeoutLimit (package level, default 0 = off): a connection that has seen more
	// than this many request timeouts is closed
	timeoutLimit := int64([]int{0, 1, 3}[tp.Next(3)])
	gocql.TimeoutLimit = timeoutLimit
	defer func() { gocql.TimeoutLimit = 0 }()
	e.Note("timeoutLimit", timeoutLimit)
	e.Note("proto", proto)
	e.Note("numConns", numConns)
	e.Note("timeout", timeout.String())
	e.Note("coalesce", coalesce.String())
	e.Note("tasks", nTasks)
	e.Note("ops", nOps)
	e.Note("flood", flood)
	// ... and there the node may never answer at all: every id ends up held by a request that
	// was written, timed out and is still owed its answer
	blackhole := flood && !e.NoFaults && tp.Chance(1, 2)
	e.Note("blackhole", blackhole)
	if blackhole {
		// one connection, enough requests to use up its 127 ids, and no limit on timeouts
		k.MaxSteps = 1500
		numConns = 1
		timeoutLimit = 0
		gocql.TimeoutLimit = 0
		k.Fault("node.answers-nothing")
	}

	// a node that sheds load: it answers the probes of idle connections with ERROR frames
	// (probes are not requests of any caller: their answers concern nobody else, and a
	// connection whose node answers at all stays)
	if !e.NoFaults && !blackhole && tp.Chance(1, 8) {
		k.Fault("node.refuses-probes")
		hbN := 0
		cl.OptionsReply = func(sc *node.SConn, rec *node.ReqRec) *cqlspec.Response {
			if !sc.Started {
				return nil
			}
			hbN++
			code := []int32{cqlspec.ErrOverloaded, cqlspec.ErrServer, cqlspec.ErrBootstrapping}[hbN%3]
			return &cqlspec.Response{Op: cqlspec.OpError, Error: &cqlspec.ErrorBody{Code: code, Message: fmt.Sprintf("probe refused tok-999-%d", hbN)}}
		}
		k.TimeMenu = []time.Duration{time.Second, 10 * time.Millisecond, 100 * time.Millisecond, time.Second, time.Millisecond}
		k.MaxSteps = 700
	}

	cfg := BaseConfig(cl, "10.0.0.1")
	gocql.VerifDisableControlConn(cfg, true)
	cfg.ProtoVersion = proto
	cfg.NumConns = numConns
	cfg.Timeout = timeout
	cfg.ConnectTimeout = 500 * time.Millisecond
	cfg.WriteCoalesceWaitTime = coalesce
	cfg.ReconnectInterval = 500 * time.Millisecond
	obs := &streamObs{k: k}
	cfg.StreamObserver = obs

	// ---- node behaviour ----
	var mu sync.Mutex
	ops := map[string]*muxOp{}
	faultsOn := !e.NoFaults
	const prepStmt = "SELECT v FROM ks.t WHERE k = ?"
	valMeta := &cqlspec.RowsMeta{GlobalSpec: true, Columns: []cqlspec.ColSpec{{Keyspace: "ks", Table: "t", Name: "v", Type: cqlspec.ColType{ID: cqlspec.TVarchar}}}}
	cl.App = func(sc *node.SConn, rec *node.ReqRec) {
		rq := rec.Req
		switch rq.Header.Opcode {
		case cqlspec.OpPrepare:
			id := []byte(fmt.Sprintf("P%d", len(sc.Host.Prepared)+1))
			for _, p := range sc.Host.Prepared {
				if p.Query == rq.Query {
					id = p.ID
				}
			}
			sc.Host.Prepared[string(id)] = &node.PreparedStmt{ID: id, Query: rq.Query, NBind: 1}
			pm := &cqlspec.PreparedMeta{GlobalSpec: true, Columns: []cqlspec.ColSpec{{Keyspace: "ks", Table: "t", Name: "k", Type: cqlspec.ColType{ID: cqlspec.TVarchar}}}}
			if rq.Header.Version >= 4 {
				pm.PKIndices = []uint16{0}
			}
			cl.Send(sc, rec, &cqlspec.Response{Op: cqlspec.OpResult, Kind: cqlspec.KindPrepared, PreparedID: id, Prepared: pm, PreparedRows: valMeta}, node.Hold, "PREPARED")
			return
		case cqlspec.OpQuery, cqlspec.OpExecute:
		default:
			cl.SendError(sc, rec, cqlspec.ErrProtocol, "unexpected opcode", node.Hold)
			return
		}
		token := ""
		if rq.Header.Opcode == cqlspec.OpQuery {
			token = tokenRe.FindString(rq.Query)
		} else if len(rq.Params.Values) == 1 && !rq.Params.Values[0].Null {
			token = string(rq.Params.Values[0].Bytes)
		}
		if token == "" {
			cl.SendError(sc, rec, cqlspec.ErrInvalid, "no token", node.Hold)
			return
		}
		kind := 0
		if faultsOn {
			kind = tp.Weighted([]int{12, 3, 2, 1, 1})
		}
		if blackhole {
			kind = 2
		}
		switch kind {
		case 1:
			k.Fault("reply.server-error")
			// (any error code is the answer to this request alone)
			code := []int32{cqlspec.ErrOverloaded, cqlspec.ErrOverloaded, cqlspec.ErrBootstrapping, cqlspec.ErrServer, cqlspec.ErrInvalid, cqlspec.ErrProtocol}[tp.Next(6)]
			cl.SendError(sc, rec, code, "refused "+token, node.Hold)
		case 2:
			k.Fault("reply.never")
			cl.Send(sc, rec, &cqlspec.Response{Op: cqlspec.OpResult, Kind: cqlspec.KindVoid}, node.Drop, "NEVER "+token)
		default:
			meta := *valMeta
			if rq.Header.Opcode == cqlspec.OpExecute && rq.Params.SkipMetadata {
				meta = cqlspec.RowsMeta{NoMetadata: true, ColumnCount: 1}
			}
			row := [][]cqlspec.Cell{{{Bytes: cqlspec.EncText(token + "/" + sc.Host.Nonce)}}}
			r := cl.Send(sc, rec, &cqlspec.Response{Op: cqlspec.OpResult, Kind: cqlspec.KindRows, Rows: &meta, RowData: row}, node.Hold, "ROWS "+token)
			if kind == 4 {
				// a body the driver cannot take in: the header says "compressed", no compression
				// was negotiated. The caller is told, the connection goes on (the frame was read
				// to its end), the stream id is free again
				k.Fault("reply.compressed-flag-without-compression")
				r.Frame[1] |= cqlspec.FlagCompression
				mu.Lock()
				if op := ops[token]; op != nil {
					op.undecodable = true
				}
				mu.Unlock()
			}
			if kind == 3 {
				// a well-formed answer on the request's stream whose header names the
				// neighbouring protocol version (same header layout): the caller is told so,
				// the connection goes on, the stream id is free again
				k.Fault("reply.other-protocol-version")
				r.Frame[0] = 0x80 | byte(map[int]int{4: 3, 3: 4, 2: 1}[int(rq.Header.Version)])
				mu.Lock()
				if op := ops[token]; op != nil {
					op.otherVersion = true
				}
				mu.Unlock()
			}
		}
	}

	// ---- boot (fault free, FIFO) ----
	sess, err := Boot(k, cl, 10*time.Second, func() (*gocql.Session, error) { return gocql.NewSession(*cfg) })
	if err != nil {
		k.Violate("HARNESS", "mux/boot", "session creation failed in a fault-free boot: %v", err)
		cl.CloseAll()
		return
	}

	// the connections' probes (one second after the handshake, then every five) fall
	// anywhere in the workload: the session has been idle for a tape-chosen while
	if faultsOn {
		if d := []time.Duration{0, 4500 * time.Millisecond, 3 * time.Second, 4900 * time.Millisecond, 4 * time.Second}[tp.Next(5)]; d > 0 {
			k.SettleUntil(d, 100*time.Millisecond, func() { cl.Process(); cl.DeliverAll() }, func() bool { return false })
		}
	}

	// ---- park plan ----
	if faultsOn {
		k.DrawPlan([]string{
			"exec.afterWrite", "exec.timedOut", "recv.removed", "recv.deliver", "release.beforeClear",
			"close.unlocked", "exec.gotStream", "exec.added", "exec.beforeWrite", "exec.gotResp",
			"exec.ctxDone", "recv.lateRelease", "recv.header", "close.deliver", "exec.writeErr", "exec.connDone",
			"wc.enqueued", "wc.beforeFlush", "dw.acquired", "release.afterClear", "release.afterClear", "exec.enter",
		}, 3, 12)
	}

	// ---- workload ----
	// targeted parks: for some requests, a point at which that very request is held (drawn
	// here, on the root goroutine)
	armPoints := []string{"exec.enter", "exec.enter", "release.afterClear", "release.beforeClear", "exec.beforeWrite", "exec.added", "exec.gotStream", "exec.afterWrite", "exec.writeErr"}
	armNext := make([][]string, nTasks)
	for ti := range armNext {
		n := nOps
		if flood {
			n = 40
		}
		if blackhole {
			n = 90
		}
		armNext[ti] = make([]string, n)
		for oi := range armNext[ti] {
			if faultsOn && tp.Chance(1, 6) {
				armNext[ti][oi] = armPoints[tp.Next(len(armPoints))]
			}
		}
	}
	for ti := 0; ti < nTasks; ti++ {
		ti := ti
		k.Spawn(fmt.Sprintf("c%d", ti), func(t *kernel.Task) {
			n := nOps
			if flood {
				n = 40
			}
			if blackhole {
				n = 90
			}
			for oi := 0; oi < n; oi++ {
				token := fmt.Sprintf("tok-%d-%d", ti, oi)
				op := &muxOp{token: token, prepared: (ti+oi)%3 == 0, unbuildable: !flood && (2*ti+oi)%5 == 4}
				if !t.Step("q " + token) {
					return
				}
				ctx, cancel := context.WithCancel(context.Background())
				op.cancel = cancel
				mu.Lock()
				ops[token] = op
				op.inflight = true
				op.invoke = k.Step()
				mu.Unlock()
				var got string
				var err error
				if faultsOn && armNext[ti][oi] != "" {
					// hold this very request at one point of its way through the driver
					k.ArmNext(armNext[ti][oi])
				}
				if op.unbuildable && proto < 4 && (ti+oi)%2 == 0 {
					// a custom payload, which protocols before 4 cannot carry: the driver refuses
					// by returning an error or by panicking in the caller's goroutine (which an
					// application may well recover from, e.g. per request in a server)
					func() {
						defer func() {
							if r := recover(); r != nil {
								err = fmt.Errorf("named query values are not supported in batches (stand-in for the panic: %v)", r)
							}
						}()
						err = sess.Query("ECHO '" + token + "'").WithContext(ctx).CustomPayload(map[string][]byte{"k": {1}}).Scan(&got)
					}()
					if err == nil {
						err = errors.New("a custom payload was sent on a protocol that cannot carry one")
					}
				} else if op.unbuildable {
					b := sess.NewBatch(gocql.UnloggedBatch).WithContext(ctx)
					b.Query(prepStmt, gocql.NamedValue("k", token))
					err = sess.ExecuteBatch(b)
					if err == nil {
						err = errors.New("a batch with a named value was executed")
					}
				} else if op.prepared {
					err = sess.Query(prepStmt, token).WithContext(ctx).Scan(&got)
				} else {
					err = sess.Query("ECHO '" + token + "'").WithContext(ctx).Scan(&got)
				}
				cancel()
				mu.Lock()
				op.inflight = false
				op.ret = k.Step()
				op.outcome = ErrClass(err)
				op.got = got
				mu.Unlock()
				k.OpDone()
				if op.outcome == "no-streams" {
					k.Probe("request-refused-for-lack-of-stream-ids")
				}
				if blackhole && op.outcome == "no-connections" {
					k.Probe("no-connection-with-a-free-stream-id")
				}
				k.Rec("ret %s %s %s", token, op.outcome, got)
				muxCheckOutcome(k, op, err, got)
			}
		})
	}

	// ---- actions: cancels and connection faults ----
	k.Sources = append(k.Sources, cl.DeliverActions)
	if faultsOn {
		k.Sources = append(k.Sources, func() []kernel.Action {
			var acts []kernel.Action
			mu.Lock()
			for _, op := range ops {
				if op.inflight && !op.canceled {
					op := op
					acts = append(acts, kernel.Action{Key: "cancel:" + op.token, Rank: 5, Weight: 1, Do: func() {
						mu.Lock()
						op.canceled = true
						mu.Unlock()
						k.Fault("client.cancel")
						op.cancel()
					}})
				}
			}
			mu.Unlock()
			for _, sc := range cl.SConns() {
				if sc.Dead || sc.C.ClientClosed() {
					continue
				}
				sc := sc
				// (with something in flight: answers owed, or a caller held inside the driver on
				// its way to or from this connection)
				held := false
				for _, key := range k.ParkedKeys() {
					if strings.Contains(key, "@"+sc.C.Name+"/") {
						held = true
					}
				}
				if len(sc.Outstanding) >= 2 || (held && len(sc.Outstanding) >= 1) || (held && tp.Chance(1, 4)) {
					acts = append(acts, kernel.Action{Key: "srvclose:" + sc.C.Name, Rank: 6, Weight: 1, Do: func() {
						k.Fault("conn.server-close")
						if len(sc.Outstanding) >= 2 {
							k.Probe("close-with-2+-outstanding")
						}
						// an orderly end of stream, or a reset (a net.Error for the reader)
						reset := tp.Chance(1, 3)
						if reset {
							k.Fault("conn.server-reset")
						}
						if sc.C.Unread() > 0 || cl.Partial(sc) {
							k.Probe("close-mid-frame")
						}
						cl.CloseConn(sc, reset)
					}})
				}
				acts = append(acts, kernel.Action{Key: "wfault:" + sc.C.Name, Rank: 6, Weight: 1, Do: func() {
					kind := []simnet.WriteFaultKind{simnet.WriteShort, simnet.WriteErr0, simnet.WriteStall, simnet.WriteDeadlineErr}[tp.Next(4)]
					k.Fault(fmt.Sprintf("conn.write-fault-armed-%d", kind))
					sc.C.ArmWriteFault(simnet.WriteFault{Kind: kind, K: tp.Next(40)})
				}})
				// split a held reply
				for _, r := range cl.Held() {
					if r.SC == sc && r.Sent == 0 && len(r.Frame) > 2 {
						r := r
						acts = append(acts, kernel.Action{Key: fmt.Sprintf("split:%s:%06d", sc.C.Name, r.Seq), Rank: 6, Weight: 1, Do: func() {
							k.Fault("reply.split")
							cl.DeliverPart(r, 1+tp.Next(len(r.Frame)-1))
						}})
						break
					}
				}
			}
			return acts
		})
	}
	k.PreStep = append(k.PreStep, func() {
		cl.Process()
		muxProbes(k, cl)
		CheckWaiters(k)
	})

	k.Loop(nil)

	// ---- settle: no more faults, FIFO delivery, bounded liveness ----
	k.BeginSettle()
	bound := 2*timeout + time.Second + 6*time.Second // + heartbeat-driven close of a silent connection
	okDone := k.SettleUntil(bound, 20*time.Millisecond, func() { cl.Process(); cl.DeliverAll() }, k.TasksDone)
	if !okDone && k.Violation() == nil {
		k.Violate("C06", "C06/request-never-completed", "after faults stopped, calls still blocked after %v simulated: %v", bound, k.RunningOps())
	}
	// let late releases and coalesced writes drain
	k.SettleUntil(50*time.Millisecond, 5*time.Millisecond, func() { cl.Process(); cl.DeliverAll() }, func() bool { return false })

	if k.Violation() == nil {
		// a heartbeat may be in flight at any single instant (written, or waiting in the
		// coalescer); a real leak persists, so the books must balance at some quiescence
		// of a 300 ms window sampled every 7 ms
		var lastSig, lastMsg string
		okAcc := k.SettleUntil(300*time.Millisecond, 7*time.Millisecond, func() { cl.Process(); cl.DeliverAll() }, func() bool {
			lastSig, lastMsg = muxAccounting(k, cl, sess, proto)
			return lastSig == ""
		})
		if !okAcc {
			k.Violate("C06", lastSig, "%s", lastMsg)
		}
	}

	// ---- close and leak check ----
	closed := make(chan struct{})
	go func() { sess.Close(); close(closed) }()
	closeBound := 5*maxDur(timeout, cfg.ConnectTimeout) + 10*time.Second
	okClose := k.SettleUntil(closeBound, 20*time.Millisecond, func() { cl.Process(); cl.DeliverAll() }, func() bool {
		select {
		case <-closed:
			return true
		default:
			return false
		}
	})
	if !okClose && k.Violation() == nil {
		k.Violate("C06", "C06/session-close-hangs", "Session.Close did not return within %v simulated", closeBound)
	}
	// Close may return while another goroutine is still in the middle of closing a
	// connection (closeWithError waits for a caller stuck in a stalled write); what is
	// demanded is that every connection is closed and every driver goroutine gone within
	// the bound, without any help from the server side.
	allClosed := func() string {
		for _, c := range cl.Net.Conns() {
			if !c.ClientClosed() {
				return c.Name
			}
		}
		return ""
	}
	k.SettleUntil(closeBound, 100*time.Millisecond, nil, func() bool { return allClosed() == "" && len(DriverGoroutines()) == 0 })
	if name := allClosed(); okClose && name != "" && k.Violation() == nil {
		k.Violate("C06", "C06/conn-open-after-close", "connection %s still open %v after Session.Close returned", name, closeBound)
	}
	if gs := DriverGoroutines(); len(gs) > 0 && k.Violation() == nil {
		k.Violate("C06", "C06/goroutine-leak:"+TopFrames(gs[0], 3), "%d driver goroutine(s) still alive %v after Session.Close; first:\n%s", len(gs), closeBound, gs[0])
	}
	cl.CloseAll()
	if !k.SettleUntil(closeBound, 100*time.Millisecond, nil, func() bool { return len(kernel.BubbleGoroutines()) == 0 }) {
		if gs := kernel.BubbleGoroutines(); len(gs) > 0 {
			k.Rec("lingering %d: %s", len(gs), gs[0])
		}
	}
	e.Note("streams.started", obs.started)
}

func maxDur(a, b time.Duration) time.Duration {
	if a > b {
		return a
	}
	return b
}

// muxCheckOutcome: a caller that gets rows or a server error must get its own.
func muxCheckOutcome(k *kernel.Kernel, op *muxOp, err error, got string) {
	if err == nil {
		if !strings.HasPrefix(got, op.token+"/") {
			k.Violate("C01", "C01/misrouted-response", "caller of %s received the row %q", op.token, got)
		}
		return
	}
	cls := ErrClass(err)
	if strings.HasPrefix(cls, "server-error") {
		if t := tokenRe.FindString(err.Error()); t != "" && t != op.token {
			k.Violate("C01", "C01/misrouted-error", "caller of %s received the server error %q", op.token, err.Error())
		}
		return
	}
	switch cls {
	case "timeout", "conn-closed", "no-streams", "no-connections", "write-error", "eof", "net-closed", "net-error", "net-timeout", "too-many-timeouts":
	case "ctx-canceled":
		// the caller's own cancel, or the cancelled context of a connection that closed
		// while a PREPARE for this statement was in flight on it
	default:
		if strings.Contains(cls, "unable to read frame body") || strings.Contains(cls, "connection reset") {
			return
		}
		if op.otherVersion && strings.Contains(err.Error(), "unexpected protocol version in response") {
			return
		}
		if op.undecodable && strings.Contains(err.Error(), "ompress") {
			return
		}
		if op.unbuildable && (strings.Contains(err.Error(), "named query values are not supported in batches") || strings.Contains(err.Error(), "named values are not supported by protocol versions below 3") || strings.Contains(err.Error(), "ustom payload is not supported")) {
			return
		}
		k.Violate("C06", "C06/unexpected-outcome", "request %s ended with an outcome outside the documented set: %v", op.token, err)
	}
}

// muxProbes counts the rare conditions the scenario wants to reach.
func muxProbes(k *kernel.Kernel, cl *node.Cluster) {
	for _, sc := range cl.SConns() {
		if len(sc.Outstanding) > 100 {
			k.Probe("outstanding>100")
		}
	}
}

// muxAccounting checks the stream bookkeeping of every live connection at a settled
// quiescence: available == capacity - 1 - |ids whose answer the node never delivered|.
func muxAccounting(k *kernel.Kernel, cl *node.Cluster, sess *gocql.Session, proto int) (string, string) {
	capacity := 32768
	if proto <= 2 {
		capacity = 128
	}
	for _, conns := range sess.VerifPoolConns() {
		for _, c := range conns {
			if c.Closed() {
				continue
			}
			sc, _ := c.VerifNetConn().(*simnet.Conn)
			if sc == nil || sc.ClientClosed() || sc.ServerClosed() {
				continue
			}
			ssc := cl.SConnOf(sc)
			if ssc == nil || ssc.Dead {
				continue
			}
			if len(sc.Inbox()) != 0 || sc.Busy() {
				continue // a partial frame or a stalled write: the connection is about to fail
			}
			want := capacity - 1 - len(ssc.Outstanding)
			got := c.AvailableStreams()
			if len(ssc.Outstanding) > 0 {
				k.Probe("accounting-with-unanswered-ids")
			}
			if got != want {
				sig := "C06/stream-leak"
				if got > want {
					sig = "C06/stream-released-while-response-outstanding"
				}
				var owed []int
				for id := range ssc.Outstanding {
					owed = append(owed, id)
				}
				sort.Ints(owed)
				calls := c.VerifCallStreams()
				sort.Ints(calls)
				return sig, fmt.Sprintf("connection %s at settled quiescence: AvailableStreams()=%d, expected %d (capacity %d); ids reserved in the driver %v; ids in its call table %v; ids whose answer the node never delivered %v",
					sc.Name, got, want, capacity, InUseStreams(c.VerifStreamsState()), calls, owed)
			}
		}
	}
	return "", ""
}
