package cqlspec

import (
	"errors"
	"strings"
	"testing"
)

// Every strictness rule of DecodeRequest: a frame that breaks exactly one rule and a
// fragment the error message must contain.
func TestDecodeRequestRejects(t *testing.T) {
	failing := func([]byte) ([]byte, error) { return nil, errors.New("boom") }
	cases := []struct {
		name, frame, want string
		decomp            Decompressor
	}{
		// header
		{"empty frame", "", "empty frame", nil},
		{"version 0", "00 00 00 05 00000000", "version 0", nil},
		{"version 6", "06 00 0000 05 00000000", "version 6", nil},
		{"short header", "04 00 0000 05 000000", "needs 9 bytes", nil},
		{"response bit", "84 00 0000 05 00000000", "direction bit", nil},
		{"length too small", "04 00 0000 05 00000000 00", "length field is 0 but the frame carries 1", nil},
		{"length too large", "04 00 0000 05 00000001", "length field is 1 but the frame carries 0", nil},
		{"negative length", "04 00 0000 05 ffffffff", "length field is -1", nil},
		{"unknown header flag", "04 20 0000 05 00000000", "unknown header flag bits 0x20", nil},
		{"unknown header flag 0x80", "02 80 00 05 00000000", "unknown header flag bits 0x80", nil},
		{"warning flag on request", "04 08 0000 05 00000000", "warning", nil},
		{"custom payload flag in v3", "03 04 0000 05 00000002 0000", "custom payload", nil},
		{"beta flag on v4", "04 10 0000 05 00000000", "beta", nil},
		{"beta flag on v2", "02 10 00 05 00000000", "beta", nil},
		{"beta flag missing on v5", "05 00 0000 05 00000000", "beta", nil},
		{"negative stream v4", "04 00 ffff 05 00000000", "negative stream id -1", nil},
		{"negative stream v2", "02 00 80 05 00000000", "negative stream id -128", nil},
		{"compression without decompressor", "04 01 0000 05 00000001 00", "no compression was negotiated", nil},
		{"decompressor error", "04 01 0000 05 00000001 00", "boom", failing},
		{"snappy length mismatch", "04 01 0000 05 00000002 01 00", "snappy", SnappyDecode},
		{"truncated custom payload", "04 04 0000 05 00000002 0001", "<custom payload>", nil},
		{"duplicate custom payload key", "04 04 0000 05 00000010 0002 0001 'k' 00000000 0001 'k' 00000000", "duplicate key", nil},
		// opcodes
		{"CREDENTIALS", "01 00 00 04 00000002 0000", "opcode 0x04", nil},
		{"response opcode READY", "04 00 0000 02 00000000", "opcode 0x02", nil},
		{"unknown opcode", "04 00 0000 11 00000000", "opcode 0x11", nil},
		// STARTUP
		{"startup without CQL_VERSION", "04 00 0000 01 00000002 0000", "CQL_VERSION", nil},
		{"startup duplicate key", "04 00 0000 01 0000002a 0002 000b 'CQL_VERSION' 0005 '3.0.0' 000b 'CQL_VERSION' 0005 '3.0.0'", "duplicate key", nil},
		{"startup trailing byte", "04 00 0000 01 00000017 0001 000b 'CQL_VERSION' 0005 '3.0.0' 00", "trailing", nil},
		{"startup truncated", "04 00 0000 01 00000015 0001 000b 'CQL_VERSION' 0005 '3.0.'", "need 5 bytes, only 4 left", nil},
		{"startup count too large", "04 00 0000 01 00000016 0002 000b 'CQL_VERSION' 0005 '3.0.0'", "need 2 bytes, only 0 left", nil},
		{"startup invalid utf8", "04 00 0000 01 00000016 0001 000b 'CQL_VERSION' 0005 '3.0.' ff", "invalid UTF-8", nil},
		// OPTIONS
		{"options with body", "04 00 0000 05 00000001 00", "1 trailing bytes", nil},
		// AUTH_RESPONSE
		{"auth_response v1", "01 00 00 0f 00000004 00000000", "not defined in protocol v1", nil},
		{"auth_response length -2", "04 00 0000 0f 00000004 fffffffe", "only -1 may denote null", nil},
		{"auth_response truncated", "04 00 0000 0f 00000005 00000002 aa", "need 2 bytes, only 1 left", nil},
		{"auth_response trailing", "04 00 0000 0f 00000005 ffffffff 00", "trailing", nil},
		// REGISTER
		{"register unknown event", "04 00 0000 0b 00000008 0001 0004 'BLAH'", "unknown event type", nil},
		{"register lowercase event", "04 00 0000 0b 00000011 0001 000d 'schema_change'", "unknown event type", nil},
		// QUERY
		{"query negative string length", "04 00 0000 07 00000007 ffffffff 0001 00", "negative [long string] length", nil},
		{"query invalid utf8", "04 00 0000 07 00000008 00000001 ff 0001 00", "invalid UTF-8", nil},
		{"query unknown consistency", "04 00 0000 07 00000008 00000001 'x' 000b 00", "unknown [consistency] 0x000b", nil},
		{"query v1 with flags byte", "01 00 00 07 00000008 00000001 'x' 0001 00", "trailing", nil},
		{"query v2 without flags byte", "02 00 00 07 00000007 00000001 'x' 0001", "<flags>", nil},
		{"query v4 with int flags", "04 00 0000 07 0000000b 00000001 'x' 0001 00000000", "3 trailing bytes", nil},
		{"query v5 with byte flags", "05 10 0000 07 00000008 00000001 'x' 0001 00", "<flags>", nil},
		{"query timestamp flag in v2", "02 00 00 07 00000010 00000001 'x' 0001 20 0000000000000001", "flag bits 0x20 are not defined", nil},
		{"query names flag in v2", "02 00 00 07 0000000a 00000001 'x' 0001 41 0000", "flag bits 0x40 are not defined", nil},
		{"query keyspace flag in v4", "04 00 0000 07 0000000c 00000001 'x' 0001 80 0002 'ks'", "flag bits 0x80 are not defined", nil},
		{"query unknown flag in v5", "05 10 0000 07 0000000b 00000001 'x' 0001 00000100", "flag bits 0x100 are not defined", nil},
		{"query names without values", "04 00 0000 07 00000008 00000001 'x' 0001 40", "without flag 0x01", nil},
		{"query null paging state", "04 00 0000 07 0000000c 00000001 'x' 0001 08 ffffffff", "null paging state", nil},
		{"query serial consistency QUORUM", "04 00 0000 07 0000000a 00000001 'x' 0001 10 0004", "neither SERIAL nor LOCAL_SERIAL", nil},
		{"query unset in v3", "03 00 0000 07 0000000e 00000001 'x' 0001 01 0001 fffffffe", "not defined before protocol v4", nil},
		{"query unset in v2", "02 00 00 07 0000000e 00000001 'x' 0001 01 0001 fffffffe", "not defined before protocol v4", nil},
		{"query value length -3", "04 00 0000 07 0000000e 00000001 'x' 0001 01 0001 fffffffd", "invalid [value] length -3", nil},
		{"query value truncated", "04 00 0000 07 0000000f 00000001 'x' 0001 01 0001 00000002 aa", "need 2 bytes, only 1 left", nil},
		{"query missing value", "04 00 0000 07 0000000a 00000001 'x' 0001 01 0001", "<values>[0]", nil},
		{"query values without flag", "04 00 0000 07 0000000f 00000001 'x' 0001 00 0001 00000001 aa", "7 trailing bytes", nil},
		{"query page size truncated", "04 00 0000 07 0000000a 00000001 'x' 0001 04 0000", "<result_page_size>", nil},
		{"query timestamp truncated", "04 00 0000 07 0000000c 00000001 'x' 0001 20 00000000", "<timestamp>", nil},
		{"query trailing byte", "04 00 0000 07 00000009 00000001 'x' 0001 00 00", "1 trailing bytes", nil},
		{"query wrong field order", "04 00 0000 07 00000012 00000001 'x' 0001 0c 00000001 aa 00000064 00", "<paging_state>", nil},
		// PREPARE
		{"prepare v4 with flags", "04 00 0000 09 00000009 00000001 'x' 00000000", "4 trailing bytes", nil},
		{"prepare v5 without flags", "05 10 0000 09 00000005 00000001 'x'", "<flags>", nil},
		{"prepare v5 unknown flag", "05 10 0000 09 00000009 00000001 'x' 00000002", "unknown PREPARE flag bits 0x2", nil},
		{"prepare v5 keyspace missing", "05 10 0000 09 00000009 00000001 'x' 00000001", "<keyspace>", nil},
		{"prepare v5 keyspace without flag", "05 10 0000 09 0000000d 00000001 'x' 00000000 0002 'ks'", "4 trailing bytes", nil},
		// EXECUTE
		{"execute truncated id", "04 00 0000 0a 00000003 0010 aa", "need 16 bytes, only 1 left", nil},
		{"execute v1 with flags", "01 00 00 0a 00000009 0002 abcd 0000 0001 00", "trailing", nil},
		{"execute v1 unset", "01 00 00 0a 0000000c 0002 abcd 0001 fffffffe 0001", "not defined before protocol v4", nil},
		{"execute v2 v1-layout", "02 00 00 0a 00000008 0002 abcd 0000 0001", "1 trailing bytes", nil},
		{"execute keyspace flag in v4", "04 00 0000 0a 0000000b 0002 abcd 0001 80 0002 'ks'", "flag bits 0x80 are not defined", nil},
		// BATCH
		{"batch in v1", "01 00 00 0d 00000005 00 0000 0001", "BATCH is not defined in protocol v1", nil},
		{"batch type 3", "04 00 0000 0d 00000006 03 0000 0001 00", "unknown batch type 3", nil},
		{"batch kind 2", "04 00 0000 0d 0000000e 00 0001 02 00000001 'x' 0000 0001 00", "unknown kind 2", nil},
		{"batch names flag", "04 00 0000 0d 00000006 00 0000 0001 40", "CASSANDRA-10246", nil},
		{"batch keyspace flag in v4", "04 00 0000 0d 0000000a 00 0000 0001 80 0002 'ks'", "flag bits 0x80 are not defined", nil},
		{"batch values flag", "04 00 0000 0d 00000006 00 0000 0001 01", "flag bits 0x1 are not defined", nil},
		{"batch page size flag v5", "05 10 0000 0d 00000009 00 0000 0001 00000004", "flag bits 0x4 are not defined", nil},
		{"batch v2 with flags byte", "02 00 00 0d 00000006 00 0000 0001 00", "1 trailing bytes", nil},
		{"batch v3 without flags byte", "03 00 0000 0d 00000005 00 0000 0001", "<flags>", nil},
		{"batch serial consistency ONE", "04 00 0000 0d 00000008 00 0000 0001 10 0001", "neither SERIAL nor LOCAL_SERIAL", nil},
		{"batch unset in v3", "03 00 0000 0d 00000012 00 0001 00 00000001 'x' 0001 fffffffe 0001 00", "not defined before protocol v4", nil},
		{"batch unknown consistency", "04 00 0000 0d 00000006 00 0000 00ff 00", "unknown [consistency] 0x00ff", nil},
		{"batch count too large", "04 00 0000 0d 00000006 00 0001 0001 00", "<query_0>", nil},
		{"batch trailing byte", "04 00 0000 0d 00000007 00 0000 0001 00 00", "1 trailing bytes", nil},
	}
	for _, c := range cases {
		t.Run(c.name, func(t *testing.T) {
			req, err := DecodeRequest(hx(t, c.frame), c.decomp)
			if err == nil {
				t.Fatalf("accepted: %+v", req)
			}
			if req != nil {
				t.Errorf("non-nil request returned with error %v", err)
			}
			if !strings.Contains(err.Error(), c.want) {
				t.Errorf("error %q does not mention %q", err, c.want)
			}
		})
	}
}

// Error messages say what failed and where.
func TestErrorMessageShape(t *testing.T) {
	_, err := DecodeRequest(hx(t, "04 00 0000 07 0000000a 00000001 'x' 0001 10 0004"), nil)
	const want = "QUERY v4: <serial_consistency> at body offset 8: [consistency] 0x0004 is neither SERIAL nor LOCAL_SERIAL"
	if err == nil || err.Error() != want {
		t.Errorf("got  %v\nwant %s", err, want)
	}
}
