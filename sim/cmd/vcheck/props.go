package main

import (
	"encoding/json"
	"fmt"
	"os"
	"path/filepath"
	"sort"
	"time"
)

type scenRef struct {
	Name      string
	quickS    int // seconds of simulation on 16 children, quick tier
	thoroughS int
	Extra     []string
	// Procs > 1 runs the children of this pass with that GOMAXPROCS: real parallelism
	// inside each bubble (schedules are then not replayable; used where a property is
	// about truly concurrent callers and the code has no yield point to interleave at)
	Procs int
}

type propSpec struct {
	Level     string
	Scenarios []scenRef
	// CrashProperty: a child killed by a panic inside a run counts as a violation of this
	// property (empty: infrastructure trouble). DeadlockProperty likewise for a proven
	// driver lock deadlock.
	CrashProperty    string
	DeadlockProperty string
	// RaceScenario: the thorough tier repeats this scenario under the race detector
	RaceScenario string
	Rule         string
	Real, Stub   []string
	Assumptions  []string
}

var commonReal = []string{"all of gocql reached by the scenario (session, executor, policies, pools, connection, framing, marshalling): real code built from /repo with -tags verif", "Go runtime scheduler, channels, sync primitives: real"}
var commonStub = []string{"Cassandra nodes: simulated state machine over the independent cqlspec codec", "network: in-memory simnet.Conn/dialer", "clock and timers: testing/synctest fake clock"}
var commonAssume = []string{
	"a clean batch is evidence, not proof: only the seeded schedules/fault sequences of this run were explored",
	"Go select/scheduler randomness cannot be seeded; children run with GOMAXPROCS=1, one stimulus per step, and replays are accepted only when they reproduce 3/3",
	"the fake clock is monotonic: no backward jumps or skew",
	"interleavings in which a goroutine is parked while it holds a driver mutex are not explored (synctest limitation)",
}

// crashProperty: a child killed by a panic inside a run of that scenario is a violation
// of this property (checks of the scenario's other properties only note it).
var crashProperty = map[string]string{
	"mux": "C06", "wr": "C07", "ids": "C08", "pick": "C11", "wire": "C04", "byz": "C05", "retry": "C13", "prep": "C14",
	"page": "C15", "topo": "C16", "life": "C17", "uuid": "C19", "sec": "C20",
}

var wireRule = "runs of scenario wire (generated logical requests and responses on a connection negotiated per run: protocol 1-5 x compressor x advertised set); distinct = distinct canonical-log fingerprint; non-trivial = at least one request/response variation beyond the defaults was drawn and at least one operation completed"

var properties = map[string]*propSpec{
	"C03": {Level: "exploration", Scenarios: []scenRef{{Name: "wire", quickS: 20, thoroughS: 600, Extra: []string{"-sim.nofaultevery=0"}}}, Rule: wireRule},
	"C04": {Level: "exploration", Scenarios: []scenRef{{Name: "wire", quickS: 20, thoroughS: 600, Extra: []string{"-sim.nofaultevery=0"}}}, Rule: wireRule},
	"C18": {Level: "exploration", Scenarios: []scenRef{{Name: "wire", quickS: 20, thoroughS: 600, Extra: []string{"-sim.nofaultevery=0"}}, {Name: "wire", quickS: 12, thoroughS: 180, Extra: []string{"-sim.nofaultevery=0"}, Procs: 4}}, Rule: wireRule},
	"C01": {Level: "exploration", Scenarios: []scenRef{{Name: "mux", quickS: 20, thoroughS: 600}}, CrashProperty: "C01",
		Rule: "runs of scenario mux; distinct = distinct canonical-log fingerprint; non-trivial = at least one injected fault or park fired and at least one operation completed"},
	"C05": {Level: "exploration", Scenarios: []scenRef{{Name: "byz", quickS: 25, thoroughS: 900}},
		Rule: "runs of scenario byz (a node that corrupts 1-3 tape-chosen outgoing frames per run); distinct = distinct canonical-log fingerprint; non-trivial = at least one mutation fired and at least one operation completed"},
	"C07": {Level: "exploration", Scenarios: []scenRef{{Name: "wr", quickS: 20, thoroughS: 600}}, CrashProperty: "C07",
		Rule: "runs of scenario wr; distinct = distinct canonical-log fingerprint; non-trivial = at least one write fault, cancel or park fired and at least one operation completed"},
	"C13": {Level: "exploration", Scenarios: []scenRef{{Name: "retry", quickS: 20, thoroughS: 600}, {Name: "life", quickS: 8, thoroughS: 120}},
		Rule: "runs of scenario retry (scripted per-attempt outcomes x retry policy x speculative policy x tape-chosen host order, exact and relaxed configurations); distinct = distinct canonical-log fingerprint; non-trivial = at least one failed attempt, cancel, connection loss or park occurred and at least one operation completed"},
	"C14": {Level: "exploration", Scenarios: []scenRef{{Name: "prep", quickS: 20, thoroughS: 600}, {Name: "prep", quickS: 8, thoroughS: 120, Procs: 4}},
		Rule: "runs of scenario prep (concurrent executors of 1-3 statements, small caches, PREPARE failures, UNPREPARED answers after node restarts, parks inside prepareStatement); distinct = distinct canonical-log fingerprint; non-trivial = at least one fault or park fired and at least one operation completed"},
	"C15": {Level: "exploration", Scenarios: []scenRef{{Name: "page", quickS: 20, thoroughS: 600}},
		Rule: "runs of scenario page (scripted pages incl. empty ones, page sizes, prefetch thresholds, four consumers stepped row by row, manual paging, a fetch failure at any page, prefetch reply racing the consumer); distinct = distinct canonical-log fingerprint; non-trivial = at least one fault or park fired and at least one operation completed"},
	"C19": {Level: "exploration", Scenarios: []scenRef{{Name: "uuid", quickS: 8, thoroughS: 200, Extra: []string{"-sim.nofaultevery=0"}},
		{Name: "uuid", quickS: 6, thoroughS: 100, Extra: []string{"-sim.nofaultevery=0"}, Procs: 8}},
		Rule: "runs of scenario uuid: 2-8 goroutines generating up to 200 time-UUIDs each at one stalled simulated instant (< 16384 per instant: the 14-bit clock sequence), tape-chosen forward clock jumps between batches; distinct = distinct canonical-log fingerprint; non-trivial = concurrent generators ran and at least one batch completed"},
	"C20": {Level: "exploration", Scenarios: []scenRef{{Name: "sec", quickS: 25, thoroughS: 600}},
		Rule: "runs of scenario sec: one cell of the documented TLS table (Config nil/present x InsecureSkipVerify x EnableHostVerification x ServerName x CA / key-pair file variants x certificate presented x host form) with real crypto/tls over the simulated transport, or one cell of the authentication table (class demanded x client authenticator x credentials); distinct = distinct canonical-log fingerprint; non-trivial = a non-default variant was drawn and the session attempt completed"},
	"C16": {Level: "exploration", Scenarios: []scenRef{{Name: "topo", quickS: 25, thoroughS: 600}}, DeadlockProperty: "C17",
		Rule: "runs of scenario topo: tape-chosen membership/event/fault histories on a cluster model, each step followed by a settle and a full comparison of ring, address index, host list, pools and policy with the model; distinct = distinct canonical-log fingerprint; non-trivial = at least one membership change or fault was applied and at least one comparison completed"},
	"C17": {Level: "exploration", Scenarios: []scenRef{{Name: "life", quickS: 25, thoroughS: 600}, {Name: "sec", quickS: 6, thoroughS: 60}, {Name: "life", quickS: 8, thoroughS: 120, Procs: 4}}, DeadlockProperty: "C17", RaceScenario: "life",
		Rule: "runs of scenario life (queries, 1-2 Session.Close calls at tape-chosen points, events, connection and control-connection losses, handshake failures, dial refusals, parks at pool / debouncer / control / Close yield points) and of scenario sec (goroutines surviving failed session creation); distinct = distinct canonical-log fingerprint; non-trivial = at least one fault or park fired and at least one operation completed"},
	"C11": {Level: "exploration", Scenarios: []scenRef{{Name: "pick", quickS: 12, thoroughS: 500}, {Name: "pick", quickS: 8, thoroughS: 100, Procs: 8}},
		Rule: "runs of scenario pick: generated cluster layouts and add/remove/up/down/keyspace histories against a host-set model, picks iterated to exhaustion, plus scheduled picks racing mutations; distinct = distinct canonical-log fingerprint; non-trivial = at least one state-changing history op was applied and at least one checked pick with two or more known hosts completed"},
	"C08": {Level: "exploration", Scenarios: []scenRef{{Name: "ids", quickS: 15, thoroughS: 600, Extra: []string{"-sim.nofaultevery=0"}}}, CrashProperty: "C08",
		Rule: "runs of scenario ids: tape-chosen interleavings of the allocator's atomic steps; distinct = distinct canonical-log fingerprint; non-trivial = at least one park fired (two callers inside the allocator at once) and at least one operation completed"},
	"C06": {Level: "exploration", Scenarios: []scenRef{{Name: "mux", quickS: 20, thoroughS: 600}, {Name: "life", quickS: 10, thoroughS: 200}}, CrashProperty: "C06", DeadlockProperty: "C06",
		Rule: "runs of scenario mux, and of scenario life for connections (pooled and control) that fail in the middle of a response; distinct = distinct canonical-log fingerprint; non-trivial = at least one injected fault or park fired and at least one operation completed"},
}

func writeEvidence(prop string, spec *propSpec, tier string, seed int64, total *agg, per map[string]*agg, nviol int, wall time.Duration) {
	scen := map[string]interface{}{}
	var names []string
	for n := range per {
		names = append(names, n)
	}
	sort.Strings(names)
	for _, n := range names {
		a := per[n]
		rate := 0.0
		if wall > 0 {
			rate = float64(a.runs) / wall.Hours()
		}
		scen[n] = map[string]interface{}{
			"runs": a.runs, "fault_free_runs": a.nofaultRuns, "steps": a.steps, "simulated_seconds": float64(a.simNS) / 1e9,
			"operations_completed": a.ops, "distinct_fingerprints": len(a.fps), "distinct_nontrivial": len(a.fpsNontrivial),
			"runs_per_hour": int64(rate), "faults_fired": a.faults, "parks_fired": a.parks, "probes": a.probes,
		}
	}
	samples := total.samples
	if len(samples) == 0 {
		samples = []interface{}{"(no run produced a sample trace)"}
	}
	dn := len(total.fpsNontrivial)
	ev := map[string]interface{}{
		"property_id": prop,
		"tier":        tier,
		"seed":        seed,
		"level":       spec.Level,
		"wall_s":      wall.Seconds(),
		"violations":  nviol,
		"coverage": map[string]interface{}{
			"evaluations":         total.runs,
			"distinct_nontrivial": dn,
			"rule":                spec.Rule,
			"samples":             samples,
			"exhaustive":          false,
			"simulated_seconds":   float64(total.simNS) / 1e9,
			"steps":               total.steps,
			"runs_per_hour":       int64(float64(total.runs) / wall.Hours()),
			"seeds_per_hour":      int64(float64(total.runs) / wall.Hours()),
			"faults_fired":        total.faults,
			"parks_fired":         total.parks,
			"probes":              total.probes,
			"scenarios":           scen,
			"components_real":     append(append([]string{}, commonReal...), spec.Real...),
			"components_stub":     append(append([]string{}, commonStub...), spec.Stub...),
		},
		"assumptions": append(append([]string{}, commonAssume...), spec.Assumptions...),
	}
	os.MkdirAll(filepath.Join(outDir, "evidence"), 0o755)
	b, _ := json.MarshalIndent(ev, "", " ")
	if err := os.WriteFile(filepath.Join(outDir, "evidence", prop+".json"), b, 0o644); err != nil {
		fmt.Fprintf(os.Stderr, "vcheck: cannot write evidence: %v\n", err)
	}
}
