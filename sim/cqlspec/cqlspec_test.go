package cqlspec

import (
	"bytes"
	"encoding/hex"
	"reflect"
	"strings"
	"testing"
)

// hx parses the byte-vector notation used by the tests: hex digits (whitespace and
// '|' ignored) mixed with 'quoted ASCII'.
func hx(t testing.TB, s string) []byte {
	t.Helper()
	var out []byte
	for len(s) > 0 {
		if s[0] == '\'' {
			end := strings.IndexByte(s[1:], '\'')
			if end < 0 {
				t.Fatalf("hx: unterminated quote in %q", s)
			}
			out = append(out, s[1:1+end]...)
			s = s[end+2:]
			continue
		}
		end := strings.IndexByte(s, '\'')
		if end < 0 {
			end = len(s)
		}
		clean := strings.NewReplacer(" ", "", "\n", "", "\t", "", "|", "").Replace(s[:end])
		b, err := hex.DecodeString(clean)
		if err != nil {
			t.Fatalf("hx: %v in %q", err, s[:end])
		}
		out = append(out, b...)
		s = s[end:]
	}
	return out
}

const id16 = "000102030405060708090a0b0c0d0e0f"

func mustDecode(t *testing.T, frame []byte, d Decompressor) *Request {
	t.Helper()
	req, err := DecodeRequest(frame, d)
	if err != nil {
		t.Fatalf("DecodeRequest: %v\nframe: % x", err, frame)
	}
	if !bytes.Equal(req.Raw, frame) {
		t.Fatalf("Raw differs from the input frame")
	}
	return req
}

func eq(t *testing.T, what string, got, want any) {
	t.Helper()
	if !reflect.DeepEqual(got, want) {
		t.Errorf("%s: got %#v, want %#v", what, got, want)
	}
}
