#!/bin/bash
# mutcheck.sh <worktree-of-repo-with-a-seeded-change> <property...>: runs the quick checks of the
# given properties against that checkout (not /repo), writing replays/evidence under <worktree>/.verifout
wt=$1; shift
export VERIF_REPO=$wt VERIF_OUT=$wt/.verifout
mkdir -p $VERIF_OUT
for p in "$@"; do
  /verif/check $p --tier quick ${BUDGET:+--budget $BUDGET} > $VERIF_OUT/$p.log 2>&1
  echo "$p exit=$? $(grep -c '^VIOLATION' $VERIF_OUT/$p.log) violation line(s): $(grep -A1 '^VIOLATION' $VERIF_OUT/$p.log | grep signature | head -3 | cut -c1-160 | tr '\n' ';')"
done
