package kernel

import (
	"fmt"
	"hash/fnv"
	"math/rand"
	"os"
	"runtime"
	"sort"
	"strings"
	"sync"
	"sync/atomic"
	"testing/synctest"
	"time"
)

// Violation is an oracle verdict. Signature identifies the violated clause (and, where
// useful, the site) so that the known-findings file can name one defect without masking
// other violations of the same property.
type Violation struct {
	Property  string `json:"property"`
	Signature string `json:"signature"`
	Message   string `json:"message"`
}

// Action is one thing the central loop may do at a step. Do must not block.
type Action struct {
	Key    string // stable name, used for ordering and in the log
	Rank   int    // lower ranks sort first (0 tasks, 1 deliveries, 2 resumes, 3 time, 5+ faults)
	Weight int    // relative probability; <=0 disables
	Do     func()
}

// ParkSpec selects the Nth time (1-based) a yield point is hit in a run.
type ParkSpec struct {
	Point string
	Nth   int
}

type parked struct {
	key   string
	owner string
	ch    chan struct{}
}

// burstMode: the runner asks for task bursts (parallel passes only; VERIF_BURST=1).
var burstMode = os.Getenv("VERIF_BURST") != ""

// Kernel owns the tape, the log and the loop of one simulated run.
type Kernel struct {
	Tape     *Tape
	Seed     int64
	MaxSteps int
	// TimeMenu are the durations the "advance time" action chooses from (index 0 is the
	// boring one).
	TimeMenu   []time.Duration
	TaskWeight int
	TimeWeight int
	ParkWeight int
	// FaultWeight is the weight of "inject some fault" as a whole (actions of rank >= 5
	// share it, so the fault rate does not grow with the number of fault options);
	// FaultBudget bounds the faults per run.
	FaultWeight int
	FaultBudget int
	faultsUsed  int
	wake        chan struct{}
	// ParkAll makes every yield park (step-level scheduling: the kernel releases exactly
	// one goroutine at a time). Current names the task that was scheduled last.
	ParkAll bool
	Current string

	// Sources contribute further actions (network, node, faults) at every step.
	Sources []func() []Action
	// PreStep hooks run at every quiescence before actions are collected (node
	// processing, cheap invariants).
	PreStep []func()

	Progress *int64 // bumped every step; read by the real-time watchdog

	deltaRng *rand.Rand

	mu     sync.Mutex
	step   int
	log    []string
	window []string
	probes map[string]int
	faults map[string]int
	parks  map[string]int
	tasks  []*Task
	parked []*parked
	// burst barrier (parallel passes): tasks released together spin until all have arrived
	burstWant    int32
	burstArrived int32
	plan         []ParkSpec
	armed        map[string]bool
	noParks      bool
	pcount       map[string]int
	settling     bool
	viol         *Violation
	opsDone      int
	start        time.Time
	keepLog      bool
}

// New creates a kernel. It must be called inside the synctest bubble.
func New(seed int64, tape *Tape) *Kernel {
	return &Kernel{
		Tape:        tape,
		Seed:        seed,
		MaxSteps:    400,
		TimeMenu:    []time.Duration{10 * time.Millisecond, time.Millisecond, 100 * time.Millisecond, time.Second},
		TaskWeight:  6,
		TimeWeight:  2,
		ParkWeight:  4,
		FaultWeight: 2,
		FaultBudget: 4,
		wake:        make(chan struct{}, 1),
		deltaRng:    rand.New(rand.NewSource(seed ^ 0x5eed5eed)),
		probes:      map[string]int{},
		faults:      map[string]int{},
		parks:       map[string]int{},
		pcount:      map[string]int{},
		start:       time.Now(),
		keepLog:     true,
	}
}

// ---------------------------------------------------------------------------------
// records, probes, violations

// Rec appends a record to the canonical log. Records emitted between two quiescence
// points are sorted before they are appended, so the order in which goroutines ran
// inside one window does not change the log. Rec never draws from the tape and never
// reads a clock.
func (k *Kernel) Rec(format string, args ...interface{}) {
	s := fmt.Sprintf(format, args...)
	k.mu.Lock()
	k.window = append(k.window, s)
	k.mu.Unlock()
}

func (k *Kernel) flushWindow() {
	k.mu.Lock()
	if len(k.window) > 0 {
		sort.Strings(k.window)
		for _, s := range k.window {
			k.log = append(k.log, fmt.Sprintf("%04d %s", k.step, s))
		}
		k.window = k.window[:0]
	}
	k.mu.Unlock()
}

// Probe counts a "this rare condition was reached" event.
func (k *Kernel) Probe(name string) {
	k.mu.Lock()
	k.probes[name]++
	k.mu.Unlock()
}

// Fault counts an injected fault that actually fired.
func (k *Kernel) Fault(name string) {
	k.mu.Lock()
	k.faults[name]++
	k.mu.Unlock()
}

// OpDone counts a completed workload operation.
func (k *Kernel) OpDone() {
	k.mu.Lock()
	k.opsDone++
	k.mu.Unlock()
}

// Violate records the first violation of the run; the loop stops at the next step.
func (k *Kernel) Violate(property, signature, format string, args ...interface{}) {
	msg := fmt.Sprintf(format, args...)
	k.mu.Lock()
	if k.viol == nil {
		k.viol = &Violation{Property: property, Signature: signature, Message: msg}
		k.window = append(k.window, "VIOLATION "+property+" "+signature+" "+msg)
	}
	k.mu.Unlock()
}

// Violation returns the recorded violation, if any.
func (k *Kernel) Violation() *Violation {
	k.mu.Lock()
	defer k.mu.Unlock()
	return k.viol
}

// Step returns the current step number (the global event sequence number).
func (k *Kernel) Step() int {
	k.mu.Lock()
	defer k.mu.Unlock()
	return k.step
}

// Settling reports whether the run is in its fault-free settle phase.
func (k *Kernel) Settling() bool {
	k.mu.Lock()
	defer k.mu.Unlock()
	return k.settling
}

// SimTime returns the simulated time elapsed since the kernel was created.
func (k *Kernel) SimTime() time.Duration { return time.Since(k.start) }

// ---------------------------------------------------------------------------------
// tasks

// Task is a workload goroutine that performs one public-API call per scheduling.
type Task struct {
	Name string
	k    *Kernel
	gate chan bool
	idle bool
	done bool
	Op   string
}

// Spawn starts a workload task. fn must call t.Step before each operation.
func (k *Kernel) Spawn(name string, fn func(t *Task)) *Task {
	t := &Task{Name: name, k: k, gate: make(chan bool, 1)}
	k.mu.Lock()
	k.tasks = append(k.tasks, t)
	k.mu.Unlock()
	go func() {
		defer func() {
			k.mu.Lock()
			t.done = true
			t.idle = false
			k.mu.Unlock()
		}()
		fn(t)
	}()
	return t
}

// Step parks the task until the kernel schedules it. It returns false when the workload
// must stop issuing operations (settle phase or violation).
func (t *Task) Step(label string) bool {
	k := t.k
	k.mu.Lock()
	if k.settling || k.viol != nil {
		k.mu.Unlock()
		return false
	}
	t.idle = true
	t.Op = label
	k.mu.Unlock()
	ok := <-t.gate
	if want := atomic.LoadInt32(&k.burstWant); ok && want > 0 {
		// released in a burst: start at the same instant as the others (spin barrier)
		atomic.AddInt32(&k.burstArrived, 1)
		for i := 0; atomic.LoadInt32(&k.burstArrived) < want && i < 2000000; i++ {
			if i&1023 == 1023 {
				runtime.Gosched()
			}
		}
	}
	return ok
}

// TasksDone reports whether every task function has returned.
func (k *Kernel) TasksDone() bool {
	k.mu.Lock()
	defer k.mu.Unlock()
	for _, t := range k.tasks {
		if !t.done {
			return false
		}
	}
	return true
}

// RunningOps returns labels of tasks currently inside an operation (not idle, not done).
func (k *Kernel) RunningOps() []string {
	k.mu.Lock()
	defer k.mu.Unlock()
	var out []string
	for _, t := range k.tasks {
		if !t.done && !t.idle {
			out = append(out, t.Name+":"+t.Op)
		}
	}
	return out
}

// ---------------------------------------------------------------------------------
// parks

// unsafeStacks lists call-stack patterns under which a driver mutex is held across the
// yield point; parking there would leave other goroutines blocked on a sync.Mutex, which
// synctest does not treat as durably blocked (the bubble would freeze). Each entry is a
// set of substrings that must all occur in the stack.
var unsafeStacks = [][]string{
	{"(*policyConnPool).Close"},
	{"(*policyConnPool).SetHosts"},
	{"(*hostConnPool).connect", "closeWithError"},
	{"(*schemaDescriber).getSchema"},
	{"(*ringDescriber).GetHosts"},
	{"(*tokenAwareHostPolicy).updateReplicas"},
}

func stackUnsafe() bool {
	pcs := make([]uintptr, 64)
	n := runtime.Callers(3, pcs)
	frames := runtime.CallersFrames(pcs[:n])
	var names []string
	for {
		f, more := frames.Next()
		names = append(names, f.Function)
		if !more {
			break
		}
	}
	all := strings.Join(names, "\n")
	for _, pat := range unsafeStacks {
		ok := true
		for _, s := range pat {
			if !strings.Contains(all, s) {
				ok = false
				break
			}
		}
		if ok {
			return true
		}
	}
	return false
}

// SetPlan installs the park plan of the run. Occurrences are counted from now on: the
// hits of a point before the plan was installed (session creation) do not use them up.
func (k *Kernel) SetPlan(plan []ParkSpec) {
	k.mu.Lock()
	k.plan = make([]ParkSpec, len(plan))
	for i, ps := range plan {
		ps.Nth += k.pcount[ps.Point]
		k.plan[i] = ps
	}
	k.mu.Unlock()
}

// ArmNext makes the next hit of a yield point park, whatever the plan says (one shot). A
// task arms a point right before the operation it is about to start, so the park lands
// inside that operation rather than at the Nth hit by whoever comes along.
func (k *Kernel) ArmNext(point string) {
	k.mu.Lock()
	if k.armed == nil {
		k.armed = map[string]bool{}
	}
	k.armed[point] = true
	k.mu.Unlock()
}

// Disarm withdraws an ArmNext that has not fired.
func (k *Kernel) Disarm(point string) {
	k.mu.Lock()
	delete(k.armed, point)
	k.mu.Unlock()
}

// HoldParks makes every yield pass until the next quiescence (Quiesce clears it): used by a
// scenario for a stretch in which the root goroutine cannot act, because a goroutine of the
// driver waits on a mutex, which the bubble does not count as idle.
func (k *Kernel) HoldParks() {
	k.mu.Lock()
	k.noParks = true
	k.mu.Unlock()
}

// DrawPlan draws a park plan from the tape: depth 0..maxDepth (0 = none), each entry a
// point from points and an occurrence number 1..maxNth.
func (k *Kernel) DrawPlan(points []string, maxDepth, maxNth int) []ParkSpec {
	if len(points) == 0 || maxDepth <= 0 {
		return nil
	}
	d := k.Tape.Next(maxDepth + 1)
	var plan []ParkSpec
	for i := 0; i < d; i++ {
		p := points[k.Tape.Next(len(points))]
		n := 1 + k.Tape.Next(maxNth)
		plan = append(plan, ParkSpec{Point: p, Nth: n})
	}
	k.SetPlan(plan)
	return plan
}

// Yield is called (through the driver's verif hook) at a yield point. If the park plan
// selects this occurrence the caller blocks until the kernel resumes it.
func (k *Kernel) Yield(point, ident string) {
	k.mu.Lock()
	k.pcount[point]++
	n := k.pcount[point]
	match := k.ParkAll && !k.settling
	if !k.settling && k.armed[point] {
		delete(k.armed, point)
		match = true
	}
	if !k.settling && !match {
		for _, ps := range k.plan {
			if ps.Point == point && ps.Nth == n {
				match = true
				break
			}
		}
	}
	if match && k.noParks {
		k.probes["park.skipped.root-cannot-act"]++
		match = false
	}
	if !match {
		k.mu.Unlock()
		return
	}
	if ident == "" {
		ident = k.Current
	}
	if !k.ParkAll && stackUnsafe() {
		k.probes["park.skipped.lockheld"]++
		k.mu.Unlock()
		return
	}
	p := &parked{key: fmt.Sprintf("%s@%s#%d", point, ident, n), owner: k.Current, ch: make(chan struct{})}
	k.parked = append(k.parked, p)
	k.parks[point]++
	k.window = append(k.window, "park "+p.key)
	k.mu.Unlock()
	<-p.ch
}

// ---------------------------------------------------------------------------------
// the loop

// Quiesce advances the fake clock by a unique small delta and waits until every other
// goroutine of the bubble is durably blocked.
func (k *Kernel) Quiesce() {
	d := time.Duration(1000+k.deltaRng.Intn(997)) * time.Nanosecond
	time.Sleep(d)
	synctest.Wait()
	k.mu.Lock()
	k.noParks = false
	k.mu.Unlock()
	if k.Progress != nil {
		atomic.AddInt64(k.Progress, 1)
	}
	k.flushWindow()
}

func (k *Kernel) collect() []Action {
	var acts []Action
	k.mu.Lock()
	for _, t := range k.tasks {
		if t.idle && !t.done {
			t := t
			acts = append(acts, Action{Key: "task:" + t.Name + ":" + t.Op, Rank: 0, Weight: k.TaskWeight, Do: func() {
				k.mu.Lock()
				t.idle = false
				k.Current = t.Name
				k.mu.Unlock()
				atomic.StoreInt32(&k.burstWant, 0)
				t.gate <- true
			}})
		}
	}
	if burstMode && runtime.GOMAXPROCS(0) > 1 {
		// a parallel pass (the child runs with several processors): releasing every idle
		// task at once makes their operations really overlap, which is the only way to put
		// two callers inside a stretch of driver code that has no yield point
		var idle []*Task
		for _, t := range k.tasks {
			if t.idle && !t.done {
				idle = append(idle, t)
			}
		}
		if max := runtime.GOMAXPROCS(0); len(idle) > max {
			idle = idle[:max]
		}
		if len(idle) >= 2 {
			acts = append(acts, Action{Key: "task-burst", Rank: 0, Weight: 2 * k.TaskWeight, Do: func() {
				k.mu.Lock()
				for _, t := range idle {
					t.idle = false
				}
				k.Current = idle[0].Name
				k.probes["parallel.task-burst"]++
				k.mu.Unlock()
				atomic.StoreInt32(&k.burstArrived, 0)
				atomic.StoreInt32(&k.burstWant, int32(len(idle)))
				for _, t := range idle {
					t.gate <- true
				}
			}})
		}
	}
	for _, p := range k.parked {
		p := p
		acts = append(acts, Action{Key: "resume:" + p.key, Rank: 2, Weight: k.ParkWeight, Do: func() {
			k.mu.Lock()
			for i, q := range k.parked {
				if q == p {
					k.parked = append(k.parked[:i], k.parked[i+1:]...)
					break
				}
			}
			k.Current = p.owner
			k.mu.Unlock()
			close(p.ch)
		}})
	}
	k.mu.Unlock()
	for _, src := range k.Sources {
		acts = append(acts, src()...)
	}
	sort.SliceStable(acts, func(i, j int) bool {
		if acts[i].Rank != acts[j].Rank {
			return acts[i].Rank < acts[j].Rank
		}
		return acts[i].Key < acts[j].Key
	})
	return acts
}

// Loop runs the central loop until done() reports true at a quiescence with every task
// finished, the step budget is used up, or a violation is recorded.
func (k *Kernel) Loop(done func() bool) {
	for {
		k.Quiesce()
		for _, h := range k.PreStep {
			h()
		}
		k.mu.Lock()
		stop := k.viol != nil || k.step >= k.MaxSteps
		k.mu.Unlock()
		if stop {
			return
		}
		acts := k.collect()
		if k.TasksDone() && len(k.parkedKeys()) == 0 && (done == nil || done()) {
			return
		}
		// the time action is always available
		acts = append(acts, Action{Key: "time", Rank: 3, Weight: k.TimeWeight})
		var normal, faults []Action
		for _, a := range acts {
			if a.Weight <= 0 {
				continue
			}
			if a.Rank >= 5 {
				if k.faultsUsed < k.FaultBudget {
					faults = append(faults, a)
				}
				continue
			}
			normal = append(normal, a)
		}
		sort.SliceStable(normal, func(i, j int) bool { return normal[i].Rank < normal[j].Rank })
		ws := make([]int, 0, len(normal)+1)
		for _, a := range normal {
			ws = append(ws, a.Weight)
		}
		if len(faults) > 0 && k.FaultWeight > 0 {
			ws = append(ws, k.FaultWeight)
		}
		idx := 0
		if len(ws) > 1 {
			idx = k.Tape.Weighted(ws)
		}
		var a Action
		if len(ws) == 0 {
			a = Action{Key: "time"}
		} else if idx < len(normal) {
			a = normal[idx]
		} else {
			fw := make([]int, len(faults))
			for i, f := range faults {
				fw[i] = f.Weight
			}
			a = faults[k.Tape.Weighted(fw)]
			k.faultsUsed++
		}
		k.mu.Lock()
		k.step++
		k.mu.Unlock()
		if a.Key == "time" {
			d := k.TimeMenu[k.Tape.Next(len(k.TimeMenu))]
			k.Rec("act time %v", d)
			k.AdvanceTime(d)
			continue
		}
		k.Rec("act %s", a.Key)
		a.Do()
	}
}

// Wake interrupts a time advance: the system produced output the simulator should look
// at (a request was written, a dial arrived). It never blocks.
func (k *Kernel) Wake() {
	select {
	case k.wake <- struct{}{}:
	default:
	}
}

// AdvanceTime lets up to d of simulated time pass; it returns early when the system
// under test produces output for the simulator.
func (k *Kernel) AdvanceTime(d time.Duration) {
	select {
	case <-k.wake:
	default:
	}
	t := time.NewTimer(d)
	select {
	case <-k.wake:
		t.Stop()
	case <-t.C:
	}
}

// ParkedKeys lists the yield points at which goroutines are currently held.
func (k *Kernel) ParkedKeys() []string { return k.parkedKeys() }

func (k *Kernel) parkedKeys() []string {
	k.mu.Lock()
	defer k.mu.Unlock()
	var out []string
	for _, p := range k.parked {
		out = append(out, p.key)
	}
	return out
}

// ResumeAll releases every goroutine held at a yield point (the run goes on).
func (k *Kernel) ResumeAll() {
	k.mu.Lock()
	ps := k.parked
	k.parked = nil
	k.mu.Unlock()
	for _, p := range ps {
		close(p.ch)
	}
}

// BeginSettle switches the run into its fault-free phase: parked goroutines are
// released, idle tasks are told to stop, later yields never park.
func (k *Kernel) BeginSettle() {
	k.mu.Lock()
	k.settling = true
	ps := k.parked
	k.parked = nil
	var idle []*Task
	for _, t := range k.tasks {
		if t.idle && !t.done {
			t.idle = false
			idle = append(idle, t)
		}
	}
	k.mu.Unlock()
	for _, p := range ps {
		close(p.ch)
	}
	for _, t := range idle {
		t.gate <- false
	}
}

// SettleUntil repeats {quiesce; each(); advance time by tick} until cond() holds or
// bound of simulated time has passed. It reports whether cond() held.
func (k *Kernel) SettleUntil(bound, tick time.Duration, each func(), cond func() bool) bool {
	deadline := time.Now().Add(bound)
	for {
		k.Quiesce()
		if each != nil {
			each()
			k.Quiesce()
		}
		if cond() {
			return true
		}
		if !time.Now().Before(deadline) {
			return false
		}
		time.Sleep(tick)
	}
}

// ---------------------------------------------------------------------------------
// results

// Result summarises a run.
type Result struct {
	Steps       int            `json:"steps"`
	SimNS       int64          `json:"sim_ns"`
	Faults      map[string]int `json:"faults,omitempty"`
	Parks       map[string]int `json:"parks,omitempty"`
	Probes      map[string]int `json:"probes,omitempty"`
	OpsDone     int            `json:"ops_done"`
	Fingerprint string         `json:"fingerprint"`
	TapeLen     int            `json:"tape_len"`
	Violation   *Violation     `json:"violation,omitempty"`
}

// Finish flushes the log and returns the run summary.
func (k *Kernel) Finish() Result {
	k.flushWindow()
	k.mu.Lock()
	defer k.mu.Unlock()
	h := fnv.New64a()
	for _, l := range k.log {
		h.Write([]byte(l))
		h.Write([]byte{'\n'})
	}
	return Result{
		Steps:       k.step,
		SimNS:       int64(time.Since(k.start)),
		Faults:      copyMap(k.faults),
		Parks:       copyMap(k.parks),
		Probes:      copyMap(k.probes),
		OpsDone:     k.opsDone,
		Fingerprint: fmt.Sprintf("%016x", h.Sum64()),
		TapeLen:     len(k.Tape.Rec),
		Violation:   k.viol,
	}
}

// Log returns a copy of the canonical log.
func (k *Kernel) Log() []string {
	k.mu.Lock()
	defer k.mu.Unlock()
	return append([]string(nil), k.log...)
}

func copyMap(m map[string]int) map[string]int {
	if len(m) == 0 {
		return nil
	}
	out := make(map[string]int, len(m))
	for k, v := range m {
		out[k] = v
	}
	return out
}

// BubbleGoroutines returns the stack blocks of all goroutines of the CURRENT bubble except
// the caller and the synctest plumbing. Goroutines leaked by earlier bubbles of the same
// process are not reported.
var stackBuf = make([]byte, 1<<20)

func BubbleGoroutines() []string {
	for {
		n := runtime.Stack(stackBuf, true)
		if n < len(stackBuf) {
			break
		}
		stackBuf = make([]byte, 2*len(stackBuf))
	}
	n := runtime.Stack(stackBuf, true)
	blocks := strings.Split(string(stackBuf[:n]), "\n\n")
	// the caller's own block names the bubble
	tag := ""
	for _, blk := range blocks {
		if strings.Contains(blk, "kernel.BubbleGoroutines(") {
			head := blk
			if nl := strings.IndexByte(blk, '\n'); nl >= 0 {
				head = blk[:nl]
			}
			if i := strings.Index(head, "synctest bubble "); i >= 0 {
				tag = strings.TrimRight(head[i:], "]:")
			}
			break
		}
	}
	if tag == "" {
		return nil
	}
	var out []string
	for _, blk := range blocks {
		nl := strings.IndexByte(blk, '\n')
		head := blk
		if nl >= 0 {
			head = blk[:nl]
		}
		if !strings.Contains(head, tag+"]") {
			continue
		}
		if strings.Contains(blk, "kernel.BubbleGoroutines(") || strings.Contains(head, "[synctest.Run") ||
			strings.Contains(blk, "testing/synctest.testingSynctestTest(") {
			continue // the caller itself, and the goroutines that wait for the bubble
		}
		out = append(out, blk)
	}
	return out
}
