// Package kernel is the deterministic-simulation core: one choice tape decides every
// interleaving, delay and fault of a run; one central loop (the root goroutine of a
// testing/synctest bubble) performs one action per step at quiescence.
package kernel

import (
	"fmt"
	"io"
	"math/rand"
)

// Tape is the single source of choices of a run. In search mode values come from a
// PRNG seeded from (VERIF_SEED, run index) and are recorded; in replay mode they come
// from a recorded slice (missing values read as 0, values out of range are reduced
// modulo n). Option 0 is always the boring choice, so zeroing or truncating a tape
// yields a simpler but still valid run: that is what shrinking relies on.
type Tape struct {
	rng    *rand.Rand
	replay []uint32
	isRep  bool
	Rec    []uint32
	// Out, when set, receives every value as it is drawn (one per line, unbuffered), so
	// the tape of a run that kills the process can be recovered.
	Out io.Writer
}

// NewTape returns a recording tape driven by seed.
func NewTape(seed int64) *Tape {
	return &Tape{rng: rand.New(rand.NewSource(seed))}
}

// ReplayTape returns a tape that replays vals.
func ReplayTape(vals []uint32) *Tape {
	return &Tape{replay: vals, isRep: true}
}

// Replaying reports whether the tape replays recorded values.
func (t *Tape) Replaying() bool { return t.isRep }

// Next returns a value in [0,n). n <= 1 consumes nothing and returns 0.
func (t *Tape) Next(n int) int {
	if n <= 1 {
		return 0
	}
	var v int
	if t.isRep {
		pos := len(t.Rec)
		if pos < len(t.replay) {
			v = int(t.replay[pos] % uint32(n))
		}
	} else {
		v = t.rng.Intn(n)
	}
	t.Rec = append(t.Rec, uint32(v))
	if t.Out != nil {
		fmt.Fprintf(t.Out, "%d\n", v)
	}
	return v
}

// Chance returns true with probability num/den; false is the boring outcome.
func (t *Tape) Chance(num, den int) bool {
	if num <= 0 {
		return false
	}
	// value 0..den-1; true iff value >= den-num so that 0 is "false"
	return t.Next(den) >= den-num
}

// Weighted picks an index with probability proportional to ws[i]; index 0 is reached by
// tape value 0 provided ws[0] > 0.
func (t *Tape) Weighted(ws []int) int {
	total := 0
	for _, w := range ws {
		total += w
	}
	if total <= 0 {
		return 0
	}
	v := t.Next(total)
	for i, w := range ws {
		if v < w {
			return i
		}
		v -= w
	}
	return len(ws) - 1
}

// Range returns a value in [lo,hi] (inclusive); lo is the boring value.
func (t *Tape) Range(lo, hi int) int {
	if hi <= lo {
		return lo
	}
	return lo + t.Next(hi-lo+1)
}
