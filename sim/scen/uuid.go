package scen

import (
	crand "crypto/rand"
	"encoding/hex"
	"encoding/json"
	"errors"
	"fmt"
	"io"
	"runtime"
	"sort"
	"strings"
	"sync"
	"sync/atomic"
	"time"

	"github.com/gocql/gocql"

	"github.com/gocql/gocql/verifsim/kernel"
)

// Scenario uuid (C19, the clauses with a clock or concurrency in them): 2-8 goroutines
// generate time-UUIDs from the current time while the simulated clock stands still (inside
// a bubble time does not move while goroutines run, so all UUIDs of a batch carry the same
// 100 ns timestamp and uniqueness rests on the clock sequence alone) or jumps forward by a
// tape-chosen amount between batches. Every UUID is checked for version, variant and the
// instant it carries; all UUIDs of the run are checked pairwise distinct. A few UUIDs are
// built from tape-chosen instants of the whole 60-bit range and read back.

func init() {
	register(&Scenario{
		Name:       "uuid",
		Properties: []string{"C19"},
		Run:        runUUID,
		Real:       []string{"gocql.TimeUUID / UUIDFromTime / UUID.Time / Timestamp / Version / Variant / String / ParseUUID / UnmarshalText / UnmarshalJSON (real code)", "Go runtime scheduler and atomics (real)"},
		Stub:       []string{"clock (testing/synctest fake clock: stalled while goroutines run, forward jumps only)", "callers (scripted goroutines)"},
		Rule: "one run = 1-6 batches; in each batch 2-8 goroutines released together generate 1-200 time-UUIDs each with TimeUUID() or UUIDFromTime(time.Now()) at one stalled instant, " +
			"batches separated by a tape-chosen forward jump (0 = same instant, 1 ns ... 1000 h); at most 16383 UUIDs share one instant (the 14-bit clock sequence is the stated bound: more cannot be distinct); " +
			"plus 4-24 UUIDs built from tape-chosen instants between 1583 and 5000 AD; plus 6-24 texts built from the tape (0-80 hex digits in lower/upper/mixed case; hyphens in the printed places, none, between all bytes, inside bytes, leading, trailing, doubled, padding up to 32-40 characters; one non-hex rune replacing or added at start/middle/end, braces, urn:uuid: prefixes, spaces) " +
			"given to ParseUUID, UnmarshalText and UnmarshalJSON and judged by a reference rule (must reject: a byte that is neither hex digit nor hyphen, or not exactly 32 digits; must accept: 32 digits without hyphens or in the printed 8-4-4-4-12 form; other hyphen placements with 32 digits: either answer, bytes checked when accepted); distinct = distinct canonical-log fingerprint; non-trivial = at least one batch shared its instant with another batch or more than one goroutine generated in a batch (counted as uuid.variant faults) and at least one batch completed",
	})
}

const uuidPerInstantBound = 16383 // < 2^14: the clock sequence has 14 bits

type uuidGen struct {
	u      gocql.UUID
	before time.Time // time.Now() just before the call
	after  time.Time // time.Now() just after the call
	exact  bool      // before is the very value handed to UUIDFromTime
}

func runUUID(e *Env) {
	k := e.K
	tp := k.Tape

	nBatches := 1 + tp.Next(6)
	e.Note("batches", nBatches)
	jumps := []time.Duration{0, 100 * time.Nanosecond, time.Nanosecond, 99 * time.Nanosecond, time.Microsecond,
		time.Millisecond, time.Second, time.Hour, 1000 * time.Hour, 101 * time.Nanosecond}

	seen := map[gocql.UUID]int{} // uuid → batch that produced it
	perInstant := 0              // UUIDs generated at the current stalled instant so far
	instants := 1
	total := 0

	for b := 0; b < nBatches; b++ {
		nG := 2 + tp.Next(7)
		counts := make([]int, nG)
		modes := make([]int, nG)  // 0 TimeUUID(), 1 UUIDFromTime(time.Now())
		yields := make([]int, nG) // Gosched after every n-th call (0 = never)
		sum := 0
		for g := range counts {
			counts[g] = []int{8, 1, 2, 50, 200, 117}[tp.Next(6)]
			modes[g] = tp.Next(2)
			yields[g] = []int{0, 1, 3, 16}[tp.Next(4)]
			sum += counts[g]
		}
		jump := time.Duration(0)
		if b > 0 {
			jump = jumps[tp.Next(len(jumps))]
			if jump == 0 && perInstant+sum > uuidPerInstantBound {
				// the workload's stated bound: never more than 2^14-1 UUIDs at one instant
				jump = 100 * time.Nanosecond
				k.Probe("uuid.bound-forced-jump")
			}
			if jump > 0 {
				time.Sleep(jump)
				// a jump below 100 ns may stay inside the same 100 ns tick: the timestamps
				// are then equal although the instants differ
				perInstantReset := time.Now().Truncate(100*time.Nanosecond) != time.Now().Add(-jump).Truncate(100*time.Nanosecond)
				if perInstantReset {
					perInstant = 0
					instants++
				} else {
					k.Probe("uuid.jump-within-one-tick")
					if perInstant+sum > uuidPerInstantBound {
						time.Sleep(100 * time.Nanosecond)
						perInstant = 0
						instants++
					}
				}
				k.Fault("uuid.variant:jump")
			} else {
				k.Fault("uuid.variant:same-instant-batch")
			}
		}
		if nG > 1 {
			k.Fault("uuid.variant:concurrent-generators")
		}
		k.Rec("batch %d goroutines=%d uuids=%d jump=%v", b, nG, sum, jump)

		// ---- generate: all goroutines released together, clock stalled ----
		at := time.Now()
		out := make([][]uuidGen, nG)
		var wg sync.WaitGroup
		start := make(chan struct{})
		// with real parallelism (GOMAXPROCS > 1, the parallel pass) the generators
		// additionally spin on a flag so that their first calls really coincide
		spin := runtime.GOMAXPROCS(0) > 1
		var ready, gate int32
		for g := 0; g < nG; g++ {
			g := g
			out[g] = make([]uuidGen, 0, counts[g])
			wg.Add(1)
			go func() {
				defer wg.Done()
				<-start
				if spin {
					atomic.AddInt32(&ready, 1)
					for n := 0; atomic.LoadInt32(&gate) == 0; n++ {
						if n%1024 == 1023 {
							runtime.Gosched()
						}
					}
				}
				for i := 0; i < counts[g]; i++ {
					var r uuidGen
					if modes[g] == 0 {
						r.before = time.Now()
						r.u = gocql.TimeUUID()
						r.after = time.Now()
					} else {
						t := time.Now()
						r.before, r.after, r.exact = t, t, true
						r.u = gocql.UUIDFromTime(t)
					}
					out[g] = append(out[g], r)
					if y := yields[g]; y > 0 && (i+1)%y == 0 {
						runtime.Gosched()
					}
				}
			}()
		}
		close(start)
		if spin {
			for n := 0; atomic.LoadInt32(&ready) < int32(nG) && n < 1<<22; n++ {
				runtime.Gosched()
			}
			atomic.StoreInt32(&gate, 1)
		}
		wg.Wait()
		if !time.Now().Equal(at) {
			// cannot happen in a bubble: nothing sleeps while the generators run
			k.Violate("HARNESS", "uuid/clock-moved", "the simulated clock moved from %v to %v while generators ran", at, time.Now())
			return
		}
		perInstant += sum
		total += sum
		if k.Progress != nil {
			atomic.AddInt64(k.Progress, 1) // the run never calls Quiesce (it would move the clock)
		}

		// ---- oracles ----
		for g := 0; g < nG; g++ {
			for i, r := range out[g] {
				if r.u.Version() != 1 || r.u.Variant() != gocql.VariantIETF {
					k.Violate("C19", "C19/wrong-version-or-variant", "batch %d goroutine %d call %d: generated time-UUID has version %d variant %d (want 1 and %d = RFC 4122)",
						b, g, i, r.u.Version(), r.u.Variant(), gocql.VariantIETF)
					return
				}
				got := r.u.Time()
				// to 100 ns: the carried instant lies within one tick of the instant the
				// UUID was generated at (bracketed by the clock readings around the call)
				if got.Before(r.before.Add(-99*time.Nanosecond)) || got.After(r.after.Add(99*time.Nanosecond)) {
					k.Violate("C19", "C19/time-roundtrip", "batch %d goroutine %d call %d (exact=%v): UUID generated between %v and %v simulated carries %v",
						b, g, i, r.exact, r.before.UTC(), r.after.UTC(), got)
					return
				}
				if ts := r.u.Timestamp(); ts != got.Sub(uuidEpoch).Nanoseconds()/100+uuidEpochTicks {
					k.Violate("C19", "C19/time-roundtrip", "batch %d goroutine %d call %d: Timestamp()=%d disagrees with Time()=%v", b, g, i, ts, got)
					return
				}
				if prev, dup := seen[r.u]; dup {
					k.Violate("C19", "C19/duplicate-timeuuid", "batch %d goroutine %d call %d: time-UUID already generated in batch %d of this run (%d UUIDs at this instant, %d in the run; clock sequence %d)",
						b, g, i, prev, perInstant, total, r.u.Clock())
					return
				}
				seen[r.u] = b
				// cheap sequential sanity: print and parse back
				if i < 4 {
					p, err := gocql.ParseUUID(r.u.String())
					if err != nil || p != r.u {
						k.Violate("C19", "C19/print-parse-roundtrip", "batch %d goroutine %d call %d: ParseUUID(String()) returned err=%v, equal=%v", b, g, i, err, p == r.u)
						return
					}
				}
			}
		}
		k.OpDone()
	}
	e.Note("uuids", total)
	e.Note("instants", instants)
	if perInstant > 8000 {
		k.Probe("uuid.instant>8000")
	}
	if total > 1000 {
		k.Probe("uuid.run>1000")
	}
	if len(seen) != total {
		k.Violate("C19", "C19/duplicate-timeuuid", "%d UUIDs generated, %d distinct", total, len(seen))
		return
	}
	// clock sequences at one instant must be what tells UUIDs apart: probe that the worst
	// case was really exercised (many UUIDs with one timestamp)
	byTS := map[int64]int{}
	for u := range seen {
		byTS[u.Timestamp()]++
	}
	var maxSame int
	for _, n := range byTS {
		if n > maxSame {
			maxSame = n
		}
	}
	e.Note("max_same_timestamp", maxSame)
	if maxSame > 1 {
		k.Probe("uuid.same-timestamp")
	}
	if maxSame > 1000 {
		k.Probe("uuid.same-timestamp>1000")
	}

	// ---- instants of the whole timestamp range, built and read back ----
	n := 4 + tp.Next(21)
	var years []int
	prev := gocql.UUID{0xa5, 0x5a, 0xff, 0x0f, 0xf0, 0x33, 0xcc, 0x99, 0x66, 0xff, 0x00, 0xa5, 0x5a, 0x0f, 0xf0, 0xff}
	var keptText, keptJSON []byte
	var keptOf gocql.UUID
	for i := 0; i < n; i++ {
		var t time.Time
		switch tp.Next(4) {
		case 0: // around now
			t = time.Now().Add(time.Duration(tp.Next(2000000)-1000000) * 37 * time.Microsecond)
		case 1: // 1970-2100
			t = time.Date(1970+tp.Next(131), time.Month(1+tp.Next(12)), 1+tp.Next(28), tp.Next(24), tp.Next(60), tp.Next(60), tp.Next(1000000000), time.UTC)
		case 2: // the documented 60-bit range, kept well inside it: 1583-5000 AD
			t = time.Date(1583+tp.Next(3418), time.Month(1+tp.Next(12)), 1+tp.Next(28), tp.Next(24), tp.Next(60), tp.Next(60), tp.Next(1000000000), time.UTC)
		default: // tick boundaries and another zone
			t = time.Date(1583+tp.Next(3418), time.Month(1+tp.Next(12)), 1+tp.Next(28), 23, 59, 59, []int{0, 99, 100, 999999900, 999999999, 999999899}[tp.Next(6)],
				time.FixedZone("x", []int{0, 3600, -7200, 19800}[tp.Next(4)]))
		}
		years = append(years, t.UTC().Year())
		u := gocql.UUIDFromTime(t)
		if u.Version() != 1 || u.Variant() != gocql.VariantIETF {
			k.Violate("C19", "C19/wrong-version-or-variant", "UUIDFromTime(%v) has version %d variant %d", t.UTC(), u.Version(), u.Variant())
			return
		}
		got := u.Time()
		d := t.Sub(got) // saturates when the two are centuries apart: still a mismatch
		if d <= -100*time.Nanosecond || d >= 100*time.Nanosecond {
			k.Violate("C19", "C19/time-roundtrip", "UUIDFromTime(%v).Time() = %v (more than 100 ns apart)", t.UTC(), got)
			return
		}
		if p, err := gocql.ParseUUID(u.String()); err != nil || p != u {
			k.Violate("C19", "C19/print-parse-roundtrip", "ParseUUID(String()) of a time-UUID for %v returned err=%v, equal=%v", t.UTC(), err, p == u)
			return
		}
		// the text and JSON decoders, into a variable that already holds another UUID
		reused := prev
		if err := reused.UnmarshalText([]byte(u.String())); err != nil || reused != u {
			k.Violate("C19", "C19/print-parse-roundtrip", "UnmarshalText(%s) into a variable holding %s gave %s, err=%v", u, prev, reused, err)
			return
		}
		reused = prev
		if err := reused.UnmarshalJSON([]byte(`"` + u.String() + `"`)); err != nil || reused != u {
			k.Violate("C19", "C19/print-parse-roundtrip", "UnmarshalJSON(%s) into a variable holding %s gave %s, err=%v", u, prev, reused, err)
			return
		}
		// the printing entry points other than String(): what they returned for the previous
		// UUID is kept and read only now, after this one has been printed too (a caller may
		// keep the slice it was given)
		if mt, err := u.MarshalText(); err != nil {
			k.Violate("C19", "C19/print-parse-roundtrip", "MarshalText of %s failed: %v", u, err)
			return
		} else if mj, err := u.MarshalJSON(); err != nil {
			k.Violate("C19", "C19/print-parse-roundtrip", "MarshalJSON of %s failed: %v", u, err)
			return
		} else {
			if keptText != nil {
				var back gocql.UUID
				if err := back.UnmarshalText(keptText); err != nil || back != keptOf {
					k.Violate("C19", "C19/printed-text-changed-afterwards", "the text MarshalText returned for %s reads %q after another UUID has been printed (err=%v)", keptOf, keptText, err)
					return
				}
				back = gocql.UUID{}
				if err := back.UnmarshalJSON(keptJSON); err != nil || back != keptOf {
					k.Violate("C19", "C19/printed-text-changed-afterwards", "the text MarshalJSON returned for %s reads %q after another UUID has been printed (err=%v)", keptOf, keptJSON, err)
					return
				}
			}
			keptText, keptJSON, keptOf = mt, mj, u
		}
		// printing through encoding/json, which holds the UUID the way a caller's data does:
		// as a value, inside an interface (the rows of MapScan), as a map value and a map key
		{
			type rowT struct {
				ID gocql.UUID `json:"id"`
			}
			var backV gocql.UUID
			var backI map[string]gocql.UUID
			var backK map[gocql.UUID]int
			var backR rowT
			bv, e1 := json.Marshal(u)
			bi, e2 := json.Marshal(map[string]interface{}{"id": u})
			bk, e3 := json.Marshal(map[gocql.UUID]int{u: 1})
			br, e4 := json.Marshal(rowT{ID: u})
			for _, e := range []error{e1, e2, e3, e4} {
				if e != nil {
					k.Violate("C19", "C19/print-parse-roundtrip", "json.Marshal of a value holding %s failed: %v", u, e)
					return
				}
			}
			e1, e2, e3, e4 = json.Unmarshal(bv, &backV), json.Unmarshal(bi, &backI), json.Unmarshal(bk, &backK), json.Unmarshal(br, &backR)
			_, inK := backK[u]
			if e1 != nil || e2 != nil || e3 != nil || e4 != nil || backV != u || backI["id"] != u || !inK || backR.ID != u {
				k.Violate("C19", "C19/print-parse-roundtrip", "%s printed by encoding/json as a value %s, inside an interface %s, as a map key %s, as a struct field %s does not parse back to itself (errors %v %v %v %v)", u, bv, bi, bk, br, e1, e2, e3, e4)
				return
			}
		}
		prev = u
		// any RFC 4122 version-1 UUID of this instant (arbitrary clock sequence and node) lies
		// between the two bounds under Cassandra's order: timestamp, then the low eight bytes
		// compared as signed bytes
		x := u
		for i := 8; i < 16; i++ {
			x[i] = byte(tp.Next(256))
		}
		if tp.Chance(1, 3) {
			x[9] = []byte{0x7f, 0x80, 0xff, 0x00}[tp.Next(4)]
		}
		x[8] = 0x80 | x[8]&0x3f
		lo, hi := gocql.MinTimeUUID(t), gocql.MaxTimeUUID(t)
		// every time-UUID built from a time (the bounds, and one with an arbitrary clock
		// sequence and node) is version 1 and of the RFC 4122 variant
		nodeID := make([]byte, 6)
		for i := range nodeID {
			nodeID[i] = byte(tp.Next(256))
		}
		clock := uint32(tp.Next(1 << 16))
		if tp.Chance(1, 3) {
			clock = []uint32{0, 0x3fff, 0x4000, 0x7f7f, 0x8080, 0xffff, 0x10000, 0xffffffff}[tp.Next(8)]
		}
		built := gocql.TimeUUIDWith(u.Timestamp(), clock, nodeID)
		for _, c := range []struct {
			what string
			u    gocql.UUID
		}{{"MinTimeUUID", lo}, {"MaxTimeUUID", hi}, {fmt.Sprintf("TimeUUIDWith(clock=%#x)", clock), built}} {
			if c.u.Version() != 1 || c.u.Variant() != gocql.VariantIETF || c.u.Timestamp() != u.Timestamp() {
				k.Violate("C19", "C19/wrong-version-or-variant", "%s for %v = %s has version %d variant %d timestamp %d (want 1, %d = RFC 4122, %d)",
					c.what, t.UTC(), c.u, c.u.Version(), c.u.Variant(), c.u.Timestamp(), gocql.VariantIETF, u.Timestamp())
				return
			}
		}
		// a string that goes on after a complete UUID is not a UUID
		tail := []string{"0", "a", "00", "\n", " ", "}", "; --", "\x00", "-0", "0123456789abcdef0123456789abcdef"}[tp.Next(10)]
		if p, err := gocql.ParseUUID(u.String() + tail); err == nil {
			k.Violate("C19", "C19/parse-accepts-trailing-input", "ParseUUID(%q) succeeded (%s): the string continues after the 32nd hex digit", u.String()+tail, p)
			return
		}
		// a random UUID is version 4 / RFC 4122 - or an error - whatever the random source does
		if tp.Chance(1, 4) {
			failAt := tp.Next(4)
			orig := crand.Reader
			crand.Reader = &flakyReader{r: orig, failAt: failAt, short: tp.Chance(1, 2)}
			for i := 0; i < 6; i++ {
				ru, err := gocql.RandomUUID()
				if err == nil && (ru.Version() != 4 || ru.Variant() != gocql.VariantIETF) {
					crand.Reader = orig
					k.Violate("C19", "C19/wrong-version-or-variant", "RandomUUID call %d returned %s (version %d variant %d) without error; the random source failed on its read number %d", i, ru, ru.Version(), ru.Variant(), failAt)
					return
				}
			}
			crand.Reader = orig
			k.Probe("uuid.random-source-failure")
		}
		// a string that is a UUID except for one character that is not a hex digit is rejected
		str := []rune(u.String())
		pos := tp.Next(len(str))
		if str[pos] != '-' {
			bad := []rune{'g', 'G', ' ', 'x', 0x0130, 0x0141, 0x0461, 0x2139, 0x1F535, '/', ':', '@', '`', 0xff10}[tp.Next(14)]
			str[pos] = bad
			if p, err := gocql.ParseUUID(string(str)); err == nil {
				k.Violate("C19", "C19/parse-accepts-non-hex", "ParseUUID(%q) succeeded (%s): position %d holds %q, not a hex digit", string(str), p, pos, bad)
				return
			}
		}
		if lo.Timestamp() != u.Timestamp() || hi.Timestamp() != u.Timestamp() || uuidCassandraLess(x, lo) || uuidCassandraLess(hi, x) {
			k.Violate("C19", "C19/min-max-not-bounds", "version-1 UUID %s of instant %v is not within [MinTimeUUID=%s, MaxTimeUUID=%s] under Cassandra's timeuuid order", x, t.UTC(), lo, hi)
			return
		}
	}
	sort.Ints(years)
	k.Rec("instants checked=%d years=%s", n, fmt.Sprint(years))
	if years[0] < 1700 {
		k.Probe("uuid.instant<1700")
	}
	if years[len(years)-1] > 4000 {
		k.Probe("uuid.instant>4000")
	}
	k.OpDone()

	// ---- texts built from the tape, judged by a reference rule written from the property ----
	if !uuidParseTexts(e, prev) {
		return
	}
	k.OpDone()
}

// 15 Oct 1582 00:00 UTC, from the RFC, not from the code; uuidEpochTicks lets the
// subtraction start from an instant time.Duration can reach (the simulated clock starts in 2000).
var (
	uuidEpoch      = time.Date(2000, 1, 1, 0, 0, 0, 0, time.UTC)
	uuidEpochTicks = int64(time.Date(2000, 1, 1, 0, 0, 0, 0, time.UTC).Unix()-time.Date(1582, 10, 15, 0, 0, 0, 0, time.UTC).Unix()) * 10000000
)

// uuidCassandraLess orders two time-UUIDs the way Cassandra's TimeUUIDType does: by
// timestamp, then by the remaining eight bytes as signed bytes.
func uuidCassandraLess(a, b gocql.UUID) bool {
	if ta, tb := a.Timestamp(), b.Timestamp(); ta != tb {
		return ta < tb
	}
	for i := 8; i < 16; i++ {
		if a[i] != b[i] {
			return int8(a[i]) < int8(b[i])
		}
	}
	return false
}

// flakyReader fails (or delivers nothing) on its failAt-th read.
type flakyReader struct {
	r      io.Reader
	n      int
	failAt int
	short  bool
}

func (f *flakyReader) Read(p []byte) (int, error) {
	f.n++
	if f.n-1 == f.failAt {
		if f.short {
			return 0, io.ErrUnexpectedEOF
		}
		return 0, errors.New("random source unavailable")
	}
	return f.r.Read(p)
}

// ---------------------------------------------------------------------------------------
// Parsing (C19: "parsing rejects every string that does not consist of exactly 32 hex
// digits plus optional separating hyphens", and what is printed parses back).
//
// The reference rule below is written from that sentence and looks at the bytes of the
// text, never at the driver:
//
//	must reject  the text holds a byte that is neither a hex digit nor '-', or the number
//	             of hex digits differs from 32 (including none at all, and the empty text);
//	must accept  exactly 32 hex digits (either case) and either no hyphen at all or the four
//	             hyphens of the printed form 8-4-4-4-12 (what String() prints, and the
//	             same digits without separators);
//	open         exactly 32 hex digits and hyphens elsewhere (leading, trailing, doubled,
//	             between other bytes, inside a byte): the property calls hyphens "optional"
//	             and "separating" and says no more, so both answers are allowed; the driver
//	             takes any number of hyphens between whole bytes and refuses one that
//	             splits a byte. uuidStrictHyphens turns that reading into the rule.
//
// Whatever is accepted must decode to the 16 bytes the 32 digits spell and print as the
// lower-case 8-4-4-4-12 form; whatever is rejected returns an error and leaves the variable
// decoded into either untouched or zero (never half-decoded).
// ---------------------------------------------------------------------------------------

// uuidStrictHyphens decides the open class by the driver's documented reading ("a 32
// digit hexadecimal number that might contain hyphens": any number of them, each between
// two whole bytes). Off: the property text does not settle it.
const uuidStrictHyphens = false

type uuidVerdict int

const (
	uuidMustReject uuidVerdict = iota
	uuidMustAccept
	uuidOpen
)

func (v uuidVerdict) String() string { return [...]string{"reject", "accept", "open"}[v] }

// uuidReference judges a text: verdict, the class of the text (the clause that decides
// it) and, when the text holds exactly 32 hex digits and nothing foreign, the bytes they spell.
func uuidReference(s string) (v uuidVerdict, class string, want gocql.UUID) {
	if len(s) == 0 {
		return uuidMustReject, "empty", want
	}
	var digits []byte
	foreign, hyphens, splitting := 0, 0, 0
	for i := 0; i < len(s); i++ {
		c := s[i]
		switch {
		case c >= '0' && c <= '9', c >= 'a' && c <= 'f', c >= 'A' && c <= 'F':
			digits = append(digits, c)
		case c == '-':
			hyphens++
			if len(digits)%2 == 1 {
				splitting++
			}
		default: // every byte of a multi-byte rune is >= 0x80
			foreign++
		}
	}
	switch {
	case foreign > 0:
		return uuidMustReject, "non-hex-rune", want
	case len(digits) == 0:
		return uuidMustReject, "only-hyphens", want
	case len(digits) < 32:
		return uuidMustReject, "too-few-digits", want
	case len(digits) > 32:
		return uuidMustReject, "too-many-digits", want
	}
	raw, err := hex.DecodeString(string(digits))
	if err != nil || len(raw) != 16 {
		panic("uuid reference: 32 hex digits do not decode") // cannot happen
	}
	copy(want[:], raw)
	switch {
	case hyphens == 0:
		return uuidMustAccept, "plain-32", want
	case hyphens == 4 && len(s) == 36 && s[8] == '-' && s[13] == '-' && s[18] == '-' && s[23] == '-':
		return uuidMustAccept, "printed-form", want
	case splitting > 0:
		if uuidStrictHyphens {
			return uuidMustReject, "hyphen-inside-byte", want
		}
		return uuidOpen, "hyphen-inside-byte", want
	default:
		if uuidStrictHyphens {
			return uuidMustAccept, "hyphens-between-bytes", want
		}
		return uuidOpen, "hyphens-between-bytes", want
	}
}

// uuidCanonical prints 16 bytes the way RFC 4122 does, without the driver.
func uuidCanonical(u gocql.UUID) string {
	return fmt.Sprintf("%x-%x-%x-%x-%x", u[0:4], u[4:6], u[6:8], u[8:10], u[10:16])
}

// runes that are not hex digits: the neighbours of the digit ranges in ASCII, look-alikes,
// separators, white space, multi-byte digits and letters, bytes that are not UTF-8. No
// double quote and no backslash: the same text is also handed to the JSON decoder between quotes.
var uuidForeign = []string{"g", "G", "/", ":", "@", "`", "x", "X", "o", "O", "l", " ", "\t", "\n", "\r", "\x00", "\x7f",
	"{", "}", "(", ")", "_", "+", ".", ",", "=", "%", "­", "‐", "−", "－", "０", "９", "ｆ", "Ａ",
	"٠", "०", "İ", "Ł", "ѡ", "ℹ", "\U0001F535", "\U0001D7D8", "�", "\xff", "\x80", "\xc3", "\xe2\x80",
	// the bytes one bit away from a digit or a hex letter (what folding or masking a character
	// before classifying it would let through)
	"\x10", "\x11", "\x15", "\x19", "\x1a", "p", "q", "y", "P", "Y", "!", "&", "A\u0300", "\x01", "\x06", "\x21", "\x26", "\xb0", "\xb9", "\xc1", "\xe6"}

// uuidDrawText builds one text from the tape (all zeros: 32 digits '0' in the printed form).
func uuidDrawText(tp *kernel.Tape) (text string, recipe string) {
	var how []string
	// number of hex digits
	nd := 32
	switch tp.Weighted([]int{8, 3, 2, 2, 3}) {
	case 1:
		nd = []int{31, 33, 30, 34}[tp.Next(4)]
	case 2:
		nd = []int{0, 1, 2, 15, 16, 17}[tp.Next(6)]
	case 3:
		nd = []int{35, 36, 37, 40, 63, 64}[tp.Next(6)]
	case 4:
		nd = tp.Next(81)
	}
	how = append(how, fmt.Sprintf("digits=%d", nd))
	// their values (four per draw) and case
	caseMode := tp.Next(3) // 0 lower, 1 upper, 2 mixed
	digits := make([]string, nd)
	for i := 0; i < nd; i += 4 {
		v := tp.Next(1 << 16)
		mask := 0
		if caseMode == 2 {
			mask = tp.Next(16)
		}
		for j := 0; j < 4 && i+j < nd; j++ {
			c := "0123456789abcdef"[(v>>(12-4*j))&15]
			if caseMode == 1 || caseMode == 2 && mask>>j&1 == 1 {
				c = "0123456789ABCDEF"[(v>>(12-4*j))&15]
			}
			digits[i+j] = string(c)
		}
	}
	how = append(how, []string{"lower", "upper", "mixed"}[caseMode])
	// hyphens: gap[i] of them before digit i, gap[nd] after the last digit
	gap := make([]int, nd+1)
	base := tp.Weighted([]int{6, 3, 1, 1})
	switch base {
	case 0: // the printed places
		for _, at := range []int{8, 12, 16, 20} {
			if at < nd {
				gap[at] = 1
			}
		}
	case 1: // none
	case 2: // between all bytes
		for at := 2; at < nd; at += 2 {
			gap[at] = 1
		}
	case 3: // every third digit: inside bytes too
		for at := 3; at < nd; at += 3 {
			gap[at] = 1
		}
	}
	how = append(how, "hyphens="+[]string{"printed", "none", "every-byte", "every-3"}[base])
	for n := tp.Weighted([]int{5, 2, 1, 1}); n > 0; n-- {
		cnt := 1
		if tp.Chance(1, 4) {
			cnt = 2
		}
		switch tp.Next(5) {
		case 0:
			gap[0] += cnt
			how = append(how, "leading")
		case 1:
			gap[nd] += cnt
			how = append(how, "trailing")
		case 2: // double one that is there (the first one from a tape-chosen place on)
			from := tp.Next(nd + 1)
			for i := 0; i <= nd; i++ {
				if at := (from + i) % (nd + 1); gap[at] > 0 {
					gap[at] += cnt
					how = append(how, fmt.Sprintf("doubled@%d", at))
					break
				}
			}
		case 3: // between two bytes
			at := 2 * tp.Next(nd/2+1)
			gap[at] += cnt
			how = append(how, fmt.Sprintf("extra@%d", at))
		case 4: // inside a byte
			if nd >= 2 {
				at := 1 + 2*tp.Next(nd/2)
				gap[at] += cnt
				how = append(how, fmt.Sprintf("extra@%d", at))
			}
		}
	}
	length := func() int {
		n := nd
		for _, g := range gap {
			n += g
		}
		return n
	}
	// padding with hyphens up to a total length
	if pad := tp.Weighted([]int{10, 2, 2, 1, 1, 1, 1}); pad > 0 {
		target := []int{0, 36, 32, 37, 33, 35, 40}[pad]
		where := tp.Next(3)
		from := tp.Next(nd/2 + 1)
		for i := 0; length() < target; i++ {
			switch where {
			case 0:
				gap[nd]++
			case 1:
				gap[0]++
			case 2: // spread over the places between bytes
				gap[2*((from+i)%(nd/2+1))]++
			}
		}
		how = append(how, fmt.Sprintf("pad-to-%d:%s", target, []string{"end", "start", "spread"}[where]))
	}
	// something that is not a hex digit
	foreign := tp.Weighted([]int{14, 2, 2, 1, 1, 1})
	pick := func() string { return uuidForeign[tp.Next(len(uuidForeign))] }
	posClass := func(n int) (int, string) { // an index in [0,n) of class start / middle / end
		switch tp.Next(3) {
		case 0:
			return 0, "start"
		case 1:
			if n > 2 {
				return 1 + tp.Next(n-2), "middle"
			}
			return n / 2, "middle"
		}
		return n - 1, "end"
	}
	if foreign == 1 && nd > 0 { // in the place of a digit
		at, cls := posClass(nd)
		r := pick()
		digits[at] = r
		how = append(how, fmt.Sprintf("replace-%s:%q", cls, r))
	}
	var tok []string
	for i := 0; i <= nd; i++ {
		for g := 0; g < gap[i]; g++ {
			tok = append(tok, "-")
		}
		if i < nd {
			tok = append(tok, digits[i])
		}
	}
	if foreign == 2 || foreign == 1 && nd == 0 { // added between two characters
		at, cls := posClass(len(tok) + 1)
		r := pick()
		tok = append(tok[:at:at], append([]string{r}, tok[at:]...)...)
		how = append(how, fmt.Sprintf("insert-%s:%q", cls, r))
	}
	text = strings.Join(tok, "")
	switch foreign {
	case 3:
		w := tp.Next(5)
		text = []string{"{", "{", "", "(", "["}[w] + text + []string{"}", "", "}", ")", "]"}[w]
		how = append(how, "braces")
	case 4:
		pre := []string{"urn:uuid:", "URN:UUID:", "uuid:", "urn:uuid:{", "0x", "urn:"}[tp.Next(6)]
		text = pre + text
		how = append(how, "prefix:"+pre)
	case 5:
		sp := []string{" ", "\t", "\n", "  ", "\r\n", " ", "　"}[tp.Next(7)]
		switch tp.Next(3) {
		case 0:
			text = sp + text
		case 1:
			text = text + sp
		case 2:
			text = sp + text + sp
		}
		how = append(how, "spaces")
	}
	return text, strings.Join(how, ",")
}

// uuidDecode runs one decoder; a panic is reported, not propagated.
func uuidDecode(f func() error) (err error, panicked interface{}) {
	defer func() {
		if r := recover(); r != nil {
			panicked = r
		}
	}()
	return f(), nil
}

// uuidParseTexts draws texts and holds ParseUUID, UnmarshalText and UnmarshalJSON to the
// reference rule. It reports false after a violation.
func uuidParseTexts(e *Env, last gocql.UUID) bool {
	k := e.K
	tp := k.Tape
	n := 6 + tp.Next(19)
	classes := map[string]int{}
	lens := map[string]bool{}
	for i := 0; i < n; i++ {
		text, recipe := uuidDrawText(tp)
		verdict, class, want := uuidReference(text)
		classes[verdict.String()+":"+class]++
		switch l := len(text); {
		case l < 32:
			lens["<32"] = true
		case l == 32:
			lens["32"] = true
		case l < 36:
			lens["33-35"] = true
		case l == 36:
			lens["36"] = true
		default:
			lens[">36"] = true
		}
		if (class == "too-few-digits" || class == "only-hyphens") && len(text) >= 32 {
			k.Probe("uuid.parse:short-but-padded-to-32+")
		}
		// the variable decoded into holds: the last UUID of the run, nothing, all ones
		old := []gocql.UUID{last, {}, {0xff, 0xff, 0xff, 0xff, 0xff, 0xff, 0xff, 0xff, 0xff, 0xff, 0xff, 0xff, 0xff, 0xff, 0xff, 0xff}}[tp.Next(3)]

		for _, dec := range []string{"ParseUUID", "UnmarshalText", "UnmarshalJSON"} {
			var got gocql.UUID
			v := verdict
			into := false
			var run func() error
			switch dec {
			case "ParseUUID":
				run = func() (err error) { got, err = gocql.ParseUUID(text); return }
			case "UnmarshalText":
				into, got = true, old
				run = func() error { return got.UnmarshalText([]byte(text)) }
			case "UnmarshalJSON":
				into, got = true, old
				run = func() error { return got.UnmarshalJSON([]byte(`"` + text + `"`)) }
				if v != uuidMustReject && len(text) > 36 {
					// longer than the printed form only by surplus hyphens: never "must accept"
					v = uuidOpen
				}
			}
			err, panicked := uuidDecode(run)
			if panicked != nil {
				k.Violate("C19", "C19/parse-panics", "%s(%q) panicked: %v (text %s: %s; built as %s)", dec, text, panicked, v, class, recipe)
				return false
			}
			if err == nil {
				if v == uuidMustReject {
					k.Violate("C19", "C19/parse-accepts-malformed:"+class, "%s(%q) succeeded (%s): the text is not 32 hex digits with optional hyphens (%s; %d bytes long; built as %s)",
						dec, text, got, class, len(text), recipe)
					return false
				}
				if got != want {
					k.Violate("C19", "C19/parse-wrong-bytes", "%s(%q) gave %s, the 32 digits spell %s (variable held %s before; built as %s)",
						dec, text, uuidCanonical(got), uuidCanonical(want), uuidCanonical(old), recipe)
					return false
				}
				if got.String() != uuidCanonical(want) {
					k.Violate("C19", "C19/parse-print-not-canonical", "%s(%q) accepted, but String() prints %q, want %q", dec, text, got.String(), uuidCanonical(want))
					return false
				}
				if v == uuidOpen {
					k.Probe("uuid.parse-open-accepted")
				}
				continue
			}
			if v == uuidMustAccept {
				k.Violate("C19", "C19/parse-rejects-wellformed", "%s(%q) failed with %v: the text is exactly 32 hex digits (%s; built as %s)", dec, text, err, class, recipe)
				return false
			}
			if into && got != old && got != (gocql.UUID{}) {
				k.Violate("C19", "C19/parse-reject-clobbers-target", "%s(%q) failed (%v) and left %s in a variable that held %s: neither untouched nor zero (built as %s)",
					dec, text, err, uuidCanonical(got), uuidCanonical(old), recipe)
				return false
			}
			if v == uuidOpen {
				k.Probe("uuid.parse-open-rejected")
			}
		}
	}
	var keys []string
	for c := range classes {
		keys = append(keys, c)
	}
	sort.Strings(keys)
	var parts []string
	for _, c := range keys {
		parts = append(parts, fmt.Sprintf("%s=%d", c, classes[c]))
		k.Probe("uuid.parse:" + c)
	}
	var ls []string
	for l := range lens {
		ls = append(ls, l)
	}
	sort.Strings(ls)
	k.Rec("texts parsed=%d %s lengths=%s", n, strings.Join(parts, " "), strings.Join(ls, ","))
	e.Note("parse_texts", n)
	return true
}
