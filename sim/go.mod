module github.com/gocql/gocql/verifsim

go 1.26.8

require (
	github.com/gocql/gocql v0.0.0
	github.com/gocql/gocql/lz4 v0.0.0
)

require (
	github.com/golang/snappy v0.0.3 // indirect
	github.com/hailocab/go-hostpool v0.0.0-20160125115350-e80d13ce29ed // indirect
	github.com/pierrec/lz4/v4 v4.1.8 // indirect
	gopkg.in/inf.v0 v0.9.1 // indirect
)

replace github.com/gocql/gocql => /repo

replace github.com/gocql/gocql/lz4 => /repo/lz4
