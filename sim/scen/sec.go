package scen

import (
	"bytes"
	"crypto/ed25519"
	"crypto/rand"
	"crypto/tls"
	"crypto/x509"
	"crypto/x509/pkix"
	"encoding/pem"
	"errors"
	"fmt"
	"math/big"
	"net"
	"os"
	"path/filepath"
	"reflect"
	"regexp"
	"runtime"
	"sort"
	"strings"
	"sync"
	"sync/atomic"
	"time"

	"github.com/gocql/gocql"
	"github.com/gocql/gocql/verifsim/cqlspec"
	"github.com/gocql/gocql/verifsim/kernel"
	"github.com/gocql/gocql/verifsim/node"
	"github.com/gocql/gocql/verifsim/simnet"
)

// Scenario sec (C20). One run decides one cell of one of two finite tables.
//
// TLS half: the driver is configured through ClusterConfig.SslOpts and dials through the
// simulated network, so its own setupTLSConfig -> defaultHostDialer -> WrapTLS ->
// tlsConfigForAddr path builds the configuration; the simulated node terminates TLS with
// crypto/tls over the simulated transport and presents a right or wrong certificate. The
// expected outcome is computed from the documented table (SslOptions in conn.go, doc.go),
// never from the implementation.
//
// Authentication half: the node demands an authenticator class; the client has no
// authenticator, a PasswordAuthenticator with the default or a custom approved list, or
// an AuthProvider. The node records every AUTH_RESPONSE.

func init() {
	register(&Scenario{
		Name:       "sec",
		Properties: []string{"C20"},
		Run:        runSec,
		Real: []string{"gocql NewSession -> connConfig -> setupTLSConfig -> defaultHostDialer.DialHost -> WrapTLS -> tlsConfigForAddr (real code)",
			"crypto/tls client and server handshakes, crypto/x509 chain and name verification (real, over the simulated transport)",
			"gocql startup/authentication handshake: startupCoordinator, PasswordAuthenticator.Challenge, approve (real code)",
			"CA / certificate / key files on the real file system (temporary directory)"},
		Stub: []string{"TCP (simnet; the node's end is a net.Conn adaptor)", "clock (testing/synctest; certificates are valid 1990-2100)",
			"Cassandra node: CQL responder over crypto/tls (TLS half), node.Cluster state machine (authentication half), both over the independent cqlspec codec",
			"host names: only \"localhost\", through the real resolver (/etc/hosts; resolved once outside any bubble, see secLocalhost); other names need a resolver seam the driver does not have"},
		Rule: "one run = one tape-chosen cell. TLS half: {Config nil | present with InsecureSkipVerify false/true} x EnableHostVerification x ServerName {unset, matching, not matching} (14 rows of the documented table) " +
			"x Config.RootCAs {nil, harness CA, other CA} x CaPath {absent, harness CA, other CA, both, missing, garbage, empty, corrupt DER, key instead of certificate, directory} " +
			"x key pair {absent, valid, cert missing, key missing, cert garbage, key garbage, key of another cert, cert path only, key path only} " +
			"x certificate presented {right, other CA, wrong name, only the dialled IP, only a DNS name} x host {IPv4, IPv4:port, IPv6, [IPv6]:port, localhost, localhost:port - resolved by the driver itself; the certificates are then valid for name+address, address only, name only (probe tls.namecell:*)} x control connection on/off x TLS 1.3/1.2 x authentication over TLS on/off; " +
			"in half of the cells with verification on, no ServerName and good files a second node 10.0.0.2 / fd00::2 is discovered through system.peers and dialled after the first, presenting its own certificate (only SAN: its own address) or, in a third of those, the first node's (probes tls.two-nodes*); " +
			"core table = 14 rows x chain trusted/untrusted x 5 certificates = 140 cells (probe tls.cell:*). " +
			"Authentication half: class demanded {none, each of the 10 built-in approved classes, a class only on the caller's list, unknown, 4 near-misses of an approved class} x client {none, PasswordAuthenticator default list, custom list, custom list + one default, AuthProvider} x 9 credential pairs x control connection on/off (probe auth.cell:*). " +
			"Session creation repeated on the same objects: in a third of the TLS cells NewSession(*cfg) / cfg.CreateSession() is called a second (in a ninth a third) time with the very same ClusterConfig, *SslOptions and *tls.Config after the previous attempt finished and its session, if any, was closed; the documented outcome must hold for every attempt (fault counters tls.variant:attempts:*, probes tls.retry:*). " +
			"Form of the password authenticator (both halves): value, pointer, user type embedding it (value / pointer), user type delegating to it (auth.variant:form:* / tls.variant:authform:*); " +
			"AllowedAuthenticators additionally: empty non-nil, a list that contains the demanded class whatever it is, a list of near-misses of the demanded class, the default list written out plus a custom class (auth.variant:list:*, probes auth.formcell:* / auth.listcell:*). " +
			"Further legal shapes of the caller's tls.Config (TLS half, Config present; all combined freely with the table above): its own VerifyPeerCertificate / VerifyConnection / both as pure observers (tls.variant:observer:*, the table once more under them: probes tls.obscell:*); " +
			"MinVersion / MaxVersion {min 1.2, min 1.3, max 1.2, max 1.3, only 1.2, only 1.3, 1.2 to 1.3} (tls.variant:versions:*; demanding 1.3 of a node that speaks 1.2 at most = no connection, tls.variant:versions-clash-with-node); NextProtos offered / negotiated (tls.variant:nextprotos:*); " +
			"GetClientCertificate set by the caller (tls.variant:user-getclientcertificate, with every key-pair variant: ...+keypair:*); Certificates preset in an array with spare capacity, alone or shared with another Config of the caller (tls.variant:usercerts, usercerts-shared-backing-array, usercerts+keypair); RootCAs preset together with CaPath (tls.variant:rootcas+capath); " +
			"and a node that does not ask for a client certificate (tls.variant:node-no-client-cert-request, ...+bad-keypair). Judged: the documented outcome of the cell is the same, bad files are still reported before any dial, the caller's Config is unchanged in every field the scenario set, and the handshakes were made with the caller's callbacks, version bounds and protocols. " +
			"distinct = distinct canonical-log fingerprint; non-trivial = at least one non-default variant (tls.variant:* / auth.variant:* fault counters) and at least one completed session attempt",
	})
}

func runSec(e *Env) {
	if e.K.Tape.Weighted([]int{3, 2}) == 0 {
		secTLS(e)
	} else {
		e.K.Fault("sec.variant:auth-half")
		secAuth(e)
	}
}

// ---------------------------------------------------------------------------------
// common helpers

// secPump runs fn on its own goroutine while the root goroutine lets simulated time pass.
// each (optional) serves the network at every quiescence.
func secPump[T any](k *kernel.Kernel, bound time.Duration, each func(), fn func() (T, error)) (T, error, bool) {
	type res struct {
		v   T
		err error
	}
	ch := make(chan res, 1)
	go func() {
		v, err := fn()
		ch <- res{v, err}
	}()
	deadline := time.Now().Add(bound)
	for {
		k.Quiesce()
		if each != nil {
			each()
			k.Quiesce()
		}
		select {
		case r := <-ch:
			return r.v, r.err, true
		default:
		}
		if time.Now().After(deadline) {
			var zero T
			return zero, errors.New("sec: not finished within bound"), false
		}
		time.Sleep(time.Millisecond)
	}
}

type secConnObs struct {
	mu    sync.Mutex
	errs  []error
	hosts []string // connect address of the host of errs[i]
	n     int
}

func (o *secConnObs) ObserveConnect(c gocql.ObservedConnect) {
	o.mu.Lock()
	o.n++
	if c.Err != nil {
		o.errs = append(o.errs, c.Err)
		h := ""
		if c.Host != nil {
			h = c.Host.ConnectAddress().String()
		}
		o.hosts = append(o.hosts, h)
	}
	o.mu.Unlock()
}

func (o *secConnObs) snapshot() (int, []error) {
	o.mu.Lock()
	defer o.mu.Unlock()
	return o.n, append([]error(nil), o.errs...)
}

// errorsOf returns the errors of the failed dials to one host, leaving out the first
// from failed dials observed (those of earlier session attempts of the run).
func (o *secConnObs) errorsOf(host string, from int) []error {
	o.mu.Lock()
	defer o.mu.Unlock()
	var out []error
	for i, e := range o.errs {
		if i >= from && o.hosts[i] == host {
			out = append(out, e)
		}
	}
	return out
}

// secBubbleGoroutines returns the stack blocks of the goroutines of the *current* bubble
// other than the caller. (Goroutines leaked by earlier runs of the process stay in the
// dump for ever, labelled with their own bubble; they must not be counted again.)
func secBubbleGoroutines() []string {
	self := make([]byte, 256)
	self = self[:runtime.Stack(self, false)]
	head := string(self)
	if i := strings.IndexByte(head, '\n'); i >= 0 {
		head = head[:i]
	}
	i := strings.Index(head, "synctest bubble ")
	j := strings.LastIndexByte(head, ']')
	if i < 0 || j < i {
		return nil
	}
	label := head[i : j+1] // "synctest bubble N]"
	// one reusable buffer: a dump lists every goroutine of the process, and runs of a
	// process are sequential (only the root goroutine of the current run comes here)
	if len(secStackBuf) == 0 {
		secStackBuf = make([]byte, 1<<20)
	}
	var dump []byte
	for {
		n := runtime.Stack(secStackBuf, true)
		if n < len(secStackBuf) {
			dump = secStackBuf[:n]
			break
		}
		secStackBuf = make([]byte, 2*len(secStackBuf))
	}
	var out []string
	for _, g := range strings.Split(string(dump), "\n\n") {
		h := g
		if nl := strings.IndexByte(h, '\n'); nl >= 0 {
			h = h[:nl]
		}
		if !strings.Contains(h, label) || strings.Contains(h, "[running") || strings.Contains(h, "[synctest.Run") ||
			strings.Contains(g, "testing/synctest.testingSynctestTest(") {
			continue // another bubble; the caller; the goroutine that waits for the bubble
		}
		out = append(out, g)
	}
	return out
}

var secStackBuf []byte

// secFinish closes what is left of the run and checks that nothing of the driver stays
// behind. base is runtime.NumGoroutine() at the start of the run. It must be called
// exactly once, last.
func secFinish(k *kernel.Kernel, cl *node.Cluster, hub *simnet.PipeHub, each func(), sess *gocql.Session, base int) {
	if sess != nil {
		_, _, ok := secPump(k, 60*time.Second, each, func() (struct{}, error) { sess.Close(); return struct{}{}, nil })
		if !ok && k.Violation() == nil {
			k.Violate("C17", "C17/session-close-hangs", "sec: Session.Close did not return within 60 s simulated")
		}
	}
	if hub != nil {
		hub.CloseAll()
	}
	cl.CloseAll()
	// background goroutines exit within a bounded time (DESIGN 2.10: (4+2*hosts)*max(Timeout,
	// ConnectTimeout) + reconnection total + 30 s = 33.01 s here)
	deadline := time.Now().Add(35 * time.Second)
	tick := 10 * time.Millisecond
	driverOnly := func(all []string) (gs []string) {
		for _, g := range all {
			if strings.Contains(g, "github.com/gocql/gocql.") || strings.Contains(g, "github.com/gocql/gocql/internal") {
				gs = append(gs, g)
			}
		}
		return gs
	}
	dumped := false
	for {
		k.Quiesce()
		if each != nil {
			each()
			k.Quiesce()
		}
		// cheap test first; a goroutine dump lists every goroutine of the process,
		// including those leaked by earlier runs, so it is taken at most twice per run
		if runtime.NumGoroutine() <= base {
			return
		}
		if !dumped && tick >= time.Second {
			dumped = true
			if len(secBubbleGoroutines()) == 0 {
				k.Probe("sec.goroutine-count-unreliable") // something outside the bubble started a goroutine
				return
			}
		}
		if time.Now().After(deadline) {
			break
		}
		time.Sleep(tick)
		if tick < time.Second {
			tick *= 4
		}
	}
	all := secBubbleGoroutines()
	if len(all) == 0 {
		k.Probe("sec.goroutine-count-unreliable")
		return
	}
	gs := driverOnly(all)
	if len(gs) == 0 {
		if k.Violation() == nil {
			first := "(none of this bubble)"
			if len(all) > 0 {
				first = all[0]
			}
			k.Violate("HARNESS", "sec/harness-goroutine-left", "%d goroutine(s) more than at the start of the run, %d of this bubble, none with driver frames; first:\n%s", runtime.NumGoroutine()-base, len(all), secCleanDump(first))
		}
		return
	}
	sites := map[string]string{}
	var keys []string
	for _, g := range gs {
		s := TopFrames(g, 1)
		if _, ok := sites[s]; !ok {
			keys = append(keys, s)
		}
		sites[s] = g
	}
	sort.Strings(keys)
	if k.Violation() == nil {
		k.Violate("C17", "C17/goroutine-leak:"+keys[0], "%d driver goroutine(s) still alive 35 s simulated after the session attempt ended and every connection was closed (%s); first:\n%s",
			len(gs), strings.Join(keys, ", "), secCleanDump(sites[keys[0]]))
	}
}

var secDumpNoise = regexp.MustCompile(`goroutine [0-9]+|\(0x[0-9a-f]+[^)]*\)| \+0x[0-9a-f]+|, synctest bubble [0-9]+`)

// secCleanDump removes what differs between identical runs from a goroutine dump
// (goroutine numbers, argument words, pc offsets).
func secCleanDump(d string) string { return strings.TrimSpace(secDumpNoise.ReplaceAllString(d, "")) }

// ---------------------------------------------------------------------------------
// certificates

type secCA struct {
	cert *x509.Certificate
	key  ed25519.PrivateKey
	pem  []byte
}

var (
	secNotBefore = time.Date(1990, 1, 1, 0, 0, 0, 0, time.UTC)
	secNotAfter  = time.Date(2100, 1, 1, 0, 0, 0, 0, time.UTC)
)

func secNewCA(cn string, serial int64) *secCA {
	pub, key, err := ed25519.GenerateKey(rand.Reader)
	if err != nil {
		panic(err)
	}
	tmpl := &x509.Certificate{
		SerialNumber:          big.NewInt(serial),
		Subject:               pkix.Name{CommonName: cn, Organization: []string{"simsec"}},
		NotBefore:             secNotBefore,
		NotAfter:              secNotAfter,
		IsCA:                  true,
		BasicConstraintsValid: true,
		KeyUsage:              x509.KeyUsageCertSign | x509.KeyUsageDigitalSignature,
	}
	der, err := x509.CreateCertificate(rand.Reader, tmpl, tmpl, pub, key)
	if err != nil {
		panic(err)
	}
	cert, err := x509.ParseCertificate(der)
	if err != nil {
		panic(err)
	}
	return &secCA{cert: cert, key: key, pem: pem.EncodeToMemory(&pem.Block{Type: "CERTIFICATE", Bytes: der})}
}

type secLeaf struct {
	tlsCert         tls.Certificate
	certPEM, keyPEM []byte
}

func (ca *secCA) issue(cn string, serial int64, ips []net.IP, dns []string, client bool) *secLeaf {
	pub, key, err := ed25519.GenerateKey(rand.Reader)
	if err != nil {
		panic(err)
	}
	eku := x509.ExtKeyUsageServerAuth
	if client {
		eku = x509.ExtKeyUsageClientAuth
	}
	tmpl := &x509.Certificate{
		SerialNumber: big.NewInt(serial),
		Subject:      pkix.Name{CommonName: cn, Organization: []string{"simsec"}},
		NotBefore:    secNotBefore,
		NotAfter:     secNotAfter,
		KeyUsage:     x509.KeyUsageDigitalSignature,
		ExtKeyUsage:  []x509.ExtKeyUsage{eku},
		IPAddresses:  ips,
		DNSNames:     dns,
	}
	der, err := x509.CreateCertificate(rand.Reader, tmpl, ca.cert, pub, ca.key)
	if err != nil {
		panic(err)
	}
	kder, err := x509.MarshalPKCS8PrivateKey(key)
	if err != nil {
		panic(err)
	}
	return &secLeaf{
		tlsCert: tls.Certificate{Certificate: [][]byte{der}, PrivateKey: key},
		certPEM: pem.EncodeToMemory(&pem.Block{Type: "CERTIFICATE", Bytes: der}),
		keyPEM:  pem.EncodeToMemory(&pem.Block{Type: "PRIVATE KEY", Bytes: kder}),
	}
}

// ---------------------------------------------------------------------------------
// the TLS-terminating node

type secTLSConn struct {
	name        string
	host        string // address of the node the connection was dialled to
	handshook   bool
	failed      bool
	sni         string
	version     uint16
	clientCerts int
	alpn        []string // the protocols the client offered (ALPN), as the node saw them
	negotiated  string
	needAuth    bool
	authed      bool
	started     bool
	tokens      [][]byte
	tokenAfter  []string // authenticator class the token answered ("" = unsolicited)
	unauthOp    string   // first request other than the handshake on a connection that owed authentication
	frames      int
}

type secTLSNode struct {
	k         *kernel.Kernel
	cl        *node.Cluster
	hub       *simnet.PipeHub
	cfg       *tls.Config
	cfgs      map[string]*tls.Config // per node address, when nodes present different certificates
	authClass string

	mu    sync.Mutex
	conns []*secTLSConn
}

// newSecTLSNode chains the cluster's accept handler: every accepted connection gets a
// goroutine that terminates TLS and speaks CQL.
func newSecTLSNode(k *kernel.Kernel, cl *node.Cluster, cfg *tls.Config, authClass string) *secTLSNode {
	n := &secTLSNode{k: k, cl: cl, cfg: cfg, authClass: authClass, hub: simnet.NewPipeHub(cl.Net)}
	prev := cl.Net.OnConnect
	cl.Net.OnConnect = func(c *simnet.Conn) {
		if prev != nil {
			prev(c)
		}
		sc := &secTLSConn{name: c.Name, host: c.Host}
		n.mu.Lock()
		n.conns = append(n.conns, sc)
		n.mu.Unlock()
		go n.serve(n.hub.Open(c), sc)
	}
	return n
}

func (n *secTLSNode) snapshot() []secTLSConn {
	n.mu.Lock()
	defer n.mu.Unlock()
	out := make([]secTLSConn, len(n.conns))
	for i, c := range n.conns {
		out[i] = *c
	}
	return out
}

func (n *secTLSNode) serve(p *simnet.Pipe, sc *secTLSConn) {
	defer p.Close()
	cfg := n.cfg
	if c := n.cfgs[sc.host]; c != nil {
		cfg = c
	}
	cfg = cfg.Clone()
	cfg.GetConfigForClient = func(chi *tls.ClientHelloInfo) (*tls.Config, error) {
		n.mu.Lock()
		sc.sni = chi.ServerName
		sc.alpn = append([]string(nil), chi.SupportedProtos...)
		n.mu.Unlock()
		return nil, nil
	}
	tc := tls.Server(p, cfg)
	if err := tc.Handshake(); err != nil {
		n.mu.Lock()
		sc.failed = true
		n.mu.Unlock()
		n.k.Rec("tls %s handshake failed on the node", sc.name)
		return
	}
	st := tc.ConnectionState()
	n.mu.Lock()
	sc.handshook = true
	sc.version = st.Version
	sc.clientCerts = len(st.PeerCertificates)
	sc.negotiated = st.NegotiatedProtocol
	sni := sc.sni
	alpn := sc.alpn
	n.mu.Unlock()
	if len(alpn) == 0 {
		n.k.Rec("tls %s handshake ok version=%#x sni=%q clientcerts=%d", sc.name, st.Version, sni, len(st.PeerCertificates))
	} else {
		n.k.Rec("tls %s handshake ok version=%#x sni=%q clientcerts=%d alpn=%q negotiated=%q", sc.name, st.Version, sni, len(st.PeerCertificates), alpn, st.NegotiatedProtocol)
	}

	var buf []byte
	tmp := make([]byte, 4096)
	for {
		for {
			flen, ok, err := cqlspec.FrameLen(buf)
			if err != nil {
				n.k.Rec("tls %s unframeable request", sc.name)
				return
			}
			if !ok || len(buf) < flen {
				break
			}
			frame := append([]byte(nil), buf[:flen]...)
			buf = buf[flen:]
			rq, err := cqlspec.DecodeRequest(frame, nil)
			if err != nil {
				n.k.Rec("tls %s undecodable request: %v", sc.name, err)
				return
			}
			resp, label := n.respond(sc, rq)
			out, err := cqlspec.EncodeResponse(resp)
			if err != nil {
				panic(fmt.Sprintf("sec: cannot encode %s: %v", label, err))
			}
			if len(n.cfgs) > 0 && rq.Header.Opcode == cqlspec.OpQuery && strings.HasPrefix(rq.Query, "ECHO ") {
				// which of two live nodes the round-robin policy picks depends on map iteration
				// order inside the driver: keep the canonical log independent of it
				n.k.Rec("tls (either node) recv %s -> %s", node.Describe(rq), label)
			} else {
				n.k.Rec("tls %s recv s=%d %s -> %s", sc.name, rq.Header.Stream, node.Describe(rq), label)
			}
			if _, err := tc.Write(out); err != nil {
				return
			}
		}
		m, err := tc.Read(tmp)
		if m > 0 {
			buf = append(buf, tmp[:m]...)
		}
		if err != nil {
			return
		}
	}
}

func (n *secTLSNode) respond(sc *secTLSConn, rq *cqlspec.Request) (*cqlspec.Response, string) {
	r := &cqlspec.Response{Version: rq.Header.Version, Stream: rq.Header.Stream}
	n.mu.Lock()
	defer n.mu.Unlock()
	sc.frames++
	op := rq.Header.Opcode
	if sc.needAuth && !sc.authed && op != cqlspec.OpOptions && op != cqlspec.OpStartup && op != cqlspec.OpAuthResponse && sc.unauthOp == "" {
		sc.unauthOp = cqlspec.OpName(op)
	}
	switch op {
	case cqlspec.OpOptions:
		r.Op, r.Supported = cqlspec.OpSupported, n.cl.Supported
		return r, "SUPPORTED"
	case cqlspec.OpStartup:
		if n.authClass != "" {
			sc.needAuth = true
			r.Op, r.AuthClass = cqlspec.OpAuthenticate, n.authClass
			return r, "AUTHENTICATE"
		}
		sc.started = true
		r.Op = cqlspec.OpReady
		return r, "READY"
	case cqlspec.OpAuthResponse:
		sc.tokens = append(sc.tokens, append([]byte(nil), rq.AuthToken...))
		cls := ""
		if sc.needAuth {
			cls = n.authClass
		}
		sc.tokenAfter = append(sc.tokenAfter, cls)
		sc.authed, sc.started = true, true
		r.Op, r.AuthNull = cqlspec.OpAuthSuccess, true
		return r, "AUTH_SUCCESS"
	case cqlspec.OpRegister:
		r.Op = cqlspec.OpReady
		return r, "READY"
	case cqlspec.OpQuery:
		v := rq.Header.Version
		switch rq.Query {
		case "SELECT * FROM system.local WHERE key='local'":
			h := n.cl.HostByAddr(sc.host)
			if h == nil {
				h = n.cl.Hosts[0]
			}
			meta, rows := n.cl.LocalRows(v, h)
			r.Op, r.Kind, r.Rows, r.RowData = cqlspec.OpResult, cqlspec.KindRows, meta, rows
			return r, "ROWS(local)"
		case "SELECT * FROM system.peers":
			var peers []node.PeerRow
			if h := n.cl.HostByAddr(sc.host); h != nil {
				peers = n.cl.PeersOf(h)
			}
			meta, rows := n.cl.PeerRows(v, peers)
			r.Op, r.Kind, r.Rows, r.RowData = cqlspec.OpResult, cqlspec.KindRows, meta, rows
			return r, "ROWS(peers)"
		case "SELECT * FROM system.peers_v2":
			r.Op, r.Error = cqlspec.OpError, &cqlspec.ErrorBody{Code: cqlspec.ErrInvalid, Message: "unconfigured table peers_v2"}
			return r, "ERROR(invalid)"
		}
	}
	r.Op, r.Kind = cqlspec.OpResult, cqlspec.KindVoid
	return r, "VOID"
}

// ---------------------------------------------------------------------------------
// TLS half

// secLocalName is the only host name the scenario can use: the driver resolves contact
// points with net.LookupIP and has no resolver seam; "localhost" is answered from
// /etc/hosts without any network.
const secLocalName = "localhost"

// secLocalhost is what "localhost" resolves to, looked up ONCE at package initialisation,
// i.e. outside any synctest bubble. This is not an optimisation: the first lookup of a
// process creates net's resolver-configuration semaphore channel; created inside a bubble
// it belongs to that bubble and the next bubble that resolves a name dies with "fatal
// error: send on synctest channel from outside bubble". Initialised out here the resolver
// is safe to use inside bubbles (measured: 5000 bubbles x 2 lookups, same answer, zero
// simulated time, no goroutine left); the hosts-file cache never expires there because
// the fake clock is behind the real one.
var secLocalhost, secLocalhostUsable = func() ([]string, bool) {
	ips, err := net.LookupIP(secLocalName)
	if err != nil {
		return nil, false
	}
	var out []string
	ok := false
	for _, ip := range ips {
		if !ip.IsLoopback() {
			return nil, false
		}
		out = append(out, ip.String())
		if ip.String() == "127.0.0.1" {
			ok = true
		}
	}
	return out, ok
}()

const (
	secNameRight = "node1.sim.test"
	secNameWrong = "other.sim.test"
	secNameElse  = "elsewhere.sim.test"
)

var (
	secCfgNames   = []string{"nil", "isv=false", "isv=true"}
	secSNNames    = []string{"unset", "matching", "notmatching"}
	secRootNames  = []string{"nil", "ca1", "ca2"}
	secCaNames    = []string{"absent", "ca1", "ca2", "both", "missing", "garbage", "empty", "corruptder", "keypem", "directory"}
	secKPNames    = []string{"absent", "valid", "certmissing", "keymissing", "certgarbage", "keygarbage", "mismatch", "certonly", "keyonly"}
	secCertNames  = []string{"right", "otherca", "wrongname", "iponly", "dnsonly"}
	secHostNames  = []string{"v4", "v4port", "v6", "v6port", "name", "nameport"}
	secCaBadFrom  = 4 // CaPath variants from this index on must be reported as errors
	secKPBadFrom  = 2
	secGarbageTxt = "this is not PEM\n-----BEGIN NOTHING-----\nAAAA\n"
)

// Further legal shapes of the caller's tls.Config (index 0 everywhere = the field is not set).
var (
	secObsNames = []string{"none", "verifypeercertificate", "verifyconnection", "both"}
	// MinVersion / MaxVersion of the caller's Config
	secVerNames = []string{"unset", "min12", "min13", "max12", "max13", "only12", "only13", "12to13"}
	secVerMin   = []uint16{0, tls.VersionTLS12, tls.VersionTLS13, 0, 0, tls.VersionTLS12, tls.VersionTLS13, tls.VersionTLS12}
	secVerMax   = []uint16{0, 0, 0, tls.VersionTLS12, tls.VersionTLS13, tls.VersionTLS12, tls.VersionTLS13, tls.VersionTLS13}
	// NextProtos of the caller's Config: offered only (the node knows no ALPN), or negotiated
	secALPNNames = []string{"unset", "offered", "negotiated"}
)

const secALPNProto = "cql-sim"

// secJudgeCertBackingArray: the driver appends the CertPath/KeyPath pair to the clone of the
// caller's Config; Config.Clone copies the slice header of Certificates, so with spare
// capacity the append writes into the caller's backing array (and into the element of any
// other slice of the caller that shares it). The property speaks of the verification
// settings of the caller's Config only, and the client identity is not one of them:
// observed (probes tls.user-certificates-*), not judged.
const secJudgeCertBackingArray = false

// secUserCallbacks are the caller's own callbacks in its tls.Config: pure observers. They
// run on the driver's handshake goroutines.
type secUserCallbacks struct {
	vpc, vpcVerified atomic.Int32 // VerifyPeerCertificate calls; those that got verified chains
	vc, vcVerified   atomic.Int32 // VerifyConnection calls; those whose state has verified chains
	gcc              atomic.Int32 // GetClientCertificate calls
}

type secCallbackCounts struct{ vpc, vpcVerified, vc, vcVerified, gcc int32 }

func (o *secUserCallbacks) counts() secCallbackCounts {
	return secCallbackCounts{o.vpc.Load(), o.vpcVerified.Load(), o.vc.Load(), o.vcVerified.Load(), o.gcc.Load()}
}

func (o *secUserCallbacks) verifyPeerCertificate(rawCerts [][]byte, verifiedChains [][]*x509.Certificate) error {
	o.vpc.Add(1)
	if len(verifiedChains) > 0 {
		o.vpcVerified.Add(1)
	}
	return nil
}

func (o *secUserCallbacks) verifyConnection(cs tls.ConnectionState) error {
	o.vc.Add(1)
	if len(cs.VerifiedChains) > 0 {
		o.vcVerified.Add(1)
	}
	return nil
}

func secFuncPtr(f interface{}) uintptr {
	v := reflect.ValueOf(f)
	if !v.IsValid() || v.IsNil() {
		return 0
	}
	return v.Pointer()
}

func secTLS(e *Env) {
	k := e.K
	tp := k.Tape
	base := runtime.NumGoroutine()

	// ---- the cell (index 0 everywhere = Config nil, verification off, right certificate, no files) ----
	cfgState := tp.Next(3)
	ehv := tp.Next(2) == 1
	sn := 0
	rootSel := 0
	if cfgState != 0 {
		sn = tp.Next(3)
		rootSel = tp.Weighted([]int{3, 2, 1})
	}
	certKind := tp.Next(5)
	caSel := tp.Weighted([]int{40, 60, 10, 10, 1, 1, 1, 1, 1, 1})
	kpSel := tp.Weighted([]int{80, 30, 1, 1, 1, 1, 1, 1, 1})
	hostForm := tp.Next(6)
	control := tp.Next(2) == 1
	tls12 := tp.Chance(1, 4)
	authTLS := tp.Chance(1, 6)
	userCerts := cfgState != 0 && tp.Chance(1, 4)
	twoDraw := tp.Chance(1, 2)
	swapDraw := tp.Chance(1, 3)
	// (drawn last, so that tapes recorded before these choices existed keep their meaning)
	// session creation repeated on the very same ClusterConfig / *SslOptions / *tls.Config:
	// 0 = one attempt, 1 = a second one, 2 = a second and a third
	attempts := 1 + tp.Weighted([]int{6, 2, 1})
	viaCreate := tp.Next(2) == 1 && attempts > 1 // later attempts through cfg.CreateSession()
	authForm := tp.Next(len(secAuthForms))
	if !authTLS {
		authForm = 0
	}
	// (drawn last again) further legal shapes of the caller's tls.Config, and a node that does
	// not ask for a client certificate
	obsSel := tp.Weighted([]int{4, 1, 1, 2})             // the caller's own verification callbacks (pure observers)
	verSel := tp.Weighted([]int{8, 1, 1, 1, 1, 1, 1, 1}) // MinVersion / MaxVersion
	alpnSel := tp.Weighted([]int{6, 1, 1})               // NextProtos
	userGCC := tp.Chance(1, 4)                           // GetClientCertificate set by the caller
	certSibling := tp.Chance(1, 2)                       // with userCerts: another slice of the caller shares the backing array
	noClientAuth := tp.Chance(1, 4)                      // the node does not ask for a client certificate
	if cfgState == 0 {
		obsSel, verSel, alpnSel, userGCC = 0, 0, 0, false
	}
	if !userCerts {
		certSibling = false
	}
	// the caller demands TLS 1.3 and the node speaks 1.2 at most: no connection, whatever the table says
	versionClash := tls12 && secVerMin[verSel] == tls.VersionTLS13
	if e.NoFaults && versionClash {
		verSel, versionClash = 0, false
	}
	if e.NoFaults {
		swapDraw = false
		certKind = 0
		if caSel >= 2 {
			caSel = 1
		}
		if kpSel >= 2 {
			kpSel = 1
		}
		if rootSel == 2 {
			rootSel = 1
		}
		if sn == 2 {
			sn = 1
		}
	}
	cfgPresent := cfgState != 0
	isv := cfgState == 2
	// Two nodes, each presenting its own certificate (only SAN: its own address), the second
	// discovered through system.peers and dialled after the first through the same dialer:
	// decides "the name of the host being dialled" per dial. Only where it can matter
	// (verification on, no explicit ServerName) and where nothing else is wrong (files good,
	// the harness CA trusted), so that both nodes must be connected to.
	if hostForm >= 4 && !secLocalhostUsable {
		k.Probe("tls.name-host-unavailable") // "localhost" does not resolve to 127.0.0.1 here
		hostForm = 0
	}
	// host given by NAME: the contact point "localhost" is resolved by the driver itself
	// (net.LookupIP); the dialler gets the IP, the name to verify is the name.
	nameForm := hostForm >= 4
	twoNodes := twoDraw && !nameForm && ((!cfgPresent && ehv) || (cfgPresent && !(isv && !ehv))) && sn == 0 &&
		caSel < secCaBadFrom && kpSel < secKPBadFrom && (caSel == 1 || caSel == 3 || rootSel == 1) && !versionClash
	swapped := twoNodes && swapDraw // the second node presents the FIRST node's certificate
	if twoNodes {
		certKind = 3 // only the node's own IP
		control = true
		k.Fault("tls.variant:two-nodes")
		if swapped {
			k.Fault("tls.variant:two-nodes-swapped-cert")
		}
	}
	for _, v := range []struct {
		on   bool
		name string
	}{
		{cfgState != 0, "config:" + secCfgNames[cfgState]}, {ehv, "hostverification"}, {sn != 0, "servername:" + secSNNames[sn]},
		{rootSel != 0, "rootcas:" + secRootNames[rootSel]}, {certKind != 0, "cert:" + secCertNames[certKind]},
		{caSel != 0, "capath:" + secCaNames[caSel]}, {kpSel != 0, "keypair:" + secKPNames[kpSel]}, {hostForm != 0, "host:" + secHostNames[hostForm]},
		{control, "controlconn"}, {tls12, "tls12"}, {authTLS, "auth"}, {userCerts, "usercerts"},
		{attempts > 1, fmt.Sprintf("attempts:%d", attempts)}, {viaCreate, "retry-via-createsession"}, {authForm != 0, "authform:" + secAuthForms[authForm]},
		{obsSel != 0, "observer:" + secObsNames[obsSel]}, {verSel != 0, "versions:" + secVerNames[verSel]}, {versionClash, "versions-clash-with-node"},
		{alpnSel != 0, "nextprotos:" + secALPNNames[alpnSel]}, {userGCC, "user-getclientcertificate"}, {userGCC && kpSel != 0, "user-getclientcertificate+keypair:" + secKPNames[kpSel]},
		{certSibling, "usercerts-shared-backing-array"}, {userCerts && kpSel == 1, "usercerts+keypair"}, {rootSel != 0 && caSel != 0, "rootcas+capath"},
		{noClientAuth, "node-no-client-cert-request"}, {noClientAuth && kpSel >= secKPBadFrom, "node-no-client-cert-request+bad-keypair"},
	} {
		if v.on {
			k.Fault("tls.variant:" + v.name)
		}
	}
	e.Note("half", "tls")
	e.Note("config", secCfgNames[cfgState])
	e.Note("hostverification", ehv)
	e.Note("servername", secSNNames[sn])
	e.Note("rootcas", secRootNames[rootSel])
	e.Note("capath", secCaNames[caSel])
	e.Note("keypair", secKPNames[kpSel])
	e.Note("cert", secCertNames[certKind])
	e.Note("host", secHostNames[hostForm])
	k.Rec("cell config=%s ehv=%v servername=%s rootcas=%s capath=%s keypair=%s cert=%s host=%s control=%v tls12=%v auth=%v usercerts=%v",
		secCfgNames[cfgState], ehv, secSNNames[sn], secRootNames[rootSel], secCaNames[caSel], secKPNames[kpSel], secCertNames[certKind],
		secHostNames[hostForm], control, tls12, authTLS, userCerts)
	if twoNodes {
		k.Rec("cell two-nodes swapped=%v", swapped)
		e.Note("twonodes", map[bool]string{false: "own-certs", true: "swapped"}[swapped])
	}
	if attempts > 1 {
		k.Rec("cell attempts=%d later-via-createsession=%v", attempts, viaCreate)
		e.Note("attempts", attempts)
	}
	if authForm != 0 {
		k.Rec("cell authform=%s", secAuthForms[authForm])
		e.Note("authform", secAuthForms[authForm])
	}
	moreShapes := obsSel != 0 || verSel != 0 || alpnSel != 0 || userGCC || certSibling || noClientAuth
	if moreShapes {
		k.Rec("cell observers=%s versions=%s nextprotos=%s user-getclientcertificate=%v usercerts-shared=%v node-asks-client-cert=%v",
			secObsNames[obsSel], secVerNames[verSel], secALPNNames[alpnSel], userGCC, certSibling, !noClientAuth)
		e.Note("observers", secObsNames[obsSel])
		e.Note("versions", secVerNames[verSel])
		e.Note("nextprotos", secALPNNames[alpnSel])
		e.Note("usergcc", userGCC)
		e.Note("nodeasksclientcert", !noClientAuth)
	}

	// ---- addresses ----
	v6 := hostForm == 2 || hostForm == 3
	addr, otherAddr := "10.0.0.1", "10.0.0.99"
	if v6 {
		addr, otherAddr = "fd00::1", "fd00::99"
	}
	if nameForm {
		addr, otherAddr = "127.0.0.1", "127.0.0.99"
	}
	hostArg := []string{"10.0.0.1", "10.0.0.1:9042", "fd00::1", "[fd00::1]:9042", secLocalName, secLocalName + ":9042"}[hostForm]
	// the name to verify when no ServerName is configured: the host as the caller gave it
	verifyName := addr
	if nameForm {
		verifyName = secLocalName
	}
	hostIP := net.ParseIP(addr)

	addrB := "10.0.0.2"
	if v6 {
		addrB = "fd00::2"
	}
	nNodes := 1
	if twoNodes {
		nNodes = 2
	}
	cl := node.NewCluster(k, nNodes)
	cl.Hosts[0].Addr = addr
	if twoNodes {
		cl.Hosts[1].Addr = addrB
	}

	// ---- certificates and files ----
	ca1 := secNewCA("simsec CA 1", 1)
	ca2 := ca1 // the second CA is made only for the cells that mention it
	if certKind == 1 || caSel == 2 || caSel == 3 || rootSel == 2 {
		ca2 = secNewCA("simsec CA 2", 2)
	}
	var leaf *secLeaf
	var leafIPs []net.IP
	var leafDNS []string
	issuer := ca1
	switch certKind {
	case 0:
		leafIPs, leafDNS = []net.IP{hostIP}, []string{secNameRight}
		if nameForm {
			leafDNS = append(leafDNS, secLocalName) // valid for the name and for the address
		}
	case 1:
		issuer = ca2
		leafIPs, leafDNS = []net.IP{hostIP}, []string{secNameRight}
		if nameForm {
			leafDNS = append(leafDNS, secLocalName)
		}
	case 2:
		leafIPs, leafDNS = []net.IP{net.ParseIP(otherAddr)}, []string{secNameElse}
	case 3:
		leafIPs = []net.IP{hostIP}
	case 4:
		leafDNS = []string{secNameRight}
		if nameForm {
			leafDNS = []string{secLocalName} // valid for the name the caller gave, not for the address
		}
	}
	leaf = issuer.issue("node", 10, leafIPs, leafDNS, false)

	dir := ""
	defer func() {
		if dir != "" {
			os.RemoveAll(dir)
		}
	}()
	mkdir := func() string {
		if dir == "" {
			d, err := os.MkdirTemp("", "simsec")
			if err != nil {
				panic(err)
			}
			dir = d
		}
		return dir
	}
	write := func(name string, b []byte) string {
		p := filepath.Join(mkdir(), name)
		if err := os.WriteFile(p, b, 0o600); err != nil {
			panic(err)
		}
		return p
	}
	ssl := &gocql.SslOptions{EnableHostVerification: ehv}
	switch caSel {
	case 1:
		ssl.CaPath = write("ca.pem", ca1.pem)
	case 2:
		ssl.CaPath = write("ca.pem", ca2.pem)
	case 3:
		ssl.CaPath = write("ca.pem", append(append([]byte(nil), ca2.pem...), ca1.pem...))
	case 4:
		ssl.CaPath = filepath.Join(mkdir(), "no-such-ca.pem")
	case 5:
		ssl.CaPath = write("ca.pem", []byte(secGarbageTxt))
	case 6:
		ssl.CaPath = write("ca.pem", nil)
	case 7:
		ssl.CaPath = write("ca.pem", pem.EncodeToMemory(&pem.Block{Type: "CERTIFICATE", Bytes: ca1.cert.Raw[:len(ca1.cert.Raw)/2]}))
	case 8:
		ssl.CaPath = write("ca.pem", leaf.keyPEM)
	case 9:
		ssl.CaPath = mkdir()
	}
	if kpSel != 0 {
		cli := ca1.issue("client", 20, nil, nil, true)
		switch kpSel {
		case 1:
			ssl.CertPath, ssl.KeyPath = write("client.pem", cli.certPEM), write("client.key", cli.keyPEM)
		case 2:
			ssl.CertPath, ssl.KeyPath = filepath.Join(mkdir(), "no-such-client.pem"), write("client.key", cli.keyPEM)
		case 3:
			ssl.CertPath, ssl.KeyPath = write("client.pem", cli.certPEM), filepath.Join(mkdir(), "no-such-client.key")
		case 4:
			ssl.CertPath, ssl.KeyPath = write("client.pem", []byte(secGarbageTxt)), write("client.key", cli.keyPEM)
		case 5:
			ssl.CertPath, ssl.KeyPath = write("client.pem", cli.certPEM), write("client.key", []byte(secGarbageTxt))
		case 6:
			other := ca1.issue("client2", 21, nil, nil, true)
			ssl.CertPath, ssl.KeyPath = write("client.pem", cli.certPEM), write("client.key", other.keyPEM)
		case 7:
			ssl.CertPath = write("client.pem", cli.certPEM)
		case 8:
			ssl.KeyPath = write("client.key", cli.keyPEM)
		}
	}
	badFile := caSel >= secCaBadFrom || kpSel >= secKPBadFrom

	// ---- the caller's own tls.Config ----
	var user *tls.Config
	var userPool, userPoolBefore *x509.CertPool
	var userCertArr []tls.Certificate
	var siblingCfg *tls.Config // another Config of the caller (for another service) whose Certificates share the backing array
	var siblingDER []byte
	var userNP []string
	cb := &secUserCallbacks{}
	if cfgPresent {
		user = &tls.Config{InsecureSkipVerify: isv}
		switch sn {
		case 1:
			user.ServerName = secNameRight
		case 2:
			user.ServerName = secNameWrong
		}
		switch rootSel {
		case 1:
			userPool = x509.NewCertPool()
			userPool.AddCert(ca1.cert)
		case 2:
			userPool = x509.NewCertPool()
			userPool.AddCert(ca2.cert)
		}
		if userPool != nil {
			user.RootCAs = userPool
			userPoolBefore = userPool.Clone()
		}
		if userCerts {
			// the caller's own client certificate, in a slice with spare capacity
			own := ca1.issue("client-own", 22, nil, nil, true)
			userCertArr = make([]tls.Certificate, 1, 4)
			userCertArr[0] = own.tlsCert
			user.Certificates = userCertArr
			if certSibling {
				// the caller keeps its certificates in one array: this Config uses the first,
				// a Config for another service the first two
				otherSvc := ca1.issue("client-other-service", 23, nil, nil, true)
				siblingCfg = &tls.Config{Certificates: append(userCertArr[:1], otherSvc.tlsCert)}
				siblingDER = otherSvc.tlsCert.Certificate[0]
			}
		}
		if obsSel == 1 || obsSel == 3 {
			user.VerifyPeerCertificate = cb.verifyPeerCertificate
		}
		if obsSel == 2 || obsSel == 3 {
			user.VerifyConnection = cb.verifyConnection
		}
		user.MinVersion, user.MaxVersion = secVerMin[verSel], secVerMax[verSel]
		switch alpnSel {
		case 1:
			userNP = append(make([]string, 0, 4), secALPNProto)
		case 2:
			userNP = append(make([]string, 0, 4), "sim-other", secALPNProto)
		}
		user.NextProtos = userNP
		if userGCC {
			// the caller chooses its client certificate itself
			chosen := ca1.issue("client-chosen", 24, nil, nil, true)
			user.GetClientCertificate = func(*tls.CertificateRequestInfo) (*tls.Certificate, error) {
				cb.gcc.Add(1)
				return &chosen.tlsCert, nil
			}
		}
		ssl.Config = user
	}
	snapISV, snapSN, snapRoots, snapNCerts := false, "", (*x509.CertPool)(nil), 0
	var snapMin, snapMax uint16
	var snapVPC, snapVC, snapGCC uintptr
	snapNP := append([]string(nil), userNP...)
	if user != nil {
		snapISV, snapSN, snapRoots, snapNCerts = user.InsecureSkipVerify, user.ServerName, user.RootCAs, len(user.Certificates)
		snapMin, snapMax = user.MinVersion, user.MaxVersion
		snapVPC, snapVC, snapGCC = secFuncPtr(user.VerifyPeerCertificate), secFuncPtr(user.VerifyConnection), secFuncPtr(user.GetClientCertificate)
	}
	// the version a handshake between the caller's bounds and the node's ends with
	wantVersion := uint16(tls.VersionTLS13)
	if tls12 || secVerMax[verSel] == tls.VersionTLS12 {
		wantVersion = tls.VersionTLS12
	}

	// ---- expected outcome: from the documented table, not from the code ----
	verify := (!cfgPresent && ehv) || (cfgPresent && !(isv && !ehv))
	trust1 := caSel == 1 || caSel == 3 || rootSel == 1
	trust2 := caSel == 2 || caSel == 3 || rootSel == 2
	chainOK := (certKind != 1 && trust1) || (certKind == 1 && trust2)
	nameOK := false
	switch sn {
	case 0: // no explicit server name: the host being dialled, as the caller named it
		if nameForm {
			for _, d := range leafDNS {
				if d == secLocalName {
					nameOK = true
				}
			}
			break
		}
		for _, ip := range leafIPs {
			if ip.Equal(hostIP) {
				nameOK = true
			}
		}
	case 1:
		for _, d := range leafDNS {
			if d == secNameRight {
				nameOK = true
			}
		}
	}
	expectConnect := (!verify || (chainOK && nameOK)) && !versionClash
	k.Rec("expect verify=%v chain=%v name=%v badfile=%v connect=%v", verify, chainOK, nameOK, badFile, expectConnect && !badFile)
	if versionClash {
		k.Rec("expect no common protocol version")
	}
	if !badFile && obsSel != 0 && !versionClash {
		// the documented table once more, with the caller's own verification callbacks present
		k.Probe(fmt.Sprintf("tls.obscell:%s/ehv=%v/sn=%s/chain=%v/%s", secCfgNames[cfgState], ehv, secSNNames[sn], chainOK, secCertNames[certKind]))
		k.Probe(fmt.Sprintf("tls.obsexpect:%s/verify=%v,connect=%v", secObsNames[obsSel], verify, expectConnect))
	}
	if !badFile {
		k.Probe(fmt.Sprintf("tls.cell:%s/ehv=%v/sn=%s/chain=%v/%s", secCfgNames[cfgState], ehv, secSNNames[sn], chainOK, secCertNames[certKind]))
		k.Probe(fmt.Sprintf("tls.expect:verify=%v,chain=%v,name=%v", verify, chainOK, nameOK))
		if nameForm {
			k.Probe(fmt.Sprintf("tls.namecell:%s/ehv=%v/sn=%s/chain=%v/%s", secCfgNames[cfgState], ehv, secSNNames[sn], chainOK, secCertNames[certKind]))
			if verify && sn == 0 && chainOK {
				k.Probe("tls.name-host:verified-by-name/" + secCertNames[certKind])
			}
		}
	} else {
		if caSel >= secCaBadFrom {
			k.Probe("tls.badfile:capath=" + secCaNames[caSel])
		}
		if kpSel >= secKPBadFrom {
			k.Probe("tls.badfile:keypair=" + secKPNames[kpSel])
		}
	}

	// ---- the node ----
	srvCfg := &tls.Config{Certificates: []tls.Certificate{leaf.tlsCert}, ClientAuth: tls.RequestClientCert, CurvePreferences: []tls.CurveID{tls.X25519}}
	if tls12 {
		srvCfg.MaxVersion = tls.VersionTLS12
	}
	if noClientAuth {
		srvCfg.ClientAuth = tls.NoClientCert
	}
	if alpnSel == 2 {
		srvCfg.NextProtos = []string{secALPNProto}
	}
	authClass, authUser, authPass := "", "cassandra", "sécret-パス"
	if authTLS {
		authClass = "org.apache.cassandra.auth.PasswordAuthenticator"
	}
	tn := newSecTLSNode(k, cl, srvCfg, authClass)
	if twoNodes {
		cfgB := srvCfg.Clone()
		if !swapped {
			leafB := ca1.issue("node-b", 11, []net.IP{net.ParseIP(addrB)}, nil, false)
			cfgB.Certificates = []tls.Certificate{leafB.tlsCert}
		}
		tn.cfgs = map[string]*tls.Config{addrB: cfgB}
	}

	// ---- the client ----
	cfg := BaseConfig(cl, hostArg)
	cfg.SslOpts = ssl
	cfg.NumConns = 1
	cfg.ReconnectionPolicy = &gocql.ConstantReconnectionPolicy{MaxRetries: 1, Interval: 10 * time.Millisecond}
	obs := &secConnObs{}
	cfg.ConnectObserver = obs
	if !control {
		gocql.VerifDisableControlConn(cfg, true)
	}
	if nameForm {
		// With the initial host lookup the pool host is rebuilt from system.local, which
		// knows addresses only; what "the name of the host being dialled" is then is not
		// documented. Judged: the connections to the contact point as the caller named it.
		cfg.DisableInitialHostLookup = true
		for _, ip := range secLocalhost {
			if ip != addr {
				cl.Net.SetDialMode(ip, simnet.DialRefuse) // other addresses of the name: nothing listens
			}
		}
	}
	var authObj gocql.Authenticator
	var authPA *gocql.PasswordAuthenticator
	if authTLS {
		authObj, authPA = secMakeAuth(authForm, authUser, authPass, nil)
		cfg.Authenticator = authObj
	}
	sslBefore := *ssl // the caller's SslOptions as the caller wrote them

	// Every attempt is made with the same cfg (hence the same *SslOptions and *tls.Config)
	// and judged by the same documented outcome. A clause violated by a later attempt only
	// gets its own signature.
	attempt := 1
	violate := func(prop, sig, format string, args ...interface{}) {
		if attempt > 1 && prop == "C20" {
			sig = "C20/outcome-changes-on-second-attempt:" + strings.TrimPrefix(sig, "C20/")
			format = fmt.Sprintf("session creation attempt %d of %d with the very same ClusterConfig / SslOptions / tls.Config objects (every earlier attempt behaved as documented and had finished; its session, if any, was closed): ", attempt, attempts) + format
		}
		k.Violate(prop, sig, format, args...)
	}
	probe := func(name string) {
		if attempt > 1 {
			name = "tls.retry:" + strings.TrimPrefix(name, "tls.")
		}
		k.Probe(name)
	}
	desc := fmt.Sprintf("[Config %s, EnableHostVerification=%v, ServerName %s, RootCAs %s, CaPath %s, key pair %s, node presents %q certificate, host %s]",
		secCfgNames[cfgState], ehv, secSNNames[sn], secRootNames[rootSel], secCaNames[caSel], secKPNames[kpSel], secCertNames[certKind], hostArg)
	if authForm != 0 {
		desc = desc[:len(desc)-1] + ", authenticator form " + secAuthForms[authForm] + "]"
	}
	if moreShapes {
		more := ""
		if obsSel != 0 {
			more += ", the caller's Config has its own " + map[int]string{1: "VerifyPeerCertificate", 2: "VerifyConnection", 3: "VerifyPeerCertificate and VerifyConnection"}[obsSel] + " (observing, always nil)"
		}
		if verSel != 0 {
			more += fmt.Sprintf(", Config.MinVersion=%#x MaxVersion=%#x", secVerMin[verSel], secVerMax[verSel])
		}
		if alpnSel != 0 {
			more += fmt.Sprintf(", Config.NextProtos=%q", snapNP)
		}
		if userGCC {
			more += ", Config.GetClientCertificate set"
		}
		if certSibling {
			more += ", Config.Certificates shares its array with another slice of the caller"
		}
		if noClientAuth {
			more += ", the node does not ask for a client certificate"
		}
		desc = desc[:len(desc)-1] + more + "]"
	}

	// runAttempt makes one session creation attempt and judges it. It returns the session
	// (nil if none was created) and whether the run can go on with another attempt.
	runAttempt := func() (sess *gocql.Session, goOn bool) {
		tag := ""
		if attempt > 1 {
			tag = fmt.Sprintf("attempt=%d ", attempt)
			k.Probe(fmt.Sprintf("tls.retry:attempt-%d", attempt))
		}
		// what earlier attempts left behind does not belong to this one
		dials0 := cl.Net.Dials()
		cb0 := cb.counts()
		_, errsBefore := obs.snapshot()
		errs0 := len(errsBefore)
		conns0 := len(tn.snapshot())
		create := func() (*gocql.Session, error) { return gocql.NewSession(*cfg) }
		if attempt > 1 && viaCreate {
			create = cfg.CreateSession
		}
		sess, serr, finished := secPump(k, 30*time.Second, nil, create)
		k.OpDone()
		if !finished {
			k.Violate("HARNESS", "sec/newsession-not-finished", "%sNewSession did not return within 30 s simulated", tag)
			return nil, false
		}
		connected := serr == nil && sess != nil
		dials := cl.Net.Dials() - dials0
		_, dialErrs := obs.snapshot()
		dialErrs = dialErrs[errs0:]
		conns := tn.snapshot()[conns0:]
		accepted := false // the client completed a handshake, i.e. it accepted the certificate
		for _, c := range conns {
			if c.handshook {
				accepted = true
			}
		}
		var certErr, nameErr, timeoutErr bool
		var firstDialErr error
		for _, de := range dialErrs {
			if firstDialErr == nil {
				firstDialErr = de
			}
			var cve *tls.CertificateVerificationError
			if errors.As(de, &cve) {
				certErr = true
			}
			var he x509.HostnameError
			if errors.As(de, &he) {
				nameErr = true
			}
			var ne net.Error
			if errors.As(de, &ne) && ne.Timeout() {
				timeoutErr = true
			}
		}
		k.Rec("result %sconnected=%v accepted=%v dials=%d dialerrors=%d certerr=%v nameerr=%v", tag, connected, accepted, dials, len(dialErrs), certErr, nameErr)

		verdict := func() {
			// ---- bad files are reported, before anything is dialled ----
			if badFile {
				if serr == nil {
					violate("C20", "C20/bad-file-not-reported", "%s: NewSession succeeded although a configured CA / key-pair file is unreadable or unparsable", desc)
					return
				}
				if dials != 0 {
					violate("C20", "C20/bad-file-dialled-before-error", "%s: NewSession failed (%v) but only after %d dial(s): the driver connected without the configured files", desc, serr, dials)
					return
				}
				probe("tls.badfile-reported")
				return
			}

			// ---- the caller's protocol version bounds hold, whatever the table says ----
			if versionClash {
				switch {
				case connected || accepted:
					violate("C20", "C20/user-config-not-carried-over:version-bounds", "%s: the caller's Config demands TLS 1.3 and the node speaks TLS 1.2 at most, yet the driver completed a TLS handshake (session created=%v): it did not dial with the caller's MinVersion", desc, connected)
				case dials == 0 || len(dialErrs) == 0 || certErr:
					violate("HARNESS", "sec/unexpected-failure", "%s: expected a refused protocol version, got %v after %d dial(s) (first dial error: %v)", desc, serr, dials, firstDialErr)
				default:
					probe("tls.version-clash-refused")
				}
				return
			}

			// ---- verification exactly when documented ----
			switch {
			case (connected || accepted) && !expectConnect:
				sig := "C20/connected-without-verification"
				why := "the certificate chain does not lead to a configured root"
				if chainOK {
					why = "the certificate is not valid for the name to verify"
					if sn == 0 {
						sig = "C20/server-name-not-host"
						why = "no ServerName was configured, so the name to verify is the dialled host " + verifyName + ", for which the certificate is not valid"
					}
				}
				violate("C20", sig, "%s: the documented table says verify, %s, yet the driver completed a TLS handshake (session created=%v)", desc, why, connected)
				return
			case !connected && expectConnect:
				if dials == 0 || len(dialErrs) == 0 || (timeoutErr && !certErr) {
					// nothing was refused: the attempt died for a reason the table does not speak about
					violate("HARNESS", "sec/unexpected-failure", "%s: NewSession failed (%v) without a refused handshake: %d dial(s), first dial error: %v", desc, serr, dials, firstDialErr)
					return
				}
				switch {
				case !verify && certErr:
					violate("C20", "C20/verified-when-disabled", "%s: the documented table says do not verify, yet the handshake failed verification: %v", desc, firstDialErr)
				case verify && sn == 0 && nameErr:
					violate("C20", "C20/server-name-not-host", "%s: the certificate is valid for the dialled host %s and chains to a configured root, yet it was refused for its name: %v", desc, verifyName, firstDialErr)
				case verify:
					violate("C20", "C20/refused-valid-server", "%s: the certificate chains to a configured root and matches the name to verify, yet the connection was refused: %v", desc, firstDialErr)
				default:
					violate("C20", "C20/refused-valid-server", "%s: the documented table says do not verify, so any certificate is acceptable, yet the connection was refused: %v", desc, firstDialErr)
				}
				return
			case !connected:
				if !certErr {
					violate("HARNESS", "sec/unexpected-failure", "%s: expected a certificate verification failure, got %v (first dial error: %v)", desc, serr, firstDialErr)
					return
				}
				probe("tls.refused-as-documented")
				return
			}
			probe("tls.connected-as-documented")

			// ---- what else the caller put into its Config is what the driver dials with ----
			if moreShapes {
				nHS := int32(0)
				for _, c := range conns {
					if !c.handshook {
						continue
					}
					nHS++
					if verSel != 0 && c.version != wantVersion {
						violate("C20", "C20/user-config-not-carried-over:version-bounds", "%s: connection %s negotiated version %#x; with the caller's bounds and the node's (TLS 1.2 only: %v) it must be %#x", desc, c.name, c.version, tls12, wantVersion)
						return
					}
					if alpnSel != 0 && strings.Join(c.alpn, ",") != strings.Join(snapNP, ",") {
						violate("C20", "C20/user-config-not-carried-over:next-protos", "%s: connection %s offered the protocols %q", desc, c.name, c.alpn)
						return
					}
					if alpnSel == 2 && c.negotiated != secALPNProto {
						violate("C20", "C20/user-config-not-carried-over:next-protos", "%s: connection %s negotiated the protocol %q, the node and the caller have %q in common", desc, c.name, c.negotiated, secALPNProto)
						return
					}
				}
				// (the node completes a handshake only after the client has verified, called the
				// caller's callbacks and chosen its certificate, and the counters are read after
				// the connections were counted)
				d := cb.counts()
				if (obsSel == 1 || obsSel == 3) && d.vpc-cb0.vpc < nHS {
					violate("C20", "C20/user-verify-callback-not-called", "%s: %d handshake(s) completed, the caller's VerifyPeerCertificate was called %d time(s): the driver did not dial with the caller's verification callback", desc, nHS, d.vpc-cb0.vpc)
					return
				}
				if (obsSel == 2 || obsSel == 3) && d.vc-cb0.vc < nHS {
					violate("C20", "C20/user-verify-callback-not-called", "%s: %d handshake(s) completed, the caller's VerifyConnection was called %d time(s): the driver did not dial with the caller's verification callback", desc, nHS, d.vc-cb0.vc)
					return
				}
				if userGCC && !noClientAuth && d.gcc-cb0.gcc < nHS {
					violate("C20", "C20/user-config-not-carried-over:get-client-certificate", "%s: %d handshake(s) in which the node asked for a client certificate completed, the caller's GetClientCertificate was called %d time(s)", desc, nHS, d.gcc-cb0.gcc)
					return
				}
				if obsSel != 0 {
					probe("tls.observer-called:" + secObsNames[obsSel])
					// what the observers saw of the standard verification: observed, not judged (a
					// driver may verify by other means than crypto/tls's own)
					sawVerified := d.vpcVerified-cb0.vpcVerified > 0 || d.vcVerified-cb0.vcVerified > 0
					probe(fmt.Sprintf("tls.observer-saw:verify=%v,verified-chains=%v", verify, sawVerified))
				}
				if verSel != 0 {
					probe("tls.versions-carried:" + secVerNames[verSel])
				}
				if alpnSel != 0 {
					probe("tls.nextprotos-carried:" + secALPNNames[alpnSel])
				}
				if userGCC && !noClientAuth {
					probe("tls.user-getclientcertificate-called")
				}
			}

			// ---- a valid key pair is used ----
			if kpSel == 1 && !noClientAuth && !userGCC { // (which of the two the client presents when the caller chooses itself is not documented)
				for _, c := range conns {
					if c.handshook && c.clientCerts == 0 {
						violate("C20", "C20/client-cert-not-presented", "%s: connection %s completed a handshake in which the node asked for a client certificate and got none, although CertPath/KeyPath name a valid key pair", desc, c.name)
						return
					}
				}
				probe("tls.client-cert-presented")
			}
			// ---- credentials over TLS ----
			if authTLS {
				want := "\x00" + authUser + "\x00" + authPass
				nTok := 0
				for _, c := range conns {
					for _, t := range c.tokens {
						nTok++
						if string(t) != want {
							violate("C20", "C20/not-sasl-plain", "%s: AUTH_RESPONSE token on %s is %d bytes and differs from NUL user NUL password (%d bytes)", desc, c.name, len(t), len(want))
							return
						}
					}
					if c.unauthOp != "" {
						violate("C20", "C20/unauthenticated-session", "%s: %s sent %s on a connection that owed authentication", desc, c.name, c.unauthOp)
						return
					}
				}
				if nTok == 0 {
					violate("C20", "C20/unauthenticated-session", "%s: a session exists although the node demanded authentication and never saw an AUTH_RESPONSE", desc)
					return
				}
				probe("tls.auth-over-tls")
			}
			// ---- every node is verified against its own address ----
			if twoNodes {
				probe("tls.two-nodes")
				bState := func() (handshook bool, dialled bool) {
					for _, c := range tn.snapshot()[conns0:] {
						if c.host == addrB {
							dialled = true
							if c.handshook {
								handshook = true
							}
						}
					}
					return
				}
				// the pool of the second node fills in the background: give it time. A
				// refusal is final once the driver has seen it; an acceptance may still come.
				wait := 10 * time.Second
				if swapped {
					wait = 2 * time.Second
				}
				deadline := time.Now().Add(wait)
				for {
					k.Quiesce()
					hs, _ := bState()
					if hs || (!swapped && len(obs.errorsOf(addrB, errs0)) > 0) || time.Now().After(deadline) {
						break
					}
					time.Sleep(50 * time.Millisecond)
				}
				hs, dialledB := bState()
				errsB := obs.errorsOf(addrB, errs0)
				var certErrB, nameErrB bool
				var firstB error
				for _, de := range errsB {
					if firstB == nil {
						firstB = de
					}
					var cve *tls.CertificateVerificationError
					if errors.As(de, &cve) {
						certErrB = true
					}
					var he x509.HostnameError
					if errors.As(de, &he) {
						nameErrB = true
					}
				}
				k.Rec("result "+tag+"two-nodes b-dialled=%v b-handshook=%v b-dialerrors=%d certerr=%v nameerr=%v", dialledB, hs, len(errsB), certErrB, nameErrB)
				switch {
				case swapped && hs:
					violate("C20", "C20/connected-without-verification", "%s: second node %s (discovered through system.peers, dialled after %s) presents the certificate of %s, whose only SAN is %s; verification is on and no ServerName is configured, so the name to verify is %s, yet the driver completed a TLS handshake with it",
						desc, addrB, addr, addr, addr, addrB)
					return
				case swapped:
					if !dialledB {
						violate("HARNESS", "sec/second-node-not-dialled", "%s: the driver never dialled the second node %s within %v", desc, addrB, wait)
						return
					}
					probe("tls.two-nodes:swapped-cert-refused")
				case hs:
					probe("tls.two-nodes:b-verified-by-own-name")
				case !dialledB:
					violate("HARNESS", "sec/second-node-not-dialled", "%s: the driver never dialled the second node %s within %v", desc, addrB, wait)
					return
				case certErrB && nameErrB:
					violate("C20", "C20/server-name-not-host", "%s: second node %s (discovered through system.peers, dialled after %s through the same session) presents a certificate from a trusted CA whose SAN is its own address %s; no ServerName is configured, so that is the name to verify, yet the certificate was refused for its name: %v",
						desc, addrB, addr, addrB, firstB)
					return
				case certErrB:
					violate("C20", "C20/refused-valid-server", "%s: second node %s presents a certificate from a trusted CA valid for its own address, yet it was refused: %v", desc, addrB, firstB)
					return
				default:
					violate("HARNESS", "sec/second-node-not-connected", "%s: no established connection to the second node %s within %v and no certificate error (first dial error: %v)", desc, addrB, wait, firstB)
					return
				}
			}
			// ---- the session works ----
			_, qerr, ok := secPump(k, 10*time.Second, nil, func() (struct{}, error) {
				return struct{}{}, sess.Query("ECHO 'sec'").Exec() // not a statement the driver prepares
			})
			k.OpDone()
			if !ok || qerr != nil {
				violate("HARNESS", "sec/query-failed", "%s: a query on the established session failed: %v (finished=%v)", desc, qerr, ok)
			}
		}
		verdict()

		// ---- the caller's configuration is left alone, whatever the outcome (judged last, so
		// that a known finding here does not hide a wrong verification outcome of the cell) ----
		if *ssl != sslBefore && k.Violation() == nil {
			violate("C20", "C20/user-ssloptions-mutated", "%s: the caller's SslOptions changed: Config pointer changed=%v, EnableHostVerification %v->%v, CaPath %q->%q, CertPath %q->%q, KeyPath %q->%q",
				desc, ssl.Config != sslBefore.Config, sslBefore.EnableHostVerification, ssl.EnableHostVerification, sslBefore.CaPath, ssl.CaPath, sslBefore.CertPath, ssl.CertPath, sslBefore.KeyPath, ssl.KeyPath)
		}
		npIntact := func() bool { // the caller's NextProtos, and the spare capacity of its array
			if len(user.NextProtos) != len(snapNP) {
				return false
			}
			for i := range snapNP {
				if user.NextProtos[i] != snapNP[i] {
					return false
				}
			}
			for _, s := range userNP[len(userNP):cap(userNP)] {
				if s != "" {
					return false
				}
			}
			return true
		}
		if user != nil && k.Violation() == nil {
			switch {
			case user.InsecureSkipVerify != snapISV || user.ServerName != snapSN || user.RootCAs != snapRoots || len(user.Certificates) != snapNCerts:
				violate("C20", "C20/user-config-mutated", "%s: the caller's tls.Config changed: InsecureSkipVerify %v->%v, ServerName %q->%q, RootCAs pointer changed=%v, len(Certificates) %d->%d",
					desc, snapISV, user.InsecureSkipVerify, snapSN, user.ServerName, user.RootCAs != snapRoots, snapNCerts, len(user.Certificates))
			case secFuncPtr(user.VerifyPeerCertificate) != snapVPC || secFuncPtr(user.VerifyConnection) != snapVC:
				violate("C20", "C20/user-config-mutated", "%s: the caller's tls.Config changed: VerifyPeerCertificate set %v->%v (replaced=%v), VerifyConnection set %v->%v (replaced=%v)", desc,
					snapVPC != 0, user.VerifyPeerCertificate != nil, secFuncPtr(user.VerifyPeerCertificate) != snapVPC, snapVC != 0, user.VerifyConnection != nil, secFuncPtr(user.VerifyConnection) != snapVC)
			case user.MinVersion != snapMin || user.MaxVersion != snapMax || secFuncPtr(user.GetClientCertificate) != snapGCC ||
				!npIntact():
				violate("C20", "C20/user-config-mutated", "%s: the caller's tls.Config changed: MinVersion %#x->%#x, MaxVersion %#x->%#x, GetClientCertificate set %v->%v (replaced=%v), NextProtos %q->%q (its array, to capacity: %q)", desc,
					snapMin, user.MinVersion, snapMax, user.MaxVersion, snapGCC != 0, user.GetClientCertificate != nil, secFuncPtr(user.GetClientCertificate) != snapGCC, snapNP, user.NextProtos, userNP[:cap(userNP)])
			case userPoolBefore != nil && !userPool.Equal(userPoolBefore):
				violate("C20", "C20/user-config-rootcas-pool-mutated", "%s: the certificate pool the caller's tls.Config.RootCAs points to was modified by session creation (the certificates of CaPath were added to the caller's own pool, which now trusts CAs the caller did not put there, in every tls.Config sharing it)", desc)
			case userCertArr != nil:
				// client identity, not a verification setting: observed, not judged (secJudgeCertBackingArray)
				spare := userCertArr[:cap(userCertArr)]
				switch {
				case siblingCfg != nil && (len(siblingCfg.Certificates) != 2 || len(siblingCfg.Certificates[1].Certificate) != 1 || !bytes.Equal(siblingCfg.Certificates[1].Certificate[0], siblingDER)):
					probe("tls.user-certificates-other-config-of-the-caller-overwritten")
					if secJudgeCertBackingArray {
						violate("C20", "C20/user-certificates-backing-array-written", "%s: session creation wrote the CertPath/KeyPath certificate into the array behind the caller's Config.Certificates (beyond its length): another tls.Config of the caller, whose Certificates share that array, now presents the driver's certificate instead of its own second one", desc)
					}
				case siblingCfg == nil && len(spare[1].Certificate) != 0:
					probe("tls.user-certificates-spare-capacity-written")
					if secJudgeCertBackingArray {
						violate("C20", "C20/user-certificates-backing-array-written", "%s: session creation wrote the CertPath/KeyPath certificate into the spare capacity of the array behind the caller's Config.Certificates", desc)
					}
				}
			}
		}
		if authPA != nil && (authPA.Username != authUser || authPA.Password != authPass || authPA.AllowedAuthenticators != nil) {
			k.Probe("tls.authenticator-object-modified") // observed, not judged
		}
		return sess, k.Violation() == nil
	}

	var sess *gocql.Session
	for {
		var goOn bool
		sess, goOn = runAttempt()
		if !goOn || attempt == attempts {
			break
		}
		// the caller gives up on this session (or has none) and tries again
		if sess != nil {
			s := sess
			sess = nil
			_, _, ok := secPump(k, 60*time.Second, nil, func() (struct{}, error) { s.Close(); return struct{}{}, nil })
			if !ok {
				k.Violate("C17", "C17/session-close-hangs", "sec: Session.Close did not return within 60 s simulated")
				break
			}
			k.Probe("tls.retry:after-success")
		} else {
			k.Probe("tls.retry:after-failure")
		}
		// let what the finished attempt left behind end (bounded like secFinish; what stays
		// after that is judged at the end of the run)
		deadline := time.Now().Add(35 * time.Second)
		for tick := 10 * time.Millisecond; ; {
			k.Quiesce()
			if runtime.NumGoroutine() <= base {
				break
			}
			if time.Now().After(deadline) {
				k.Probe("tls.retry:previous-attempt-not-settled")
				break
			}
			time.Sleep(tick)
			if tick < time.Second {
				tick *= 4
			}
		}
		attempt++
	}
	secFinish(k, cl, tn.hub, nil, sess, base)
}

// ---------------------------------------------------------------------------------
// authentication half

// The built-in approved list, copied from the documentation of the property (conn.go
// defaultApprovedAuthenticators); the oracle does not read the driver's variable.
var secDefaultApproved = []string{
	"org.apache.cassandra.auth.PasswordAuthenticator",
	"com.instaclustr.cassandra.auth.SharedSecretAuthenticator",
	"com.datastax.bdp.cassandra.auth.DseAuthenticator",
	"io.aiven.cassandra.auth.AivenAuthenticator",
	"com.ericsson.bss.cassandra.ecaudit.auth.AuditPasswordAuthenticator",
	"com.amazon.helenus.auth.HelenusAuthenticator",
	"com.ericsson.bss.cassandra.ecaudit.auth.AuditAuthenticator",
	"com.scylladb.auth.SaslauthdAuthenticator",
	"com.scylladb.auth.TransitionalAuthenticator",
	"com.instaclustr.cassandra.auth.InstaclustrPasswordAuthenticator",
}

const secCustomClass = "com.example.auth.CustomAuthenticator"

var secCreds = [][2]string{
	{"cassandra", "cassandra"},
	{"", ""},
	{"User", ""},
	{"", "PassWord"},
	{"üser-ñ-用户", "Pässwörd-日本語-🔑"},
	{strings.Repeat("u", 300), strings.Repeat("p", 70000)},
	{"a b\tc", "p:w=\"x\" y\\z"},
	// white space at the ends is part of a role name / password like any other character
	{" lead", "trail \n"},
	{"\tuser\u00a0", "\u3000pass\u0085"},
}

// The legal ways of handing the driver a password authenticator. gocql's documentation
// shows the plain value; a pointer satisfies the Authenticator interface as well (the
// methods have value receivers), and so does any type of the caller's that embeds a
// PasswordAuthenticator or forwards Challenge / Success to one.
var secAuthForms = []string{"value", "pointer", "embedded", "embedded-pointer", "delegating"}

// secEmbedAuth is a caller's type that adds something of its own to the password
// authenticator; Challenge and Success are the promoted methods.
type secEmbedAuth struct {
	gocql.PasswordAuthenticator
	Tenant string
}

// secDelegAuth is a caller's type that forwards to a password authenticator it holds.
type secDelegAuth struct {
	inner      gocql.Authenticator
	challenges atomic.Int32
}

func (d *secDelegAuth) Challenge(req []byte) ([]byte, gocql.Authenticator, error) {
	d.challenges.Add(1)
	return d.inner.Challenge(req)
}

func (d *secDelegAuth) Success(data []byte) error { return d.inner.Success(data) }

// secMakeAuth returns the authenticator in the given form and the PasswordAuthenticator
// object the driver can reach through it (nil for the by-value forms, of which the
// driver only ever sees copies).
func secMakeAuth(form int, user, pass string, allowed []string) (gocql.Authenticator, *gocql.PasswordAuthenticator) {
	pa := gocql.PasswordAuthenticator{Username: user, Password: pass, AllowedAuthenticators: allowed}
	switch form {
	case 1:
		return &pa, &pa
	case 2:
		return secEmbedAuth{PasswordAuthenticator: pa, Tenant: "tenant-1"}, nil
	case 3:
		w := &secEmbedAuth{PasswordAuthenticator: pa, Tenant: "tenant-1"}
		return w, &w.PasswordAuthenticator
	case 4:
		return &secDelegAuth{inner: &pa}, &pa
	}
	return pa, nil
}

var secListVarNames = []string{"column", "empty-nonnil", "contains-demanded", "near-misses-only", "defaults+custom"}

func secAuth(e *Env) {
	k := e.K
	tp := k.Tape
	base := runtime.NumGoroutine()

	// ---- the cell ----
	// classes: 0 = approved default[0]; 1..9 other defaults; 10 none; 11 caller's only; 12 unknown; 13.. near-misses
	classes := append([]string(nil), secDefaultApproved...)
	classNames := []string{"default0", "default1", "default2", "default3", "default4", "default5", "default6", "default7", "default8", "default9"}
	classes = append(classes, "", secCustomClass, "com.evil.auth.HarvestingAuthenticator",
		secDefaultApproved[0]+" ", strings.ToLower(secDefaultApproved[0]), secDefaultApproved[0]+"X", strings.TrimSuffix(secDefaultApproved[0], "Authenticator"))
	classNames = append(classNames, "none", "calleronly", "unknown", "near-trailingspace", "near-lowercase", "near-suffix", "near-prefix")
	ws := make([]int, len(classes))
	for i := range ws {
		ws[i] = 1
	}
	ws[0], ws[10], ws[11], ws[12] = 3, 2, 3, 3
	ci := tp.Weighted(ws)
	// client: 0 PasswordAuthenticator (default list), 1 none, 2 custom list, 3 custom list + default0, 4 AuthProvider
	clientNames := []string{"password-defaultlist", "none", "password-customlist", "password-customlist+default0", "authprovider"}
	cli := tp.Weighted([]int{4, 3, 3, 2, 2})
	cred := tp.Next(len(secCreds))
	control := tp.Next(2) == 1
	numConns := 1 + tp.Next(2)
	// (drawn last, so that tapes recorded before these choices existed keep their meaning)
	// form: how the caller hands over the password authenticator (index into secAuthForms)
	form := tp.Next(len(secAuthForms))
	// listVar: 0 = the AllowedAuthenticators of the client column; 1 = an empty non-nil slice where
	// the column has nil; 2 = a custom list that contains the demanded class, whatever it is, last
	// of three; 3 = a custom list of near-misses of the demanded class and every built-in class but
	// the demanded one; 4 = the built-in list written out plus a custom class
	listVar := tp.Weighted([]int{6, 1, 2, 2, 1})
	if e.NoFaults {
		// fault-free configuration: an approved class and a client with credentials
		if ci >= 10 {
			ci = 0
		}
		if cli == 1 || cli == 2 {
			cli = 0
		}
		if listVar == 3 {
			listVar = 0
		}
	}
	class := classes[ci]
	if cli == 1 {
		form, listVar = 0, 0 // no authenticator at all
	}
	if class == "" && (listVar == 2 || listVar == 3) {
		listVar = 0 // nothing is demanded
	}
	if (cli == 2 || cli == 3) && listVar == 1 {
		listVar = 0 // the column has a list of its own
	}
	user, pass := secCreds[cred][0], secCreds[cred][1]
	for _, v := range []struct {
		on   bool
		name string
	}{
		{ci != 0, "class:" + classNames[ci]}, {cli != 0, "client:" + clientNames[cli]}, {cred != 0, fmt.Sprintf("cred:%d", cred)},
		{control, "controlconn"}, {numConns != 1, "numconns:2"},
		{form != 0, "form:" + secAuthForms[form]}, {listVar != 0, "list:" + secListVarNames[listVar]},
	} {
		if v.on {
			k.Fault("auth.variant:" + v.name)
		}
	}
	e.Note("half", "auth")
	e.Note("class", classNames[ci])
	e.Note("client", clientNames[cli])
	e.Note("cred", cred)
	k.Rec("cell class=%s client=%s cred=%d control=%v numconns=%d", classNames[ci], clientNames[cli], cred, control, numConns)
	k.Probe("auth.cell:" + classNames[ci] + "/" + clientNames[cli])
	if form != 0 {
		e.Note("form", secAuthForms[form])
		k.Rec("cell form=%s", secAuthForms[form])
	}
	if listVar != 0 {
		e.Note("list", secListVarNames[listVar])
		k.Rec("cell list=%s", secListVarNames[listVar])
	}

	// ---- expected outcome, from the property text ----
	var allowed []string
	switch cli {
	case 2:
		allowed = []string{secCustomClass}
	case 3:
		allowed = []string{secCustomClass, secDefaultApproved[0]}
	}
	switch listVar {
	case 1:
		allowed = []string{}
	case 2:
		allowed = []string{secCustomClass, "org.example.auth.SomethingElse", class}
	case 3:
		allowed = []string{class + " ", " " + class, strings.ToUpper(class), class[:len(class)-1], class + "\x00", secCustomClass + "2"}
		for _, d := range secDefaultApproved {
			if d != class {
				allowed = append(allowed, d)
			}
		}
	case 4:
		allowed = append(append([]string(nil), secDefaultApproved...), secCustomClass)
	}
	allowedBefore := append([]string(nil), allowed...)
	hasAuth := cli != 1
	approvedList := secDefaultApproved
	if len(allowed) > 0 {
		approvedList = allowed
	}
	approved := false
	for _, a := range approvedList {
		if a == class {
			approved = true
		}
	}
	demand := class != ""
	expectSession := !demand || (hasAuth && approved)
	expectToken := demand && hasAuth && approved
	wantToken := "\x00" + user + "\x00" + pass
	k.Rec("expect demand=%v hasauth=%v approved=%v session=%v", demand, hasAuth, approved, expectSession)
	if hasAuth {
		state := "nodemand"
		if demand {
			state = map[bool]string{true: "approved", false: "unapproved"}[approved]
		}
		k.Probe("auth.formcell:" + secAuthForms[form] + "/" + map[bool]string{false: "authenticator", true: "authprovider"}[cli == 4] + "/" + state)
		k.Probe("auth.listcell:" + secListVarNames[listVar] + "/" + state)
	}

	// ---- the node ----
	cl := node.NewCluster(k, 1)
	cl.AuthClass = class
	type seenTok struct {
		conn      string
		solicited bool
		token     []byte
	}
	var toks []seenTok
	unauthUse := ""
	cl.OnRequest = func(sc *node.SConn, rec *node.ReqRec) {
		if rec.Req == nil || rec.Err != nil {
			return
		}
		switch op := rec.Req.Header.Opcode; op {
		case cqlspec.OpAuthResponse:
			toks = append(toks, seenTok{conn: sc.C.Name, solicited: sc.NeedAuth, token: append([]byte(nil), rec.Req.AuthToken...)})
		case cqlspec.OpOptions, cqlspec.OpStartup:
		default:
			if sc.NeedAuth && !sc.Authed && unauthUse == "" {
				unauthUse = sc.C.Name + ":" + cqlspec.OpName(op)
			}
		}
	}
	each := func() { cl.Process(); cl.DeliverAll() }

	// ---- the client ----
	cfg := BaseConfig(cl, "10.0.0.1")
	cfg.NumConns = numConns
	cfg.ReconnectionPolicy = &gocql.ConstantReconnectionPolicy{MaxRetries: 1, Interval: 10 * time.Millisecond}
	if !control {
		gocql.VerifDisableControlConn(cfg, true)
	}
	authObj, authPA := secMakeAuth(form, user, pass, allowed)
	switch cli {
	case 0, 2, 3:
		cfg.Authenticator = authObj
	case 4:
		// the same object for every connection, as a caller holding one authenticator does
		cfg.AuthProvider = func(h *gocql.HostInfo) (gocql.Authenticator, error) { return authObj, nil }
	}

	sess, serr, finished := secPump(k, 30*time.Second, each, func() (*gocql.Session, error) { return gocql.NewSession(*cfg) })
	k.OpDone()
	if !finished {
		k.Violate("HARNESS", "sec/newsession-not-finished", "NewSession did not return within 30 s simulated")
		secFinish(k, cl, nil, each, nil, base)
		return
	}
	connected := serr == nil && sess != nil
	k.Rec("result connected=%v auth_responses=%d", connected, len(toks))
	desc := fmt.Sprintf("[node demands %q (%s), client %s, credentials #%d]", class, classNames[ci], clientNames[cli], cred)
	if form != 0 || listVar != 0 {
		desc = fmt.Sprintf("[node demands %q (%s), client %s, authenticator given as %s, AllowedAuthenticators %s %q, credentials #%d]", class, classNames[ci], clientNames[cli], secAuthForms[form], secListVarNames[listVar], allowedBefore, cred)
	}

	check := func() bool {
		// credentials only to an approved authenticator, and as SASL PLAIN
		for _, t := range toks {
			if !t.solicited {
				k.Violate("C20", "C20/credentials-sent-to-unapproved-authenticator", "%s: AUTH_RESPONSE (%d bytes) on %s although the node never sent AUTHENTICATE", desc, len(t.token), t.conn)
				return false
			}
			if !hasAuth || !approved {
				k.Violate("C20", "C20/credentials-sent-to-unapproved-authenticator", "%s: AUTH_RESPONSE (%d bytes) on %s in reply to a class that is not on the approved list %v", desc, len(t.token), t.conn, approvedList)
				return false
			}
			if !bytes.Equal(t.token, []byte(wantToken)) {
				k.Violate("C20", "C20/not-sasl-plain", "%s: AUTH_RESPONSE token on %s is %d bytes, expected NUL user NUL password = %d bytes (first difference at byte %d)",
					desc, t.conn, len(t.token), len(wantToken), firstDiff(t.token, []byte(wantToken)))
				return false
			}
		}
		if unauthUse != "" {
			k.Violate("C20", "C20/unauthenticated-session", "%s: the driver used a connection that owed authentication without authenticating (%s)", desc, unauthUse)
			return false
		}
		return true
	}
	ok := check()
	switch {
	case !ok:
	case connected && !expectSession:
		k.Violate("C20", "C20/unauthenticated-session", "%s: session creation succeeded although the node demanded authentication and the client %s", desc,
			map[bool]string{true: "must not answer this class", false: "has no credentials"}[hasAuth])
	case !connected && expectSession:
		k.Violate("C20", "C20/approved-authenticator-refused", "%s: session creation failed although %s: %v", desc,
			map[bool]string{true: "the class is on the approved list", false: "the node demands no authentication"}[demand], serr)
	case !connected:
		k.Probe("auth.refused-as-documented")
	default:
		k.Probe("auth.connected-as-documented")
		if expectToken && len(toks) == 0 {
			k.Violate("C20", "C20/unauthenticated-session", "%s: a session exists although the node demanded authentication and never saw an AUTH_RESPONSE", desc)
			break
		}
		if expectToken {
			k.Probe("auth.token-checked")
		}
		_, qerr, fin := secPump(k, 10*time.Second, each, func() (struct{}, error) {
			return struct{}{}, sess.Query("ECHO 'sec'").Exec() // not a statement the driver prepares
		})
		k.OpDone()
		if !fin || qerr != nil {
			k.Violate("HARNESS", "sec/query-failed", "%s: a query on the established session failed: %v (finished=%v)", desc, qerr, fin)
			break
		}
		check() // connections opened later (pool fill) obey the same rules
	}
	if d, isDeleg := authObj.(*secDelegAuth); isDeleg && hasAuth && d.challenges.Load() > 0 {
		k.Probe("auth.delegating-wrapper-challenged")
	}
	if authPA != nil {
		same := authPA.Username == user && authPA.Password == pass && len(authPA.AllowedAuthenticators) == len(allowedBefore) && (authPA.AllowedAuthenticators == nil) == (allowed == nil)
		for i := 0; same && i < len(allowedBefore); i++ {
			same = authPA.AllowedAuthenticators[i] == allowedBefore[i]
		}
		if !same {
			k.Probe("auth.authenticator-object-modified") // observed, not judged: the property does not speak about it
		}
	}
	secFinish(k, cl, nil, each, sess, base)
}

func firstDiff(a, b []byte) int {
	for i := 0; i < len(a) && i < len(b); i++ {
		if a[i] != b[i] {
			return i
		}
	}
	if len(a) < len(b) {
		return len(a)
	}
	return len(b)
}
