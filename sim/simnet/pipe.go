package simnet

import (
	"io"
	"net"
	"sync"
	"time"
)

// Pipe is the server end of a simulated connection as a net.Conn, for simulated nodes
// that run a real protocol stack (crypto/tls) over the simulated transport instead of
// being driven byte-wise by simulator actions. Read blocks (durably, on a channel) until
// the client wrote or closed; Write never blocks.
type Pipe struct {
	C    *Conn
	wake chan struct{}

	mu     sync.Mutex
	closed bool
}

// PipeHub creates the pipes of one Net and wakes their readers whenever the client side
// produced output. It chains Net.Wake: the previous callback keeps being called.
type PipeHub struct {
	mu    sync.Mutex
	pipes []*Pipe
}

// NewPipeHub installs the hub on n.
func NewPipeHub(n *Net) *PipeHub {
	h := &PipeHub{}
	old := n.Wake
	n.Wake = func() {
		if old != nil {
			old()
		}
		h.wakeAll()
	}
	return h
}

func (h *PipeHub) wakeAll() {
	h.mu.Lock()
	for _, p := range h.pipes {
		wake(p.wake)
	}
	h.mu.Unlock()
}

// Open returns the server end of c.
func (h *PipeHub) Open(c *Conn) *Pipe {
	p := &Pipe{C: c, wake: make(chan struct{}, 1)}
	h.mu.Lock()
	h.pipes = append(h.pipes, p)
	h.mu.Unlock()
	return p
}

// Pipes returns every pipe opened so far, in creation order.
func (h *PipeHub) Pipes() []*Pipe {
	h.mu.Lock()
	defer h.mu.Unlock()
	return append([]*Pipe(nil), h.pipes...)
}

// CloseAll closes every pipe (end of run): blocked readers return.
func (h *PipeHub) CloseAll() {
	for _, p := range h.Pipes() {
		p.Close()
	}
}

// Read implements net.Conn: the bytes the client wrote, in order.
func (p *Pipe) Read(b []byte) (int, error) {
	for {
		p.mu.Lock()
		closed := p.closed
		p.mu.Unlock()
		if closed {
			return 0, &net.OpError{Op: "read", Net: "tcp", Addr: p.C.laddr, Err: net.ErrClosed}
		}
		if in := p.C.Inbox(); len(in) > 0 {
			n := copy(b, in)
			p.C.Consume(n)
			return n, nil
		}
		if p.C.ClientClosed() {
			// everything written before the close has been read (checked above first)
			if in := p.C.Inbox(); len(in) > 0 {
				continue
			}
			return 0, io.EOF
		}
		if len(b) == 0 {
			return 0, nil
		}
		<-p.wake
	}
}

// Write implements net.Conn: the bytes become readable by the client at once.
func (p *Pipe) Write(b []byte) (int, error) {
	p.mu.Lock()
	closed := p.closed
	p.mu.Unlock()
	if closed || p.C.ServerClosed() {
		return 0, &net.OpError{Op: "write", Net: "tcp", Addr: p.C.laddr, Err: net.ErrClosed}
	}
	if p.C.ClientClosed() {
		return 0, &net.OpError{Op: "write", Net: "tcp", Addr: p.C.laddr, Err: io.ErrClosedPipe}
	}
	p.C.ServerSend(b)
	return len(b), nil
}

// Close closes the server side (the client reads EOF) and unblocks a blocked Read.
func (p *Pipe) Close() error {
	p.mu.Lock()
	was := p.closed
	p.closed = true
	p.mu.Unlock()
	if was {
		return &net.OpError{Op: "close", Net: "tcp", Addr: p.C.laddr, Err: net.ErrClosed}
	}
	p.C.ServerClose(false)
	wake(p.wake)
	return nil
}

func (p *Pipe) LocalAddr() net.Addr  { return p.C.raddr }
func (p *Pipe) RemoteAddr() net.Addr { return p.C.laddr }

// Deadlines are not needed by the simulated nodes: they never wait for anything but the
// client, and the run closes every pipe at its end.
func (p *Pipe) SetDeadline(time.Time) error      { return nil }
func (p *Pipe) SetReadDeadline(time.Time) error  { return nil }
func (p *Pipe) SetWriteDeadline(time.Time) error { return nil }
