package scen

import (
	"context"
	"errors"
	"fmt"
	"regexp"
	"runtime"
	"sort"
	"strconv"
	"strings"
	"sync"
	"time"

	"github.com/gocql/gocql"
	"github.com/gocql/gocql/verifsim/cqlspec"
	"github.com/gocql/gocql/verifsim/kernel"
	"github.com/gocql/gocql/verifsim/node"
)

// Scenario retry (C13): queries and batches with tape-chosen retry policy, speculative
// execution policy, idempotence flag and host order run against 2-4 scripted nodes that
// decide per received request (from the tape) whether it succeeds, fails with one of the
// server error kinds or is never answered; the tape also chooses when every reply is
// delivered, when a caller's context is cancelled and (relaxed configuration) when a pool
// connection is lost.
//
// Where the settings of a statement come from is drawn too: the retry policy from the cluster
// configuration (ClusterConfig.RetryPolicy, inherited by Session.Query / Session.NewBatch) or
// from the statement (Query.RetryPolicy / Batch.RetryPolicy, including the explicit "none for
// this statement", RetryPolicy(nil), while the cluster has one), idempotence from
// ClusterConfig.DefaultIdempotence or Query.Idempotent, on every entry of a batch, on all but
// one, or on none, and the speculative policy left at its default or set to one that asks for
// no extra execution. The statement's own setting wins: the cluster-wide policy is a recorder
// as well, and a call it receives for a statement that has its own policy, or was told to
// have none, is a violation whatever it answers.
//
// The oracle is a model of the documented contract (doc.go "Retries and speculative
// execution", the doc comments of RetryPolicy / RetryType / SimpleRetryPolicy /
// DowngradingConsistencyRetryPolicy / Query.Idempotent, and the property text). The retry
// policy of a query is an INPUT of the contract: every policy is wrapped in a recorder, and
// the executor is checked against the decisions the policy actually returned. What is
// observed is what the nodes received (host, order, overlap) and what the caller got back.

func init() {
	register(&Scenario{
		Name:       "retry",
		Properties: []string{"C13"},
		Run:        runRetry,
		Real:       []string{"gocql Session/queryExecutor (do, speculate, run), retry policies, speculative policy, Query/Batch attempt metrics, pools, Conn.exec (real code)", "Go runtime scheduler, timers, tickers, contexts (fake clock)"},
		Stub:       []string{"Cassandra nodes with scripted per-request outcomes (independent cqlspec codec)", "TCP (simnet)", "HostSelectionPolicy (harness: tape-chosen order per query)", "clock (testing/synctest)"},
		Rule:       "one run = 1-4 callers x 2-6 queries/batches over 2-4 nodes; per run a cluster-wide retry policy (none or present) and default idempotence; per query a tape-chosen retry policy (none/simple/exponential/downgrading/scripted decisions) that comes from the statement, from the cluster configuration, or is explicitly switched off on the statement, speculative policy (unset, explicitly non-speculative, zero attempts, or 1-3 extra executions after 10ms-1s), idempotence (statement, cluster default, every/all-but-one/no batch entry) and host order; per request received a tape-chosen outcome (rows, one of 19 server error kinds, silence, and in the relaxed configuration the node closing the connection), tape-chosen reply delivery order and time advance, context cancels and (relaxed configuration) connection loss; distinct = distinct canonical-log fingerprint; non-trivial = at least one failed attempt, cancel, connection loss or park and at least one completed operation",
	})
}

// ---------------------------------------------------------------------------------
// plans (drawn on the root goroutine before the workload starts)

const (
	rtNone = iota
	rtSimple
	rtExp
	rtDowngrade
	rtScript
)

type rtPlan struct {
	batch      bool
	nEntries   int
	idempotent bool
	rtKind     int
	n          int // NumRetries / scripted budget
	expMin     time.Duration
	expMax     time.Duration
	levels     []gocql.Consistency
	script     []gocql.RetryType
	specK      int
	specDelay  time.Duration
	order      []string // host addresses in the order the harness policy offers them

	// where the settings come from (0 = the statement sets them itself: the old behaviour)
	rtSrc     int  // rtSrcStmt: Query/Batch.RetryPolicy(p) is called (p == nil for rtNone: "none for this statement"); rtSrcCluster: never called, ClusterConfig.RetryPolicy governs
	rtUnset   bool // rtNone without a cluster policy: RetryPolicy() is not called at all
	clusterRT bool // the cluster configuration has a retry policy (per run)
	idemVar   int  // query: 1 = Idempotent() not called where the cluster default says the same; batch: 1 = a single entry is not idempotent, 2 = no entry is touched
	niEntry   int  // batch, idemVar 1: the entry that is not idempotent
	specSrc   int  // specK == 0: 0 = policy not set, 1 = NonSpeculativeExecution set, 2 = SimpleSpeculativeExecution{NumAttempts: 0} set

	// race (speculatively executed statements only; 0 = every answer can be delivered at any
	// time: the old behaviour): whose answers the nodes withhold while the call is running.
	// rtRaceOrigHeld: those to the original execution, so that a speculative one is the first
	// to complete; rtRaceSpecHeld: those to the original until a speculative execution has
	// started (or the speculative delay is over), and from then on those to the speculative
	// executions, so that the original completes first while they are still awaited.
	race int
}

const (
	rtRaceNone = iota
	rtRaceOrigHeld
	rtRaceSpecHeld
)

const (
	rtSrcStmt = iota
	rtSrcCluster
)

func (p *rtPlan) budget() int {
	switch p.rtKind {
	case rtSimple, rtExp, rtScript:
		return p.n
	case rtDowngrade:
		return len(p.levels)
	}
	return 0
}

func (p *rtPlan) String() string {
	s := "query"
	if p.batch {
		s = fmt.Sprintf("batch(%d)", p.nEntries)
	}
	switch p.rtKind {
	case rtNone:
		s += " rt=none"
	case rtSimple:
		s += fmt.Sprintf(" rt=simple(%d)", p.n)
	case rtExp:
		s += fmt.Sprintf(" rt=exp(%d,%v,%v)", p.n, p.expMin, p.expMax)
	case rtDowngrade:
		s += fmt.Sprintf(" rt=downgrade(%v)", p.levels)
	case rtScript:
		s += fmt.Sprintf(" rt=script(budget %d, %v)", p.n, p.script)
	}
	switch {
	case p.rtSrc == rtSrcCluster:
		s += "(from the cluster configuration)"
	case p.rtUnset:
		s += "(never set)"
	case p.clusterRT && p.rtKind == rtNone:
		s += "(RetryPolicy(nil) on the statement; the cluster configuration has a policy)"
	case p.clusterRT:
		s += "(on the statement; the cluster configuration has another)"
	}
	if p.specK > 0 {
		s += fmt.Sprintf(" spec=%dx%v", p.specK, p.specDelay)
	} else if p.specSrc > 0 {
		s += []string{"", " spec=NonSpeculativeExecution", " spec=simple(0 attempts)"}[p.specSrc]
	}
	if p.race > 0 {
		s += []string{"", " answers-withheld=original", " answers-withheld=speculative"}[p.race]
	}
	if p.idemVar > 0 {
		s += fmt.Sprintf(" idemVar=%d", p.idemVar)
	}
	return fmt.Sprintf("%s idempotent=%v order=%v", s, p.idempotent, p.order)
}

// per-request outcomes
const (
	rtOK = iota
	rtErr
	rtDrop
	rtClose // the node closes the connection instead of answering (relaxed configuration only)
)

// effective outcome of an attempt as the driver saw it
const (
	effOK = iota
	effErr
	effTimeout
	effConn
	effAmbig
)

type rtAtt struct {
	idx      int // per-operation arrival index
	host     string
	nonce    string
	sc       *node.SConn
	step     int
	at       time.Duration
	stream   int
	cons     uint16
	kind     int
	code     int32
	detail   string
	reply    *node.Reply
	dlv      bool
	dlvStep  int
	dlvAt    time.Duration
	closed   bool
	closedAt time.Duration
	// prevUsable: when this request arrived, the host of the operation's previous request
	// still had an open connection that had carried requests before (one the pool holds)
	prevUsable bool

	op *rtOp
	// g: the execution (goroutine running queryExecutor.do) that wrote this request (0 = not
	// known); marked: that execution has told the host policy how the request ended
	g        uint64
	marked   bool
	markStep int
	markEv   int  // index in rtOp.evs
	withheld bool // its answer was kept back by the race plan at least once
}

// rtEv: what one execution of a statement did, as seen through the two policies it must
// consult: the host selection policy (NextHost returning nothing, SelectedHost.Mark after
// every attempt) and the retry policy. The events of a statement are kept in the order in
// which they happened; g tells the executions apart.
type rtEv struct {
	kind int
	step int
	at   time.Duration
	g    uint64
	host string
	err  error  // rtEvMark: what Mark was given
	att  *rtAtt // rtEvMark: the request that ended (nil = none of this execution was awaited at that host)
	ok   bool   // rtEvAttempt
	typ  gocql.RetryType
}

const (
	rtEvMark = iota
	rtEvAttempt
	rtEvDecision
	rtEvNoHost
)

type rtCall struct {
	step     int
	attempt  bool // Attempt() (else GetRetryType())
	ok       bool
	typ      gocql.RetryType
	err      string
	attempts int
	// foreign: the call was made on the cluster-wide policy although the statement has its
	// own policy or was told to have none
	foreign bool
}

type rtOp struct {
	token string
	plan  *rtPlan
	// rec: the recorder around the policy that governs the statement (nil = none); foreignRec:
	// what the cluster-wide policy does when it is consulted for a statement it does not govern
	rec, foreignRec *rtRecPolicy

	atts     []*rtAtt
	calls    []rtCall
	offered  []string
	marks    []string
	evs      []rtEv
	mainG    uint64 // the execution that asked for a host first: the original one
	invokeAt time.Duration

	started     bool
	inflight    bool
	done        bool
	invoke, ret int
	err         error
	got         string
	attemptsAPI int

	cancel      context.CancelFunc
	cancelFired bool
	cancelStep  int
	inBackoff   bool
}

type rtState struct {
	k        *kernel.Kernel
	cl       *node.Cluster
	mu       sync.Mutex
	ops      map[string]*rtOp
	list     []*rtOp
	byReply  map[*node.Reply]*rtAtt
	awaited  map[string]bool   // conn/stream of workload replies just delivered, until exec takes them
	sentBy   map[string]uint64 // conn/stream -> goroutine that wrote the last request on it
	timeout  time.Duration
	exact    bool
	armNI    bool
	armIgn   bool
	faultsOn bool
}

const rtSlack = time.Millisecond

// eff classifies what the driver saw of an attempt. A reply counts as received when it was
// delivered clearly before the request timeout and as missed when delivered at or after it;
// the (sub-millisecond) window in between is "ambiguous" and exact checks are skipped.
func (st *rtState) eff(a *rtAtt) int {
	if a.closed && !a.dlv && a.closedAt-a.at < st.timeout-rtSlack {
		return effConn
	}
	if a.kind == rtDrop {
		return effTimeout
	}
	if a.kind == rtClose && a.closed && a.closedAt-a.at >= st.timeout {
		return effTimeout // the request timeout came first
	}
	if !a.dlv {
		return effAmbig
	}
	el := a.dlvAt - a.at
	switch {
	case el < st.timeout-rtSlack:
		if a.kind == rtOK {
			return effOK
		}
		return effErr
	case el >= st.timeout:
		return effTimeout
	}
	return effAmbig
}

// ---------------------------------------------------------------------------------
// harness host selection policy: offers the known hosts in the order the plan of the
// query says; keeps its own host list from the driver's notifications.

type rtHostPolicy struct {
	st    *rtState
	mu    sync.Mutex
	hosts map[string]*gocql.HostInfo
	down  map[string]bool
}

func (p *rtHostPolicy) AddHost(h *gocql.HostInfo) {
	p.mu.Lock()
	p.hosts[h.ConnectAddress().String()] = h
	p.mu.Unlock()
}

func (p *rtHostPolicy) RemoveHost(h *gocql.HostInfo) {
	p.mu.Lock()
	delete(p.hosts, h.ConnectAddress().String())
	p.mu.Unlock()
}

func (p *rtHostPolicy) HostUp(h *gocql.HostInfo) {
	p.mu.Lock()
	p.hosts[h.ConnectAddress().String()] = h
	delete(p.down, h.ConnectAddress().String())
	p.mu.Unlock()
}

func (p *rtHostPolicy) HostDown(h *gocql.HostInfo) {
	p.mu.Lock()
	p.down[h.ConnectAddress().String()] = true
	p.mu.Unlock()
}

func (p *rtHostPolicy) SetPartitioner(string)                     {}
func (p *rtHostPolicy) KeyspaceChanged(gocql.KeyspaceUpdateEvent) {}
func (p *rtHostPolicy) Init(*gocql.Session)                       {}
func (p *rtHostPolicy) IsLocal(*gocql.HostInfo) bool              { return true }

func (p *rtHostPolicy) known() []string {
	p.mu.Lock()
	defer p.mu.Unlock()
	var out []string
	for a := range p.hosts {
		out = append(out, a)
	}
	sort.Strings(out)
	return out
}

func rtTokenOf(q gocql.ExecutableQuery) string {
	switch x := q.(type) {
	case *gocql.Query:
		return tokenRe.FindString(x.Statement())
	case *gocql.Batch:
		if len(x.Entries) > 0 {
			return tokenRe.FindString(x.Entries[0].Stmt)
		}
	}
	return ""
}

type rtSelected struct {
	info *gocql.HostInfo
	addr string
	op   *rtOp
	st   *rtState
}

func (s *rtSelected) Info() *gocql.HostInfo { return s.info }

func (s *rtSelected) Mark(err error) {
	if s.op == nil {
		return
	}
	g := rtGoid()
	step, now := s.st.k.Step(), s.st.k.SimTime()
	s.st.mu.Lock()
	s.op.marks = append(s.op.marks, s.addr+":"+ErrClass(err))
	// the request this ends: the one this execution wrote to that host and has not accounted for
	var att *rtAtt
	for _, a := range s.op.atts {
		if a.g == g && !a.marked && a.host == s.addr {
			att = a
		}
	}
	if att != nil {
		att.marked, att.markStep, att.markEv = true, step, len(s.op.evs)
	}
	s.op.evs = append(s.op.evs, rtEv{kind: rtEvMark, step: step, at: now, g: g, host: s.addr, err: err, att: att})
	s.st.mu.Unlock()
}

func (p *rtHostPolicy) Pick(q gocql.ExecutableQuery) gocql.NextHost {
	token := rtTokenOf(q)
	p.st.mu.Lock()
	op := p.st.ops[token]
	p.st.mu.Unlock()
	var order []string
	if op != nil {
		order = op.plan.order
	} else {
		order = p.known()
	}
	i := 0
	var nmu sync.Mutex
	return func() gocql.SelectedHost {
		nmu.Lock()
		defer nmu.Unlock()
		var g uint64
		if op != nil {
			g = rtGoid()
			p.st.mu.Lock()
			if op.mainG == 0 {
				op.mainG = g
			}
			p.st.mu.Unlock()
		}
		for i < len(order) {
			addr := order[i]
			i++
			p.mu.Lock()
			h := p.hosts[addr]
			p.mu.Unlock()
			if h == nil {
				continue
			}
			if op != nil {
				p.st.mu.Lock()
				op.offered = append(op.offered, addr)
				p.st.mu.Unlock()
			}
			return &rtSelected{info: h, addr: addr, op: op, st: p.st}
		}
		if op != nil {
			step, now := p.st.k.Step(), p.st.k.SimTime()
			p.st.mu.Lock()
			op.evs = append(op.evs, rtEv{kind: rtEvNoHost, step: step, at: now, g: g})
			p.st.mu.Unlock()
		}
		return nil
	}
}

// ---------------------------------------------------------------------------------
// retry policies: a recorder around every policy, and the scripted policy

type rtRecPolicy struct {
	st      *rtState
	op      *rtOp
	inner   gocql.RetryPolicy
	backoff bool
	foreign bool
}

// newRec builds the recorder around the policy the plan of op describes (nil = none).
func (st *rtState) newRec(op *rtOp) *rtRecPolicy {
	pl := op.plan
	switch pl.rtKind {
	case rtSimple:
		return &rtRecPolicy{st: st, op: op, inner: &gocql.SimpleRetryPolicy{NumRetries: pl.n}}
	case rtExp:
		return &rtRecPolicy{st: st, op: op, backoff: true, inner: &gocql.ExponentialBackoffRetryPolicy{NumRetries: pl.n, Min: pl.expMin, Max: pl.expMax}}
	case rtDowngrade:
		return &rtRecPolicy{st: st, op: op, inner: &gocql.DowngradingConsistencyRetryPolicy{ConsistencyLevelsToTry: pl.levels}}
	case rtScript:
		return &rtRecPolicy{st: st, op: op, inner: &rtScriptPolicy{budget: pl.n, seq: pl.script}}
	}
	return nil
}

func (p *rtRecPolicy) Attempt(q gocql.RetryableQuery) bool {
	if p.backoff {
		p.st.mu.Lock()
		p.op.inBackoff = true
		p.st.mu.Unlock()
	}
	ok := p.inner.Attempt(q)
	step, now, g := p.st.k.Step(), p.st.k.SimTime(), rtGoid()
	n := q.Attempts()
	p.st.mu.Lock()
	p.op.inBackoff = false
	p.op.calls = append(p.op.calls, rtCall{step: step, attempt: true, ok: ok, attempts: n, foreign: p.foreign})
	p.op.evs = append(p.op.evs, rtEv{kind: rtEvAttempt, step: step, at: now, g: g, ok: ok})
	p.st.mu.Unlock()
	p.st.k.Rec("policy %s Attempt(attempts=%d)=%v%s", p.op.token, n, ok, p.tag())
	return ok
}

func (p *rtRecPolicy) GetRetryType(err error) gocql.RetryType {
	t := p.inner.GetRetryType(err)
	step, now, g := p.st.k.Step(), p.st.k.SimTime(), rtGoid()
	p.st.mu.Lock()
	p.op.calls = append(p.op.calls, rtCall{step: step, typ: t, err: ErrClass(err), foreign: p.foreign})
	p.op.evs = append(p.op.evs, rtEv{kind: rtEvDecision, step: step, at: now, g: g, typ: t})
	p.st.mu.Unlock()
	p.st.k.Rec("policy %s GetRetryType(%s)=%s%s", p.op.token, ErrClass(err), rtTypeName(t), p.tag())
	return t
}

func (p *rtRecPolicy) tag() string {
	if p.foreign {
		return " [cluster-wide policy, which does not govern this statement]"
	}
	return ""
}

// rtClusterPolicy is the value of ClusterConfig.RetryPolicy: one object for the session. It
// looks at the statement it is asked about: for a statement that inherits the cluster-wide
// policy it answers what the plan of that statement says (a policy is an arbitrary decision
// function of the query); for any other statement - one with its own policy, or told to
// have none - it answers like SimpleRetryPolicy{NumRetries: rtForeignRetries} and the call
// is recorded as foreign. GetRetryType is given the error only: it belongs to the statement
// of the Attempt call that preceded it on the same goroutine.
type rtClusterPolicy struct {
	st  *rtState
	mu  sync.Mutex
	cur map[uint64]*rtRecPolicy
}

const rtForeignRetries = 3

func (p *rtClusterPolicy) recFor(q interface{}) *rtRecPolicy {
	var token string
	switch x := q.(type) {
	case *gocql.Query:
		token = tokenRe.FindString(x.Statement())
	case *gocql.Batch:
		if len(x.Entries) > 0 {
			token = tokenRe.FindString(x.Entries[0].Stmt)
		}
	}
	p.st.mu.Lock()
	defer p.st.mu.Unlock()
	op := p.st.ops[token]
	if op == nil {
		return nil
	}
	if op.plan.rtSrc == rtSrcCluster {
		return op.rec
	}
	return op.foreignRec
}

func (p *rtClusterPolicy) Attempt(q gocql.RetryableQuery) bool {
	rec := p.recFor(q)
	if rec == nil {
		p.st.k.Probe("cluster-policy-call-not-attributable")
		return false
	}
	g := rtGoid()
	p.mu.Lock()
	p.cur[g] = rec
	p.mu.Unlock()
	ok := rec.Attempt(q)
	if !ok {
		p.mu.Lock()
		delete(p.cur, g)
		p.mu.Unlock()
	}
	return ok
}

func (p *rtClusterPolicy) GetRetryType(err error) gocql.RetryType {
	g := rtGoid()
	p.mu.Lock()
	rec := p.cur[g]
	delete(p.cur, g)
	p.mu.Unlock()
	if rec == nil {
		// not preceded by Attempt on this goroutine: a server error still names its statement
		var re gocql.RequestError
		if errors.As(err, &re) {
			p.st.mu.Lock()
			op := p.st.ops[tokenRe.FindString(re.Message())]
			p.st.mu.Unlock()
			if op != nil {
				if rec = op.foreignRec; op.plan.rtSrc == rtSrcCluster {
					rec = op.rec
				}
			}
		}
	}
	if rec == nil {
		p.st.k.Probe("cluster-policy-call-not-attributable")
		return gocql.Rethrow
	}
	return rec.GetRetryType(err)
}

// rtGoid returns the id of the calling goroutine ("goroutine 123 [running]:").
func rtGoid() uint64 {
	var buf [48]byte
	b := buf[:runtime.Stack(buf[:], false)]
	const pfx = "goroutine "
	if len(b) < len(pfx) {
		return 0
	}
	var id uint64
	for _, c := range b[len(pfx):] {
		if c < '0' || c > '9' {
			break
		}
		id = id*10 + uint64(c-'0')
	}
	return id
}

// rtScriptPolicy allows a fixed number of retries (counted by its own calls) and answers
// a fixed sequence of decisions.
type rtScriptPolicy struct {
	mu     sync.Mutex
	budget int
	seq    []gocql.RetryType
	a, g   int
}

func (p *rtScriptPolicy) Attempt(gocql.RetryableQuery) bool {
	p.mu.Lock()
	defer p.mu.Unlock()
	p.a++
	return p.a <= p.budget
}

func (p *rtScriptPolicy) GetRetryType(error) gocql.RetryType {
	p.mu.Lock()
	defer p.mu.Unlock()
	t := p.seq[p.g%len(p.seq)]
	p.g++
	return t
}

func rtTypeName(t gocql.RetryType) string {
	switch t {
	case gocql.Retry:
		return "Retry"
	case gocql.RetryNextHost:
		return "RetryNextHost"
	case gocql.Ignore:
		return "Ignore"
	case gocql.Rethrow:
		return "Rethrow"
	}
	return fmt.Sprintf("RetryType(%#x)", uint16(t))
}

func rtDefined(t gocql.RetryType) bool {
	return t == gocql.Retry || t == gocql.RetryNextHost || t == gocql.Ignore || t == gocql.Rethrow
}

// ---------------------------------------------------------------------------------
// node side: server error kinds

type rtErrKind struct {
	code int32
	name string
}

var rtErrKinds = []rtErrKind{
	{cqlspec.ErrOverloaded, "overloaded"},
	{cqlspec.ErrUnavailable, "unavailable"},
	{cqlspec.ErrReadTimeout, "read-timeout"},
	{cqlspec.ErrWriteTimeout, "write-timeout"},
	{cqlspec.ErrServer, "server"},
	{cqlspec.ErrBootstrapping, "bootstrapping"},
	{cqlspec.ErrReadFailure, "read-failure"},
	{cqlspec.ErrWriteFailure, "write-failure"},
	{cqlspec.ErrSyntax, "syntax"},
	{cqlspec.ErrInvalid, "invalid"},
	{cqlspec.ErrUnauthorized, "unauthorized"},
	{cqlspec.ErrTruncate, "truncate"},
	{cqlspec.ErrConfig, "config"},
	{cqlspec.ErrAlreadyExists, "already-exists"},
	{cqlspec.ErrFunctionFailure, "function-failure"},
	{cqlspec.ErrCASWriteUnknown, "cas-write-unknown"},
	{cqlspec.ErrProtocol, "protocol"},
	{cqlspec.ErrCredentials, "credentials"},
	{cqlspec.ErrCDCWriteFailure, "cdc-write-failure"},
}

var rtWriteTypes = []string{"SIMPLE", "UNLOGGED_BATCH", "BATCH", "COUNTER", "CAS"}

var rtAttRe = regexp.MustCompile(`(tok-[0-9]+-[0-9]+) #([0-9]+)`)

// ---------------------------------------------------------------------------------

func runRetry(e *Env) {
	k := e.K
	tp := k.Tape
	faultsOn := !e.NoFaults

	// ---- swarm configuration (index 0 = boring) ----
	nHosts := 2 + tp.Next(3)
	numConns := 1 + tp.Next(2)
	timeout := []time.Duration{300 * time.Millisecond, 100 * time.Millisecond, 700 * time.Millisecond}[tp.Next(3)]
	nTasks := 1 + tp.Next(4)
	nOps := 2 + tp.Next(5)
	relaxed := faultsOn && tp.Chance(1, 3)
	// the clause "a query not marked idempotent is never retried" is always armed now that
	// the defect it found is fixed (the draw is kept so that recorded tapes stay valid)
	armNI := tp.Chance(1, 2) || true
	// 'ignore' returning the error anyway contradicts the RetryType comment ("ignore error
	// and return result") but not property C13, which only demands that it stops retrying:
	// the clause stays switched off (the draw is kept so that recorded tapes stay valid)
	armIgn := tp.Chance(1, 2) && false
	// where statements get their settings from: the cluster configuration may have a retry
	// policy and a default idempotence of its own (0 = neither: the old behaviour)
	clusterRT := tp.Next(2) == 1
	clusterIdem := tp.Next(2) == 1
	mode := "exact"
	if relaxed {
		mode = "relaxed"
	}
	e.Note("hosts", nHosts)
	e.Note("numConns", numConns)
	e.Note("timeout", timeout.String())
	e.Note("tasks", nTasks)
	e.Note("ops", nOps)
	e.Note("mode", mode)
	e.Note("armNonIdempotent", armNI)
	e.Note("armIgnoreNil", armIgn)
	e.Note("clusterRetryPolicy", clusterRT)
	e.Note("defaultIdempotence", clusterIdem)

	cl := node.NewCluster(k, nHosts)
	st := &rtState{k: k, cl: cl, ops: map[string]*rtOp{}, byReply: map[*node.Reply]*rtAtt{}, awaited: map[string]bool{}, sentBy: map[string]uint64{}, timeout: timeout,
		exact: !relaxed, armNI: armNI, armIgn: armIgn, faultsOn: faultsOn}
	var addrs []string
	for _, h := range cl.Hosts {
		addrs = append(addrs, h.Addr)
	}
	hp := &rtHostPolicy{st: st, hosts: map[string]*gocql.HostInfo{}, down: map[string]bool{}}
	// Yield hook: only the point right after exec has taken the response of a WORKLOAD
	// request is routed to the kernel. Heartbeats of several connections hit the same points
	// within one quiescence window, which would make "the Nth occurrence" of the park plan
	// depend on the Go scheduler.
	gocql.VerifHook = func(point string, c *gocql.Conn, stream int) {
		if point == "exec.afterWrite" {
			// (never parked at:) which execution wrote the request that is now on the wire
			g := rtGoid()
			key := fmt.Sprintf("%s/s%d", ConnName(c), stream)
			st.mu.Lock()
			st.sentBy[key] = g
			st.mu.Unlock()
			return
		}
		if point != "exec.gotResp" {
			return
		}
		key := fmt.Sprintf("%s/s%d", ConnName(c), stream)
		st.mu.Lock()
		ok := st.awaited[key]
		delete(st.awaited, key)
		st.mu.Unlock()
		if ok {
			k.Yield(point, key)
		}
	}

	cfg := BaseConfig(cl, addrs...)
	gocql.VerifDisableControlConn(cfg, true)
	cfg.NumConns = numConns
	cfg.Timeout = timeout
	cfg.ConnectTimeout = 500 * time.Millisecond
	cfg.WriteCoalesceWaitTime = 0 // a request is on the wire when exec wrote it: "written after the cancel" is then well defined
	cfg.PoolConfig.HostSelectionPolicy = hp
	cfg.RetryPolicy = nil
	if clusterRT {
		cfg.RetryPolicy = &rtClusterPolicy{st: st, cur: map[uint64]*rtRecPolicy{}}
	}
	cfg.DefaultIdempotence = clusterIdem
	cfg.Consistency = gocql.Quorum

	// ---- plans ----
	consMenu := []gocql.Consistency{gocql.Two, gocql.One, gocql.LocalQuorum, gocql.LocalOne, gocql.Three, gocql.Any}
	typeMenu := []gocql.RetryType{gocql.RetryNextHost, gocql.Retry, gocql.Rethrow, gocql.Ignore, gocql.RetryType(0x07)}
	for ti := 0; ti < nTasks; ti++ {
		for oi := 0; oi < nOps; oi++ {
			pl := &rtPlan{}
			pl.batch = tp.Chance(1, 4)
			if pl.batch {
				pl.nEntries = 1 + tp.Next(2)
			}
			pl.idempotent = tp.Weighted([]int{3, 2}) == 0
			pl.rtKind = tp.Weighted([]int{2, 5, 2, 3, 5})
			switch pl.rtKind {
			case rtSimple:
				pl.n = []int{1, 0, 2, 3}[tp.Next(4)]
			case rtExp:
				pl.n = 1 + tp.Next(3)
				pl.expMin = []time.Duration{10 * time.Millisecond, 50 * time.Millisecond, 100 * time.Millisecond}[tp.Next(3)]
				pl.expMax = []time.Duration{200 * time.Millisecond, time.Second}[tp.Next(2)]
			case rtDowngrade:
				nl := 1 + tp.Next(3)
				for i := 0; i < nl; i++ {
					pl.levels = append(pl.levels, consMenu[tp.Next(len(consMenu))])
				}
			case rtScript:
				pl.n = tp.Next(5)
				ns := 1 + tp.Next(4)
				for i := 0; i < ns; i++ {
					pl.script = append(pl.script, typeMenu[tp.Weighted([]int{6, 6, 2, 2, 1})])
				}
			}
			if tp.Chance(2, 5) {
				pl.specK = 1 + tp.Next(3)
				// a few odd microseconds on top, so that the k-th tick never falls on the very
				// instant at which a request timeout started in the same window expires (nothing
				// orders two timers that tie on the fake clock)
				pl.specDelay = []time.Duration{10*time.Millisecond + 7*time.Microsecond, 50*time.Millisecond + 11*time.Microsecond,
					200*time.Millisecond + 13*time.Microsecond, time.Second + 17*time.Microsecond}[tp.Next(4)]
				if tp.Chance(1, 10) {
					pl.specDelay = 0 // "any delay": speculative executions start at once
				}
			}
			// host order: a tape-chosen permutation of the nodes
			rest := append([]string(nil), addrs...)
			for len(rest) > 0 {
				j := tp.Next(len(rest))
				pl.order = append(pl.order, rest[j])
				rest = append(rest[:j], rest[j+1:]...)
			}
			// where the settings come from (every 0 = the statement sets them itself)
			pl.clusterRT = clusterRT
			if clusterRT {
				pl.rtSrc = tp.Next(2)
				if pl.rtSrc == rtSrcStmt && tp.Chance(1, 3) {
					// "none for this statement" while the cluster has a policy
					pl.rtKind, pl.n, pl.levels, pl.script = rtNone, 0, nil, nil
				}
				if pl.rtSrc == rtSrcCluster && pl.rtKind == rtNone {
					// a statement that inherits cannot have none: it gets what the
					// cluster-wide policy answers for statements it knows nothing about
					pl.rtKind, pl.n = rtSimple, rtForeignRetries
				}
			} else if pl.rtKind == rtNone {
				pl.rtUnset = tp.Chance(1, 2)
			}
			if pl.batch {
				// idempotence of a batch is that of its entries: all set alike (0), all but
				// one idempotent (1), none touched (2; entries are born not idempotent, and
				// whether DefaultIdempotence speaks for them is not documented: only drawn
				// when it is false)
				pl.idemVar = tp.Next(3)
				if pl.idempotent || (pl.idemVar == 2 && clusterIdem) {
					pl.idemVar = 0
				}
				if pl.idemVar == 1 {
					if pl.nEntries < 2 {
						pl.nEntries = 2
					}
					pl.niEntry = tp.Next(pl.nEntries)
				}
			} else {
				// a query: Idempotent() is left uncalled where the cluster default says the same
				pl.idemVar = tp.Next(2)
				if pl.idempotent != clusterIdem {
					pl.idemVar = 0
				}
			}
			if pl.specK == 0 {
				pl.specSrc = tp.Next(3)
			}
			// whose answers are withheld while a speculatively executed statement runs (0 =
			// nobody's). Withholding an answer makes a node slow, which the fault-free
			// configuration does not do.
			if pl.specK > 0 && pl.idempotent {
				pl.race = tp.Weighted([]int{3, 1, 1})
				if !faultsOn {
					pl.race = rtRaceNone
				}
			}
			op := &rtOp{token: fmt.Sprintf("tok-%d-%d", ti, oi), plan: pl}
			op.rec = st.newRec(op)
			if clusterRT {
				op.foreignRec = &rtRecPolicy{st: st, op: op, foreign: true, inner: &gocql.SimpleRetryPolicy{NumRetries: rtForeignRetries}}
			}
			st.ops[op.token] = op
			st.list = append(st.list, op)
		}
	}

	// ---- node behaviour ----
	valMeta := &cqlspec.RowsMeta{GlobalSpec: true, Columns: []cqlspec.ColSpec{{Keyspace: "ks", Table: "t", Name: "v", Type: cqlspec.ColType{ID: cqlspec.TVarchar}}}}
	// Requests are only queued while the nodes consume their inboxes (the order in which
	// connections are visited follows the dial order, which follows a map iteration in
	// Session.init); outcomes are drawn afterwards in a canonical order.
	type rtArrival struct {
		sc    *node.SConn
		rec   *node.ReqRec
		token string
		cons  uint16
		batch bool
	}
	var pending []rtArrival
	cl.App = func(sc *node.SConn, rec *node.ReqRec) {
		rq := rec.Req
		var stmt string
		var cons uint16
		switch rq.Header.Opcode {
		case cqlspec.OpQuery:
			stmt, cons = rq.Query, rq.Params.Consistency
		case cqlspec.OpBatch:
			if len(rq.Batch) > 0 {
				stmt = rq.Batch[0].Query
			}
			cons = rq.BatchConsistency
		default:
			cl.SendError(sc, rec, cqlspec.ErrProtocol, "unexpected opcode", node.Auto)
			return
		}
		token := tokenRe.FindString(stmt)
		if st.ops[token] == nil {
			cl.SendError(sc, rec, cqlspec.ErrInvalid, "no token", node.Auto)
			return
		}
		pending = append(pending, rtArrival{sc: sc, rec: rec, token: token, cons: cons, batch: rq.Header.Opcode == cqlspec.OpBatch})
	}
	served := map[*node.SConn]int{} // connections that have carried a request of the workload: step of the first
	var toClose []*node.SConn       // connections a node decided to close instead of answering
	// closeConn: the node closes a connection; every request of the workload it has not
	// answered yet is lost with it
	closeConn := func(sc *node.SConn, fault string) {
		now := k.SimTime()
		n := 0
		st.mu.Lock()
		for _, op := range st.list {
			for _, a := range op.atts {
				if a.sc == sc && !a.dlv && !a.closed {
					a.closed, a.closedAt = true, now
					n++
				}
			}
		}
		st.mu.Unlock()
		k.Fault(fault)
		if n > 0 {
			k.Probe("conn-lost-with-attempt-in-flight")
		}
		cl.CloseConn(sc, false)
	}
	handle := func(ar rtArrival) {
		sc, rec, token, cons := ar.sc, ar.rec, ar.token, ar.cons
		op := st.ops[token]
		now := k.SimTime()
		st.mu.Lock()
		att := &rtAtt{idx: len(op.atts), host: sc.Host.Addr, nonce: sc.Host.Nonce, sc: sc, step: rec.Step, at: now, stream: rec.Stream, cons: cons, op: op}
		att.g = st.sentBy[fmt.Sprintf("%s/s%d", sc.C.Name, rec.Stream)]
		if n := len(op.atts); n > 0 {
			prev := op.atts[n-1]
			for _, c := range cl.SConns() {
				// (a connection that was in the pool before the previous request and is still
				// open now was there when the driver decided where to go next; one that was
				// dialled in between - the node had closed the others - proves nothing)
				if first, ok := served[c]; ok && first < prev.step && c.Host.Addr == prev.host && !c.Dead && !c.C.ClientClosed() && !c.C.ServerClosed() {
					att.prevUsable = true
				}
			}
		}
		if _, ok := served[sc]; !ok {
			served[sc] = rec.Step
		}
		// overlap: each execution of a query is sequential, so the number of requests of
		// one query that are certainly still awaited bounds the number of executions
		inflight := 0
		if !op.done && !op.cancelFired {
			for _, a := range op.atts {
				if !a.dlv && !a.closed && now-a.at < timeout-rtSlack {
					inflight++
				}
			}
		}
		op.atts = append(op.atts, att)
		pl := op.plan
		done, cancelled := op.done, op.cancelFired
		st.mu.Unlock()
		limit := 1
		if pl.idempotent {
			limit += pl.specK
		}
		if inflight > 0 {
			k.Probe("overlapping-attempts")
		}
		if inflight+1 > limit && !done && !cancelled {
			if !pl.idempotent && pl.specK > 0 {
				k.Violate("C13", "C13/speculative-on-non-idempotent", "%s (%s): request #%d arrived at %s while %d earlier request(s) of the same non-idempotent query were still awaited: it is being executed speculatively\n%s",
					token, pl, att.idx, att.host, inflight, st.history(op))
			} else {
				k.Violate("C13", "C13/too-many-executions", "%s (%s): request #%d arrived at %s while %d earlier request(s) of the same query were still awaited; at most %d execution(s) may run\n%s",
					token, pl, att.idx, att.host, inflight, limit, st.history(op))
			}
		}
		// outcome
		kind := rtOK
		if faultsOn && !k.Settling() {
			if relaxed {
				kind = tp.Weighted([]int{5, 7, 2, 2})
			} else {
				kind = tp.Weighted([]int{5, 7, 2})
			}
		}
		att.kind = kind
		label := fmt.Sprintf("%s #%d", token, att.idx)
		var r *node.Reply
		switch kind {
		case rtErr:
			ek := rtErrKinds[tp.Next(len(rtErrKinds))]
			alive := int32(tp.Next(2))
			received := int32(tp.Next(2))
			wt := rtWriteTypes[tp.Next(len(rtWriteTypes))]
			att.code = ek.code
			att.detail = fmt.Sprintf("%s alive=%d received=%d wt=%s", ek.name, alive, received, wt)
			k.Fault("outcome." + ek.name)
			body := &cqlspec.ErrorBody{Code: ek.code, Message: "E " + label, Consistency: cons, Required: 2, Alive: alive,
				Received: received, BlockFor: 2, NumFailures: 1, DataPresent: byte(received), WriteType: wt, Keyspace: "ks", Table: "t", Function: "f", ArgTypes: []string{"int"}}
			r = cl.Send(sc, rec, &cqlspec.Response{Op: cqlspec.OpError, Error: body}, node.Hold, "ERR("+ek.name+") "+label)
		case rtDrop:
			k.Fault("outcome.no-reply")
			r = cl.Send(sc, rec, &cqlspec.Response{Op: cqlspec.OpResult, Kind: cqlspec.KindVoid}, node.Drop, "NEVER "+label)
		case rtClose:
			// no answer: the node closes the connection. It does so when the nodes are next
			// looked at (one step later), so that what the driver does about it is told apart
			// by its step from what led to this request.
			k.Fault("outcome.conn-close")
			r = cl.Send(sc, rec, &cqlspec.Response{Op: cqlspec.OpResult, Kind: cqlspec.KindVoid}, node.Drop, "CLOSE "+label)
			toClose = append(toClose, sc)
		default:
			if ar.batch {
				r = cl.Send(sc, rec, &cqlspec.Response{Op: cqlspec.OpResult, Kind: cqlspec.KindVoid}, node.Hold, "VOID "+label)
			} else {
				row := [][]cqlspec.Cell{{{Bytes: cqlspec.EncText(fmt.Sprintf("%s/%s/%d", token, sc.Host.Nonce, att.idx))}}}
				r = cl.Send(sc, rec, &cqlspec.Response{Op: cqlspec.OpResult, Kind: cqlspec.KindRows, Rows: valMeta, RowData: row}, node.Hold, "ROWS "+label)
			}
		}
		att.reply = r
		st.mu.Lock()
		st.byReply[r] = att
		st.mu.Unlock()
		k.Rec("attempt %s #%d host=%s conn=%s stream=%d cons=%d outcome=%d %s", token, att.idx, att.host, sc.C.Name, rec.Stream, cons, kind, att.detail)
	}
	process := func() {
		for _, sc := range toClose {
			if !sc.Dead && !sc.C.ClientClosed() {
				closeConn(sc, "conn.closed-instead-of-answer")
			}
		}
		toClose = toClose[:0]
		cl.Process()
		sort.SliceStable(pending, func(i, j int) bool {
			a, b := pending[i], pending[j]
			if a.token != b.token {
				return a.token < b.token
			}
			if a.sc.C.Name != b.sc.C.Name {
				return a.sc.C.Name < b.sc.C.Name
			}
			return a.rec.Stream < b.rec.Stream
		})
		for _, ar := range pending {
			handle(ar)
		}
		pending = pending[:0]
	}

	// ---- boot (fault free, FIFO) ----
	sess, err := Boot(k, cl, 10*time.Second, func() (*gocql.Session, error) { return gocql.NewSession(*cfg) })
	if err != nil {
		k.Violate("HARNESS", "retry/boot", "session creation failed in a fault-free boot: %v", err)
		cl.CloseAll()
		rtDrain(k)
		return
	}
	if got := hp.known(); len(got) != nHosts {
		k.Violate("HARNESS", "retry/hosts", "host policy was told about %v, expected %d hosts", got, nHosts)
	}
	for id, conns := range sess.VerifPoolConns() {
		if len(conns) == 0 {
			k.Violate("HARNESS", "retry/pool", "pool %s has no connection after a fault-free boot", id)
		}
	}

	// The only park point used is the one right after exec has taken the response: there the
	// outcome of the attempt is decided and the connection's receive loop is free again. A
	// goroutine parked at exec.timedOut / exec.ctxDone has not closed call.timeout yet, so a
	// late reply for it blocks the receive loop and with it every other reply on that
	// connection, which would invalidate the delivery-time rule of eff().
	if faultsOn {
		k.DrawPlan([]string{"exec.gotResp"}, 2, 12)
	}

	// ---- workload ----
	for ti := 0; ti < nTasks; ti++ {
		ti := ti
		k.Spawn(fmt.Sprintf("c%d", ti), func(t *kernel.Task) {
			for oi := 0; oi < nOps; oi++ {
				token := fmt.Sprintf("tok-%d-%d", ti, oi)
				st.mu.Lock()
				op := st.ops[token]
				st.mu.Unlock()
				pl := op.plan
				if !t.Step("q " + token) {
					return
				}
				ctx, cancel := context.WithCancel(context.Background())
				// rp stays the nil interface for rtNone: RetryPolicy(nil) = "none for this statement"
				var rp gocql.RetryPolicy
				if op.rec != nil {
					rp = op.rec
				}
				// setRT: does the statement set its retry policy itself? (else it keeps what
				// Session.Query / Session.NewBatch gave it from the cluster configuration)
				setRT := pl.rtSrc == rtSrcStmt && !pl.rtUnset
				var sp gocql.SpeculativeExecutionPolicy
				switch {
				case pl.specK > 0:
					sp = &gocql.SimpleSpeculativeExecution{NumAttempts: pl.specK, TimeoutDelay: pl.specDelay}
				case pl.specSrc == 1:
					sp = gocql.NonSpeculativeExecution{}
				case pl.specSrc == 2:
					sp = &gocql.SimpleSpeculativeExecution{NumAttempts: 0, TimeoutDelay: 10 * time.Millisecond}
				}
				step := k.Step()
				st.mu.Lock()
				op.cancel = cancel
				op.started = true
				op.inflight = true
				op.invoke = step
				op.invokeAt = k.SimTime()
				st.mu.Unlock()
				k.Rec("call %s %s", token, pl)
				var got string
				var err error
				var attempts int
				if pl.batch {
					b := sess.NewBatch(gocql.UnloggedBatch)
					if (ti+oi)%2 == 0 {
						// a Batch value that was filled and asked about before: what it says now
						// must be about its present entries
						for i := 0; i < pl.nEntries; i++ {
							b.Query(fmt.Sprintf("OLD%d '%s'", i, token))
							b.Entries[i].Idempotent = !pl.idempotent
						}
						_ = b.IsIdempotent()
						b.Entries = b.Entries[:0]
						k.Probe("batch-refilled")
					}
					for i := 0; i < pl.nEntries; i++ {
						b.Query(fmt.Sprintf("ECHO%d '%s'", i, token))
					}
					switch pl.idemVar {
					case 1:
						// one entry that is not idempotent makes the batch not idempotent
						for i := range b.Entries {
							b.Entries[i].Idempotent = i != pl.niEntry
						}
						k.Probe("idempotence:batch-with-one-non-idempotent-entry")
					case 2:
						k.Probe("idempotence:batch-entries-never-marked")
					default:
						for i := range b.Entries {
							b.Entries[i].Idempotent = pl.idempotent
						}
					}
					if setRT {
						b.RetryPolicy(rp)
					}
					if sp != nil {
						b.SpeculativeExecutionPolicy(sp)
					}
					b = b.WithContext(ctx)
					err = sess.ExecuteBatch(b)
					attempts = b.Attempts()
				} else {
					q := sess.Query("ECHO '" + token + "'")
					if setRT {
						q.RetryPolicy(rp)
					}
					if pl.idemVar == 1 {
						k.Probe("idempotence:query-keeps-cluster-default")
					} else {
						q.Idempotent(pl.idempotent)
					}
					if sp != nil {
						q.SetSpeculativeExecutionPolicy(sp)
					}
					q = q.WithContext(ctx)
					err = q.Scan(&got)
					attempts = q.Attempts()
				}
				step = k.Step()
				st.mu.Lock()
				op.inflight = false
				op.done = true
				op.ret = step
				op.err = err
				op.got = got
				op.attemptsAPI = attempts
				st.mu.Unlock()
				// the caller's context is deliberately NOT cancelled on return (a caller using
				// context.Background() never does): whatever the driver still does for this
				// query afterwards is its own doing. All contexts are cancelled at the end.
				k.OpDone()
				k.Rec("ret %s %s %q attempts=%d", token, ErrClass(err), got, attempts)
				st.checkMisrouted(op)
			}
		})
	}

	// ---- actions ----
	deliver := func(r *node.Reply) {
		now := k.SimTime()
		step := k.Step()
		st.mu.Lock()
		if a := st.byReply[r]; a != nil && !a.dlv {
			a.dlv, a.dlvStep, a.dlvAt = true, step, now
			st.awaited[fmt.Sprintf("%s/s%d", a.sc.C.Name, a.stream)] = true
			if a.dlvAt-a.at >= timeout {
				k.Probe("reply-after-request-timeout")
			}
		}
		st.mu.Unlock()
		cl.Deliver(r)
	}
	k.Sources = append(k.Sources, func() []kernel.Action {
		var acts []kernel.Action
		per := map[*node.SConn]int{}
		for _, r := range cl.Held() {
			if per[r.SC] >= cl.MaxDeliverChoices {
				continue
			}
			if st.withheldNow(r) {
				continue
			}
			per[r.SC]++
			r := r
			acts = append(acts, kernel.Action{Key: fmt.Sprintf("deliver:%s:%s", r.SC.C.Name, r.Label), Rank: 1, Weight: cl.DeliverWeight, Do: func() { deliver(r) }})
		}
		return acts
	})
	deliverAll := func() {
		held := append([]*node.Reply(nil), cl.Held()...)
		sort.SliceStable(held, func(i, j int) bool { return held[i].Label < held[j].Label })
		for _, r := range held {
			deliver(r)
		}
	}
	if faultsOn {
		k.Sources = append(k.Sources, func() []kernel.Action {
			var acts []kernel.Action
			st.mu.Lock()
			for _, op := range st.list {
				if op.inflight && !op.cancelFired {
					op := op
					acts = append(acts, kernel.Action{Key: "cancel:" + op.token, Rank: 5, Weight: 1, Do: func() {
						step := k.Step()
						st.mu.Lock()
						op.cancelFired, op.cancelStep = true, step
						bo := op.inBackoff
						pending := 0
						for _, a := range op.atts {
							if !a.dlv && !a.closed {
								pending++
							}
						}
						st.mu.Unlock()
						k.Fault("client.cancel")
						if bo {
							k.Probe("cancel-during-backoff")
						}
						if pending > 0 {
							k.Probe("cancel-with-attempt-in-flight")
						} else {
							k.Probe("cancel-between-attempts")
						}
						if op.plan.batch {
							k.Probe("cancel-batch")
						}
						op.cancel()
					}})
				}
			}
			st.mu.Unlock()
			if relaxed {
				for _, sc := range cl.SConns() {
					if sc.Dead || sc.C.ClientClosed() || !sc.Started {
						continue
					}
					sc := sc
					w := 1
					st.mu.Lock()
					for _, r := range cl.Held() {
						if r.SC == sc && st.byReply[r] != nil {
							w = 3
						}
					}
					st.mu.Unlock()
					acts = append(acts, kernel.Action{Key: "srvclose:" + sc.C.Name, Rank: 6, Weight: w, Do: func() { closeConn(sc, "conn.server-close") }})
				}
			}
			return acts
		})
	}
	k.PreStep = append(k.PreStep, process)

	k.Loop(nil)

	// ---- settle: no more faults, every request succeeds, FIFO delivery ----
	k.BeginSettle()
	bound := 20*timeout + 20*time.Second
	okDone := k.SettleUntil(bound, 20*time.Millisecond, func() { process(); deliverAll() }, k.TasksDone)
	if !okDone && k.Violation() == nil {
		k.Violate("C13", "C13/no-result", "after faults stopped, calls still blocked after %v simulated: %v", bound, k.RunningOps())
	}
	// let executions that lost a speculative race, and late requests, show themselves
	k.SettleUntil(2*timeout+2500*time.Millisecond, 20*time.Millisecond, func() { process(); deliverAll() }, func() bool { return false })

	// ---- final oracles ----
	if k.Violation() == nil {
		for _, op := range st.list {
			st.checkOp(op)
			if k.Violation() != nil {
				break
			}
		}
	}
	for _, op := range st.list {
		if len(op.atts) >= 3 && len(e.Samples) < 2 {
			e.Samples = append(e.Samples, st.history(op))
		}
	}

	// ---- close ----
	for _, op := range st.list {
		if op.cancel != nil {
			op.cancel()
		}
	}
	closed := make(chan struct{})
	go func() { sess.Close(); close(closed) }()
	k.SettleUntil(30*time.Second, 20*time.Millisecond, func() { process(); deliverAll() }, func() bool {
		select {
		case <-closed:
			return true
		default:
			return false
		}
	})
	cl.CloseAll()
	rtDrain(k)
}

func rtDrain(k *kernel.Kernel) {
	if !k.SettleUntil(60*time.Second, 100*time.Millisecond, nil, func() bool { return len(kernel.BubbleGoroutines()) == 0 }) {
		if gs := kernel.BubbleGoroutines(); len(gs) > 0 {
			k.Rec("lingering %d: %s", len(gs), gs[0])
		}
	}
}

// ---------------------------------------------------------------------------------
// oracles

func (st *rtState) history(op *rtOp) string {
	var sb strings.Builder
	fmt.Fprintf(&sb, "history of %s: %s; offered=%v invoke=%d", op.token, op.plan, op.offered, op.invoke)
	if op.cancelFired {
		fmt.Fprintf(&sb, " cancel@%d", op.cancelStep)
	}
	if op.done {
		fmt.Fprintf(&sb, " return@%d %s %q Attempts()=%d", op.ret, ErrClass(op.err), op.got, op.attemptsAPI)
	}
	type ev struct {
		step, ord int
		s         string
	}
	var evs []ev
	// executions of a speculatively executed statement: x0 = the original, x1.. in the order
	// in which they first did something
	var xs map[uint64]string
	if op.plan.specK > 0 && op.plan.idempotent {
		xs = map[uint64]string{}
		if op.mainG != 0 {
			xs[op.mainG] = "x0"
		}
		for _, e := range op.evs {
			if _, ok := xs[e.g]; !ok {
				xs[e.g] = fmt.Sprintf("x%d", len(xs))
			}
		}
		if fins, sound := st.finals(op); sound {
			for _, f := range fins {
				evs = append(evs, ev{f.step, 1 << 29, fmt.Sprintf("execution %s completed: %s", xs[f.g], f.why)})
			}
		}
	}
	for _, a := range op.atts {
		s := fmt.Sprintf("#%d->%s cons=%d outcome=%s", a.idx, a.host, a.cons, []string{"rows", "error", "silence", "connection closed by the node"}[a.kind])
		if x, ok := xs[a.g]; ok {
			s += " by=" + x
		}
		if a.withheld {
			s += " answer-withheld"
		}
		if a.kind == rtErr {
			s += fmt.Sprintf("(%#x %s)", a.code, a.detail)
		}
		if a.dlv {
			s += fmt.Sprintf(" delivered@%d(+%v)", a.dlvStep, a.dlvAt-a.at)
		}
		if a.closed {
			s += " conn-lost"
		}
		evs = append(evs, ev{a.step, 1 << 30, s})
	}
	for i, c := range op.calls {
		who := ""
		if c.foreign {
			who = "cluster-wide policy: "
		}
		if c.attempt {
			evs = append(evs, ev{c.step, 1 + i, fmt.Sprintf("%sAttempt(attempts=%d)=%v", who, c.attempts, c.ok)})
		} else {
			evs = append(evs, ev{c.step, 1 + i, fmt.Sprintf("%sGetRetryType(%s)=%s", who, c.err, rtTypeName(c.typ))})
		}
	}
	sort.SliceStable(evs, func(i, j int) bool {
		if evs[i].step != evs[j].step {
			return evs[i].step < evs[j].step
		}
		return evs[i].ord < evs[j].ord // decisions of a step precede the request they cause
	})
	for _, e := range evs {
		fmt.Fprintf(&sb, "\n  @%d %s", e.step, e.s)
	}
	return sb.String()
}

func (st *rtState) viol(op *rtOp, sig, format string, args ...interface{}) {
	st.k.Violate("C13", "C13/"+sig, "%s\n%s", fmt.Sprintf(format, args...), st.history(op))
}

// checkMisrouted: rows and server errors carry the token of the request they answer.
func (st *rtState) checkMisrouted(op *rtOp) {
	if op.err == nil {
		if !op.plan.batch && !strings.HasPrefix(op.got, op.token+"/") {
			st.viol(op, "misrouted", "caller of %s received the row %q", op.token, op.got)
		}
		return
	}
	var re gocql.RequestError
	if errors.As(op.err, &re) {
		if t := tokenRe.FindString(re.Message()); t != "" && t != op.token {
			st.viol(op, "misrouted", "caller of %s received the server error %q", op.token, re.Message())
		}
	}
}

func rtConnClass(cls string) bool {
	switch cls {
	case "conn-closed", "eof", "net-closed", "net-error", "net-timeout", "write-error", "no-streams":
		return true
	}
	return strings.Contains(cls, "EOF") || strings.Contains(cls, "connection reset") || strings.Contains(cls, "closed")
}

// resultAttempt identifies the attempt a returned row or server error came from (-1 = none).
func (st *rtState) resultAttempt(op *rtOp) int {
	if op.err == nil {
		if op.plan.batch {
			return -1
		}
		parts := strings.Split(op.got, "/")
		if len(parts) == 3 {
			if n, err := strconv.Atoi(parts[2]); err == nil {
				return n
			}
		}
		return -1
	}
	var re gocql.RequestError
	if errors.As(op.err, &re) {
		if m := rtAttRe.FindStringSubmatch(re.Message()); m != nil {
			n, _ := strconv.Atoi(m[2])
			return n
		}
	}
	return -1
}

// sameAsAttempt: is the caller's result the outcome the driver saw of attempt a?
func (st *rtState) sameAsAttempt(op *rtOp, a *rtAtt) bool {
	switch st.eff(a) {
	case effOK:
		if op.err != nil {
			return false
		}
		return op.plan.batch || st.resultAttempt(op) == a.idx
	case effErr:
		var re gocql.RequestError
		return op.err != nil && errors.As(op.err, &re) && int32(re.Code()) == a.code && st.resultAttempt(op) == a.idx
	case effTimeout:
		return errors.Is(op.err, gocql.ErrTimeoutNoResponse)
	case effConn:
		return op.err != nil && rtConnClass(ErrClass(op.err))
	}
	return true // ambiguous: not judged
}

func (st *rtState) checkOp(op *rtOp) {
	if !op.started {
		return
	}
	if !op.done {
		st.viol(op, "no-result", "%s never returned", op.token)
		return
	}
	k := st.k
	pl := op.plan
	A := op.atts
	spec := pl.idempotent && pl.specK > 0

	if len(A) >= 2 {
		k.Probe("retried-or-speculated")
	}
	for _, c := range op.calls {
		if !c.attempt {
			switch {
			case c.typ == gocql.Rethrow:
				k.Probe("decision-rethrow")
			case c.typ == gocql.Ignore:
				k.Probe("decision-ignore")
			case c.typ == gocql.Retry:
				k.Probe("decision-retry-same-host")
			case c.typ == gocql.RetryNextHost:
				k.Probe("decision-retry-next-host")
			default:
				k.Probe("decision-undefined-retry-type")
			}
		} else if !c.ok {
			k.Probe("budget-exhausted")
		}
	}

	// (1) nothing reaches a server once the cancellation of the caller's context has been observed
	if op.cancelFired {
		for _, a := range A {
			if a.step >= op.cancelStep {
				st.viol(op, "attempt-after-cancel", "%s: request #%d reached %s at step %d, after the caller's context was cancelled at step %d", op.token, a.idx, a.host, a.step, op.cancelStep)
				return
			}
		}
		if pl.batch {
			k.Probe("batch-cancel-no-further-attempt")
		}
	}
	// (2) no new attempt begins after the caller has its result
	late := 0
	for _, a := range A {
		if a.step > op.ret {
			late++
		}
	}
	if late > 0 {
		kind, sig := "query", "attempt-after-result"
		if pl.batch {
			kind, sig = "batch", "attempt-after-result:batch"
		}
		st.viol(op, sig, "%s (%s): %d request(s) reached servers after the result had been returned to the caller at step %d", op.token, kind, late, op.ret)
		return
	}
	// (2a) the statement's own setting wins over the cluster configuration: the cluster-wide
	// policy has no say in a statement that has a policy of its own or was told to have none
	switch {
	case !pl.clusterRT:
	case pl.rtSrc == rtSrcCluster:
		k.Probe("policy-source:inherited-from-cluster")
	case pl.rtKind == rtNone:
		k.Probe("policy-source:none-on-statement-over-cluster-policy")
	default:
		k.Probe("policy-source:statement-over-cluster-policy")
	}
	if pl.rtUnset {
		k.Probe("policy-source:never-set-anywhere")
	}
	for _, c := range op.calls {
		if !c.foreign {
			continue
		}
		what := fmt.Sprintf("GetRetryType(%s)=%s", c.err, rtTypeName(c.typ))
		if c.attempt {
			what = fmt.Sprintf("Attempt(attempts=%d)=%v", c.attempts, c.ok)
		}
		if pl.rtKind == rtNone {
			st.viol(op, "cluster-policy-consulted-for-statement-set-to-no-policy", "%s was given RetryPolicy(nil) - no retry policy for this statement - yet the retry policy of the cluster configuration was consulted for it at step %d: %s (it reached servers %d times)", op.token, c.step, what, len(A))
		} else {
			st.viol(op, "cluster-policy-consulted-for-statement-with-own-policy", "%s has a retry policy of its own, yet the retry policy of the cluster configuration was consulted for it at step %d: %s (it reached servers %d times)", op.token, c.step, what, len(A))
		}
		return
	}
	// (3) a query not marked idempotent is never retried
	if !pl.idempotent && len(A) >= 2 {
		if st.armNI {
			st.viol(op, "non-idempotent-retried", "%s is not marked idempotent but reached servers %d times (retry policy consulted %d times)", op.token, len(A), len(op.calls))
			return
		}
		k.Probe("non-idempotent-retried(unarmed)")
	}
	// (3a) ... and the retry policy has no say in it: its callbacks (which may sleep, or change
	// the consistency of the statement) are not invoked for it
	if !pl.idempotent && len(op.calls) > 0 && st.armNI {
		st.viol(op, "retry-policy-consulted-for-non-idempotent", "%s is not marked idempotent but its retry policy was consulted %d time(s)", op.token, len(op.calls))
		return
	}
	// (4) attempt budget: one attempt per execution plus what the policy's budget allows
	limit := 1 + pl.budget()
	if spec {
		limit += pl.specK
	}
	if len(A) > limit {
		st.viol(op, "too-many-attempts", "%s reached servers %d times; the policies allow at most %d (1 + %d retries + %d speculative executions)", op.token, len(A), limit, pl.budget(), limit-1-pl.budget())
		return
	}
	granted := 0
	for _, c := range op.calls {
		if c.attempt && c.ok {
			granted++
		}
	}
	if max := limit - pl.budget() + granted; len(A) > max {
		st.viol(op, "too-many-attempts", "%s reached servers %d times although the retry policy granted only %d retries", op.token, len(A), granted)
		return
	}

	if spec {
		st.checkSpecResult(op)
		if k.Violation() == nil {
			st.checkFirstCompleted(op)
		}
		return
	}
	k.Probe("non-speculative-query-completed")
	ambiguous := false
	for _, a := range A {
		if st.eff(a) == effAmbig {
			ambiguous = true
		}
	}
	if st.exact && !op.cancelFired && !ambiguous {
		k.Probe("exact-model-compared")
		st.exactWalk(op)
		return
	}
	if ambiguous {
		k.Probe("exact-check-skipped(reply-near-timeout)")
	}
	st.relaxedWalk(op)
}

// exactWalk: non-speculative execution with healthy pools. The sequence of (host, attempt)
// and the result must be exactly what the documented contract says.
func (st *rtState) exactWalk(op *rtOp) {
	k := st.k
	pl := op.plan
	A := op.atts
	O := pl.order
	i, oi, ci := 0, 0, 0
	// the policy is consulted exactly when the contract says: whatever call is left over when
	// the walk is through was made out of turn (after a success, after Attempt() said no,
	// after Rethrow / Ignore, twice for one failure)
	defer func() {
		if k.Violation() == nil && ci < len(op.calls) {
			c := op.calls[ci]
			what := fmt.Sprintf("GetRetryType(%s)", c.err)
			if c.attempt {
				what = fmt.Sprintf("Attempt(attempts=%d)", c.attempts)
			}
			st.viol(op, "retry-policy-consulted-out-of-turn", "%s: the retry policy was consulted (%s at step %d) when the contract had no question for it: %d call(s) in all, %d accounted for by failed attempts", op.token, what, c.step, len(op.calls), ci)
		}
	}()
	// last: attempt a must be the final one and its outcome the caller's result
	last := func(a *rtAtt, sigMore, why string) {
		if len(A) > a.idx+1 {
			st.viol(op, sigMore, "%s: request #%d reached %s although %s", op.token, a.idx+1, A[a.idx+1].host, why)
			return
		}
		if !st.sameAsAttempt(op, a) {
			st.viol(op, "wrong-final-error", "%s: the caller got %s %q but the last attempt (#%d on %s) ended with %s", op.token, ErrClass(op.err), op.got, a.idx, a.host, st.effName(a))
		}
	}
	for {
		if i >= len(A) {
			st.viol(op, "missing-attempt", "%s: the contract calls for attempt #%d on %s but no such request reached a server", op.token, i, O[oi])
			return
		}
		a := A[i]
		if a.host != O[oi] {
			if i == 0 {
				st.viol(op, "retry-on-wrong-host", "%s: the first attempt went to %s, the first offered host is %s", op.token, a.host, O[oi])
			} else {
				st.viol(op, "retry-on-wrong-host", "%s: attempt #%d went to %s, the policy's decisions lead to %s", op.token, i, a.host, O[oi])
			}
			return
		}
		if pl.rtKind == rtDowngrade {
			want := uint16(gocql.Quorum)
			if i > 0 {
				want = uint16(pl.levels[i-1])
			}
			if a.cons != want {
				st.viol(op, "downgrade-wrong-consistency", "%s: attempt #%d was sent with consistency %d; DowngradingConsistencyRetryPolicy%v documents %d for retry %d", op.token, i, a.cons, pl.levels, want, i)
				return
			}
			if i > 0 {
				k.Probe("downgraded-consistency-checked")
			}
		}
		ef := st.eff(a)
		if ef == effOK {
			last(a, "too-many-attempts", "the previous attempt had succeeded")
			return
		}
		fk := map[int]string{effErr: "server-error", effTimeout: "request-timeout", effConn: "connection-loss"}[ef]
		if ef == effErr {
			fk = fmt.Sprintf("server-error-%#06x", a.code)
		}
		if pl.rtKind == rtNone {
			k.Probe("failed-attempt-of-statement-without-policy:" + fk)
			if pl.clusterRT {
				k.Probe("failed-attempt-of-statement-set-to-no-policy-over-cluster-policy")
			}
			last(a, "too-many-attempts", "the query has no retry policy")
			return
		}
		if !pl.idempotent {
			k.Probe("failed-attempt-of-non-idempotent-statement:" + fk)
		} else {
			k.Probe("failed-attempt-judged-by-policy:" + fk)
			if pl.rtSrc == rtSrcCluster {
				k.Probe("failed-attempt-judged-by-inherited-cluster-policy")
			}
		}
		if !pl.idempotent && st.armNI {
			if len(A) > i+1 {
				st.viol(op, "non-idempotent-retried", "%s: request #%d reached %s although the query is not marked idempotent", op.token, i+1, A[i+1].host)
				return
			}
			if st.sameAsAttempt(op, a) {
				return // not retried, the attempt's own outcome returned
			}
			// not retried, but the result is not the attempt's: judge it by the policy's decisions
		}
		// the policy's budget
		if ci >= len(op.calls) || !op.calls[ci].attempt {
			if len(A) > i+1 {
				st.viol(op, "too-many-attempts", "%s: attempt #%d was made without asking the retry policy whether another attempt is allowed", op.token, i+1)
			} else {
				st.viol(op, "missing-attempt", "%s: attempt #%d failed (%s) and the retry policy was never consulted", op.token, i, st.effName(a))
			}
			return
		}
		ac := op.calls[ci]
		ci++
		if !ac.ok {
			last(a, "too-many-attempts", "the retry policy's Attempt() had returned false")
			return
		}
		if ci >= len(op.calls) || op.calls[ci].attempt {
			if len(A) > i+1 {
				st.viol(op, "too-many-attempts", "%s: attempt #%d was made without asking the retry policy for a decision", op.token, i+1)
			} else {
				st.viol(op, "missing-attempt", "%s: attempt #%d failed, the budget allowed a retry, and the retry policy was never asked for a decision", op.token, i)
			}
			return
		}
		gc := op.calls[ci]
		ci++
		switch {
		case gc.typ == gocql.Retry:
			if pl.rtKind == rtDowngrade && a.code == cqlspec.ErrWriteTimeout && ef == effErr && strings.Contains(a.detail, "received=0 wt=UNLOGGED_BATCH") {
				// policy-internal, not part of C13: the doc comment says "if the operation is an
				// UNLOGGED_BATCH and at least one replica acknowledged the write"
				k.Probe("downgrading-policy-retried-unlogged-batch-with-zero-acks")
			}
		case gc.typ == gocql.RetryNextHost:
			oi++
			if oi >= len(O) {
				k.Probe("retry-next-host-exhausted")
				last(a, "retry-on-wrong-host", "every offered host had been used up by RetryNextHost decisions")
				return
			}
		case gc.typ == gocql.Rethrow:
			last(a, "attempt-after-rethrow", "the retry policy had answered Rethrow")
			return
		case gc.typ == gocql.Ignore:
			if len(A) > i+1 {
				st.viol(op, "attempt-after-ignore", "%s: request #%d reached %s although the retry policy had answered Ignore", op.token, i+1, A[i+1].host)
				return
			}
			if op.err == nil {
				k.Probe("ignore-returned-nil")
				return
			}
			if !st.sameAsAttempt(op, a) {
				st.viol(op, "wrong-final-error", "%s: after Ignore the caller got %s, which is neither nil nor the last attempt's %s", op.token, ErrClass(op.err), st.effName(a))
				return
			}
			if st.armIgn {
				st.viol(op, "ignore-returned-error", "%s: the retry policy answered Ignore (documented: \"ignore error and return result\") but the caller got the error %s", op.token, ErrClass(op.err))
				return
			}
			k.Probe("ignore-returned-error(unarmed)")
			return
		default:
			if len(A) > i+1 {
				st.viol(op, "too-many-attempts", "%s: request #%d reached %s although the retry policy had answered the undefined %s", op.token, i+1, A[i+1].host, rtTypeName(gc.typ))
				return
			}
			if op.err == nil {
				st.viol(op, "wrong-final-error", "%s: the retry policy answered the undefined %s and the caller got no error", op.token, rtTypeName(gc.typ))
			}
			return
		}
		i++
	}
}

func (st *rtState) effName(a *rtAtt) string {
	switch st.eff(a) {
	case effOK:
		return "rows"
	case effErr:
		return fmt.Sprintf("server error %#x", a.code)
	case effTimeout:
		return "no response within the request timeout"
	case effConn:
		return "connection loss"
	}
	return "an ambiguous outcome"
}

// relaxedWalk: non-speculative execution when attempts invisible to the nodes are possible
// (connection loss, hosts skipped for want of a connection) or a cancel / near-timeout
// delivery makes the exact outcome of an attempt unknowable. Decisions are matched to
// attempts by step: the decisions taken between two consecutive requests govern the second.
func (st *rtState) relaxedWalk(op *rtOp) {
	k := st.k
	pl := op.plan
	A := op.atts
	pos := map[string]int{}
	for i, h := range pl.order {
		pos[h] = i
	}
	for i := 0; i+1 < len(A); i++ {
		lo, hi := A[i].step, A[i+1].step
		n, next := 0, false
		for _, c := range op.calls {
			if c.step <= lo || c.step > hi {
				continue
			}
			n++
			if c.attempt {
				if !c.ok {
					st.viol(op, "too-many-attempts", "%s: request #%d reached %s although the retry policy's Attempt() had returned false", op.token, i+1, A[i+1].host)
					return
				}
				continue
			}
			switch {
			case c.typ == gocql.Rethrow:
				st.viol(op, "attempt-after-rethrow", "%s: request #%d reached %s although the retry policy had answered Rethrow", op.token, i+1, A[i+1].host)
				return
			case c.typ == gocql.Ignore:
				st.viol(op, "attempt-after-ignore", "%s: request #%d reached %s although the retry policy had answered Ignore", op.token, i+1, A[i+1].host)
				return
			case c.typ == gocql.RetryNextHost:
				next = true
			case c.typ == gocql.Retry:
			default:
				st.viol(op, "too-many-attempts", "%s: request #%d reached %s although the retry policy had answered the undefined %s", op.token, i+1, A[i+1].host, rtTypeName(c.typ))
				return
			}
		}
		if n == 0 {
			st.viol(op, "too-many-attempts", "%s: request #%d reached %s without the retry policy having been consulted", op.token, i+1, A[i+1].host)
			return
		}
		p0, p1 := pos[A[i].host], pos[A[i+1].host]
		switch {
		case p1 < p0, next && p1 == p0:
			st.viol(op, "retry-on-wrong-host", "%s: attempt #%d went to %s (offered position %d) after attempt #%d on %s (position %d); decision RetryNextHost=%v", op.token, i+1, A[i+1].host, p1, i, A[i].host, p0, next)
			return
		case !next && p1 != p0 && st.exact:
			st.viol(op, "retry-on-wrong-host", "%s: attempt #%d went to %s after a Retry (same host) decision for attempt #%d on %s", op.token, i+1, A[i+1].host, i, A[i].host)
			return
		case p1 != p0 && !next && A[i+1].prevUsable:
			st.viol(op, "retry-on-wrong-host", "%s: attempt #%d went to %s after a Retry (same host) decision for attempt #%d on %s, although %s still had an open pooled connection", op.token, i+1, A[i+1].host, i, A[i].host, A[i].host)
			return
		case p1 != p0 && !next:
			k.Probe("host-skipped-for-want-of-connection")
		}
	}
	// every failed attempt of an idempotent statement with a policy is put to the policy: each
	// request but the first was granted by an Attempt() call, and one more call judges the last
	// request when that is known to have failed (attempts that never reached a node - written
	// to a connection already lost - only add calls)
	if n := len(A); n > 0 && !op.cancelFired && pl.idempotent && pl.rtKind != rtNone {
		if e := st.eff(A[n-1]); e == effErr || e == effTimeout || e == effConn {
			asked := 0
			for _, c := range op.calls {
				if c.attempt {
					asked++
				}
			}
			if asked < n {
				st.viol(op, "missing-attempt", "%s: attempt #%d failed (%s) and the retry policy was never consulted (%d request(s), %d Attempt() call(s))", op.token, n-1, st.effName(A[n-1]), n, asked)
				return
			}
			k.Probe("relaxed:last-failure-put-to-policy:" + map[int]string{effErr: "server-error", effTimeout: "request-timeout", effConn: "connection-loss"}[e])
		}
	}
	if len(A) > 0 && pos[A[0].host] != 0 {
		if st.exact {
			st.viol(op, "retry-on-wrong-host", "%s: the first attempt went to %s, the first offered host is %s", op.token, A[0].host, pl.order[0])
			return
		}
		k.Probe("host-skipped-for-want-of-connection")
	}
	// the result
	cls := ErrClass(op.err)
	var lastA *rtAtt
	if len(A) > 0 {
		lastA = A[len(A)-1]
	}
	var re gocql.RequestError
	switch {
	case op.err == nil:
		if lastA == nil || lastA.kind != rtOK || !lastA.dlv || lastA.dlvStep > op.ret || (!pl.batch && st.resultAttempt(op) != lastA.idx) {
			// a success must be the last attempt's
			if id := st.resultAttempt(op); !pl.batch && id >= 0 && id < len(A) && A[id].kind == rtOK && A[id].dlv {
				st.viol(op, "too-many-attempts", "%s: attempt #%d succeeded and the caller got its rows, yet %d more request(s) reached servers", op.token, id, len(A)-1-id)
				return
			}
			if lastA != nil && st.ignoredLast(op) {
				k.Probe("ignore-returned-nil")
				return
			}
			st.viol(op, "result-not-from-any-attempt:success", "%s: the caller got success %q but the last attempt did not deliver one", op.token, op.got)
		}
	case errors.Is(op.err, context.Canceled):
		if !op.cancelFired || op.cancelStep > op.ret {
			st.viol(op, "result-not-from-any-attempt:context-error", "%s: the caller got context.Canceled but its context was not cancelled", op.token)
		}
	case errors.Is(op.err, gocql.ErrUnknownRetryType):
		for _, c := range op.calls {
			if !c.attempt && !rtDefined(c.typ) {
				return
			}
		}
		st.viol(op, "result-not-from-any-attempt:unknown-retry-type", "%s: the caller got ErrUnknownRetryType but the policy never returned an undefined type", op.token)
	case errors.Is(op.err, gocql.ErrTimeoutNoResponse):
		if lastA == nil {
			st.viol(op, "result-not-from-any-attempt:timeout", "%s: the caller got a request timeout but no request reached a server", op.token)
			return
		}
		if e := st.eff(lastA); e != effTimeout && e != effAmbig && !(op.cancelFired && !lastA.dlv) {
			if st.exact || e != effConn {
				st.viol(op, "wrong-final-error", "%s: the caller got a request timeout but the last attempt (#%d) ended with %s", op.token, lastA.idx, st.effName(lastA))
			}
		}
	case errors.As(op.err, &re):
		id := st.resultAttempt(op)
		if id < 0 || id >= len(A) || A[id].kind != rtErr || int32(re.Code()) != A[id].code || !A[id].dlv || A[id].dlvStep > op.ret {
			st.viol(op, "result-not-from-any-attempt:server-error", "%s: the caller got the server error %q, which no attempt of this query had delivered by then", op.token, re.Error())
			return
		}
		if id != lastA.idx {
			st.viol(op, "wrong-final-error", "%s: the caller got the error of attempt #%d, the last attempt was #%d (%s)", op.token, id, lastA.idx, st.effName(lastA))
		}
	case rtConnClass(cls) || cls == "no-connections":
		if st.exact {
			st.viol(op, "result-not-from-any-attempt:"+cls, "%s: the caller got %s although no connection was lost and every host had a connection", op.token, cls)
		}
	default:
		st.viol(op, "result-not-from-any-attempt:other", "%s: the caller got %v, which no attempt produced", op.token, op.err)
	}
}

// ignoredLast: did the policy answer Ignore as its final decision?
func (st *rtState) ignoredLast(op *rtOp) bool {
	for i := len(op.calls) - 1; i >= 0; i-- {
		if !op.calls[i].attempt {
			return op.calls[i].typ == gocql.Ignore
		}
	}
	return false
}

// checkSpecResult: invariants of a speculatively executed (idempotent) query. Timing is
// never asserted; overlap and counts were checked on arrival and in checkOp.
func (st *rtState) checkSpecResult(op *rtOp) {
	k := st.k
	pl := op.plan
	A := op.atts
	k.Probe("speculative-query-completed")
	maxOverlap := 0
	for i, a := range A {
		n := 1
		for _, b := range A[:i] {
			if (!b.dlv || b.dlvStep > a.step) && !b.closed && a.at-b.at < st.timeout-rtSlack {
				n++
			}
		}
		if n > maxOverlap {
			maxOverlap = n
		}
	}
	if maxOverlap >= 2 {
		k.Probe("speculative-executions-overlapped")
	}
	if maxOverlap >= 3 {
		k.Probe("speculative-3+-executions-overlapped")
	}
	cls := ErrClass(op.err)
	var re gocql.RequestError
	switch {
	case op.err == nil:
		if pl.batch {
			for _, a := range A {
				if a.kind == rtOK && a.dlv && a.dlvStep <= op.ret {
					if a.idx > 0 {
						k.Probe("speculative-won-by-later-attempt")
					}
					return
				}
			}
			if st.ignoredAny(op) {
				return
			}
			st.viol(op, "result-not-from-any-attempt:success", "%s: the batch returned success but no node had delivered a success by then", op.token)
			return
		}
		id := st.resultAttempt(op)
		if id < 0 || id >= len(A) || A[id].kind != rtOK || !A[id].dlv || A[id].dlvStep > op.ret || !strings.HasPrefix(op.got, op.token+"/"+A[id].nonce+"/") {
			st.viol(op, "result-not-from-any-attempt:success", "%s: the caller got the row %q, which no node had delivered for this query by then", op.token, op.got)
			return
		}
		if id > 0 {
			k.Probe("speculative-won-by-later-attempt")
			for _, b := range A[:id] {
				if !b.dlv || b.dlvStep > A[id].dlvStep {
					k.Probe("speculative-won-by-second")
					break
				}
			}
		}
	case errors.Is(op.err, context.Canceled):
		if !op.cancelFired || op.cancelStep > op.ret {
			st.viol(op, "result-not-from-any-attempt:context-error", "%s: the caller got context.Canceled but its context was not cancelled", op.token)
		}
	case errors.Is(op.err, gocql.ErrUnknownRetryType):
		for _, c := range op.calls {
			if !c.attempt && !rtDefined(c.typ) {
				return
			}
		}
		st.viol(op, "result-not-from-any-attempt:unknown-retry-type", "%s: the caller got ErrUnknownRetryType but the policy never returned an undefined type", op.token)
	case errors.Is(op.err, gocql.ErrTimeoutNoResponse):
		for _, a := range A {
			if e := st.eff(a); e == effTimeout || e == effAmbig {
				return
			}
		}
		st.viol(op, "result-not-from-any-attempt:timeout", "%s: the caller got a request timeout but every request was answered in time", op.token)
	case errors.As(op.err, &re):
		id := st.resultAttempt(op)
		if id < 0 || id >= len(A) || A[id].kind != rtErr || int32(re.Code()) != A[id].code || !A[id].dlv || A[id].dlvStep > op.ret {
			st.viol(op, "result-not-from-any-attempt:server-error", "%s: the caller got the server error %q, which no attempt of this query had delivered by then", op.token, re.Error())
		}
	case rtConnClass(cls) || cls == "no-connections":
		if st.exact {
			st.viol(op, "result-not-from-any-attempt:"+cls, "%s: the caller got %s although no connection was lost and every host had a connection", op.token, cls)
		}
	default:
		st.viol(op, "result-not-from-any-attempt:other", "%s: the caller got %v, which no attempt produced", op.token, op.err)
	}
}

func (st *rtState) ignoredAny(op *rtOp) bool {
	for _, c := range op.calls {
		if !c.attempt && c.typ == gocql.Ignore {
			return true
		}
	}
	return false
}

// withheldNow: does the race plan of the statement keep this answer back for now? (root
// goroutine, from the action source: an answer that is kept back is not offered for delivery;
// the settle phase delivers everything.)
func (st *rtState) withheldNow(r *node.Reply) bool {
	now := st.k.SimTime()
	settling := st.k.Settling()
	st.mu.Lock()
	defer st.mu.Unlock()
	a := st.byReply[r]
	if a == nil || a.op == nil || settling {
		return false
	}
	op, pl := a.op, a.op.plan
	if pl.race == rtRaceNone || op.done || op.cancelFired || a.g == 0 || op.mainG == 0 {
		return false
	}
	held := false
	switch pl.race {
	case rtRaceOrigHeld:
		held = a.g == op.mainG
	case rtRaceSpecHeld:
		if a.g != op.mainG {
			held = true
			break
		}
		other := false
		for _, b := range op.atts {
			if b.g != 0 && b.g != op.mainG {
				other = true
			}
		}
		held = !other && now-op.invokeAt <= pl.specDelay+time.Millisecond
	}
	if held && !a.withheld {
		a.withheld = true
		st.k.Probe("race:answer-withheld:" + []string{"", "original", "speculative"}[pl.race])
	}
	return held
}

// rtFin: an execution of a statement has come to its end with a result of its own.
type rtFin struct {
	step   int
	at     time.Duration
	g      uint64
	ev     int    // index in rtOp.evs of the event that was its end
	ok     bool   // success (att: the request that was answered)
	ignore bool   // the retry policy answered Ignore for err
	err    error  // the failure
	att    *rtAtt // the request whose end this is (nil: none, e.g. no host left)
	why    string
}

// finals reconstructs, execution by execution, where each came to its end with a result of
// its own: a success; or a failure that nothing turns into another attempt - the statement
// has no retry policy, Attempt() said no, the decision was Rethrow / Ignore / undefined, or a
// host was asked for after granted retries and none was left (the result is then the last
// failure). A failure the policy answers with Retry / RetryNextHost is not an end. An
// additional (speculative) execution that finds no host at its very start has no result (the
// host iterator is shared, the others used the hosts up); the original execution's is
// ErrNoConnections. An attempt that ended with the caller's or the executor's context
// cancelled (Mark(nil) without a delivered success) is not counted either. sound reports
// whether the events made sense to this reconstruction.
func (st *rtState) finals(op *rtOp) (fins []rtFin, sound bool) {
	pl := op.plan
	type gst struct {
		lastMark *rtEv
		lastErr  error
		granted  bool
		ended    bool
	}
	G := map[uint64]*gst{}
	for i := range op.evs {
		ev := &op.evs[i]
		s := G[ev.g]
		if s == nil {
			s = &gst{}
			G[ev.g] = s
		}
		if s.ended {
			return nil, false // an execution that went on after its end: not understood
		}
		fin := func(f rtFin) {
			f.step, f.at, f.g, f.ev = ev.step, ev.at, ev.g, i
			fins = append(fins, f)
			s.ended = true
		}
		switch ev.kind {
		case rtEvMark:
			s.lastMark = ev
			switch {
			case ev.err == nil:
				if a := ev.att; a != nil && a.kind == rtOK && a.dlv && a.dlvStep <= ev.step && !a.closed {
					fin(rtFin{ok: true, att: a, why: "success"})
				}
				s.ended = true // (a context error otherwise: do returns at once)
			case pl.rtKind == rtNone:
				fin(rtFin{err: ev.err, att: ev.att, why: "failure, no retry policy"})
			}
		case rtEvAttempt:
			if s.lastMark == nil || s.lastMark.err == nil {
				return nil, false
			}
			if !ev.ok {
				fin(rtFin{err: s.lastMark.err, att: s.lastMark.att, why: "failure, retry budget exhausted"})
			} else {
				s.lastErr, s.granted = s.lastMark.err, true
			}
		case rtEvDecision:
			if s.lastMark == nil || s.lastMark.err == nil || !s.granted {
				return nil, false
			}
			switch ev.typ {
			case gocql.Retry, gocql.RetryNextHost:
			case gocql.Rethrow:
				fin(rtFin{err: s.lastMark.err, att: s.lastMark.att, why: "failure, Rethrow"})
			case gocql.Ignore:
				fin(rtFin{err: s.lastMark.err, att: s.lastMark.att, ignore: true, why: "failure, Ignore"})
			default:
				fin(rtFin{err: gocql.ErrUnknownRetryType, why: "failure, undefined retry type"})
			}
		case rtEvNoHost:
			switch {
			case s.lastErr != nil:
				fin(rtFin{err: s.lastErr, why: "failure, no further host"})
			case ev.g == op.mainG:
				fin(rtFin{err: gocql.ErrNoConnections, why: "no host at all"})
			}
			s.ended = true
		}
	}
	return fins, true
}

// checkFirstCompleted: "the caller gets exactly one result - the first to complete" (doc.go:
// "the two parallel executions of the query race to return a result, the first received
// result will be returned"). From the quiescence in which the first execution of a
// speculatively executed statement has come to its end, the call must have returned, with
// that execution's result: nothing else has to happen for it, in particular no answer that
// another execution is still waiting for has to arrive. Steps are compared, never times: one
// step is one action of the simulator followed by a quiescence, and between the end of an
// execution and the return of the call the driver waits for nothing. (The settle phase is one
// step as a whole, so nothing is asserted about it.) Calls whose context was cancelled are exempt.
func (st *rtState) checkFirstCompleted(op *rtOp) {
	k := st.k
	pl := op.plan
	if op.cancelFired {
		k.Probe("first-completed:not-judged(call-cancelled)")
		return
	}
	fins, sound := st.finals(op)
	if !sound {
		k.Probe("first-completed:not-judged(events-not-understood)")
		return
	}
	if len(fins) == 0 {
		k.Probe("first-completed:not-judged(no-execution-seen-to-complete)")
		return
	}
	F := fins[0].step
	for _, f := range fins {
		if f.step < F {
			F = f.step
		}
	}
	var first []rtFin
	for _, f := range fins {
		if f.step == F {
			first = append(first, f)
		}
	}
	f0 := first[0]
	who := "speculative"
	if f0.g == op.mainG {
		who = "original"
	}
	what := "failure"
	if f0.ok {
		what = "success"
	}
	// was another execution still waiting for an answer when the first one completed, and for
	// how long was that answer withheld afterwards?
	inflight, long := false, false
	var waiting *rtAtt
	for _, b := range op.atts {
		// (the executions that lose are told so by their context: their requests end in the
		// same step, after the event that was the end of the first)
		if b.g == 0 || b.g == f0.g || b.step > F || (b.marked && b.markEv < f0.ev) || (b.closed && !b.dlv) {
			continue
		}
		if b.dlv && b.dlvStep <= F {
			continue
		}
		inflight = true
		if waiting == nil {
			waiting = b
		}
		end := b.at + st.timeout // its own request timeout ends the wait at the latest
		if b.dlv && b.dlvAt < end {
			end = b.dlvAt
		}
		if end-f0.at >= 50*time.Millisecond {
			long = true
		}
	}
	k.Probe("first-completed:judged")
	if len(first) == 1 {
		tag := "first-completed:" + who + "-" + what
		k.Probe(tag)
		if inflight {
			k.Probe(tag + ":other-execution-still-awaiting-its-answer")
			if !f0.ok {
				k.Probe("first-completed:final-failure-with-other-in-flight:" + strings.TrimPrefix(f0.why, "failure, "))
			}
		}
		if long {
			k.Probe(tag + ":other-answer-withheld>=50ms-longer")
		}
	}
	desc := func(f rtFin) string {
		w := "a speculative execution"
		if f.g == op.mainG {
			w = "the original execution"
		}
		r := ErrClass(f.err)
		if f.ok {
			r = fmt.Sprintf("the rows of request #%d", f.att.idx)
		} else if f.att != nil {
			r += fmt.Sprintf(" (request #%d)", f.att.idx)
		}
		return fmt.Sprintf("%s completed at step %d: %s [%s]", w, f.step, r, f.why)
	}
	if op.ret > F {
		wt := "no other execution was waiting for an answer"
		if waiting != nil {
			wt = fmt.Sprintf("request #%d to %s was still unanswered", waiting.idx, waiting.host)
			if waiting.dlv {
				wt += fmt.Sprintf(" (answered at step %d, +%v)", waiting.dlvStep, waiting.dlvAt-f0.at)
			}
		}
		st.viol(op, "result-later-than-first-completed-execution", "%s (%s): %s, yet the call only returned at step %d with %s %q; %s. The caller gets the first result to complete, at once",
			op.token, pl, desc(f0), op.ret, ErrClass(op.err), op.got, wt)
		return
	}
	if op.ret < F {
		// the call returned before any execution was seen to complete: what it returned is
		// judged by checkSpecResult
		k.Probe("first-completed:call-returned-before-any-seen-completion")
		return
	}
	for _, f := range first {
		switch {
		case f.ok:
			if op.err == nil && (pl.batch || st.resultAttempt(op) == f.att.idx) {
				return
			}
		case op.err == nil:
			if f.ignore {
				k.Probe("ignore-returned-nil")
				return
			}
		case op.err.Error() == f.err.Error():
			// (the text of a server error names the request it answers)
			return
		}
	}
	var ds []string
	for _, f := range first {
		ds = append(ds, desc(f))
	}
	st.viol(op, "result-not-of-first-completed-execution", "%s (%s): the call returned at step %d with %s %q, which is not the result of the execution that completed first (%s)",
		op.token, pl, op.ret, ErrClass(op.err), op.got, strings.Join(ds, "; "))
}
