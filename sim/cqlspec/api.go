// Package cqlspec is an independent implementation of the CQL native protocol
// (versions 1-5, legacy framing) written from the protocol specification. It shares
// no code with gocql's frame.go / marshal.go and MUST NOT import github.com/gocql/gocql.
//
// It is the "other end" of the simulated conversation: a STRICT decoder for request
// frames (what the driver sends) and an encoder for response frames (what a server
// sends), plus reference value codecs for a small set of CQL types and independent
// snappy / lz4 block codecs.
//
// Protocol v5 is the *beta* v5 the driver speaks: legacy (v4-style) framing, request
// header flag 0x10 (USE_BETA) set, QUERY/EXECUTE/BATCH flags are [int] (4 bytes) instead
// of [byte], QUERY/EXECUTE flag 0x80 = with keyspace ([string] at the end of the
// parameters, after the timestamp), PREPARE body = <long string><flags [int]>[<keyspace
// [string]> if flags&0x01]. There is NO result_metadata_id and NO now_in_seconds.
// ERROR Read_failure / Write_failure in v5 carry a reason map instead of numfailures:
// <int n> then n x (<inetaddr: 1 byte size + 4|16 bytes> <short code>).
package cqlspec

// Opcodes.
const (
	OpError         = 0x00
	OpStartup       = 0x01
	OpReady         = 0x02
	OpAuthenticate  = 0x03
	OpOptions       = 0x05
	OpSupported     = 0x06
	OpQuery         = 0x07
	OpResult        = 0x08
	OpPrepare       = 0x09
	OpExecute       = 0x0A
	OpRegister      = 0x0B
	OpEvent         = 0x0C
	OpBatch         = 0x0D
	OpAuthChallenge = 0x0E
	OpAuthResponse  = 0x0F
	OpAuthSuccess   = 0x10
)

// Header flags.
const (
	FlagCompression   = 0x01
	FlagTracing       = 0x02
	FlagCustomPayload = 0x04
	FlagWarning       = 0x08
	FlagBeta          = 0x10
)

// Header is a decoded frame header. Size is 8 bytes for v1/v2 (1-byte signed stream)
// and 9 bytes for v3+ (2-byte signed stream).
type Header struct {
	Version  int  // low 7 bits of byte 0
	Response bool // high bit of byte 0
	Flags    byte
	Stream   int // sign-extended
	Opcode   byte
	Length   int // body length as on the wire (int32, may be negative if the peer lies)
}

// HeaderSize returns 8 for versions 1-2 and 9 for 3+. firstByte is the first byte of a frame.
func HeaderSize(firstByte byte) int {
	if firstByte&0x7f <= 2 {
		return 8
	}
	return 9
}

// Value is one bound value as it appears on the wire.
type Value struct {
	Name  string // only when the names-for-values flag is set
	Null  bool   // length -1
	Unset bool   // length -2 (v4+ only; in v<4 a -2 length is a decode error)
	Bytes []byte // non-nil (possibly empty) when neither Null nor Unset
}

// QueryParams are the <query_parameters> of QUERY / EXECUTE (v2+). For v1 only
// Consistency (QUERY) or Consistency+Values (EXECUTE) are present.
type QueryParams struct {
	Consistency       uint16
	Flags             uint32 // raw flags as on the wire (byte for v2-4, int for v5)
	HasValues         bool
	Values            []Value
	NamedValues       bool
	SkipMetadata      bool
	HasPageSize       bool
	PageSize          int32
	HasPagingState    bool
	PagingState       []byte
	HasSerial         bool
	SerialConsistency uint16
	HasTimestamp      bool
	Timestamp         int64
	HasKeyspace       bool
	Keyspace          string
}

// BatchEntry is one statement of a BATCH.
type BatchEntry struct {
	Prepared bool
	Query    string // when !Prepared
	ID       []byte // when Prepared
	Values   []Value
}

// Request is a decoded request frame.
type Request struct {
	Header Header
	// Body is the (decompressed) body, Raw the complete frame as received.
	Body []byte
	Raw  []byte

	CustomPayload map[string][]byte // when FlagCustomPayload (v4+)

	// STARTUP
	Options map[string]string
	// AUTH_RESPONSE
	AuthToken     []byte
	AuthTokenNull bool
	// REGISTER
	EventTypes []string
	// QUERY, PREPARE
	Query string
	// PREPARE (v5): flags and keyspace
	PrepareFlags    uint32
	PrepareKeyspace string
	// EXECUTE
	PreparedID []byte
	// QUERY, EXECUTE
	Params QueryParams
	// BATCH
	BatchType         byte
	Batch             []BatchEntry
	BatchConsistency  uint16
	BatchFlags        uint32
	BatchHasSerial    bool
	BatchSerial       uint16
	BatchHasTimestamp bool
	BatchTimestamp    int64
	BatchHasKeyspace  bool
	BatchKeyspace     string
}

// Decompressor decodes a compressed frame body. name is what STARTUP negotiated.
type Decompressor func(body []byte) ([]byte, error)

// ---------------------------------------------------------------------------------
// Response side.

// ColType describes a CQL type in result metadata ([option]).
type ColType struct {
	ID     uint16    // 0x0000 custom, 0x0001 ascii, ... 0x0020 list, 0x0021 map, 0x0022 set, 0x0030 udt, 0x0031 tuple
	Custom string    // ID == 0
	Elems  []ColType // list/set: 1 elem; map: key, value; tuple: n elems; udt: field types
	// UDT
	UDTKeyspace string
	UDTName     string
	UDTFields   []string // names, parallel to Elems
}

// Type ids.
const (
	TCustom    = 0x0000
	TAscii     = 0x0001
	TBigint    = 0x0002
	TBlob      = 0x0003
	TBoolean   = 0x0004
	TCounter   = 0x0005
	TDecimal   = 0x0006
	TDouble    = 0x0007
	TFloat     = 0x0008
	TInt       = 0x0009
	TText      = 0x000A // v1/v2 only in the spec; the driver maps it to text as well
	TTimestamp = 0x000B
	TUUID      = 0x000C
	TVarchar   = 0x000D
	TVarint    = 0x000E
	TTimeUUID  = 0x000F
	TInet      = 0x0010
	TDate      = 0x0011
	TTime      = 0x0012
	TSmallint  = 0x0013
	TTinyint   = 0x0014
	TDuration  = 0x0015
	TList      = 0x0020
	TMap       = 0x0021
	TSet       = 0x0022
	TUDT       = 0x0030
	TTuple     = 0x0031
)

// ColSpec is one column of result / prepared metadata.
type ColSpec struct {
	Keyspace, Table, Name string
	Type                  ColType
}

// RowsMeta is <metadata> of a Rows result (and the result metadata of Prepared).
type RowsMeta struct {
	GlobalSpec   bool // flag 0x0001: keyspace/table written once (taken from Columns[0])
	HasMorePages bool // flag 0x0002
	PagingState  []byte
	NoMetadata   bool // flag 0x0004: column specs omitted (ColumnCount still written)
	ColumnCount  int  // written as columns_count; if 0 and len(Columns)>0, len(Columns) is used
	Columns      []ColSpec
}

// Cell is one cell of a row: nil slice with Null=true encodes length -1.
type Cell struct {
	Null  bool
	Bytes []byte
}

// PreparedMeta is the bind-variable metadata of a Prepared result.
type PreparedMeta struct {
	GlobalSpec bool
	Columns    []ColSpec
	PKIndices  []uint16 // v4+
	// NoMetadata sets flag 0x0004 and omits the column specifications. The specification
	// defines no such flag for the bind metadata of a PREPARED result: only a misbehaving
	// node sends this (encoder only; used by the byzantine scenario).
	NoMetadata bool
}

// ErrorBody carries the code-specific fields of ERROR.
type ErrorBody struct {
	Code    int32
	Message string
	// Unavailable: Consistency, Required, Alive
	// Write_timeout: Consistency, Received, BlockFor, WriteType
	// Read_timeout: Consistency, Received, BlockFor, DataPresent
	// Read_failure: Consistency, Received, BlockFor, NumFailures | ReasonMap(v5), DataPresent
	// Write_failure: Consistency, Received, BlockFor, NumFailures | ReasonMap(v5), WriteType
	// Function_failure: Keyspace, Function, ArgTypes
	// Already_exists: Keyspace, Table
	// Unprepared: UnpreparedID
	// CAS_write_unknown (0x1700): Consistency, Received, BlockFor
	Consistency  uint16
	Required     int32
	Alive        int32
	Received     int32
	BlockFor     int32
	NumFailures  int32
	ReasonMap    []FailureReason
	DataPresent  byte
	WriteType    string
	Keyspace     string
	Table        string
	Function     string
	ArgTypes     []string
	UnpreparedID []byte
}

// FailureReason is one entry of the v5 failure reason map.
type FailureReason struct {
	IP   []byte // 4 or 16 bytes
	Code uint16
}

// Error codes.
const (
	ErrServer          = 0x0000
	ErrProtocol        = 0x000A
	ErrCredentials     = 0x0100
	ErrUnavailable     = 0x1000
	ErrOverloaded      = 0x1001
	ErrBootstrapping   = 0x1002
	ErrTruncate        = 0x1003
	ErrWriteTimeout    = 0x1100
	ErrReadTimeout     = 0x1200
	ErrReadFailure     = 0x1300
	ErrFunctionFailure = 0x1400
	ErrWriteFailure    = 0x1500
	ErrCDCWriteFailure = 0x1600
	ErrCASWriteUnknown = 0x1700
	ErrSyntax          = 0x2000
	ErrUnauthorized    = 0x2100
	ErrInvalid         = 0x2200
	ErrConfig          = 0x2300
	ErrAlreadyExists   = 0x2400
	ErrUnprepared      = 0x2500
)

// SchemaChange is the body of a Schema_change result / SCHEMA_CHANGE event.
// v1/v2: <change><keyspace><table> (table "" for keyspace changes).
// v3+: <change><target><keyspace>[<name>][<arg types string list> for FUNCTION/AGGREGATE].
type SchemaChange struct {
	Change   string // CREATED UPDATED DROPPED
	Target   string // KEYSPACE TABLE TYPE FUNCTION AGGREGATE
	Keyspace string
	Name     string
	Args     []string
}

// Response is a logical response frame; exactly one of the body fields selected by Op
// (and Kind for RESULT) is used.
type Response struct {
	Version int
	Stream  int
	Op      byte
	// Optional envelope parts (written in this order at the start of the body):
	TracingID     []byte            // 16 bytes, sets FlagTracing
	Warnings      []string          // v4+, sets FlagWarning
	CustomPayload map[string][]byte // v4+, sets FlagCustomPayload; keys written in sorted order
	ExtraFlags    byte              // OR-ed into the header flags (e.g. FlagBeta for v5)

	// SUPPORTED: string multimap, keys written in sorted order
	Supported map[string][]string
	// AUTHENTICATE
	AuthClass string
	// AUTH_CHALLENGE / AUTH_SUCCESS ([bytes]; nil + AuthNull = length -1)
	AuthToken []byte
	AuthNull  bool
	// ERROR
	Error *ErrorBody
	// RESULT
	Kind         int32 // 1 void, 2 rows, 3 set_keyspace, 4 prepared, 5 schema_change
	Rows         *RowsMeta
	RowData      [][]Cell
	Keyspace     string // set_keyspace
	PreparedID   []byte
	Prepared     *PreparedMeta
	PreparedRows *RowsMeta // result metadata of Prepared (v2+)
	Schema       *SchemaChange
	// EVENT
	EventType   string // TOPOLOGY_CHANGE STATUS_CHANGE SCHEMA_CHANGE
	EventChange string // NEW_NODE REMOVED_NODE MOVED_NODE UP DOWN
	EventIP     []byte // 4 or 16 bytes
	EventPort   int32

	// Compress, when non-nil, is applied to the body and FlagCompression is set.
	Compress func([]byte) []byte
}

// Result kinds.
const (
	KindVoid         = 1
	KindRows         = 2
	KindSetKeyspace  = 3
	KindPrepared     = 4
	KindSchemaChange = 5
)
