package scen

import (
	"context"
	"fmt"
	"net"
	"regexp"
	"sort"
	"strings"
	"sync"
	"time"

	"github.com/gocql/gocql"
	"github.com/gocql/gocql/verifsim/cqlspec"
	"github.com/gocql/gocql/verifsim/kernel"
	"github.com/gocql/gocql/verifsim/node"
)

// Scenario prep (C14): several callers execute a few DML statements of different arity and
// types (queries, Session.Bind queries, batches, operations with a wrong number of values)
// on 1-2 nodes through one session whose prepared-statement cache has size 1000 / 1 / 2 / 3.
// The nodes keep their own table of prepared ids; an id spells out what it belongs to
// ("n1/ks1/S2/g3" = node, keyspace, statement, generation), so every EXECUTE and every
// prepared BATCH entry can be checked against the statement the caller named (the first
// bound text value is the operation's token). Faults: PREPARE answered with an error / never /
// connection closed or reset while it is outstanding (also while other callers, on other
// connections of the node, wait on it); node restart (all ids forgotten, the next
// PREPARE returns a new id) -> UNPREPARED on EXECUTE and BATCH; the caller's context is
// cancelled; parks on the prepareStatement and exec yield points.
//
// A statement's meaning may change (allowMeta runs): a node describes a statement in one of
// four versions (prepStmt.bindsOf / resultOf: int <-> bigint bind markers with an unchanged
// marker count, int <-> bigint result columns, an added result column). The version and the
// id change when the statement is prepared again (per-key plan drawn up front: keep or forget
// the older ids; this is also how two hosts come to describe one text differently) and when
// an "alter:" fault fires (the node forgets the statement's ids: ALTER TABLE, or plain
// eviction with unchanged metadata). An id spells out its version: "n1/ks1/S2/g3/v2.1"
// (version 2, first change of that key). Callers bind plain Go ints, which the driver
// marshals as int or bigint according to the metadata it holds.
// Multi-statement batches (kind multi-batch) hold every batchable statement of the run
// (up to 5 distinct ones, more than MaxPreparedStmts 1/2/3), so a restart makes the node
// disown all of them and name one per UNPREPARED answer.
//
// Oracle clauses (signature C14/...):
//   a  foreign-prepared-id, values-do-not-match-statement, executed-with-undelivered-id,
//      statement-sent-unprepared: what arrives at a node carries an id this node issued for
//      the statement the caller named under the connection's keyspace, with that
//      statement's number and types of values, and the id has reached the driver before
//   b  prepared-more-than-once: a second PREPARE of a (host, keyspace, statement) arrives
//      while an earlier one is healthy (answered or still answerable, connection alive, not
//      timed out in the driver) - only when the cache cannot evict (size >= keys of the run)
//      and no restart / UNPREPARED touched the key since
//   c  waiter-succeeded-after-failed-prepare, failed-prepare-cached (online: a caller that
//      started when the driver had no PREPARE in flight reports a PREPARE failure that no
//      PREPARE after its start produced; final phase: with faults off and every call
//      returned, each key is executed once more and must not fail without any request
//      reaching a node)
//   d  unprepared-not-recovered: UNPREPARED never reaches the caller, and an id the node
//      disowned is not re-sent more often than PREPARED answers carried it
//   e  cache-exceeds-size at every quiescence
//   f  wrong-arity-sent (+ :batch-entry-without-values)
//   g  misrouted, wrong-queryinfo; unexpected-outcome, caller-never-returned, panic-in-caller
//   h  values-not-for-the-id-sent: every EXECUTE / prepared BATCH entry carries, byte for byte,
//      the caller's values encoded for the bind metadata of THE ID IT CARRIES (4 bytes for an
//      int marker, 8 for a bigint one); row-not-decoded-for-the-id: the row the caller sees
//      is the row the node sent, read with the result metadata of the id the EXECUTE carried
//      (column names, types, values)
//   i  (sameAddr runs: every connection reports ONE remote address, as behind an SNI proxy or a
//      tunnelling dialer; the dialled address still decides the node) - judged by clauses a, b
//   j  the connection that carries a shared PREPARE is lost (closed / reset by the node, or
//      closed by the driver) before the answer arrives: every operation that was waiting on
//      that PREPARE is told (waiter-succeeded-after-failed-prepare:connection-lost), and
//      none of them prepares again on its own: a PREPARE must have a possible sender, i.e. an
//      operation using the key that has not already used up its one look-up as winner or
//      waiter of an earlier PREPARE of the key (prepare-without-a-new-caller); a later call
//      prepares again and succeeds (final phase)

func init() {
	register(&Scenario{
		Name:       "prep",
		Properties: []string{"C14"},
		Run:        runPrep,
		Real:       []string{"gocql Session/queryExecutor/pool/Conn.prepareStatement/executeQuery/executeBatch, preparedLRU + internal/lru, framer, marshalling of bound values (real code)", "Go runtime scheduler, channels, timers (fake clock)"},
		Stub:       []string{"Cassandra nodes with their own prepared-statement tables (independent state machine + cqlspec codec)", "TCP (simnet)", "clock (testing/synctest)", "host selection: a trivial policy that sends each operation to the host the workload chose (random host ids make the stock policies' order irreproducible without a control connection)"},
		Rule:       "one run = one seeded schedule of 2-6 callers x 2-4 operations (query / Bind query / batch of 1-3 entries / multi-statement batch / wrong-arity query or batch) over 1-6 statements (multi-batch = every batchable statement in one batch), 1-2 nodes x 1-2 connections, protocol 3/4/5, session keyspace none/ks1/ks2, cache size 1000/1/2/3, skip-metadata on/off, with tape-chosen reply order and lateness, PREPARE failures (error, silence, loss of the connection that carries a shared PREPARE by FIN or RST), optionally all nodes behind one remote address, node restarts, statements altered or evicted on a node (other bind/result types, other id), caller cancellations and yield-point parks; distinct = distinct canonical-log fingerprint; non-trivial = at least one PREPARE was shared by two callers, failed, or was repeated after UNPREPARED/eviction and at least one operation completed",
	})
}

// prepZeroArgBatch enables the wrong-arity variant "batch entry with NO values for a
// statement that has bind markers" (the driver sends such an entry as plain query text).
// Off: an entry without arguments is by API contract a simple statement that is never
// prepared, so the driver cannot know its arity; the server rejects it. Not a C14 defect.
const prepZeroArgBatch = false

var prepTokRe = regexp.MustCompile(`^ptok-[0-9]+-[0-9]+-[0-9]+$`)

type prepCol struct {
	name string
	typ  uint16
}

type prepStmt struct {
	name, text string
	binds      []prepCol
	tokIdx     int
	pk         []uint16
	result     []prepCol
}

func prepStatements() []*prepStmt {
	return []*prepStmt{
		{name: "S1", text: "SELECT v FROM t WHERE k = ?", binds: []prepCol{{"k", cqlspec.TVarchar}}, tokIdx: 0, pk: []uint16{0},
			result: []prepCol{{"v", cqlspec.TVarchar}}},
		{name: "S2", text: "INSERT INTO t (k, a, b) VALUES (?, ?, ?)", binds: []prepCol{{"k", cqlspec.TVarchar}, {"a", cqlspec.TInt}, {"b", cqlspec.TBigint}}, tokIdx: 0, pk: []uint16{0}},
		{name: "S3", text: "UPDATE t SET a = ? WHERE k = ?", binds: []prepCol{{"a", cqlspec.TInt}, {"k", cqlspec.TVarchar}}, tokIdx: 1, pk: []uint16{1}},
		// two different statements that differ only inside a string literal, and one that
		// differs from S2 only in letter case of a quoted identifier
		{name: "S4", text: "UPDATE t SET a = ? WHERE k = ? IF c = 'x  y'", binds: []prepCol{{"a", cqlspec.TInt}, {"k", cqlspec.TVarchar}}, tokIdx: 1, pk: []uint16{1}},
		{name: "S5", text: "UPDATE t SET a = ? WHERE k = ? IF c = 'x y'", binds: []prepCol{{"a", cqlspec.TInt}, {"k", cqlspec.TVarchar}}, tokIdx: 1, pk: []uint16{1}},
		{name: "S6", text: `INSERT INTO t (k, a, "B") VALUES (?, ?, ?)`, binds: []prepCol{{"k", cqlspec.TVarchar}, {"a", cqlspec.TInt}, {"B", cqlspec.TBigint}}, tokIdx: 0, pk: []uint16{0}},
		// a statement with numeric bind markers AND numeric result columns
		{name: "S7", text: "SELECT v, a FROM t WHERE k = ? AND a = ? AND b = ?", binds: []prepCol{{"k", cqlspec.TVarchar}, {"a", cqlspec.TInt}, {"b", cqlspec.TBigint}}, tokIdx: 0, pk: []uint16{0},
			result: []prepCol{{"v", cqlspec.TVarchar}, {"a", cqlspec.TInt}}},
	}
}

// prepVersions is the number of ways a node may describe one statement text. Version 0 is
// the declaration above. The number of bind markers never changes (the caller's values stay
// the right count), only their types do; a statement with a result keeps having one.
//
//	1: every int is a bigint (markers and result columns); the result gains a column w int
//	2: markers: int <-> bigint swapped; result: declared types plus a column w bigint
//	3: markers: every bigint is an int; result: declared plus w int
const prepVersions = 4

func (st *prepStmt) bindsOf(ver int) []prepCol {
	out := append([]prepCol(nil), st.binds...)
	for i := range out {
		t := out[i].typ
		switch {
		case ver == 1 && t == cqlspec.TInt, ver == 2 && t == cqlspec.TInt:
			out[i].typ = cqlspec.TBigint
		case ver == 2 && t == cqlspec.TBigint, ver == 3 && t == cqlspec.TBigint:
			out[i].typ = cqlspec.TInt
		}
	}
	return out
}

func (st *prepStmt) resultOf(ver int) []prepCol {
	if len(st.result) == 0 || ver == 0 {
		return st.result
	}
	out := append([]prepCol(nil), st.result...)
	if ver == 1 {
		for i := range out {
			if out[i].typ == cqlspec.TInt {
				out[i].typ = cqlspec.TBigint
			}
		}
	}
	w := prepCol{"w", cqlspec.TInt}
	if ver == 2 {
		w.typ = cqlspec.TBigint
	}
	return append(out, w)
}

// prepEncode is the wire form of a caller's value for a bind marker of the given type.
func prepEncode(typ uint16, v interface{}) []byte {
	switch x := v.(type) {
	case string:
		if typ == cqlspec.TVarchar {
			return cqlspec.EncText(x)
		}
	case int:
		switch typ {
		case cqlspec.TInt:
			return cqlspec.EncInt(int32(x))
		case cqlspec.TBigint:
			return cqlspec.EncBigint(int64(x))
		}
	}
	return nil
}

// prepRowText is the canonical text of one row: name:type=value of every column in order.
func prepRowText(names []string, types []int, vals []interface{}) string {
	var parts []string
	for i := range names {
		parts = append(parts, fmt.Sprintf("%s:%#x=%v", names[i], types[i], vals[i]))
	}
	return strings.Join(parts, ";")
}

// args builds correct values for the statement: the text column carries the token, the
// numeric markers get plain Go ints (the driver marshals an int as 4 or 8 bytes according
// to the bind metadata it holds, so the same values fit every version of the statement).
func (st *prepStmt) args(tok string, n int) []interface{} {
	var out []interface{}
	for i, c := range st.binds {
		switch c.typ {
		case cqlspec.TVarchar:
			out = append(out, tok)
		default:
			out = append(out, n*8+i)
		}
	}
	return out
}

const (
	prepKindQuery = iota
	prepKindBind
	prepKindBatch
	prepKindWrongQuery
	prepKindWrongBatch
	prepKindMultiBatch // a batch that holds every batchable statement of the run
)

type prepEntry struct {
	op      *prepOp
	tok     string
	num     int
	st      *prepStmt
	args    []interface{} // what the caller passes (possibly of the wrong count)
	wrong   bool
	useBind bool
}

type prepOp struct {
	id      string
	kind    int
	host    string // address
	entries []*prepEntry
	wrong   bool
	zeroArg bool

	// mutable, under prepWorld.mu
	running  bool
	done     bool
	invoke   int
	t0       time.Time
	err      error
	got      string
	frames   int            // EXECUTE / BATCH frames the nodes received for it
	sends    map[string]int // prepared id -> frames that carried it after an UNPREPARED answer named it
	unprepID map[string]int // prepared id -> UNPREPARED answers that named it
	unprep   int            // UNPREPARED answers produced for it
	success  bool           // a node produced a success answer for it
	rows     []string       // canonical text of the rows the nodes sent for it
	failedOn []*prepReq     // failed PREPAREs it was waiting on (see clause c)
	cancel   context.CancelFunc
	canceled bool
	flights0 int // PREPAREs the driver had in flight on its host when it was invoked
	doneStep int // step at which the call returned
}

func (op *prepOp) uses(host string, st *prepStmt) bool {
	if op.host != host {
		return false
	}
	for _, en := range op.entries {
		if en.st == st {
			return true
		}
	}
	return false
}

// prepID is an id a node issued.
type prepID struct {
	id        string
	node, ks  string
	st        *prepStmt
	gen       int
	okReplies int // PREPARED answers that carried it
	key       *prepKey
	ver       int       // the version of the statement it was issued for
	binds     []prepCol // = st.bindsOf(ver)
	result    []prepCol // = st.resultOf(ver)
}

type prepNodeState struct {
	host    *node.Host
	gen     int
	current map[string]bool // ids prepared since the last restart
	forgets int             // times it forgot ids (restarts, altered / evicted statements)
}

// prepKey is the cache key as the property defines it: host + keyspace + statement.
type prepKey struct {
	name     string
	host, ks string
	st       *prepStmt
	window   []*prepReq // PREPAREs since the last event that legitimately forces a new one
	gens     map[int]bool
	failures int
	ver      int   // how the node describes the statement now
	epoch    int   // changes of the key so far (part of the id)
	metaPlan []int // per successive PREPARE: 0 = nothing changes, else 2*delta + forget
}

const (
	prepFateHold = iota
	prepFateAuto
	prepFateError
	prepFateDrop
)

// prepReq is one PREPARE a node received.
type prepReq struct {
	key        *prepKey
	sc         *node.SConn
	arrive     time.Time
	arriveStep int
	fate       int
	id         string
	reply      *node.Reply
	delivered  bool
	deliverAt  time.Time
	final      bool // outcome known to the harness (delivered, timed out, connection lost)
	failed     bool
	waiters    map[*prepOp]bool // running operations on the key that had sent nothing, while it was the only pending PREPARE of the key
	exclusive  bool             // no other PREPARE of the key was pending during its life, no restart/UNPREPARED touched the key
	failedStep int
	rec        *node.ReqRec
	timedOut   bool // the driver gave up waiting for its answer (exec.timedOut on its stream)
	lost       bool // its connection was lost before the answer had been delivered
	otherConn  bool // while it was pending, a caller on ANOTHER connection of the node joined a PREPARE in flight
	winnerStep int  // step at which the driver published the single-flight entry that sent it (0 = unknown)
}

func (p *prepReq) wasDelivered() bool {
	return p.delivered || (p.reply != nil && !p.reply.Dropped && p.reply.Sent >= len(p.reply.Frame))
}

// prepTimeout is one "request timed out" event seen through the driver's yield hook.
type prepTimeout struct {
	conn   string
	stream int
	step   int
}

type prepWorld struct {
	e  *Env
	k  *kernel.Kernel
	cl *node.Cluster

	mu sync.Mutex

	proto       int
	ks          string
	timeout     time.Duration
	maxPrepared int
	noEviction  bool
	faultsOn    bool
	metaKS      string

	stmts    []*prepStmt
	byText   map[string]*prepStmt
	byName   map[string]*prepStmt
	nodes    map[string]*prepNodeState
	issued   map[string]*prepID
	keys     map[string]*prepKey
	keyList  []*prepKey
	entries  map[string]*prepEntry
	ops      []*prepOp
	preps    []*prepReq
	fates    map[string][]int
	restarts int
	closes   int // connections closed by the simulator

	maxRestarts int
	allowClose  bool
	allowCancel bool
	allowMeta   bool
	maxAlters   int
	alters      int

	finalPrepares int // PREPAREs received during the final phase
	timeouts      []prepTimeout
	earlyTimeouts []prepTimeout  // timeouts of requests the node had not read yet
	flights       map[string]int // host -> PREPAREs the driver has in flight (published, not finished)

	sameAddr   bool            // every connection reports one remote address
	closeBias  int             // how eagerly a connection that owes a PREPARE answer is closed
	armWait    bool            // callers that find a PREPARE in flight on their node park at prep.wait
	winnerStep map[string]int  // connection -> step of its latest published single-flight entry
	waitEvents []prepWaitEv    // callers that joined a PREPARE in flight (yield point prep.wait)
	resetConns map[string]bool // connections the node reset (rather than closed) while they owed a PREPARE answer
}

// prepWaitEv: a caller on connection conn found a PREPARE of its statement in flight.
type prepWaitEv struct {
	conn, host string
	step       int
}

type prepHostCtxKey struct{}

// prepPolicy sends every operation to the host named in its context and nowhere else.
type prepPolicy struct {
	mu    sync.Mutex
	hosts map[string]*gocql.HostInfo
}

type prepSelected struct{ h *gocql.HostInfo }

func (s prepSelected) Info() *gocql.HostInfo { return s.h }
func (s prepSelected) Mark(error)            {}

func (p *prepPolicy) AddHost(h *gocql.HostInfo) {
	p.mu.Lock()
	p.hosts[h.ConnectAddress().String()] = h
	p.mu.Unlock()
}
func (p *prepPolicy) RemoveHost(h *gocql.HostInfo) {
	p.mu.Lock()
	delete(p.hosts, h.ConnectAddress().String())
	p.mu.Unlock()
}
func (p *prepPolicy) HostUp(h *gocql.HostInfo)                  { p.AddHost(h) }
func (p *prepPolicy) HostDown(h *gocql.HostInfo)                {}
func (p *prepPolicy) SetPartitioner(string)                     {}
func (p *prepPolicy) KeyspaceChanged(gocql.KeyspaceUpdateEvent) {}
func (p *prepPolicy) Init(*gocql.Session)                       {}
func (p *prepPolicy) IsLocal(*gocql.HostInfo) bool              { return true }
func (p *prepPolicy) Pick(q gocql.ExecutableQuery) gocql.NextHost {
	var h *gocql.HostInfo
	if q != nil && q.Context() != nil {
		if addr, ok := q.Context().Value(prepHostCtxKey{}).(string); ok {
			p.mu.Lock()
			h = p.hosts[addr]
			p.mu.Unlock()
		}
	}
	used := false
	return func() gocql.SelectedHost {
		if used || h == nil {
			return nil
		}
		used = true
		return prepSelected{h}
	}
}

// prepDialer makes the order in which the session's first connections are accepted
// reproducible: the session dials its hosts from goroutines started in map order (host ids
// are random without a control connection), and the accept order fixes the order in which
// the nodes process requests that arrive in the same step. Dial number i of host h (both
// counted from 0) waits for its turn i*len(hosts)+h; once every initial connection exists
// the wrapper passes dials through.
type prepDialer struct {
	inner interface {
		DialContext(ctx context.Context, network, addr string) (net.Conn, error)
	}
	mu      sync.Mutex
	hosts   []string
	perHost map[string]int
	turn    int
	total   int
	wake    chan struct{}
}

func (d *prepDialer) DialContext(ctx context.Context, network, addr string) (net.Conn, error) {
	host, _, _ := net.SplitHostPort(addr)
	d.mu.Lock()
	hi := -1
	for i, h := range d.hosts {
		if h == host {
			hi = i
		}
	}
	ord := d.perHost[host]
	d.perHost[host] = ord + 1
	my := ord*len(d.hosts) + hi
	d.mu.Unlock()
	if hi < 0 || my >= d.total {
		return d.inner.DialContext(ctx, network, addr)
	}
	for {
		d.mu.Lock()
		ok := d.turn >= my
		ch := d.wake
		d.mu.Unlock()
		if ok {
			break
		}
		select {
		case <-ch:
		case <-ctx.Done():
			return nil, &net.OpError{Op: "dial", Net: network, Err: ctx.Err()}
		}
	}
	c, err := d.inner.DialContext(ctx, network, addr)
	d.mu.Lock()
	if d.turn == my {
		d.turn++
	}
	close(d.wake)
	d.wake = make(chan struct{})
	d.mu.Unlock()
	return c, err
}

func prepHostOf(c *gocql.Conn) string {
	name := ConnName(c)
	if i := strings.IndexByte(name, '#'); i >= 0 {
		return name[:i]
	}
	return name
}

func runPrep(e *Env) {
	k := e.K
	tp := k.Tape
	InstallHooks(k)

	// ---- swarm configuration (index 0 = boring) ----
	nHosts := 1 + tp.Next(2)
	numConns := 1 + tp.Next(2)
	proto := []int{4, 3, 5}[tp.Next(3)]
	ks := []string{"", "ks1", "ks2"}[tp.Next(3)]
	maxPrepared := []int{1000, 1, 2, 3}[tp.Next(4)]
	timeout := []time.Duration{300 * time.Millisecond, 100 * time.Millisecond, 700 * time.Millisecond}[tp.Next(3)]
	nStmts := 1 + tp.Next(3)
	stmtStart := tp.Next(len(prepStatements()))
	nTasks := 2 + tp.Next(5)
	nOps := 2 + tp.Next(3)
	if e.Tier == "thorough" {
		nOps += tp.Next(3)
	}
	// fault swarm: which kinds of fault this run may see at all
	maxRestarts, allowClose, allowPrepFail := 0, false, false
	if !e.NoFaults {
		maxRestarts = tp.Next(3)
		allowClose = tp.Chance(1, 2)
		allowPrepFail = tp.Chance(2, 3)
	}
	allowCancel := !e.NoFaults && tp.Chance(1, 3)
	coalesce := []time.Duration{0, 0, 200 * time.Microsecond}[tp.Next(3)]
	// newer dimensions (0 = the run as it was before they existed)
	nStmts += tp.Next(4)             // up to 6 of the 7 statements
	noSkipMeta := tp.Next(4) == 3    // results carry their metadata
	allowMeta, maxAlters := false, 0 // statements whose meaning changes
	if !e.NoFaults {
		allowMeta = tp.Chance(1, 2)
		if allowMeta {
			maxAlters = tp.Next(4)
		}
		maxRestarts += tp.Next(3) // nodes that forget everything more often
	}
	// newest dimensions (0 = as before): all nodes behind one remote address (SNI proxy,
	// tunnelling dialer); a node that is more eager to close a connection owing a PREPARE answer
	sameAddr := nHosts >= 2 && tp.Chance(1, 3)
	closeBias := 0
	if allowClose {
		closeBias = tp.Next(3)
	}
	// callers that join a PREPARE in flight are held at the yield point prep.wait (so that the
	// PREPARE ends, one way or the other, while they have not begun to wait for it)
	armWait := !e.NoFaults && tp.Chance(1, 4)
	e.Note("armWait", armWait)
	e.Note("sameAddr", sameAddr)
	e.Note("closeBias", closeBias)
	e.Note("allowMeta", allowMeta)
	e.Note("maxAlters", maxAlters)
	e.Note("noSkipMeta", noSkipMeta)
	e.Note("allowCancel", allowCancel)
	e.Note("coalesce", coalesce.String())
	e.Note("maxRestarts", maxRestarts)
	e.Note("allowClose", allowClose)
	e.Note("allowPrepFail", allowPrepFail)
	e.Note("hosts", nHosts)
	e.Note("numConns", numConns)
	e.Note("proto", proto)
	e.Note("keyspace", ks)
	e.Note("maxPrepared", maxPrepared)
	e.Note("timeout", timeout.String())
	e.Note("stmts", nStmts)
	e.Note("tasks", nTasks)
	e.Note("ops", nOps)

	cl := node.NewCluster(k, nHosts)
	w := &prepWorld{
		e: e, k: k, cl: cl,
		proto: proto, ks: ks, timeout: timeout, maxPrepared: maxPrepared,
		faultsOn: !e.NoFaults, maxRestarts: maxRestarts, allowClose: allowClose, allowCancel: allowCancel,
		allowMeta: allowMeta, maxAlters: maxAlters,
		byText: map[string]*prepStmt{}, byName: map[string]*prepStmt{},
		nodes: map[string]*prepNodeState{}, issued: map[string]*prepID{}, keys: map[string]*prepKey{},
		entries: map[string]*prepEntry{}, fates: map[string][]int{}, flights: map[string]int{},
		sameAddr: sameAddr, closeBias: closeBias, armWait: armWait, winnerStep: map[string]int{}, resetConns: map[string]bool{},
	}
	cl.Net.SameRemoteAddr = sameAddr
	w.metaKS = ks
	if w.metaKS == "" {
		w.metaKS = "ksdef"
	}
	all := prepStatements()
	for _, st := range all {
		// the node knows all statements; the run uses nStmts of them
		w.byText[st.text] = st
		w.byName[st.name] = st
	}
	for i := 0; i < nStmts; i++ {
		w.stmts = append(w.stmts, all[(stmtStart+i)%len(all)])
	}
	var batchable []*prepStmt
	var stmtNames []string
	for _, st := range w.stmts {
		stmtNames = append(stmtNames, st.name)
		if len(st.result) == 0 {
			batchable = append(batchable, st)
		}
	}
	e.Note("stmtSet", strings.Join(stmtNames, ","))
	var addrs []string
	for _, h := range cl.Hosts {
		addrs = append(addrs, h.Addr)
		w.nodes[h.Addr] = &prepNodeState{host: h, gen: 1, current: map[string]bool{}}
		for _, st := range w.stmts {
			key := &prepKey{name: h.Addr + "|" + ks + "|" + st.name, host: h.Addr, ks: ks, st: st, gens: map[int]bool{}}
			w.keys[key.name] = key
			w.keyList = append(w.keyList, key)
		}
	}
	w.noEviction = maxPrepared >= len(w.keyList)

	// fate of the successive PREPAREs of every key, drawn up front in key order so that the
	// order in which two nodes happen to process requests within one step does not matter
	failBudget := 3
	for _, key := range w.keyList {
		var fs []int
		for i := 0; i < 5; i++ {
			f := prepFateHold
			if allowPrepFail {
				f = tp.Weighted([]int{8, 3, 3, 1})
			} else {
				f = tp.Weighted([]int{3, 1})
			}
			if f >= prepFateError {
				if failBudget == 0 {
					f = prepFateHold
				} else {
					failBudget--
				}
			}
			fs = append(fs, f)
		}
		w.fates[key.name] = fs
	}
	// what the successive PREPAREs of every key do to the statement's meaning, drawn up front
	// for the same reason: 0 = described as before; else the node describes it in another
	// version from now on, hands out a different id and keeps (0) or forgets (1) the older
	// ids of the key. The first PREPARE of a key may already differ from version 0: that is
	// two hosts describing one text differently.
	if allowMeta {
		metaBudget := 4
		for _, key := range w.keyList {
			for i := 0; i < 5; i++ {
				d := tp.Weighted([]int{9, 1, 1, 1})
				code := 0
				if d > 0 && metaBudget > 0 {
					metaBudget--
					code = 2*d + tp.Next(2)
				}
				key.metaPlan = append(key.metaPlan, code)
			}
		}
	}

	// ---- operation plan (all draws on the root, before anything runs) ----
	plan := make([][]*prepOp, nTasks)
	for ti := 0; ti < nTasks; ti++ {
		for oi := 0; oi < nOps; oi++ {
			op := &prepOp{id: fmt.Sprintf("ptok-%d-%d", ti, oi), sends: map[string]int{}, unprepID: map[string]int{}}
			op.kind = tp.Weighted([]int{8, 3, 5, 2, 1, 3})
			op.host = addrs[tp.Next(len(addrs))]
			if op.kind == prepKindMultiBatch && len(batchable) < 2 {
				op.kind = prepKindBatch
			}
			if (op.kind == prepKindBatch || op.kind == prepKindWrongBatch) && len(batchable) == 0 {
				op.kind = prepKindQuery
			}
			n := ti*100 + oi
			switch op.kind {
			case prepKindQuery, prepKindBind, prepKindWrongQuery:
				st := w.stmts[tp.Next(len(w.stmts))]
				tok := op.id + "-0"
				en := &prepEntry{op: op, tok: tok, num: n, st: st, args: st.args(tok, n), useBind: op.kind == prepKindBind}
				op.entries = []*prepEntry{en}
			case prepKindMultiBatch:
				// every batchable statement once, starting anywhere, then 0-2 repeats
				start := tp.Next(len(batchable))
				ne := len(batchable) + tp.Next(3)
				for ei := 0; ei < ne; ei++ {
					st := batchable[(start+ei)%len(batchable)]
					if ei >= len(batchable) {
						st = batchable[tp.Next(len(batchable))]
					}
					tok := fmt.Sprintf("%s-%d", op.id, ei)
					en := &prepEntry{op: op, tok: tok, num: n + ei, st: st, args: st.args(tok, n+ei), useBind: tp.Chance(1, 4)}
					op.entries = append(op.entries, en)
				}
			default:
				ne := 1 + tp.Next(3)
				for ei := 0; ei < ne; ei++ {
					st := batchable[tp.Next(len(batchable))]
					tok := fmt.Sprintf("%s-%d", op.id, ei)
					en := &prepEntry{op: op, tok: tok, num: n + ei, st: st, args: st.args(tok, n+ei), useBind: tp.Chance(1, 4)}
					op.entries = append(op.entries, en)
				}
			}
			if op.kind == prepKindWrongQuery || op.kind == prepKindWrongBatch {
				op.wrong = true
				en := op.entries[tp.Next(len(op.entries))]
				en.wrong = true
				// the wrong number of values may also come out of a binding callback
				en.useBind = tp.Chance(1, 2)
				mode := tp.Next(2)
				if op.kind == prepKindWrongBatch && prepZeroArgBatch && tp.Chance(1, 30) {
					mode = 2
				}
				switch mode {
				case 0:
					en.args = en.args[:len(en.args)-1]
				case 1:
					en.args = append(en.args, 7)
				case 2:
					en.args = nil
					op.zeroArg = true
				}
			}
			for _, en := range op.entries {
				w.entries[en.tok] = en
			}
			w.ops = append(w.ops, op)
			plan[ti] = append(plan[ti], op)
		}
	}

	// ---- session ----
	cfg := BaseConfig(cl, addrs...)
	gocql.VerifDisableControlConn(cfg, true)
	cfg.ProtoVersion = proto
	cfg.NumConns = numConns
	cfg.Timeout = timeout
	cfg.ConnectTimeout = 500 * time.Millisecond
	cfg.ReconnectInterval = 500 * time.Millisecond
	cfg.WriteCoalesceWaitTime = coalesce
	cfg.Keyspace = ks
	cfg.MaxPreparedStmts = maxPrepared
	cfg.DisableSkipMetadata = noSkipMeta
	cfg.Dialer = &prepDialer{inner: cl.Net, hosts: addrs, perHost: map[string]int{}, total: nHosts * numConns, wake: make(chan struct{})}
	pol := &prepPolicy{hosts: map[string]*gocql.HostInfo{}}
	cfg.PoolConfig.HostSelectionPolicy = pol

	cl.App = w.app
	// the driver tells through its yield hook when a request gives up waiting for its answer
	baseHook := gocql.VerifHook
	gocql.VerifHook = func(point string, c *gocql.Conn, stream int) {
		switch point {
		case "exec.timedOut":
			w.mu.Lock()
			w.timeouts = append(w.timeouts, prepTimeout{conn: ConnName(c), stream: stream, step: k.Step()})
			w.mu.Unlock()
		case "prep.winner":
			// a single-flight entry was just published for a statement on this host
			w.mu.Lock()
			w.flights[prepHostOf(c)]++
			w.winnerStep[ConnName(c)] = k.Step()
			w.mu.Unlock()
		case "prep.wait":
			// a caller on this connection joined a PREPARE that is in flight
			w.mu.Lock()
			w.waitEvents = append(w.waitEvents, prepWaitEv{conn: ConnName(c), host: prepHostOf(c), step: k.Step()})
			w.mu.Unlock()
		}
		baseHook(point, c, stream)
		if point == "prep.beforeDone" {
			// its PREPARE is over; the entry's done channel is closed right after this
			w.mu.Lock()
			w.flights[prepHostOf(c)]--
			w.mu.Unlock()
		}
	}

	sess, err := Boot(k, cl, 10*time.Second, func() (*gocql.Session, error) { return gocql.NewSession(*cfg) })
	if err != nil {
		k.Violate("HARNESS", "prep/boot", "session creation failed in a fault-free boot: %v", err)
		cl.CloseAll()
		return
	}
	serve := func() { cl.Process(); cl.DeliverAll(); w.scan(sess) }
	// let every pool fill before the workload starts (no tape draws)
	k.SettleUntil(3*time.Second, 5*time.Millisecond, serve, func() bool {
		pc := sess.VerifPoolConns()
		n := 0
		for _, cs := range pc {
			if len(cs) >= numConns {
				n++
			}
		}
		return n >= nHosts
	})

	if w.faultsOn {
		k.DrawPlan([]string{
			"prep.winner", "prep.beforeExec", "prep.beforeRemove", "prep.beforeDone", "prep.wait",
			"prep.winner", "prep.beforeExec", "prep.beforeRemove", "prep.beforeDone", "prep.wait",
			"exec.gotStream", "exec.beforeWrite", "exec.afterWrite", "exec.gotResp", "recv.deliver", "exec.timedOut",
		}, 3, 6)
	}

	// ---- workload ----
	for ti := 0; ti < nTasks; ti++ {
		ti := ti
		k.Spawn(fmt.Sprintf("c%d", ti), func(t *kernel.Task) {
			defer func() {
				if r := recover(); r != nil {
					k.Violate("C14", "C14/panic-in-caller", "caller c%d panicked inside the driver: %v", ti, r)
				}
			}()
			for _, op := range plan[ti] {
				if !t.Step("op " + op.id) {
					return
				}
				w.perform(sess, op)
				k.OpDone()
				w.checkOutcome(op)
			}
		})
	}

	k.Sources = append(k.Sources, cl.DeliverActions)
	if w.faultsOn {
		k.Sources = append(k.Sources, w.faultActions)
	}
	k.PreStep = append(k.PreStep, func() {
		cl.Process()
		w.scan(sess)
	})

	k.Loop(nil)

	// ---- settle: no more faults, FIFO delivery, bounded liveness ----
	w.mu.Lock()
	w.faultsOn = false
	w.mu.Unlock()
	k.BeginSettle()
	bound := 4*timeout + 7*time.Second
	if !k.SettleUntil(bound, 20*time.Millisecond, serve, k.TasksDone) && k.Violation() == nil {
		k.Violate("C14", "C14/caller-never-returned", "after faults stopped, calls still blocked after %v simulated: %v", bound, k.RunningOps())
	}
	k.SettleUntil(50*time.Millisecond, 5*time.Millisecond, serve, func() bool { return false })

	// ---- final phase: one fault-free execution per key ----
	// A caller whose context was cancelled returns while the PREPARE it started is still in
	// flight; let every PREPARE that will never be answered run into the driver's timeout
	// first, so that the final executions do not legitimately wait on (and fail with) one.
	settleStart := time.Now()
	k.SettleUntil(timeout+time.Second, 10*time.Millisecond, serve, func() bool {
		w.mu.Lock()
		defer w.mu.Unlock()
		for _, p := range w.preps {
			if p.wasDelivered() || p.timedOut || p.sc.Dead || p.sc.C.ClientClosed() || p.sc.C.ServerClosed() {
				continue
			}
			from := p.arrive
			if from.Before(settleStart) {
				from = settleStart
			}
			if time.Since(from) < timeout+20*time.Millisecond {
				return false
			}
		}
		return true
	})
	if k.Violation() == nil {
		w.finalPhase(sess, serve)
	}
	if k.Violation() == nil {
		w.endChecks()
	}

	// ---- close and leak check ----
	closed := make(chan struct{})
	go func() { sess.Close(); close(closed) }()
	closeBound := 5*maxDur(timeout, cfg.ConnectTimeout) + 10*time.Second
	k.SettleUntil(closeBound, 20*time.Millisecond, func() { cl.Process(); cl.DeliverAll() }, func() bool {
		select {
		case <-closed:
			return true
		default:
			return false
		}
	})
	k.SettleUntil(closeBound, 100*time.Millisecond, nil, func() bool { return len(DriverGoroutines()) == 0 })
	cl.CloseAll()
	if !k.SettleUntil(closeBound, 100*time.Millisecond, nil, func() bool { return len(kernel.BubbleGoroutines()) == 0 }) {
		if gs := kernel.BubbleGoroutines(); len(gs) > 0 {
			k.Rec("lingering %d: %s", len(gs), gs[0])
		}
	}
}

// ---------------------------------------------------------------------------------
// caller side

func (w *prepWorld) perform(sess *gocql.Session, op *prepOp) {
	k := w.k
	ctx, cancel := context.WithCancel(context.WithValue(context.Background(), prepHostCtxKey{}, op.host))
	defer cancel()
	w.mu.Lock()
	op.cancel = cancel
	op.flights0 = w.flights[op.host]
	if w.armWait && w.faultsOn && op.flights0 > 0 {
		// the next caller that joins a PREPARE in flight parks before it starts to wait
		k.ArmNext("prep.wait")
	}
	op.running = true
	op.invoke = k.Step()
	op.t0 = time.Now()
	w.mu.Unlock()
	var err error
	var got string
	switch op.kind {
	case prepKindQuery, prepKindBind, prepKindWrongQuery:
		en := op.entries[0]
		var q *gocql.Query
		if en.useBind {
			q = sess.Bind(en.st.text, w.binder(en))
		} else {
			q = sess.Query(en.st.text, en.args...)
		}
		q = q.WithContext(ctx)
		if len(en.st.result) > 0 {
			// read the row as the driver describes it: whatever columns and types its
			// metadata names (the caller cannot know which version the node is at)
			iter := q.Iter()
			cols := iter.Columns()
			m := map[string]interface{}{}
			if iter.MapScan(m) {
				var names []string
				var types []int
				var vals []interface{}
				for _, c := range cols {
					names = append(names, c.Name)
					t := -1
					if c.TypeInfo != nil {
						t = int(c.TypeInfo.Type())
					}
					types = append(types, t)
					vals = append(vals, m[c.Name])
				}
				got = prepRowText(names, types, vals)
				if got == "" {
					got = "(row without columns)"
				}
			}
			err = iter.Close()
			if err == nil && got == "" {
				err = gocql.ErrNotFound
			}
		} else {
			err = q.Exec()
		}
	default:
		b := sess.NewBatch(gocql.LoggedBatch).WithContext(ctx)
		for _, en := range op.entries {
			if en.useBind {
				b.Bind(en.st.text, w.binder(en))
			} else {
				b.Query(en.st.text, en.args...)
			}
		}
		err = sess.ExecuteBatch(b)
	}
	w.mu.Lock()
	op.running = false
	op.done = true
	op.doneStep = k.Step()
	op.err = err
	op.got = got
	w.mu.Unlock()
	k.Rec("ret %s %s %s", op.id, ErrClass(err), got)
}

// binder returns the Session.Bind / Batch.Bind callback of an entry: it checks that the
// QueryInfo it is handed describes the entry's statement and returns the entry's values.
func (w *prepWorld) binder(en *prepEntry) func(*gocql.QueryInfo) ([]interface{}, error) {
	return func(qi *gocql.QueryInfo) ([]interface{}, error) {
		if msg := w.checkQueryInfo(en, qi); msg != "" {
			w.k.Violate("C14", "C14/wrong-queryinfo", "binding callback of %s (statement %s on %s, keyspace %q) received a QueryInfo that is not its statement's: %s", en.tok, en.st.name, en.op.host, w.ks, msg)
		}
		return en.args, nil
	}
}

func (w *prepWorld) checkQueryInfo(en *prepEntry, qi *gocql.QueryInfo) string {
	if qi == nil {
		return "nil QueryInfo"
	}
	w.mu.Lock()
	pid := w.issued[string(qi.Id)]
	w.mu.Unlock()
	if pid == nil {
		return fmt.Sprintf("id %q was never issued", qi.Id)
	}
	if pid.st != en.st || pid.node != en.op.host || pid.ks != w.ks {
		return fmt.Sprintf("id %q belongs to statement %s on %s in keyspace %q", qi.Id, pid.st.name, pid.node, pid.ks)
	}
	cmp := func(what string, have []gocql.ColumnInfo, want []prepCol) string {
		if len(have) != len(want) {
			return fmt.Sprintf("%s: %d columns, statement has %d", what, len(have), len(want))
		}
		for i, c := range want {
			if have[i].Name != c.name || have[i].TypeInfo == nil || int(have[i].TypeInfo.Type()) != int(c.typ) {
				return fmt.Sprintf("%s[%d] = %v, statement has %s of type %#x", what, i, have[i], c.name, c.typ)
			}
		}
		return ""
	}
	// the description must be the one the node gave together with THAT id
	if m := cmp("Args", qi.Args, pid.binds); m != "" {
		return fmt.Sprintf("id %q (version %d): %s", qi.Id, pid.ver, m)
	}
	if m := cmp("Rval", qi.Rval, pid.result); m != "" {
		return fmt.Sprintf("id %q (version %d): %s", qi.Id, pid.ver, m)
	}
	var wantPK []int
	if w.proto >= 4 {
		for _, i := range en.st.pk {
			wantPK = append(wantPK, int(i))
		}
	}
	if fmt.Sprint(qi.PKeyColumns) != fmt.Sprint(wantPK) && !(len(qi.PKeyColumns) == 0 && len(wantPK) == 0) {
		return fmt.Sprintf("PKeyColumns = %v, statement has %v", qi.PKeyColumns, wantPK)
	}
	return ""
}

func prepNetworkClass(cls string) bool {
	switch cls {
	case "conn-closed", "no-connections", "eof", "net-closed", "net-error", "net-timeout", "write-error", "session-closed":
		return true
	}
	return strings.Contains(cls, "connection reset") || strings.Contains(cls, "unable to read frame body")
}

// checkOutcome judges what the caller got back (clauses d, f, g and the outcome set).
func (w *prepWorld) checkOutcome(op *prepOp) {
	k := w.k
	w.mu.Lock()
	err, got := op.err, op.got
	success, unprep := op.success, op.unprep
	rows := append([]string(nil), op.rows...)
	named := map[string]bool{}
	for id := range op.unprepID {
		if pid := w.issued[id]; pid != nil {
			named[pid.st.name] = true
		}
	}
	failedOn := append([]*prepReq(nil), op.failedOn...)
	w.mu.Unlock()
	cls := ErrClass(err)
	if op.wrong {
		if err == nil {
			k.Violate("C14", "C14/wrong-arity-sent", "operation %s passed a wrong number of values (%s) and returned success", op.id, op.describe())
			return
		}
		if strings.Contains(err.Error(), "values send got") {
			k.Probe("wrong-arity-op")
		}
		return
	}
	if err == nil {
		if !success {
			k.Violate("C14", "C14/misrouted", "operation %s (%s) returned success but no node ever answered it with a result", op.id, op.describe())
			return
		}
		if len(op.entries) == 1 && len(op.entries[0].st.result) > 0 {
			seen := false
			for _, r := range rows {
				if r == got {
					seen = true
				}
			}
			if !seen && !strings.Contains(got, "="+op.entries[0].tok+"/") {
				k.Violate("C14", "C14/misrouted", "caller of %s received the row %q", op.entries[0].tok, got)
				return
			}
			if !seen {
				k.Violate("C14", "C14/row-not-decoded-for-the-id", "caller of %s (statement %s on %s) sees the row %q; the node sent, described by the result metadata of the id each EXECUTE carried: %q", op.entries[0].tok, op.entries[0].st.name, op.host, got, rows)
				return
			}
		}
		// clause (c): it was waiting on a PREPARE that failed. If the node never forgot
		// anything, the operation cannot have held an id of its own, so it was waiting on
		// that very PREPARE and must have been told; otherwise (it may have been holding an
		// id that went stale) it is only wrong if no later PREPARE of the key succeeded.
		for _, p := range failedOn {
			w.mu.Lock()
			neverRestarted := w.nodes[p.key.host].forgets == 0
			lost, other, pconn := p.lost, p.otherConn, p.sc.C.Name
			w.mu.Unlock()
			sig, how := "C14/waiter-succeeded-after-failed-prepare", "failed"
			if lost {
				// clause (j): the PREPARE was never answered, its connection went away
				sig += ":connection-lost"
				how = fmt.Sprintf("failed because its connection %s was lost before the answer arrived (a caller on another connection had joined it: %v)", pconn, other)
			}
			if neverRestarted {
				k.Violate("C14", sig, "operation %s (%s) was waiting on the PREPARE of %s that arrived at step %d (the only one of that key at the time; the node never restarted, nothing could be evicted) and %s at step %d, yet it returned success instead of that failure", op.id, op.describe(), p.key.name, p.arriveStep, how, p.failedStep)
				return
			}
			if !w.laterGoodPrepare(p) {
				k.Violate("C14", sig, "operation %s (%s) was waiting on the PREPARE of %s that arrived at step %d and %s, no later PREPARE of that key succeeded, and yet it returned success", op.id, op.describe(), p.key.name, p.arriveStep, how)
				return
			}
		}
		if unprep > 0 {
			k.Probe("recovered-after-unprepared")
		}
		if len(op.entries) > 1 {
			distinct := map[string]bool{}
			for _, en := range op.entries {
				distinct[en.st.name] = true
			}
			if len(distinct) > w.maxPrepared {
				k.Probe("batch-statements-outnumber-cache")
			}
			if len(named) >= 2 {
				k.Probe("batch-recovered-after-several-reprepare-rounds")
				if len(named) == len(distinct) {
					k.Probe("batch-every-statement-prepared-again")
				}
			}
		}
		return
	}
	switch {
	case cls == "timeout", prepNetworkClass(cls):
		return
	case cls == "ctx-canceled":
		// its own cancel, or the cancelled context of a connection that closed while the
		// PREPARE it was waiting on was in flight on it
		w.mu.Lock()
		own, closes := op.canceled, w.closes
		w.mu.Unlock()
		if !own && closes == 0 {
			k.Violate("C14", "C14/unexpected-outcome", "operation %s (%s) ended with context.Canceled although nobody cancelled it and no connection was closed", op.id, op.describe())
		}
		return
	case strings.HasPrefix(cls, "server-error"):
		msg := err.Error()
		if cls == fmt.Sprintf("server-error(%#x)", cqlspec.ErrUnprepared) {
			k.Violate("C14", "C14/unprepared-not-recovered", "operation %s (%s) returned the server's UNPREPARED answer to the caller instead of preparing again: %v", op.id, op.describe(), err)
			return
		}
		if i := strings.Index(msg, "injected-prepare-failure "); i >= 0 && w.e != nil && !w.e.NoFaults {
			f := strings.Fields(msg[i:])
			ok := false
			if len(f) >= 3 {
				for _, en := range op.entries {
					if en.st.name == f[1] && op.host == f[2] {
						ok = true
					}
				}
			}
			if !ok {
				k.Violate("C14", "C14/misrouted", "operation %s (%s) received the PREPARE failure of another statement or host: %v", op.id, op.describe(), err)
				return
			}
			// clause (c), online: when the operation was invoked the driver had no PREPARE in
			// flight on that host, so the failure it reports must come from a PREPARE that
			// reached the node after that
			w.mu.Lock()
			fresh := op.flights0 > 0
			for _, p := range w.preps {
				if p.fate == prepFateError && p.key.host == op.host && p.key.st.name == f[1] && p.arriveStep >= op.invoke {
					fresh = true
				}
			}
			w.mu.Unlock()
			if !fresh {
				k.Violate("C14", "C14/failed-prepare-cached", "operation %s (%s), invoked at step %d when the driver had no PREPARE in flight on %s, returned %q although no failing PREPARE of that statement reached the node after step %d: the failure of an earlier, finished PREPARE was served from the cache", op.id, op.describe(), op.invoke, op.host, msg, op.invoke)
			}
			return
		}
		k.Violate("C14", "C14/unexpected-outcome", "operation %s (%s) ended with a server error no node sent for it: %v", op.id, op.describe(), err)
	case strings.Contains(cls, "unmarshal"), strings.Contains(cls, "columns to scan into"):
		k.Violate("C14", "C14/row-not-decoded-for-the-id", "operation %s (%s) could not read the row the node sent (result metadata of another id?): %v; rows sent: %q", op.id, op.describe(), err, rows)
	case strings.Contains(cls, "values send got"), strings.Contains(cls, "can not marshal"), strings.Contains(cls, "cannot marshal"):
		k.Violate("C14", "C14/values-do-not-match-statement", "operation %s (%s) passed correct values for its statement but the driver rejected them (metadata of another statement?): %v", op.id, op.describe(), err)
	default:
		k.Violate("C14", "C14/unexpected-outcome", "operation %s (%s) ended with an outcome outside the allowed set: %v", op.id, op.describe(), err)
	}
}

func (op *prepOp) describe() string {
	var parts []string
	for _, en := range op.entries {
		s := fmt.Sprintf("%s/%d values", en.st.name, len(en.args))
		if en.useBind {
			s += "/bind"
		}
		parts = append(parts, s)
	}
	kind := []string{"query", "bind-query", "batch", "wrong-arity query", "wrong-arity batch", "multi-batch"}[op.kind]
	return fmt.Sprintf("%s on %s: %s", kind, op.host, strings.Join(parts, ", "))
}

// laterGoodPrepare: did a PREPARE of the same key that arrived after p get a PREPARED
// answer that was delivered?
func (w *prepWorld) laterGoodPrepare(p *prepReq) bool {
	w.mu.Lock()
	defer w.mu.Unlock()
	for _, q := range w.preps {
		if q.key == p.key && q != p && q.arriveStep >= p.arriveStep && q.wasDelivered() && !q.timedOut && q.fate <= prepFateAuto {
			return true
		}
	}
	return false
}

// ---------------------------------------------------------------------------------
// node side

func (w *prepWorld) effectiveKeyspace(sc *node.SConn, has bool, ks string) string {
	if has {
		return ks
	}
	return sc.Keyspace
}

func (w *prepWorld) app(sc *node.SConn, rec *node.ReqRec) {
	rq := rec.Req
	if w.k.Violation() != nil {
		// the verdict is in: wind the run down (in particular, stop answering UNPREPARED to a
		// driver that would re-send the same id forever)
		w.cl.SendError(sc, rec, cqlspec.ErrInvalid, "run is over", node.Auto)
		return
	}
	if rq.Header.Opcode != cqlspec.OpPrepare {
		// (a timeout the driver met before the node read this request is this request's)
		w.mu.Lock()
		w.resolveTimeoutsLocked()
		w.takeEarlyTimeoutLocked(sc.C.Name, rec.Stream)
		w.mu.Unlock()
	}
	switch rq.Header.Opcode {
	case cqlspec.OpPrepare:
		w.onPrepare(sc, rec)
	case cqlspec.OpExecute:
		w.onExecute(sc, rec)
	case cqlspec.OpBatch:
		w.onBatch(sc, rec)
	case cqlspec.OpQuery:
		if st := w.byText[rq.Query]; st != nil {
			w.k.Violate("C14", "C14/statement-sent-unprepared", "conn %s: statement %s arrived as a plain QUERY with %d values", sc.C.Name, st.name, len(rq.Params.Values))
		}
		w.cl.SendError(sc, rec, cqlspec.ErrInvalid, "unexpected QUERY", node.Hold)
	default:
		w.cl.SendError(sc, rec, cqlspec.ErrProtocol, "unexpected opcode", node.Hold)
	}
}

func (w *prepWorld) colSpecs(cols []prepCol) []cqlspec.ColSpec {
	var out []cqlspec.ColSpec
	for _, c := range cols {
		out = append(out, cqlspec.ColSpec{Keyspace: w.metaKS, Table: "t", Name: c.name, Type: cqlspec.ColType{ID: c.typ}})
	}
	return out
}

func (w *prepWorld) onPrepare(sc *node.SConn, rec *node.ReqRec) {
	k := w.k
	rq := rec.Req
	st := w.byText[rq.Query]
	if st == nil {
		k.Violate("C14", "C14/unknown-statement-prepared", "conn %s: PREPARE of a statement no caller named: %q", sc.C.Name, rq.Query)
		w.cl.SendError(sc, rec, cqlspec.ErrSyntax, "unknown statement", node.Hold)
		return
	}
	ks := w.effectiveKeyspace(sc, rq.PrepareFlags&0x01 != 0, rq.PrepareKeyspace)
	ns := w.nodes[sc.Host.Addr]
	keyName := sc.Host.Addr + "|" + ks + "|" + st.name
	w.mu.Lock()
	defer w.mu.Unlock()
	key := w.keys[keyName]
	if key == nil {
		// a keyspace or statement the run does not use: foreign by construction
		k.Violate("C14", "C14/foreign-prepared-id", "conn %s (keyspace %q): PREPARE of %s under keyspace %q, which is not the connection's keyspace or not a statement of this run", sc.C.Name, sc.Keyspace, st.name, ks)
		w.cl.SendError(sc, rec, cqlspec.ErrInvalid, "unknown keyspace", node.Hold)
		return
	}
	if k.Settling() {
		w.finalPrepares++
	}
	now := time.Now()
	p := &prepReq{key: key, sc: sc, rec: rec, arrive: now, arriveStep: k.Step(), waiters: map[*prepOp]bool{}, exclusive: true}
	p.winnerStep = w.winnerStep[sc.C.Name]
	w.resolveTimeoutsLocked()
	if w.takeEarlyTimeoutLocked(sc.C.Name, rec.Stream) {
		p.timedOut, p.failed = true, true
		k.Probe("prepare-timed-out-in-the-driver-before-the-node-read-it")
	}
	// a PREPARE of the key whose connection was lost before its answer had been delivered is
	// over (the next scan would say so): this one does not overlap it
	for _, p1 := range key.window {
		if !p1.final && !p1.wasDelivered() && prepConnLost(p1.sc) {
			w.settlePrepLocked(p1, now, 0)
		}
	}
	if w.sameAddr {
		k.Probe("prepare-behind-shared-remote-address")
	}
	w.checkSenderLocked(p, ns)

	// clause (b): one PREPARE per key unless something legitimately forces another
	if w.noEviction {
		for _, p1 := range key.window {
			if reason := w.unhealthy(p1, now); reason == "" {
				state := "still pending"
				if p1.wasDelivered() {
					state = fmt.Sprintf("answered PREPARED with id %s, delivered, not timed out in the driver", p1.id)
				}
				k.Violate("C14", "C14/prepared-more-than-once", "conn %s: second PREPARE of %s at step %d although the PREPARE that arrived at step %d on %s is healthy (%s); cache size %d >= %d keys, no failure, restart or UNPREPARED touched the key in between",
					sc.C.Name, key.name, p.arriveStep, p1.arriveStep, p1.sc.C.Name, state, w.maxPrepared, len(w.keyList))
				break
			}
		}
	}
	for _, p1 := range key.window {
		if !p1.final {
			p1.exclusive = false
			p.exclusive = false
		}
	}
	key.window = append(key.window, p)
	w.preps = append(w.preps, p)

	// probe: more keys with a PREPARE in flight than the cache can hold
	inflight := map[*prepKey]bool{}
	for _, q := range w.preps {
		if !q.final {
			inflight[q.key] = true
		}
	}
	if len(inflight) > w.maxPrepared {
		k.Probe("eviction-while-prepare-in-flight")
	}

	fate := prepFateHold
	if fs := w.fates[key.name]; len(fs) > 0 && !k.Settling() {
		fate = fs[0]
		w.fates[key.name] = fs[1:]
	}
	if !w.faultsOn && fate >= prepFateError {
		fate = prepFateHold
	}
	p.fate = fate
	switch fate {
	case prepFateError:
		code := []int32{cqlspec.ErrSyntax, cqlspec.ErrInvalid, cqlspec.ErrOverloaded}[key.failures%3]
		key.failures++
		k.Fault("prepare.error")
		p.reply = w.cl.SendError(sc, rec, code, fmt.Sprintf("injected-prepare-failure %s %s", st.name, sc.Host.Addr), node.Hold)
		return
	case prepFateDrop:
		key.failures++
		k.Fault("prepare.never-answered")
		p.reply = w.cl.Send(sc, rec, &cqlspec.Response{Op: cqlspec.OpResult, Kind: cqlspec.KindVoid}, node.Drop, "NEVER PREPARE "+st.name)
		return
	}
	// does the statement mean something else this time?
	if len(key.metaPlan) > 0 && !k.Settling() {
		code := key.metaPlan[0]
		key.metaPlan = key.metaPlan[1:]
		if code > 0 && w.faultsOn {
			key.ver = (key.ver + code/2) % prepVersions
			key.epoch++
			k.Fault("prepare.statement-described-differently")
			if code%2 == 1 {
				if w.forgetKeyLocked(ns, key) > 0 {
					k.Probe("prepare-disowns-older-ids")
				}
			} else if w.knownIDsLocked(ns, key) > 0 {
				k.Probe("two-ids-of-one-statement-known")
			}
			k.Rec("meta %s ver=%d epoch=%d forget=%d", key.name, key.ver, key.epoch, code%2)
		}
	}
	id := fmt.Sprintf("%s/%s/%s/g%d", sc.Host.Nonce, ks, st.name, ns.gen)
	if key.epoch > 0 {
		id += fmt.Sprintf("/v%d.%d", key.ver, key.epoch)
	}
	pid := w.issued[id]
	if pid == nil {
		pid = &prepID{id: id, node: sc.Host.Addr, ks: ks, st: st, gen: ns.gen, key: key, ver: key.ver, binds: st.bindsOf(key.ver), result: st.resultOf(key.ver)}
		w.issued[id] = pid
		for _, other := range w.issued {
			if other.st == st && other.ver != pid.ver {
				k.Probe("statement-described-in-two-versions")
				break
			}
		}
	}
	pid.okReplies++
	ns.current[id] = true
	p.id = id
	for g := range key.gens {
		if g < ns.gen {
			k.Probe("reprepare-got-new-id")
			break
		}
	}
	key.gens[ns.gen] = true
	pm := &cqlspec.PreparedMeta{GlobalSpec: true, Columns: w.colSpecs(pid.binds)}
	if rq.Header.Version >= 4 {
		pm.PKIndices = st.pk
	}
	rm := &cqlspec.RowsMeta{}
	if len(pid.result) > 0 {
		rm = &cqlspec.RowsMeta{GlobalSpec: true, Columns: w.colSpecs(pid.result)}
	}
	nf := node.Hold
	if fate == prepFateAuto {
		nf = node.Auto
	}
	p.reply = w.cl.Send(sc, rec, &cqlspec.Response{Op: cqlspec.OpResult, Kind: cqlspec.KindPrepared, PreparedID: []byte(id), Prepared: pm, PreparedRows: rm}, nf, "PREPARED "+id)
	if fate == prepFateAuto {
		p.delivered = true
		p.deliverAt = now
	}
}

// unhealthy says why an earlier PREPARE of a key may legitimately have been followed by
// another one ("" = it may not).
func (w *prepWorld) unhealthy(p *prepReq, now time.Time) string {
	slack := time.Millisecond
	switch {
	case p.fate >= prepFateError:
		return "failed"
	case p.failed:
		return "failed"
	case p.timedOut:
		return "timed out in the driver"
	case p.sc.Dead || p.sc.C.ClientClosed() || p.sc.C.ServerClosed():
		return "connection lost"
	case !p.wasDelivered() && now.Sub(p.arrive) >= w.timeout-slack:
		return "may have timed out"
	}
	return ""
}

// checkSenderLocked is clause (j), node side: single-flight accounting. An operation with one
// statement looks its statement up once (again only after an UNPREPARED answer): as the
// winner of a PREPARE or as a waiter of one. An operation that was running, had sent nothing
// and named the key while an earlier PREPARE of the key was the only one pending has used
// that look-up up, whatever became of that PREPARE; when it fails they are all told, none
// of them prepares again. So a PREPARE needs a possible sender: an operation naming the key
// that is not spent in this sense (one that started later, a batch, one that was told
// UNPREPARED). Only where nothing else makes the driver look a statement up again: the cache
// cannot evict, the node never forgot an id, the earlier PREPARE overlapped no other.
func (w *prepWorld) checkSenderLocked(p *prepReq, ns *prepNodeState) {
	if !w.noEviction || ns.forgets != 0 || prepConnLost(p.sc) {
		return
	}
	key := p.key
	var spentOn *prepReq
	var spent []string
	for _, op := range w.ops {
		if !op.uses(key.host, key.st) || !(op.running || op.done) {
			continue
		}
		if op.done && !op.canceled && op.doneStep < p.arriveStep-1 {
			continue // it returned, and not because its context ended: nothing of it is under way
		}
		var on *prepReq
		if len(op.entries) == 1 && op.unprep == 0 {
			for _, p1 := range w.preps {
				if p1.key == key && p1.final && p1.exclusive && p1.waiters[op] {
					on = p1
					break
				}
			}
		}
		if on == nil {
			return // a possible sender
		}
		spentOn = on
		spent = append(spent, op.id)
	}
	if spentOn == nil {
		// nobody names the key at all: for the id checks to judge (unknown sender)
		return
	}
	sort.Strings(spent)
	how := "failed"
	if spentOn.lost {
		how = "failed because its connection " + spentOn.sc.C.Name + " was lost before the answer arrived"
	}
	w.k.Violate("C14", "C14/prepare-without-a-new-caller", "conn %s: PREPARE of %s at step %d, but every operation that names that statement on that node and is still under way (%s) had already looked it up: they were winner or waiters of the PREPARE that arrived at step %d on %s and %s at step %d (the only PREPARE of the key at the time; cache size %d >= %d keys, the node never forgot an id). A waiter of a failed PREPARE prepared again on its own instead of reporting the failure",
		p.sc.C.Name, key.name, p.arriveStep, strings.Join(spent, ","), spentOn.arriveStep, spentOn.sc.C.Name, how, spentOn.failedStep, w.maxPrepared, len(w.keyList))
}

// resolveTimeoutsLocked attributes the timeout events seen so far to PREPAREs: the request
// that timed out is the last one the connection received on that stream.
func (w *prepWorld) resolveTimeoutsLocked() {
	for _, ev := range w.timeouts {
		matched := false
		for _, p := range w.preps {
			if p.timedOut || p.sc.C.Name != ev.conn || p.rec.Stream != ev.stream || p.rec.Step > ev.step {
				continue
			}
			last := true
			for _, r := range p.sc.Requests {
				if r.Stream == ev.stream && r.Seq > p.rec.Seq && r.Step <= ev.step {
					last = false
					break
				}
			}
			if last {
				p.timedOut = true
				p.failed = true
				matched = true
			}
		}
		if !matched {
			// nothing the node has read on that stream is still owed an answer: the driver
			// gave up before the node has taken the request in (it was written, the clock
			// went on, the node reads it now or later); the event waits for the request
			owed := false
			for _, sc := range w.cl.SConns() {
				if sc.C.Name == ev.conn && sc.Outstanding[ev.stream] != nil {
					owed = true
				}
			}
			if !owed {
				w.earlyTimeouts = append(w.earlyTimeouts, ev)
			}
		}
	}
	w.timeouts = w.timeouts[:0]
}

// takeEarlyTimeoutLocked reports (and forgets) that the driver had already given up on the
// request that arrives now on this connection and stream. A stream id is not used again
// before the answer to the request that timed out on it has arrived, so the first request
// seen on the stream after the event is that request.
func (w *prepWorld) takeEarlyTimeoutLocked(conn string, stream int) bool {
	for i, ev := range w.earlyTimeouts {
		if ev.conn == conn && ev.stream == stream {
			w.earlyTimeouts = append(w.earlyTimeouts[:i], w.earlyTimeouts[i+1:]...)
			return true
		}
	}
	return false
}

// touchKey forgets the PREPAREs seen so far for a key: a restart or an UNPREPARED answer
// legitimately leads to another PREPARE.
func (w *prepWorld) touchKeyLocked(key *prepKey) {
	for _, p := range key.window {
		p.exclusive = false
	}
	key.window = nil
}

// forgetKeyLocked: the node disowns every id it holds for the key (the table was altered,
// the statement was evicted). It returns how many there were.
func (w *prepWorld) forgetKeyLocked(ns *prepNodeState, key *prepKey) int {
	n := 0
	for id := range ns.current {
		if pid := w.issued[id]; pid != nil && pid.key == key {
			delete(ns.current, id)
			n++
		}
	}
	ns.forgets++
	w.touchKeyLocked(key)
	return n
}

func (w *prepWorld) knownIDsLocked(ns *prepNodeState, key *prepKey) int {
	n := 0
	for id := range ns.current {
		if pid := w.issued[id]; pid != nil && pid.key == key {
			n++
		}
	}
	return n
}

// checkIDLocked is clause (a) for one EXECUTE or one prepared BATCH entry. It returns the
// entry the values name (nil if none), the id's record, and whether the node knows the id.
func (w *prepWorld) checkIDLocked(sc *node.SConn, what string, ks string, idb []byte, vals []cqlspec.Value) (*prepEntry, *prepID, bool, bool) {
	k := w.k
	id := string(idb)
	var en *prepEntry
	for _, v := range vals {
		if v.Null || v.Unset {
			continue
		}
		if s := string(v.Bytes); prepTokRe.MatchString(s) {
			if e2 := w.entries[s]; e2 != nil {
				en = e2
				break
			}
		}
	}
	if en != nil && en.op.wrong {
		k.Violate("C14", "C14/wrong-arity-sent", "conn %s: %s carrying %s arrived although operation %s passed a wrong number of values (%s)", sc.C.Name, what, en.tok, en.op.id, en.op.describe())
		return en, nil, false, false
	}
	pid := w.issued[id]
	if pid == nil {
		k.Violate("C14", "C14/foreign-prepared-id", "conn %s: %s with id %q which no node ever issued", sc.C.Name, what, id)
		return en, nil, false, false
	}
	named := "?"
	if en != nil {
		named = en.st.name
	}
	switch {
	case pid.node != sc.Host.Addr:
		k.Violate("C14", "C14/foreign-prepared-id", "conn %s: %s with id %q, which node %s issued, not this node (caller named statement %s)", sc.C.Name, what, id, pid.node, named)
		return en, pid, false, false
	case pid.ks != ks:
		k.Violate("C14", "C14/foreign-prepared-id", "conn %s (keyspace %q): %s with id %q of keyspace %q (caller named statement %s)", sc.C.Name, ks, what, id, pid.ks, named)
		return en, pid, false, false
	case en != nil && pid.st != en.st:
		k.Violate("C14", "C14/foreign-prepared-id", "conn %s: %s for %s, whose caller named statement %s, carries id %q of statement %s", sc.C.Name, what, en.tok, en.st.name, id, pid.st.name)
		return en, pid, false, false
	case en != nil && en.op.host != sc.Host.Addr:
		k.Violate("C14", "C14/misrouted", "conn %s: %s for %s arrived at %s but its caller addressed %s", sc.C.Name, what, en.tok, sc.Host.Addr, en.op.host)
		return en, pid, false, false
	}
	// values must be the statement's: count and types, as the node described them when it
	// handed out THIS id
	bad := ""
	if len(vals) != len(pid.binds) {
		bad = fmt.Sprintf("%d values for %d bind markers", len(vals), len(pid.binds))
	} else {
		for i, c := range pid.binds {
			v := vals[i]
			if v.Null || v.Unset {
				bad = fmt.Sprintf("value %d is null/unset", i)
				break
			}
			var err error
			switch c.typ {
			case cqlspec.TVarchar:
				var s string
				s, err = cqlspec.DecText(v.Bytes)
				if err == nil && i == pid.st.tokIdx && !prepTokRe.MatchString(s) {
					err = fmt.Errorf("text %q is not an operation token", s)
				}
			case cqlspec.TInt:
				_, err = cqlspec.DecInt(v.Bytes)
			case cqlspec.TBigint:
				_, err = cqlspec.DecBigint(v.Bytes)
			}
			if err != nil {
				bad = fmt.Sprintf("value %d (%s): %v", i, c.name, err)
				break
			}
		}
	}
	// clause (h): byte for byte the caller's values in the encoding of the id's bind metadata
	if en != nil && len(vals) == len(pid.binds) && len(en.args) == len(pid.binds) {
		fits := func(binds []prepCol) (int, bool) {
			for i, c := range binds {
				if vals[i].Null || vals[i].Unset || string(vals[i].Bytes) != string(prepEncode(c.typ, en.args[i])) {
					return i, false
				}
			}
			return -1, true
		}
		if i, ok := fits(pid.binds); !ok {
			for ver := 0; ver < prepVersions; ver++ {
				if _, ok2 := fits(pid.st.bindsOf(ver)); ok2 && ver != pid.ver {
					k.Violate("C14", "C14/values-not-for-the-id-sent", "conn %s: %s for %s carries id %q, which the node handed out describing statement %s in version %d (marker %d %s is of type %#x), but the values are encoded for version %d of the statement (value %d has %d bytes): values marshalled with the bind metadata of another PREPARE of the same text",
						sc.C.Name, what, en.tok, id, pid.st.name, pid.ver, i, pid.binds[i].name, pid.binds[i].typ, ver, i, len(vals[i].Bytes))
					return en, pid, false, false
				}
			}
			if bad == "" {
				bad = fmt.Sprintf("value %d (%s) is % x, the caller bound %v", i, pid.binds[i].name, vals[i].Bytes, en.args[i])
			}
		}
	}
	if bad != "" {
		k.Violate("C14", "C14/values-do-not-match-statement", "conn %s: %s with id %q (statement %s, version %d): %s", sc.C.Name, what, id, pid.st.name, pid.ver, bad)
		return en, pid, false, false
	}
	if en == nil {
		k.Violate("C14", "C14/values-do-not-match-statement", "conn %s: %s with id %q carries no token of a registered operation", sc.C.Name, what, id)
		return en, pid, false, false
	}
	// the id must have reached the driver in a PREPARED answer before it can be used
	seen := false
	for _, p := range w.preps {
		if p.id == id && p.wasDelivered() {
			seen = true
			break
		}
	}
	if !seen {
		k.Violate("C14", "C14/executed-with-undelivered-id", "conn %s: %s for %s carries id %q although no PREPARED answer with that id has been delivered yet", sc.C.Name, what, en.tok, id)
		return en, pid, false, false
	}
	// probe: the operation was told that an id of this key is unknown and now comes back
	// with an id whose bind markers / result columns are described differently
	for id0 := range en.op.unprepID {
		pid0 := w.issued[id0]
		if pid0 == nil || pid0.key != pid.key || pid0 == pid {
			continue
		}
		if fmt.Sprint(pid0.binds) != fmt.Sprint(pid.binds) {
			k.Probe("resent-after-unprepared-with-other-bind-types")
		}
		if fmt.Sprint(pid0.result) != fmt.Sprint(pid.result) {
			k.Probe("resent-after-unprepared-with-other-result-columns")
		}
	}
	return en, pid, w.nodes[sc.Host.Addr].current[id], true
}

// noteSendLocked is clause (d): once the node has told an operation that it does not know
// id X, the operation may send X again only as often as PREPARED answers carried X (it may
// have been waiting on such a PREPARE, sent before the node forgot, when it learnt that X
// is stale; the entry that resolved to X is evicted by the next UNPREPARED). More re-sends
// than that mean the driver is not preparing again.
func (w *prepWorld) noteSendLocked(sc *node.SConn, op *prepOp, ids map[string]bool) bool {
	op.frames++
	for id := range ids {
		if op.unprepID[id] == 0 {
			continue
		}
		op.sends[id]++
		if pid := w.issued[id]; pid != nil && op.sends[id] > pid.okReplies {
			w.k.Violate("C14", "C14/unprepared-not-recovered", "conn %s: operation %s (%s) sent id %q %d more times after the node had answered UNPREPARED for it (%d such answers), although only %d PREPARED answer(s) ever carried that id: it is not preparing again",
				sc.C.Name, op.id, op.describe(), id, op.sends[id], op.unprepID[id], pid.okReplies)
			return false
		}
	}
	return true
}

func (w *prepWorld) sendUnprepared(sc *node.SConn, rec *node.ReqRec, op *prepOp, pid *prepID, probe string) {
	w.k.Probe(probe)
	w.k.Fault("reply.unprepared")
	op.unprep++
	op.unprepID[pid.id]++
	if key := w.keys[pid.node+"|"+pid.ks+"|"+pid.st.name]; key != nil {
		w.touchKeyLocked(key)
	}
	w.cl.Send(sc, rec, &cqlspec.Response{Op: cqlspec.OpError, Error: &cqlspec.ErrorBody{Code: cqlspec.ErrUnprepared, Message: "unprepared " + pid.id, UnpreparedID: []byte(pid.id)}}, node.Hold, "UNPREPARED "+op.id)
}

func (w *prepWorld) onExecute(sc *node.SConn, rec *node.ReqRec) {
	rq := rec.Req
	ks := w.effectiveKeyspace(sc, rq.Params.HasKeyspace, rq.Params.Keyspace)
	w.mu.Lock()
	defer w.mu.Unlock()
	en, pid, known, ok := w.checkIDLocked(sc, "EXECUTE", ks, rq.PreparedID, rq.Params.Values)
	if !ok {
		w.cl.SendError(sc, rec, cqlspec.ErrInvalid, "rejected by the oracle", node.Hold)
		return
	}
	op := en.op
	if len(op.entries) != 1 {
		w.k.Violate("C14", "C14/misrouted", "conn %s: EXECUTE for %s, which is an entry of a batch", sc.C.Name, en.tok)
		w.cl.SendError(sc, rec, cqlspec.ErrInvalid, "rejected by the oracle", node.Hold)
		return
	}
	if !w.noteSendLocked(sc, op, map[string]bool{pid.id: true}) {
		w.cl.SendError(sc, rec, cqlspec.ErrInvalid, "rejected by the oracle", node.Hold)
		return
	}
	if !known {
		w.sendUnprepared(sc, rec, op, pid, "unprepared-on-execute")
		return
	}
	op.success = true
	if len(pid.result) == 0 {
		w.cl.Send(sc, rec, &cqlspec.Response{Op: cqlspec.OpResult, Kind: cqlspec.KindVoid}, node.Hold, "VOID "+en.tok)
		return
	}
	// the row as the id's result metadata describes it
	meta := &cqlspec.RowsMeta{GlobalSpec: true, Columns: w.colSpecs(pid.result)}
	if rq.Params.SkipMetadata {
		meta = &cqlspec.RowsMeta{NoMetadata: true, ColumnCount: len(pid.result)}
		if pid.ver != 0 {
			w.k.Probe("row-without-metadata-for-changed-statement")
		}
	}
	var cells []cqlspec.Cell
	var names []string
	var types []int
	var vals []interface{}
	for j, c := range pid.result {
		names = append(names, c.name)
		types = append(types, int(c.typ))
		switch c.typ {
		case cqlspec.TVarchar:
			s := en.tok + "/" + sc.Host.Nonce + "/" + pid.id
			cells = append(cells, cqlspec.Cell{Bytes: cqlspec.EncText(s)})
			vals = append(vals, s)
		case cqlspec.TInt:
			v := en.num*8 + j + 1
			cells = append(cells, cqlspec.Cell{Bytes: cqlspec.EncInt(int32(v))})
			vals = append(vals, v)
		case cqlspec.TBigint:
			v := int64(en.num*8+j+1) * 1000003
			cells = append(cells, cqlspec.Cell{Bytes: cqlspec.EncBigint(v)})
			vals = append(vals, v)
		}
	}
	op.rows = append(op.rows, prepRowText(names, types, vals))
	w.cl.Send(sc, rec, &cqlspec.Response{Op: cqlspec.OpResult, Kind: cqlspec.KindRows, Rows: meta, RowData: [][]cqlspec.Cell{cells}}, node.Hold, "ROWS "+en.tok)
}

func (w *prepWorld) onBatch(sc *node.SConn, rec *node.ReqRec) {
	k := w.k
	rq := rec.Req
	ks := w.effectiveKeyspace(sc, rq.BatchHasKeyspace, rq.BatchKeyspace)
	w.mu.Lock()
	defer w.mu.Unlock()
	reject := func() { w.cl.SendError(sc, rec, cqlspec.ErrInvalid, "rejected by the oracle", node.Hold) }
	var op *prepOp
	var firstUnknown *prepID
	ids := map[string]bool{}
	textEntry := false
	for i, be := range rq.Batch {
		if be.Prepared {
			continue
		}
		if st := w.byText[be.Query]; st != nil {
			k.Violate("C14", "C14/wrong-arity-sent:batch-entry-without-values", "conn %s: BATCH entry %d is statement %s (%d bind markers) sent as plain query text with %d values: a batch entry added without values is never prepared, so its value count is not checked before it is sent",
				sc.C.Name, i, st.name, len(st.binds), len(be.Values))
		} else {
			k.Violate("C14", "C14/unknown-statement-prepared", "conn %s: BATCH entry %d is query text no caller named: %q", sc.C.Name, i, be.Query)
		}
		textEntry = true
	}
	if textEntry {
		w.cl.SendError(sc, rec, cqlspec.ErrInvalid, "bind markers without values", node.Hold)
		return
	}
	for _, be := range rq.Batch {
		en, pid, known, ok := w.checkIDLocked(sc, "BATCH entry", ks, be.ID, be.Values)
		if !ok {
			reject()
			return
		}
		if op == nil {
			op = en.op
		} else if op != en.op {
			k.Violate("C14", "C14/misrouted", "conn %s: one BATCH carries entries of operations %s and %s", sc.C.Name, op.id, en.op.id)
			reject()
			return
		}
		ids[pid.id] = true
		if !known && firstUnknown == nil {
			firstUnknown = pid
		}
	}
	if op == nil {
		w.cl.SendError(sc, rec, cqlspec.ErrInvalid, "empty batch", node.Hold)
		return
	}
	if len(rq.Batch) != len(op.entries) {
		k.Violate("C14", "C14/values-do-not-match-statement", "conn %s: BATCH of %s has %d entries, the caller added %d", sc.C.Name, op.id, len(rq.Batch), len(op.entries))
		reject()
		return
	}
	if !w.noteSendLocked(sc, op, ids) {
		reject()
		return
	}
	if firstUnknown != nil {
		w.sendUnprepared(sc, rec, op, firstUnknown, "unprepared-on-batch")
		return
	}
	op.success = true
	w.cl.Send(sc, rec, &cqlspec.Response{Op: cqlspec.OpResult, Kind: cqlspec.KindVoid}, node.Hold, "VOID "+op.id)
}

// scan runs at every quiescence: it notices deliveries and failures of PREPAREs, keeps the
// waiter sets, and checks the cache size (clause e).
func (w *prepWorld) scan(sess *gocql.Session) {
	k := w.k
	if n := sess.VerifPreparedLen(); n > w.maxPrepared {
		k.Violate("C14", "C14/cache-exceeds-size", "the prepared-statement cache holds %d entries at a quiescence, MaxPreparedStmts = %d", n, w.maxPrepared)
	}
	now := time.Now()
	w.mu.Lock()
	defer w.mu.Unlock()
	w.resolveTimeoutsLocked()
	// pending PREPAREs per key
	pending := map[*prepKey]int{}
	for _, p := range w.preps {
		if !p.final {
			pending[p.key]++
		}
	}
	for _, p := range w.preps {
		if !p.final {
			w.settlePrepLocked(p, now, pending[p.key])
		}
	}
}

func prepConnLost(sc *node.SConn) bool {
	return sc.Dead || sc.C.ClientClosed() || sc.C.ServerClosed()
}

// settlePrepLocked looks at one PREPARE whose outcome is still open: it collects the
// operations that can only be its winner or waiters, or, once the outcome is known, closes
// the book on it (clause c / j bookkeeping, probes). pendingOfKey is the number of PREPAREs of
// its key whose outcome is open.
func (w *prepWorld) settlePrepLocked(p *prepReq, now time.Time, pendingOfKey int) {
	k := w.k
	lost := prepConnLost(p.sc)
	switch {
	case p.wasDelivered():
		if !p.delivered {
			p.delivered = true
			p.deliverAt = now
		}
		p.final = true
		if p.fate == prepFateError {
			p.failed = true
		}
	case lost, p.timedOut:
		p.final, p.failed = true, true
		p.lost = lost
	case now.Sub(p.arrive) >= w.timeout+time.Millisecond:
		// too old to collect further waiters; whether the driver still accepts a late
		// answer is for the timeout hook to say
		p.final = true
		if p.fate >= prepFateError {
			p.failed = true
		}
	}
	// callers on other connections of the node that joined a PREPARE in flight since the
	// driver published the entry this PREPARE belongs to
	if p.winnerStep > 0 && !p.otherConn {
		for _, ev := range w.waitEvents {
			if ev.host == p.key.host && ev.conn != p.sc.C.Name && ev.step >= p.winnerStep {
				p.otherConn = true
				break
			}
		}
	}
	if !p.final {
		// operations that can only be the winner or waiters of this PREPARE
		if pendingOfKey == 1 {
			for _, op := range w.ops {
				if op.running && op.frames == 0 && op.uses(p.key.host, p.key.st) {
					p.waiters[op] = true
				}
			}
		}
		return
	}
	p.failedStep = k.Step()
	nw := len(p.waiters)
	if !p.failed {
		if nw >= 2 {
			k.Probe("concurrent-waiters-on-one-prepare")
		}
		for _, q := range w.preps {
			if q.key == p.key && q.lost && q.arriveStep < p.arriveStep {
				k.Probe("prepared-again-after-connection-loss")
				break
			}
		}
		return
	}
	if nw >= 2 {
		k.Probe("prepare-failed-with-waiters")
	}
	armed := w.noEviction && p.exclusive
	if p.lost {
		k.Probe("prepare-connection-lost")
		parked := false
		for _, pk := range k.ParkedKeys() {
			if strings.HasPrefix(pk, "prep.wait@"+p.key.host+"#") && !strings.HasPrefix(pk, "prep.wait@"+p.sc.C.Name+"/") {
				parked = true
			}
		}
		if nw >= 2 {
			k.Probe("prepare-connection-lost-with-waiters")
			if p.otherConn {
				k.Probe("prepare-connection-lost-with-waiter-on-other-connection")
				if w.resetConns[p.sc.C.Name] {
					k.Probe("prepare-connection-reset-with-waiter-on-other-connection")
				}
				if parked {
					k.Probe("prepare-connection-lost-with-waiter-parked-at-prep.wait")
				}
				if armed && w.nodes[p.key.host].forgets == 0 {
					k.Probe("prepare-connection-lost-with-waiter-on-other-connection:judged")
				}
			}
		}
	}
	// clauses (c) and (j): only when nothing else could have given those operations an id
	if armed && ((p.fate >= prepFateError && !lost) || p.lost) {
		for op := range p.waiters {
			if len(op.entries) == 1 {
				op.failedOn = append(op.failedOn, p)
			}
		}
	}
}

// faultActions: node restart, and closing a connection that owes a PREPARE answer.
func (w *prepWorld) faultActions() []kernel.Action {
	k := w.k
	var acts []kernel.Action
	w.mu.Lock()
	defer w.mu.Unlock()
	if !w.faultsOn {
		return nil
	}
	if w.restarts < w.maxRestarts {
		var addrs []string
		for a := range w.nodes {
			addrs = append(addrs, a)
		}
		sort.Strings(addrs)
		for _, a := range addrs {
			ns := w.nodes[a]
			if len(ns.current) == 0 {
				continue
			}
			acts = append(acts, kernel.Action{Key: "restart:" + a, Rank: 5, Weight: 2, Do: func() {
				w.mu.Lock()
				defer w.mu.Unlock()
				k.Fault("node.restart-forgets-prepared")
				w.restarts++
				ns.gen++
				ns.forgets++
				ns.current = map[string]bool{}
				for _, key := range w.keyList {
					if key.host == ns.host.Addr {
						w.touchKeyLocked(key)
					}
				}
				k.Rec("restart %s gen=%d", ns.host.Addr, ns.gen)
			}})
		}
	}
	if w.allowMeta && w.alters < w.maxAlters {
		// the node forgets the ids of ONE statement: its table was altered (the next PREPARE
		// describes it in another version) or the statement was evicted (same description);
		// either way the next PREPARE hands out a different id
		for _, key := range w.keyList {
			key := key
			ns := w.nodes[key.host]
			if w.knownIDsLocked(ns, key) == 0 {
				continue
			}
			acts = append(acts, kernel.Action{Key: "alter:" + key.name, Rank: 5, Weight: 2, Do: func() {
				d := k.Tape.Next(prepVersions) // 0 = evicted, described as before
				w.mu.Lock()
				defer w.mu.Unlock()
				w.alters++
				key.ver = (key.ver + d) % prepVersions
				key.epoch++
				n := w.forgetKeyLocked(ns, key)
				if d == 0 {
					k.Fault("node.statement-evicted")
				} else {
					k.Fault("node.statement-altered")
				}
				k.Rec("alter %s ver=%d epoch=%d forgot=%d", key.name, key.ver, key.epoch, n)
			}})
		}
	}
	if w.allowCancel {
		for _, op := range w.ops {
			if !op.running || op.canceled || op.cancel == nil {
				continue
			}
			op := op
			acts = append(acts, kernel.Action{Key: "cancel:" + op.id, Rank: 5, Weight: 1, Do: func() {
				w.mu.Lock()
				op.canceled = true
				c := op.cancel
				w.mu.Unlock()
				k.Fault("client.cancel")
				c()
			}})
		}
	}
	seen := map[*node.SConn]bool{}
	for _, p := range w.preps {
		if !w.allowClose {
			break
		}
		if p.final || p.delivered || seen[p.sc] || p.sc.Dead || p.sc.C.ClientClosed() {
			continue
		}
		seen[p.sc] = true
		sc := p.sc
		// an eager node (closeBias, 0 = as before) closes sooner; the most eager one waits
		// until the PREPARE is shared by several callers
		weight := 1
		switch w.closeBias {
		case 1:
			weight = 3
		case 2:
			if len(p.waiters) >= 2 {
				weight = 8
			}
		}
		acts = append(acts, kernel.Action{Key: "srvclose:" + sc.C.Name, Rank: 6, Weight: weight, Do: func() {
			// how the connection goes away: FIN (the driver reads EOF) or RST
			reset := k.Tape.Next(2) == 1
			w.mu.Lock()
			w.closes++
			if reset {
				w.resetConns[sc.C.Name] = true
			}
			w.mu.Unlock()
			if reset {
				k.Fault("conn.reset-with-prepare-outstanding")
			} else {
				k.Fault("conn.closed-with-prepare-outstanding")
			}
			w.cl.CloseConn(sc, reset)
		}})
	}
	return acts
}

// finalPhase: with faults off and every earlier call returned, each key is executed once
// more. A failure that is replayed from the cache (no request reaches any node, and the
// error is not about missing connections) is clause (c) "failed PREPARE remembered".
func (w *prepWorld) finalPhase(sess *gocql.Session, serve func()) {
	k := w.k
	type fin struct {
		op      *prepOp
		elapsed time.Duration
	}
	var fins []*fin
	w.mu.Lock()
	for i, key := range w.keyList {
		op := &prepOp{id: fmt.Sprintf("ptok-99-%d", i), kind: prepKindQuery, host: key.host, sends: map[string]int{}, unprepID: map[string]int{}}
		tok := op.id + "-0"
		en := &prepEntry{op: op, tok: tok, num: 9900 + i, st: key.st, args: key.st.args(tok, 9900+i)}
		op.entries = []*prepEntry{en}
		w.entries[tok] = en
		w.ops = append(w.ops, op)
		fins = append(fins, &fin{op: op})
	}
	w.mu.Unlock()
	done := make(chan struct{})
	go func() {
		defer close(done)
		defer func() {
			if r := recover(); r != nil {
				k.Violate("C14", "C14/panic-in-caller", "final execution panicked inside the driver: %v", r)
			}
		}()
		for _, f := range fins {
			t0 := time.Now()
			w.perform(sess, f.op)
			f.elapsed = time.Since(t0)
		}
	}()
	bound := time.Duration(len(fins))*(2*w.timeout+time.Second) + 5*time.Second
	ok := k.SettleUntil(bound, 5*time.Millisecond, serve, func() bool {
		select {
		case <-done:
			return true
		default:
			return false
		}
	})
	if !ok {
		k.Violate("C14", "C14/caller-never-returned", "a fault-free execution after the run did not return within %v simulated: %v", bound, DriverGoroutines())
		return
	}
	for i, f := range fins {
		if k.Violation() != nil {
			return
		}
		op := f.op
		key := w.keyList[i]
		w.checkOutcome(op)
		if op.err == nil {
			continue
		}
		cls := ErrClass(op.err)
		w.mu.Lock()
		frames := op.frames
		prepsDuring := 0
		for _, p := range w.preps {
			if p.key == key && !p.arrive.Before(op.t0) {
				prepsDuring++
			}
		}
		hadFailure := key.failures > 0
		w.mu.Unlock()
		if prepNetworkClass(cls) {
			k.Probe("final-op-no-connection")
			continue
		}
		if frames == 0 && prepsDuring == 0 && (cls != "timeout" || f.elapsed < time.Millisecond) {
			k.Violate("C14", "C14/failed-prepare-cached", "after faults stopped and every call had returned, executing %s again failed after %v with %q although neither a PREPARE nor an EXECUTE for it reached any node (key had %v earlier PREPARE failure(s)): a failed PREPARE is being served from the cache",
				key.name, f.elapsed, op.err.Error(), hadFailure)
			return
		}
	}
}

// endChecks: probes and counters that need the whole run.
func (w *prepWorld) endChecks() {
	w.mu.Lock()
	defer w.mu.Unlock()
	perKey := map[*prepKey]int{}
	for _, p := range w.preps {
		perKey[p.key]++
	}
	total := 0
	for _, n := range perKey {
		total += n
	}
	w.e.Note("prepares", total)
	if w.noEviction {
		w.k.Probe("runs-asserting-single-prepare")
	}
}
