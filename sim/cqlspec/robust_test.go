package cqlspec

import (
	"encoding/binary"
	"math/rand"
	"testing"
)

// seedFrames are valid request frames used as mutation seeds.
func seedFrames(t testing.TB) [][]byte {
	return [][]byte{
		hx(t, "02 00 01 01 00000016 0001 000b 'CQL_VERSION' 0005 '3.0.0'"),
		hx(t, "04 00 0000 05 00000000"),
		hx(t, "04 00 0002 0f 00000004 ffffffff"),
		hx(t, "04 00 0003 0b 00000031 0003 000f 'TOPOLOGY_CHANGE' 000d 'STATUS_CHANGE' 000d 'SCHEMA_CHANGE'"),
		hx(t, "02 02 04 07 00000030 0000000f 'SELECT * FROM t' 0001 1d 0002 00000004 0000002a ffffffff 00000064 00000002 abcd 0008"),
		hx(t, "04 00 0004 07 0000002f 0000000f 'SELECT * FROM t' 0006 63 0002 0001 'a' 00000001 07 0001 'b' fffffffe 0000000000000539"),
		hx(t, "04 04 0004 07 00000020 0001 0001 'k' 00000001 ff 0000000f 'SELECT * FROM t' 0001 00"),
		hx(t, "05 10 0004 07 00000029 0000000f 'SELECT * FROM t' 000a 000000a4 00001388 0000000000000539 0002 'ks'"),
		hx(t, "05 10 0005 09 0000001b 0000000f 'SELECT * FROM t' 00000001 0002 'ks'"),
		hx(t, "04 00 0006 0a 00000027 0010 "+id16+" 0001 27 0001 fffffffe 00000064 0000000000000001"),
		hx(t, "01 00 06 0a 0000000d 0002 abcd 0001 00000001 01 0001"),
		hx(t, "04 00 0007 0d 0000001d 01 0001 00 00000002 'Q1' 0001 fffffffe 0006 30 0009 0000000000000001"),
		hx(t, "05 10 0007 0d 0000001b 02 0001 01 0001 aa 0000 000a 000000a0 0000000000000002 0002 'ks'"),
		hx(t, "04 01 0009 07 00000018 16 54 0000000f 'SELECT * FROM t' 0001 00"),
	}
}

// fixLength rewrites the header length field so mutated frames get past the header
// check and exercise the body decoders.
func fixLength(f []byte) {
	if len(f) == 0 {
		return
	}
	if hs := HeaderSize(f[0]); len(f) >= hs {
		binary.BigEndian.PutUint32(f[hs-4:], uint32(len(f)-hs))
	}
}

// TestNoPanics feeds random and mutated input to every decoder; they must return
// (possibly nil) errors, never panic, and never allocate unboundedly.
func TestNoPanics(t *testing.T) {
	rnd := rand.New(rand.NewSource(42))
	decomps := []Decompressor{nil, SnappyDecode, CassandraLZ4Decode}
	seeds := seedFrames(t)
	accepted := 0
	try := func(f []byte) {
		for _, d := range decomps {
			if req, err := DecodeRequest(f, d); err == nil {
				accepted++
				if req == nil {
					t.Fatalf("nil request without error for % x", f)
				}
			}
		}
	}
	for i := 0; i < 60000; i++ {
		var f []byte
		switch i % 4 {
		case 0: // pure noise
			f = make([]byte, rnd.Intn(64))
			rnd.Read(f)
		case 1: // noise behind a plausible header
			f = make([]byte, 9+rnd.Intn(64))
			rnd.Read(f)
			f[0] = byte(1 + rnd.Intn(5))
			f[1] = []byte{0, 0, 1, 2, 4, 0x10, 0x11}[rnd.Intn(7)]
			if f[0] == 5 {
				f[1] |= FlagBeta
			}
			f[2] &= 0x7f
			f[HeaderSize(f[0])-5] = []byte{1, 5, 7, 9, 10, 11, 13, 15}[rnd.Intn(8)]
			fixLength(f)
		case 2: // seed with a few corrupted bytes
			f = append([]byte{}, seeds[rnd.Intn(len(seeds))]...)
			for n := 1 + rnd.Intn(3); n > 0; n-- {
				f[rnd.Intn(len(f))] = byte(rnd.Intn(256))
			}
			if rnd.Intn(2) == 0 {
				fixLength(f)
			}
		case 3: // truncated or extended seed
			f = append([]byte{}, seeds[rnd.Intn(len(seeds))]...)
			if rnd.Intn(2) == 0 {
				f = f[:rnd.Intn(len(f)+1)]
			} else {
				f = append(f, byte(rnd.Intn(256)))
			}
			fixLength(f)
		}
		try(f)
		FrameLen(f)
		ParseHeader(f)
		SnappyDecode(f)
		LZ4BlockDecode(f, rnd.Intn(256))
		CassandraLZ4Decode(f)
		for v := 1; v <= 5; v++ {
			DecList(v, f)
			DecMap(v, f)
		}
		DecTuple(f, rnd.Intn(5)-1)
	}
	// every strict prefix and every one-byte extension of a valid frame must be rejected
	for _, s := range seeds {
		if _, err := DecodeRequest(s, SnappyDecode); err != nil {
			t.Errorf("seed rejected: %v", err)
		}
		for n := 0; n < len(s); n++ {
			f := append([]byte{}, s[:n]...)
			fixLength(f)
			if _, err := DecodeRequest(f, SnappyDecode); err == nil {
				t.Errorf("prefix of %d bytes accepted: % x", n, f)
			}
		}
		f := append(append([]byte{}, s...), 0)
		fixLength(f)
		if _, err := DecodeRequest(f, SnappyDecode); err == nil {
			t.Errorf("frame with an extra byte accepted: % x", f)
		}
	}
	t.Logf("mutated frames still accepted: %d", accepted)
}

func FuzzDecodeRequest(f *testing.F) {
	for _, s := range seedFrames(f) {
		f.Add(s)
	}
	f.Fuzz(func(t *testing.T, b []byte) {
		DecodeRequest(b, nil)
		DecodeRequest(b, SnappyDecode)
		DecodeRequest(b, CassandraLZ4Decode)
	})
}

func FuzzDecompressors(f *testing.F) {
	f.Add([]byte{0x0c, 0x0c, 'a', 'b', 'c', 'd', 0x11, 0x04}, 12)
	f.Add([]byte{0x44, 'a', 'b', 'c', 'd', 4, 0, 0x50, 'v', 'w', 'x', 'y', 'z'}, 17)
	f.Fuzz(func(t *testing.T, b []byte, n int) {
		SnappyDecode(b)
		LZ4BlockDecode(b, n)
		CassandraLZ4Decode(b)
	})
}
