package scen

import (
	"bytes"
	"fmt"
	"math"
	"math/rand"
	"net"
	"reflect"
	"sort"
	"strings"
	"time"

	"github.com/gocql/gocql"
	"github.com/gocql/gocql/verifsim/cqlspec"
	"github.com/gocql/gocql/verifsim/kernel"
)

// Logical CQL types and values for the wire scenarios: a type tree, a generator of
// (Go value the driver should hand to the application, bytes per the reference codec),
// and comparisons against the driver's public view. The byte encodings come from
// cqlspec's reference encoders; value encodings themselves are not the property under
// test here (C12 is not claimed) — the cells only have to come back as what was sent.

type wType struct {
	ID     uint16
	Elems  []wType
	Fields []string // UDT field names
	Custom string
}

func (t wType) col() cqlspec.ColType {
	c := cqlspec.ColType{ID: t.ID, Custom: t.Custom}
	for _, e := range t.Elems {
		c.Elems = append(c.Elems, e.col())
	}
	if t.ID == cqlspec.TUDT {
		c.UDTKeyspace, c.UDTName, c.UDTFields = "ks", "udt_"+fmt.Sprint(len(t.Fields)), t.Fields
	}
	return c
}

func (t wType) String() string {
	switch t.ID {
	case cqlspec.TList:
		return "list<" + t.Elems[0].String() + ">"
	case cqlspec.TSet:
		return "set<" + t.Elems[0].String() + ">"
	case cqlspec.TMap:
		return "map<" + t.Elems[0].String() + "," + t.Elems[1].String() + ">"
	case cqlspec.TTuple, cqlspec.TUDT:
		var parts []string
		for _, e := range t.Elems {
			parts = append(parts, e.String())
		}
		n := "tuple"
		if t.ID == cqlspec.TUDT {
			n = "udt"
		}
		return n + "<" + strings.Join(parts, ",") + ">"
	case cqlspec.TCustom:
		return "custom(" + t.Custom + ")"
	}
	return fmt.Sprintf("t%#x", t.ID)
}

var scalarIDs = []uint16{cqlspec.TInt, cqlspec.TVarchar, cqlspec.TBigint, cqlspec.TBlob, cqlspec.TBoolean, cqlspec.TDouble,
	cqlspec.TFloat, cqlspec.TUUID, cqlspec.TTimestamp, cqlspec.TInet, cqlspec.TAscii, cqlspec.TSmallint, cqlspec.TTinyint}

// extraScalars adds the types whose Go values the wire scenario does not compare (date,
// time, decimal, varint, counter, timeuuid, duration): the byzantine scenario only needs
// their bytes to reach the decoders.
var extraScalars = false

// genShortUDT allows UDT values that end before the type does (cells of responses only: the
// driver itself always writes every field); shortUDTs counts them.
var genShortUDT = false
var shortUDTs = 0

// genValueDepth is the nesting depth of the value being generated (root goroutine only).
var genValueDepth = 0

var extraScalarIDs = []uint16{cqlspec.TDate, cqlspec.TTime, cqlspec.TDecimal, cqlspec.TVarint, cqlspec.TCounter, cqlspec.TTimeUUID, cqlspec.TDuration}

func genScalar(tp *kernel.Tape, proto int) wType {
	n := len(scalarIDs)
	if proto < 4 {
		n -= 2 // smallint / tinyint exist from v4
	}
	if extraScalars && proto >= 4 && tp.Chance(1, 3) {
		// (duration is a protocol 5 type id; the byzantine node, the only user of this list,
		// describes columns with it on protocol 4 as well)
		return wType{ID: extraScalarIDs[tp.Next(len(extraScalarIDs))]}
	}
	return wType{ID: scalarIDs[tp.Next(n)]}
}

// genCellType draws a type whose cells the scenarios can compare: scalars, collections of
// scalars (and one more level), tuples and UDTs of scalars/collections at the top level.
func genCellType(tp *kernel.Tape, proto int, top bool) wType {
	if extraScalars && top && tp.Chance(1, 20) {
		// byzantine scenario only: a custom type whose class is the bare name of a
		// parameterised marshal class (no server describes a column like this)
		return wType{ID: cqlspec.TCustom, Custom: "org.apache.cassandra.db.marshal." +
			[]string{"TupleType", "ListType", "SetType", "MapType", "UserType", "ReversedType", "FrozenType"}[tp.Next(7)]}
	}
	k := tp.Weighted([]int{10, 2, 2, 2, 1, 1})
	if proto < 3 && k >= 4 {
		k = 0 // tuples and UDTs exist from v3
	}
	switch k {
	case 1:
		return wType{ID: cqlspec.TList, Elems: []wType{genInner(tp, proto, top)}}
	case 2:
		return wType{ID: cqlspec.TSet, Elems: []wType{genScalarKey(tp)}}
	case 3:
		return wType{ID: cqlspec.TMap, Elems: []wType{genScalarKey(tp), genInner(tp, proto, top)}}
	case 4:
		if !top {
			return genScalar(tp, proto)
		}
		n := 1 + tp.Next(3)
		t := wType{ID: cqlspec.TTuple}
		for i := 0; i < n; i++ {
			t.Elems = append(t.Elems, genScalar(tp, proto))
		}
		return t
	case 5:
		if !top {
			return genScalar(tp, proto)
		}
		n := 1 + tp.Next(3)
		t := wType{ID: cqlspec.TUDT}
		for i := 0; i < n; i++ {
			t.Fields = append(t.Fields, fmt.Sprintf("f%d", i))
			if tp.Chance(1, 4) {
				t.Elems = append(t.Elems, wType{ID: cqlspec.TList, Elems: []wType{genScalar(tp, proto)}})
			} else {
				t.Elems = append(t.Elems, genScalar(tp, proto))
			}
		}
		return t
	}
	return genScalar(tp, proto)
}

func genScalarKey(tp *kernel.Tape) wType {
	return wType{ID: []uint16{cqlspec.TVarchar, cqlspec.TInt, cqlspec.TBigint}[tp.Next(3)]}
}

func genInner(tp *kernel.Tape, proto int, top bool) wType {
	if top && tp.Chance(1, 4) {
		return wType{ID: cqlspec.TList, Elems: []wType{genScalar(tp, proto)}}
	}
	return genScalar(tp, proto)
}

// genMetaType draws an arbitrarily nested type (depth <= 3) for metadata-only checks.
func genMetaType(tp *kernel.Tape, proto, depth int) wType {
	if depth <= 0 {
		return genScalar(tp, proto)
	}
	k := tp.Weighted([]int{4, 2, 2, 2, 2, 2, 1})
	if proto < 3 && k >= 4 && k <= 5 {
		k = 1
	}
	switch k {
	case 1:
		return wType{ID: cqlspec.TList, Elems: []wType{genMetaType(tp, proto, depth-1)}}
	case 2:
		return wType{ID: cqlspec.TSet, Elems: []wType{genMetaType(tp, proto, depth-1)}}
	case 3:
		return wType{ID: cqlspec.TMap, Elems: []wType{genMetaType(tp, proto, depth-1), genMetaType(tp, proto, depth-1)}}
	case 4:
		n := 1 + tp.Next(3)
		t := wType{ID: cqlspec.TTuple}
		for i := 0; i < n; i++ {
			t.Elems = append(t.Elems, genMetaType(tp, proto, depth-1))
		}
		return t
	case 5:
		n := 1 + tp.Next(3)
		t := wType{ID: cqlspec.TUDT}
		for i := 0; i < n; i++ {
			t.Fields = append(t.Fields, fmt.Sprintf("f%d", i))
			t.Elems = append(t.Elems, genMetaType(tp, proto, depth-1))
		}
		return t
	case 6:
		if extraScalars && tp.Chance(1, 3) {
			// byzantine scenario only: a custom type whose class is the bare name of a
			// parameterised marshal class (no server describes a column like this)
			return wType{ID: cqlspec.TCustom, Custom: "org.apache.cassandra.db.marshal." +
				[]string{"TupleType", "ListType", "SetType", "MapType", "UserType", "ReversedType", "FrozenType"}[tp.Next(7)]}
		}
		return wType{ID: cqlspec.TCustom, Custom: "com.example.Custom" + fmt.Sprint(tp.Next(3))}
	}
	return genScalar(tp, proto)
}

// genValue draws a value of t: the Go value in the driver's default mapping (what
// SliceMap / MapScan / RowData deliver) and its reference encoding.
func genValue(tp *kernel.Tape, t wType, proto int) (interface{}, []byte) {
	switch t.ID {
	case cqlspec.TInt:
		v := []int32{0, 1, -1, 42, math.MaxInt32, math.MinInt32, 65536}[tp.Next(7)]
		return int(v), cqlspec.EncInt(v)
	case cqlspec.TBigint:
		v := []int64{0, 1, -1, 1 << 40, math.MaxInt64, math.MinInt64}[tp.Next(6)]
		return v, cqlspec.EncBigint(v)
	case cqlspec.TSmallint:
		v := []int16{0, 1, -1, math.MaxInt16, math.MinInt16}[tp.Next(5)]
		return v, cqlspec.EncSmallint(v)
	case cqlspec.TTinyint:
		v := []int8{0, 1, -1, math.MaxInt8, math.MinInt8}[tp.Next(5)]
		return v, cqlspec.EncTinyint(v)
	case cqlspec.TVarchar, cqlspec.TAscii:
		v := []string{"a", "", "hello world", "x\x00y", strings.Repeat("z", 300), "tok"}[tp.Next(6)]
		if t.ID == cqlspec.TVarchar && tp.Chance(1, 6) {
			v = "héllo 世界"
		}
		return v, cqlspec.EncText(v)
	case cqlspec.TBlob:
		v := [][]byte{{1, 2, 3}, {}, {0}, bytes.Repeat([]byte{0xff}, 70)}[tp.Next(4)]
		if tp.Chance(1, 16) {
			// long and very repetitive: compresses at several hundred to one
			n := []int{4096, 20000, 60000}[tp.Next(3)]
			if proto < 3 {
				n = 4096 // collection elements are limited to 64 KiB before protocol 3
			}
			v = bytes.Repeat([]byte{0}, n)
		} else if tp.Chance(1, 12) {
			// noise: no codec makes it smaller (encrypted, already compressed data)
			n := []int{700, 100, 5000, 70000, 513}[tp.Next(5)]
			if proto < 3 && n > 40000 {
				n = 40000 // collection elements are limited to 64 KiB before protocol 3
			}
			if proto < 3 && genValueDepth > 1 && n > 4096 {
				n = 4096 // (the enclosing collection is itself an element)
			}
			r := rand.New(rand.NewSource(int64(tp.Next(1 << 30))))
			v = make([]byte, n)
			r.Read(v)
		}
		return v, append([]byte{}, v...)
	case cqlspec.TBoolean:
		v := tp.Next(2) == 1
		return v, cqlspec.EncBool(v)
	case cqlspec.TDouble:
		v := []float64{0, 1.5, -2.25, math.MaxFloat64, math.SmallestNonzeroFloat64}[tp.Next(5)]
		return v, cqlspec.EncDouble(v)
	case cqlspec.TFloat:
		v := []float32{0, 1.5, -2.25, math.MaxFloat32}[tp.Next(4)]
		return v, cqlspec.EncFloat(v)
	case cqlspec.TUUID:
		var u gocql.UUID
		b := byte(tp.Next(200))
		for i := range u {
			u[i] = b + byte(i)
		}
		u[6] = (u[6] & 0x0f) | 0x40
		u[8] = (u[8] & 0x3f) | 0x80
		return u, append([]byte{}, u[:]...)
	case cqlspec.TTimestamp:
		ms := []int64{0, 1, 946684800000, 1700000000123, -1000}[tp.Next(5)]
		return time.Unix(0, ms*int64(time.Millisecond)).UTC(), cqlspec.EncTimestamp(ms)
	case cqlspec.TInet:
		ips := []string{"10.1.2.3", "::1", "255.255.255.255", "fe80::1:2"}
		s := ips[tp.Next(len(ips))]
		ip := net.ParseIP(s)
		raw := []byte(ip.To16())
		if v4 := ip.To4(); v4 != nil {
			raw = []byte(v4)
		}
		return ip.String(), cqlspec.EncInet(raw)
	case cqlspec.TDate:
		return nil, [][]byte{{0x80, 0, 0, 0}, {0x80, 0, 0x40, 0}, {0, 0, 0, 0}}[tp.Next(3)]
	case cqlspec.TTime, cqlspec.TCounter:
		return nil, cqlspec.EncBigint([]int64{0, 1, 86399999999999}[tp.Next(3)])
	case cqlspec.TDecimal:
		return nil, [][]byte{{0, 0, 0, 2, 0x30, 0x39}, {0, 0, 0, 0, 0}, {0xff, 0xff, 0xff, 0xff, 0x80}}[tp.Next(3)]
	case cqlspec.TVarint:
		return nil, [][]byte{{0}, {0x7f}, {0x80, 0, 0}, {1, 2, 3, 4, 5, 6, 7, 8, 9}}[tp.Next(4)]
	case cqlspec.TTimeUUID:
		b := make([]byte, 16)
		b[6], b[8] = 0x10, 0x80
		return nil, b
	case cqlspec.TDuration:
		if tp.Chance(1, 2) {
			return nil, [][]byte{{0, 0, 0}, {2, 4, 6}, {0xc1, 0x00, 0x02, 0x04}}[tp.Next(3)]
		}
		// three vints (months, days, nanoseconds) of 1 to 9 bytes each: the number of
		// leading one bits of the first byte says how many bytes follow it
		var b []byte
		for i := 0; i < 3; i++ {
			extra := []int{0, 1, 2, 3, 8, 7, 4}[tp.Next(7)]
			first := byte(0xff) << uint(8-extra)
			if extra < 7 {
				first |= byte(tp.Next(1 << uint(7-extra)))
			}
			b = append(b, first)
			for j := 0; j < extra; j++ {
				b = append(b, byte(tp.Next(256)))
			}
		}
		return nil, b
	case cqlspec.TList, cqlspec.TSet:
		n := tp.Next(4)
		et := t.Elems[0]
		if proto < 3 && t.ID == cqlspec.TList && genValueDepth == 0 && !extraScalars && tp.Chance(1, 30) {
			// protocol 1 and 2 count elements and their bytes in an unsigned [short]: a list of
			// more than 32767 elements (repeats of one value; top-level values of scenario wire
			// only: as an element of another collection it would not fit)
			n = []int{32768, 33000, 40000}[tp.Next(3)]
			v, b := genValue(tp, et, proto)
			if len(b) <= 8 {
				gt := goTypeOf(et)
				sl := reflect.MakeSlice(reflect.SliceOf(gt), 0, n)
				cells := make([]cqlspec.Cell, n)
				for i := 0; i < n; i++ {
					sl = reflect.Append(sl, valueOr(v, gt))
					cells[i] = cqlspec.Cell{Bytes: b}
				}
				return sl.Interface(), cqlspec.EncList(proto, cells)
			}
			n = 1
		}
		genValueDepth++
		defer func() { genValueDepth-- }()
		gt := goTypeOf(et)
		sl := reflect.MakeSlice(reflect.SliceOf(gt), 0, n)
		var cells []cqlspec.Cell
		seen := map[string]bool{}
		for i := 0; i < n; i++ {
			v, b := genValue(tp, et, proto)
			if t.ID == cqlspec.TSet {
				if seen[string(b)] {
					continue
				}
				seen[string(b)] = true
			}
			sl = reflect.Append(sl, valueOr(v, gt))
			cells = append(cells, cqlspec.Cell{Bytes: b})
		}
		return sl.Interface(), cqlspec.EncList(proto, cells)
	case cqlspec.TMap:
		n := tp.Next(4)
		kt, vt := t.Elems[0], t.Elems[1]
		genValueDepth++
		defer func() { genValueDepth-- }()
		m := reflect.MakeMap(reflect.MapOf(goTypeOf(kt), goTypeOf(vt)))
		var cells []cqlspec.Cell
		seen := map[string]bool{}
		for i := 0; i < n; i++ {
			kv, kb := genValue(tp, kt, proto)
			if seen[string(kb)] {
				continue
			}
			seen[string(kb)] = true
			vv, vb := genValue(tp, vt, proto)
			m.SetMapIndex(reflect.ValueOf(kv), valueOr(vv, goTypeOf(vt)))
			cells = append(cells, cqlspec.Cell{Bytes: kb}, cqlspec.Cell{Bytes: vb})
		}
		return m.Interface(), cqlspec.EncMap(proto, cells)
	case cqlspec.TTuple:
		var vals []interface{}
		var cells []cqlspec.Cell
		for _, et := range t.Elems {
			v, b := genValue(tp, et, proto)
			vals = append(vals, v)
			cells = append(cells, cqlspec.Cell{Bytes: b})
		}
		return vals, cqlspec.EncTuple(cells)
	case cqlspec.TUDT:
		m := map[string]interface{}{}
		var cells []cqlspec.Cell
		elems := t.Elems
		if genShortUDT && len(elems) >= 2 && tp.Chance(1, 5) {
			// a value written before the type was extended (ALTER TYPE ... ADD): it ends after
			// the fields the type had then, the fields added since are null
			elems = elems[:1+tp.Next(len(elems)-1)]
			shortUDTs++
		}
		for i, et := range elems {
			v, b := genValue(tp, et, proto)
			m[t.Fields[i]] = v
			cells = append(cells, cqlspec.Cell{Bytes: b})
		}
		return m, cqlspec.EncTuple(cells)
	case cqlspec.TCustom:
		b := make([]byte, tp.Next(9))
		for i := range b {
			b[i] = byte(tp.Next(256))
		}
		return b, b
	}
	panic("genValue: unsupported type " + t.String())
}

// goTypeOf is the harness's own statement of the driver's documented default mapping.
func goTypeOf(t wType) reflect.Type {
	switch t.ID {
	case cqlspec.TInt:
		return reflect.TypeOf(int(0))
	case cqlspec.TBigint:
		return reflect.TypeOf(int64(0))
	case cqlspec.TSmallint:
		return reflect.TypeOf(int16(0))
	case cqlspec.TTinyint:
		return reflect.TypeOf(int8(0))
	case cqlspec.TVarchar, cqlspec.TAscii, cqlspec.TInet:
		return reflect.TypeOf("")
	case cqlspec.TBlob:
		return reflect.TypeOf([]byte(nil))
	case cqlspec.TBoolean:
		return reflect.TypeOf(false)
	case cqlspec.TDouble:
		return reflect.TypeOf(float64(0))
	case cqlspec.TFloat:
		return reflect.TypeOf(float32(0))
	case cqlspec.TUUID:
		return reflect.TypeOf(gocql.UUID{})
	case cqlspec.TTimestamp:
		return reflect.TypeOf(time.Time{})
	case cqlspec.TList, cqlspec.TSet:
		return reflect.SliceOf(goTypeOf(t.Elems[0]))
	case cqlspec.TMap:
		return reflect.MapOf(goTypeOf(t.Elems[0]), goTypeOf(t.Elems[1]))
	case cqlspec.TUDT:
		return reflect.TypeOf(map[string]interface{}{})
	case cqlspec.TDate, cqlspec.TTime, cqlspec.TDecimal, cqlspec.TVarint, cqlspec.TCounter, cqlspec.TTimeUUID, cqlspec.TDuration:
		// values of these are never compared (byzantine scenario only)
		return reflect.TypeOf((*interface{})(nil)).Elem()
	}
	panic("goTypeOf: " + t.String())
}

// zeroOf is what the driver's map-based consumers deliver for a null cell.
func zeroOf(t wType) interface{} { return reflect.Zero(goTypeOf(t)).Interface() }

// sameValue compares the value the driver delivered with the expected one; empty and nil
// slices/maps are the same, times compare as instants, floats bit for bit.
func sameValue(got, want interface{}) bool {
	if wt, ok := want.(time.Time); ok {
		gt, ok := got.(time.Time)
		return ok && gt.Equal(wt)
	}
	gv, wv := reflect.ValueOf(got), reflect.ValueOf(want)
	if !gv.IsValid() || !wv.IsValid() {
		return !gv.IsValid() && !wv.IsValid()
	}
	if gv.Type() != wv.Type() {
		return false
	}
	switch wv.Kind() {
	case reflect.Slice:
		if gv.Len() != wv.Len() {
			return false
		}
		for i := 0; i < wv.Len(); i++ {
			if !sameValue(gv.Index(i).Interface(), wv.Index(i).Interface()) {
				return false
			}
		}
		return true
	case reflect.Map:
		if _, udt := want.(map[string]interface{}); udt && gv.Len() > wv.Len() {
			// a UDT value shorter than its type: the fields it does not have are null, which
			// a map may express by leaving them out or by their zero values
			for _, k := range gv.MapKeys() {
				if wv.MapIndex(k).IsValid() {
					continue
				}
				if x := gv.MapIndex(k).Elem(); x.IsValid() && !x.IsZero() && !((x.Kind() == reflect.Slice || x.Kind() == reflect.Map) && x.Len() == 0) {
					return false
				}
			}
		} else if gv.Len() != wv.Len() {
			return false
		}
		for _, k := range wv.MapKeys() {
			g := gv.MapIndex(k)
			if !g.IsValid() || !sameValue(g.Interface(), wv.MapIndex(k).Interface()) {
				return false
			}
		}
		return true
	case reflect.Float32, reflect.Float64:
		return math.Float64bits(gv.Float()) == math.Float64bits(wv.Float())
	}
	return reflect.DeepEqual(got, want)
}

// sameSet compares two slices as sets (the order of a CQL set on the wire is the server's).
func sameSet(got, want interface{}) bool {
	gv, wv := reflect.ValueOf(got), reflect.ValueOf(want)
	if gv.Kind() != reflect.Slice || wv.Kind() != reflect.Slice || gv.Len() != wv.Len() {
		return false
	}
	key := func(v reflect.Value) []string {
		var out []string
		for i := 0; i < v.Len(); i++ {
			out = append(out, fmt.Sprintf("%#v", v.Index(i).Interface()))
		}
		sort.Strings(out)
		return out
	}
	return reflect.DeepEqual(key(gv), key(wv))
}

// sameTypeInfo compares the driver's TypeInfo with the logical type, recursively.
func sameTypeInfo(ti gocql.TypeInfo, t wType) string {
	if ti == nil {
		return "nil TypeInfo"
	}
	want := gocql.Type(t.ID)
	if t.ID == cqlspec.TCustom {
		if ti.Type() != gocql.TypeCustom || ti.Custom() != t.Custom {
			return fmt.Sprintf("custom type: got %v %q want custom %q", ti.Type(), ti.Custom(), t.Custom)
		}
		return ""
	}
	if ti.Type() != want {
		return fmt.Sprintf("type id: got %v want %v (%s)", ti.Type(), want, t)
	}
	switch t.ID {
	case cqlspec.TList, cqlspec.TSet:
		c, ok := ti.(gocql.CollectionType)
		if !ok {
			return fmt.Sprintf("%s: TypeInfo is %T, not CollectionType", t, ti)
		}
		return sameTypeInfo(c.Elem, t.Elems[0])
	case cqlspec.TMap:
		c, ok := ti.(gocql.CollectionType)
		if !ok {
			return fmt.Sprintf("%s: TypeInfo is %T, not CollectionType", t, ti)
		}
		if d := sameTypeInfo(c.Key, t.Elems[0]); d != "" {
			return "map key: " + d
		}
		return sameTypeInfo(c.Elem, t.Elems[1])
	case cqlspec.TTuple:
		c, ok := ti.(gocql.TupleTypeInfo)
		if !ok {
			return fmt.Sprintf("%s: TypeInfo is %T, not TupleTypeInfo", t, ti)
		}
		if len(c.Elems) != len(t.Elems) {
			return fmt.Sprintf("tuple arity: got %d want %d", len(c.Elems), len(t.Elems))
		}
		for i := range t.Elems {
			if d := sameTypeInfo(c.Elems[i], t.Elems[i]); d != "" {
				return fmt.Sprintf("tuple[%d]: %s", i, d)
			}
		}
	case cqlspec.TUDT:
		c, ok := ti.(gocql.UDTTypeInfo)
		if !ok {
			return fmt.Sprintf("%s: TypeInfo is %T, not UDTTypeInfo", t, ti)
		}
		ct := t.col()
		if c.KeySpace != ct.UDTKeyspace || c.Name != ct.UDTName || len(c.Elements) != len(t.Elems) {
			return fmt.Sprintf("udt: got %s.%s/%d want %s.%s/%d", c.KeySpace, c.Name, len(c.Elements), ct.UDTKeyspace, ct.UDTName, len(t.Elems))
		}
		for i := range t.Elems {
			if c.Elements[i].Name != t.Fields[i] {
				return fmt.Sprintf("udt field %d name: got %q want %q", i, c.Elements[i].Name, t.Fields[i])
			}
			if d := sameTypeInfo(c.Elements[i].Type, t.Elems[i]); d != "" {
				return fmt.Sprintf("udt.%s: %s", t.Fields[i], d)
			}
		}
	}
	return ""
}

func valueOr(v interface{}, t reflect.Type) reflect.Value {
	if v == nil {
		return reflect.Zero(t)
	}
	return reflect.ValueOf(v)
}
