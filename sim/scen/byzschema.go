package scen

import (
	"regexp"
	"strings"

	"github.com/gocql/gocql/verifsim/cqlspec"
	"github.com/gocql/gocql/verifsim/kernel"
)

// Schema-table answers for the byzantine scenario: the driver asks system_schema.* with
// prepared statements on the control connection (Session.KeyspaceMetadata); the node
// answers rows whose type strings, replication maps and names are drawn from a menu of
// well-formed and garbage values, so that the schema type-string parsers see both.

var schemaSelectRe = regexp.MustCompile(`(?s)SELECT\s+(.*?)\s+FROM\s+(system_schema\.\w+|system\.schema_\w+)`)

func tText() cqlspec.ColType { return cqlspec.ColType{ID: cqlspec.TVarchar} }

var schemaColTypes = map[string]cqlspec.ColType{
	"durable_writes": {ID: cqlspec.TBoolean}, "called_on_null_input": {ID: cqlspec.TBoolean}, "include_all_columns": {ID: cqlspec.TBoolean},
	"replication": {ID: cqlspec.TMap, Elems: []cqlspec.ColType{tText(), tText()}},
	"caching":     {ID: cqlspec.TMap, Elems: []cqlspec.ColType{tText(), tText()}},
	"compaction":  {ID: cqlspec.TMap, Elems: []cqlspec.ColType{tText(), tText()}},
	"compression": {ID: cqlspec.TMap, Elems: []cqlspec.ColType{tText(), tText()}},
	"extensions":  {ID: cqlspec.TMap, Elems: []cqlspec.ColType{tText(), {ID: cqlspec.TBlob}}},
	"field_names": {ID: cqlspec.TList, Elems: []cqlspec.ColType{tText()}}, "field_types": {ID: cqlspec.TList, Elems: []cqlspec.ColType{tText()}},
	"argument_types": {ID: cqlspec.TList, Elems: []cqlspec.ColType{tText()}}, "argument_names": {ID: cqlspec.TList, Elems: []cqlspec.ColType{tText()}},
	"component_index": {ID: cqlspec.TInt}, "position": {ID: cqlspec.TInt}, "default_time_to_live": {ID: cqlspec.TInt}, "gc_grace_seconds": {ID: cqlspec.TInt},
	"max_index_interval": {ID: cqlspec.TInt}, "memtable_flush_period_in_ms": {ID: cqlspec.TInt}, "min_index_interval": {ID: cqlspec.TInt},
	"bloom_filter_fp_chance": {ID: cqlspec.TDouble}, "crc_check_chance": {ID: cqlspec.TDouble}, "dclocal_read_repair_chance": {ID: cqlspec.TDouble},
	"read_repair_chance": {ID: cqlspec.TDouble}, "base_table_id": {ID: cqlspec.TUUID}, "id": {ID: cqlspec.TUUID},
}

// schemaColumns parses the select list of a system_schema statement.
func schemaColumns(stmt string) (table string, cols []cqlspec.ColSpec, ok bool) {
	m := schemaSelectRe.FindStringSubmatch(stmt)
	if m == nil {
		return "", nil, false
	}
	table = m[2]
	for _, c := range strings.Split(m[1], ",") {
		name := strings.TrimSpace(c)
		if name == "" || name == "*" {
			return "", nil, false
		}
		t, known := schemaColTypes[name]
		if !known {
			t = tText()
		}
		cols = append(cols, cqlspec.ColSpec{Keyspace: "system_schema", Table: strings.TrimPrefix(strings.TrimPrefix(table, "system_schema."), "system."), Name: name, Type: t})
	}
	return table, cols, true
}

var typeStrings = []string{"int", "text", "frozen<map<text, list<int>>>", "list<frozen<tuple<int, text>>>", "map<text, frozen<set<uuid>>>",
	"frozen<myudt>", "tuple<int,int,text>", "org.apache.cassandra.db.marshal.Int32Type",
	"org.apache.cassandra.db.marshal.MapType(org.apache.cassandra.db.marshal.UTF8Type,org.apache.cassandra.db.marshal.Int32Type)",
	// garbage
	"", "<", "map<", "map<int>", "frozen<<>>", "list<list<list<list<list<list<list<list<int>>>>>>>>", "tuple<>", "map<,>", ">>>>", "frozen",
	"org.apache.cassandra.db.marshal.MapType(", "org.apache.cassandra.db.marshal.ReversedType(org.apache.cassandra.db.marshal.", "\x00\xff", "set<map<int,>>",
	"'quoted'", "map<text, int", "list<int>>", "org.apache.cassandra.db.marshal.CompositeType()", "org.apache.cassandra.db.marshal.ListType(,)"}

// validators and comparators of the tables before Cassandra 3.0
var marshalStrings = []string{
	"org.apache.cassandra.db.marshal.UTF8Type", "org.apache.cassandra.db.marshal.Int32Type",
	"org.apache.cassandra.db.marshal.ReversedType(org.apache.cassandra.db.marshal.TimeUUIDType)",
	"org.apache.cassandra.db.marshal.CompositeType(org.apache.cassandra.db.marshal.UTF8Type,org.apache.cassandra.db.marshal.Int32Type)",
	"org.apache.cassandra.db.marshal.CompositeType(org.apache.cassandra.db.marshal.Int32Type,org.apache.cassandra.db.marshal.UTF8Type)",
	"org.apache.cassandra.db.marshal.CompositeType(org.apache.cassandra.db.marshal.UTF8Type,org.apache.cassandra.db.marshal.ColumnToCollectionType(6162:org.apache.cassandra.db.marshal.ListType(org.apache.cassandra.db.marshal.Int32Type)))",
	"org.apache.cassandra.db.marshal.MapType(org.apache.cassandra.db.marshal.UTF8Type,org.apache.cassandra.db.marshal.Int32Type)",
	"org.apache.cassandra.db.marshal.UserType(ks,6d79756474,6669656c64:org.apache.cassandra.db.marshal.Int32Type)",
	"org.apache.cassandra.db.marshal.TupleType(org.apache.cassandra.db.marshal.Int32Type,org.apache.cassandra.db.marshal.UTF8Type)",
	"org.apache.cassandra.db.marshal.FrozenType(org.apache.cassandra.db.marshal.ListType(org.apache.cassandra.db.marshal.Int32Type))",
	// garbage
	"", "org.apache.cassandra.db.marshal.CompositeType(org.apache.cassandra.db.marshal.ColumnToCollectionType(6162:org.apache.cassandra.db.marshal.ListType(org.apache.cassandra.db.marshal.Int32Type)))",
	"org.apache.cassandra.db.marshal.CompositeType()", "org.apache.cassandra.db.marshal.CompositeType(", "org.apache.cassandra.db.marshal.ReversedType()",
	"org.apache.cassandra.db.marshal.ColumnToCollectionType()", "org.apache.cassandra.db.marshal.ColumnToCollectionType(zz:org.apache.cassandra.db.marshal.ListType)",
	"org.apache.cassandra.db.marshal.CompositeType(org.apache.cassandra.db.marshal.ReversedType())", "(", ")", ",", "a(b(c(d(e(f(g(h))))))))", "org.apache.cassandra.db.marshal.MapType(org.apache.cassandra.db.marshal.UTF8Type)",
	"org.apache.cassandra.db.marshal.UserType()", "org.apache.cassandra.db.marshal.UserType(ks)", "org.apache.cassandra.db.marshal.TupleType()", "org.apache.cassandra.db.marshal.ListType()",
	"org.apache.cassandra.db.marshal.CompositeType(org.apache.cassandra.db.marshal.UTF8Type,org.apache.cassandra.db.marshal.UTF8Type,org.apache.cassandra.db.marshal.UTF8Type)", "\x00(",
	// class names that merely begin like a parameterised class
	"org.apache.cassandra.db.marshal.ListTypeV2", "org.apache.cassandra.db.marshal.MapType2(org.apache.cassandra.db.marshal.UTF8Type)", "org.apache.cassandra.db.marshal.CompositeTypeX",
	"org.apache.cassandra.db.marshal.CompositeType(org.apache.cassandra.db.marshal.UTF8Type,org.apache.cassandra.db.marshal.ColumnToCollectionTypeX(org.apache.cassandra.db.marshal.Int32Type))",
	"org.apache.cassandra.db.marshal.SetTypeX()", "org.apache.cassandra.db.marshal.TupleTypes", "org.apache.cassandra.db.marshal.UserTypeX(ks)", "org.apache.cassandra.db.marshal.ReversedType2", "org.apache.cassandra.db.marshal.FrozenTypeX(a)"}

var jsonStrings = []string{`[]`, `["k"]`, `["a","b"]`, `["a","b","c","d"]`, `{}`, `{"replication_factor":"1"}`, `{"dc1":"3","dc2":"x"}`, `null`, ``, `[`, `{"a":1}`, `[1,2]`, `"s"`, `[null]`, `{"a":{"b":[]}}`}

func schemaCell(tp *kernel.Tape, proto int, spec cqlspec.ColSpec, row int) cqlspec.Cell {
	if tp.Chance(1, 12) {
		return cqlspec.Cell{Null: true}
	}
	legacyTable := strings.HasPrefix(spec.Table, "schema_")
	str := func() string {
		switch {
		case legacyTable && (strings.Contains(spec.Name, "validator") || spec.Name == "comparator"):
			return marshalStrings[tp.Next(len(marshalStrings))]
		case legacyTable && (strings.HasSuffix(spec.Name, "_aliases") || strings.HasSuffix(spec.Name, "_options")):
			return jsonStrings[tp.Next(len(jsonStrings))]
		case legacyTable && spec.Name == "type":
			return []string{"partition_key", "clustering_key", "regular", "compact_value", "static", "bogus", ""}[tp.Next(7)]
		case legacyTable && spec.Name == "strategy_class":
			return []string{"org.apache.cassandra.locator.SimpleStrategy", "org.apache.cassandra.locator.NetworkTopologyStrategy", "SimpleStrategy", "", "Bogus"}[tp.Next(5)]
		case legacyTable && strings.Contains(spec.Name, "type") && tp.Chance(1, 2):
			return marshalStrings[tp.Next(len(marshalStrings))]
		case spec.Name == "columnfamily_name":
			return []string{"t1", "t2", ""}[tp.Next(3)]
		case strings.Contains(spec.Name, "type") || spec.Name == "initcond":
			return typeStrings[tp.Next(len(typeStrings))]
		case spec.Name == "kind":
			return []string{"partition_key", "clustering", "regular", "static", "bogus", ""}[tp.Next(6)]
		case spec.Name == "clustering_order":
			return []string{"none", "asc", "desc", "sideways"}[tp.Next(4)]
		case spec.Name == "table_name" || spec.Name == "view_name" || spec.Name == "base_table_name":
			return []string{"t1", "t2", ""}[tp.Next(3)]
		}
		return []string{"x", "", "name" + string(rune('a'+row))}[tp.Next(3)]
	}
	if spec.Type.ID == cqlspec.TVarchar && (strings.Contains(spec.Name, "type") || strings.Contains(spec.Name, "validator") || spec.Name == "comparator") && tp.Chance(1, 150) {
		// a type description nested as deeply as a frame has room for
		n := []int{300, 20000, 3000000}[tp.Next(3)]
		open, close, leaf := "list<", ">", "int"
		switch tp.Next(4) {
		case 1:
			open = "frozen<map<int, "
			close = ">>"
			if n > 100000 {
				n = 100000 // (16 bytes per level: the deepest ones are drawn with the short openers)
			}
		case 2:
			open, close, leaf = "org.apache.cassandra.db.marshal.ListType(", ")", "org.apache.cassandra.db.marshal.Int32Type"
			if n > 50000 {
				n = 50000 // (42 bytes per level)
			}
		case 3:
			open, close, leaf = "a(", ")", "b"
		}
		return cqlspec.Cell{Bytes: cqlspec.EncText(strings.Repeat(open, n) + leaf + strings.Repeat(close, n))}
	}
	switch spec.Type.ID {
	case cqlspec.TBoolean:
		return cqlspec.Cell{Bytes: cqlspec.EncBool(tp.Next(2) == 1)}
	case cqlspec.TInt:
		return cqlspec.Cell{Bytes: cqlspec.EncInt([]int32{0, 1, -1, 5, 1 << 30, 2, -1 << 31}[tp.Next(7)])}
	case cqlspec.TDouble:
		return cqlspec.Cell{Bytes: cqlspec.EncDouble(0.1)}
	case cqlspec.TUUID:
		return cqlspec.Cell{Bytes: make([]byte, 16)}
	case cqlspec.TList:
		var cells []cqlspec.Cell
		for i := tp.Next(4); i > 0; i-- {
			cells = append(cells, cqlspec.Cell{Bytes: cqlspec.EncText(str())})
		}
		return cqlspec.Cell{Bytes: cqlspec.EncList(proto, cells)}
	case cqlspec.TMap:
		var cells []cqlspec.Cell
		if spec.Name == "replication" {
			cls := []string{"org.apache.cassandra.locator.SimpleStrategy", "org.apache.cassandra.locator.NetworkTopologyStrategy", "SimpleStrategy", "", "Bogus"}[tp.Next(5)]
			cells = append(cells, cqlspec.Cell{Bytes: cqlspec.EncText("class")}, cqlspec.Cell{Bytes: cqlspec.EncText(cls)})
			for i := tp.Next(3); i > 0; i-- {
				k := []string{"replication_factor", "dc1", "dc2", ""}[tp.Next(4)]
				v := []string{"1", "3", "", "x", "-1", "99999999999999999999", "2000000000", "9223372036854775807", "65536"}[tp.Next(9)]
				cells = append(cells, cqlspec.Cell{Bytes: cqlspec.EncText(k)}, cqlspec.Cell{Bytes: cqlspec.EncText(v)})
			}
		} else {
			for i := tp.Next(3); i > 0; i-- {
				v := cqlspec.EncText(str())
				cells = append(cells, cqlspec.Cell{Bytes: cqlspec.EncText("k" + string(rune('0'+i)))}, cqlspec.Cell{Bytes: v})
			}
		}
		return cqlspec.Cell{Bytes: cqlspec.EncMap(proto, cells)}
	}
	return cqlspec.Cell{Bytes: cqlspec.EncText(str())}
}
