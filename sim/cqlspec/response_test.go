package cqlspec

import (
	"bytes"
	"testing"
)

func encodes(t *testing.T, name string, r *Response, want string) {
	t.Helper()
	got, err := EncodeResponse(r)
	if err != nil {
		t.Errorf("%s: %v", name, err)
		return
	}
	if w := hx(t, want); !bytes.Equal(got, w) {
		t.Errorf("%s:\n got  % x\n want % x", name, got, w)
	}
}

func TestEncodeSimpleResponses(t *testing.T) {
	encodes(t, "ready v4", &Response{Version: 4, Stream: 1, Op: OpReady}, "84 00 0001 02 00000000")
	encodes(t, "ready v2", &Response{Version: 2, Stream: 5, Op: OpReady}, "82 00 05 02 00000000")
	encodes(t, "ready v1", &Response{Version: 1, Stream: 127, Op: OpReady}, "81 00 7f 02 00000000")
	encodes(t, "ready v5 beta", &Response{Version: 5, Stream: 0x0102, Op: OpReady, ExtraFlags: FlagBeta}, "85 10 0102 02 00000000")
	encodes(t, "authenticate v3", &Response{Version: 3, Op: OpAuthenticate, AuthClass: "org.apache.cassandra.auth.PasswordAuthenticator"},
		"83 00 0000 03 00000031 | 002f 'org.apache.cassandra.auth.PasswordAuthenticator'")
	encodes(t, "auth_success null", &Response{Version: 4, Stream: 2, Op: OpAuthSuccess, AuthNull: true}, "84 00 0002 10 00000004 ffffffff")
	encodes(t, "auth_success empty", &Response{Version: 4, Stream: 2, Op: OpAuthSuccess}, "84 00 0002 10 00000004 00000000")
	encodes(t, "auth_challenge v2", &Response{Version: 2, Stream: 2, Op: OpAuthChallenge, AuthToken: []byte{0xca, 0xfe}}, "82 00 02 0e 00000006 00000002 cafe")
	encodes(t, "supported", &Response{Version: 4, Op: OpSupported,
		Supported: map[string][]string{"CQL_VERSION": {"3.0.0"}, "COMPRESSION": {"snappy", "lz4"}}},
		"84 00 0000 06 00000034 | 0002 000b 'COMPRESSION' 0002 0006 'snappy' 0003 'lz4' 000b 'CQL_VERSION' 0001 0005 '3.0.0'")
}

func TestEncodeErrors(t *testing.T) {
	e := func(v int, b ErrorBody) *Response {
		b.Message = "msg"
		return &Response{Version: v, Stream: 3, Op: OpError, Error: &b}
	}
	encodes(t, "syntax", e(4, ErrorBody{Code: ErrSyntax}), "84 00 0003 00 00000009 | 00002000 0003 'msg'")
	encodes(t, "cdc", e(4, ErrorBody{Code: ErrCDCWriteFailure, Consistency: 1, WriteType: "x"}), "84 00 0003 00 00000009 | 00001600 0003 'msg'")
	encodes(t, "unavailable", e(4, ErrorBody{Code: ErrUnavailable, Consistency: ConsQuorum, Required: 3, Alive: 1}),
		"84 00 0003 00 00000013 | 00001000 0003 'msg' 0004 00000003 00000001")
	encodes(t, "write timeout", e(3, ErrorBody{Code: ErrWriteTimeout, Consistency: ConsOne, Received: 0, BlockFor: 1, WriteType: "SIMPLE"}),
		"83 00 0003 00 0000001b | 00001100 0003 'msg' 0001 00000000 00000001 0006 'SIMPLE'")
	encodes(t, "read timeout v2", e(2, ErrorBody{Code: ErrReadTimeout, Consistency: ConsOne, Received: 1, BlockFor: 2, DataPresent: 1}),
		"82 00 03 00 00000014 | 00001200 0003 'msg' 0001 00000001 00000002 01")
	encodes(t, "read failure v4", e(4, ErrorBody{Code: ErrReadFailure, Consistency: ConsOne, BlockFor: 1, NumFailures: 1,
		ReasonMap: []FailureReason{{IP: []byte{1, 2, 3, 4}}}}),
		"84 00 0003 00 00000018 | 00001300 0003 'msg' 0001 00000000 00000001 00000001 00")
	encodes(t, "read failure v5", e(5, ErrorBody{Code: ErrReadFailure, Consistency: ConsOne, BlockFor: 1, NumFailures: 9, DataPresent: 1,
		ReasonMap: []FailureReason{{IP: []byte{10, 0, 0, 1}, Code: 1}, {IP: bytes.Repeat([]byte{0xfe}, 16), Code: 2}}}),
		"85 00 0003 00 00000032 | 00001300 0003 'msg' 0001 00000000 00000001 00000002 04 0a000001 0001 10 fefefefefefefefefefefefefefefefe 0002 01")
	encodes(t, "write failure v5", e(5, ErrorBody{Code: ErrWriteFailure, Consistency: ConsOne, BlockFor: 1,
		ReasonMap: []FailureReason{{IP: []byte{10, 0, 0, 1}, Code: 2}}, WriteType: "SIMPLE"}),
		"85 00 0003 00 00000026 | 00001500 0003 'msg' 0001 00000000 00000001 00000001 04 0a000001 0002 0006 'SIMPLE'")
	encodes(t, "write failure v4", e(4, ErrorBody{Code: ErrWriteFailure, Consistency: ConsOne, BlockFor: 1, NumFailures: 2, WriteType: "CAS"}),
		"84 00 0003 00 0000001c | 00001500 0003 'msg' 0001 00000000 00000001 00000002 0003 'CAS'")
	encodes(t, "function failure", e(4, ErrorBody{Code: ErrFunctionFailure, Keyspace: "ks", Function: "f", ArgTypes: []string{"int"}}),
		"84 00 0003 00 00000017 | 00001400 0003 'msg' 0002 'ks' 0001 'f' 0001 0003 'int'")
	encodes(t, "cas write unknown", e(5, ErrorBody{Code: ErrCASWriteUnknown, Consistency: ConsSerial, Received: 1, BlockFor: 2}),
		"85 00 0003 00 00000013 | 00001700 0003 'msg' 0008 00000001 00000002")
	encodes(t, "already exists", e(4, ErrorBody{Code: ErrAlreadyExists, Keyspace: "ks", Table: "t"}),
		"84 00 0003 00 00000010 | 00002400 0003 'msg' 0002 'ks' 0001 't'")
	encodes(t, "unprepared", e(4, ErrorBody{Code: ErrUnprepared, UnpreparedID: []byte{0xab, 0xcd}}),
		"84 00 0003 00 0000000d | 00002500 0003 'msg' 0002 abcd")
}

func TestEncodeResults(t *testing.T) {
	uuid := hx(t, id16)
	encodes(t, "void", &Response{Version: 4, Stream: 1, Op: OpResult, Kind: KindVoid}, "84 00 0001 08 00000004 00000001")
	encodes(t, "void + tracing + warnings + payload",
		&Response{Version: 4, Stream: 1, Op: OpResult, Kind: KindVoid, TracingID: uuid, Warnings: []string{"w"},
			CustomPayload: map[string][]byte{"b": nil, "a": {1}}},
		"84 0e 0001 08 0000002a | "+id16+" | 0001 0001 'w' | 0002 0001 'a' 00000001 01 0001 'b' ffffffff | 00000001")
	encodes(t, "set_keyspace", &Response{Version: 3, Op: OpResult, Kind: KindSetKeyspace, Keyspace: "ks"},
		"83 00 0000 08 00000008 | 00000003 0002 'ks'")

	cols := []ColSpec{
		{Keyspace: "ks", Table: "t", Name: "a", Type: ColType{ID: TInt}},
		{Keyspace: "ks", Table: "t", Name: "b", Type: ColType{ID: TList, Elems: []ColType{{ID: TVarchar}}}},
	}
	row := [][]Cell{{{Bytes: EncInt(42)}, {Null: true}}}
	encodes(t, "rows global", &Response{Version: 4, Stream: 1, Op: OpResult, Kind: KindRows,
		Rows: &RowsMeta{GlobalSpec: true, Columns: cols}, RowData: row},
		`84 00 0001 08 0000002f | 00000002 | 00000001 00000002 | 0002 'ks' 0001 't' | 0001 'a' 0009 | 0001 'b' 0020 000d |
		 00000001 | 00000004 0000002a ffffffff`)
	encodes(t, "rows per-column spec", &Response{Version: 2, Stream: 1, Op: OpResult, Kind: KindRows,
		Rows: &RowsMeta{Columns: cols[:1]}, RowData: [][]Cell{{{Bytes: []byte{}}}, {{Bytes: []byte{1}}}}},
		`82 00 01 08 00000025 | 00000002 | 00000000 00000001 | 0002 'ks' 0001 't' 0001 'a' 0009 | 00000002 | 00000000 | 00000001 01`)
	encodes(t, "rows no_metadata + paging", &Response{Version: 2, Stream: 1, Op: OpResult, Kind: KindRows,
		Rows: &RowsMeta{HasMorePages: true, PagingState: []byte{0xab, 0xcd}, NoMetadata: true, ColumnCount: 3, Columns: cols}},
		"82 00 01 08 00000016 | 00000002 | 00000006 00000003 00000002 abcd | 00000000")

	pm := &PreparedMeta{GlobalSpec: true, Columns: cols[:1], PKIndices: []uint16{0}}
	encodes(t, "prepared v4", &Response{Version: 4, Stream: 1, Op: OpResult, Kind: KindPrepared, PreparedID: []byte{0xab, 0xcd}, Prepared: pm},
		`84 00 0001 08 0000002a | 00000004 0002 abcd | 00000001 00000001 00000001 0000 0002 'ks' 0001 't' 0001 'a' 0009 | 00000004 00000000`)
	encodes(t, "prepared v3 with result metadata", &Response{Version: 3, Stream: 1, Op: OpResult, Kind: KindPrepared, PreparedID: []byte{0xab, 0xcd},
		Prepared: &PreparedMeta{Columns: cols[:1]}, PreparedRows: &RowsMeta{GlobalSpec: true, Columns: cols[:1]}},
		`83 00 0001 08 00000030 | 00000004 0002 abcd | 00000000 00000001 0002 'ks' 0001 't' 0001 'a' 0009 |
		 00000001 00000001 0002 'ks' 0001 't' 0001 'a' 0009`)
	encodes(t, "prepared v1", &Response{Version: 1, Stream: 1, Op: OpResult, Kind: KindPrepared, PreparedID: []byte{0xab, 0xcd},
		Prepared: &PreparedMeta{Columns: cols[:1]}},
		`81 00 01 08 0000001c | 00000004 0002 abcd | 00000000 00000001 0002 'ks' 0001 't' 0001 'a' 0009`)

	encodes(t, "schema_change v4 function", &Response{Version: 4, Op: OpResult, Kind: KindSchemaChange,
		Schema: &SchemaChange{Change: "CREATED", Target: "FUNCTION", Keyspace: "ks", Name: "f", Args: []string{"int"}}},
		"84 00 0000 08 00000025 | 00000005 0007 'CREATED' 0008 'FUNCTION' 0002 'ks' 0001 'f' 0001 0003 'int'")
	encodes(t, "schema_change v3 keyspace", &Response{Version: 3, Op: OpResult, Kind: KindSchemaChange,
		Schema: &SchemaChange{Change: "DROPPED", Target: "KEYSPACE", Keyspace: "ks", Name: "ignored"}},
		"83 00 0000 08 0000001b | 00000005 0007 'DROPPED' 0008 'KEYSPACE' 0002 'ks'")
	encodes(t, "schema_change v2 table", &Response{Version: 2, Op: OpResult, Kind: KindSchemaChange,
		Schema: &SchemaChange{Change: "DROPPED", Target: "TABLE", Keyspace: "ks", Name: "t"}},
		"82 00 00 08 00000014 | 00000005 0007 'DROPPED' 0002 'ks' 0001 't'")
	encodes(t, "schema_change v2 keyspace", &Response{Version: 2, Op: OpResult, Kind: KindSchemaChange,
		Schema: &SchemaChange{Change: "CREATED", Target: "KEYSPACE", Keyspace: "ks"}},
		"82 00 00 08 00000013 | 00000005 0007 'CREATED' 0002 'ks' 0000")
}

func TestEncodeEvents(t *testing.T) {
	encodes(t, "status v4", &Response{Version: 4, Stream: -1, Op: OpEvent, EventType: "STATUS_CHANGE", EventChange: "UP",
		EventIP: []byte{127, 0, 0, 1}, EventPort: 9042},
		"84 00 ffff 0c 0000001c | 000d 'STATUS_CHANGE' 0002 'UP' 04 7f000001 00002352")
	encodes(t, "topology v2 ipv6", &Response{Version: 2, Stream: -1, Op: OpEvent, EventType: "TOPOLOGY_CHANGE", EventChange: "NEW_NODE",
		EventIP: hx(t, id16), EventPort: 9042},
		"82 00 ff 0c 00000030 | 000f 'TOPOLOGY_CHANGE' 0008 'NEW_NODE' 10 "+id16+" 00002352")
	encodes(t, "schema v3 table", &Response{Version: 3, Stream: -1, Op: OpEvent, EventType: "SCHEMA_CHANGE",
		Schema: &SchemaChange{Change: "UPDATED", Target: "TABLE", Keyspace: "ks", Name: "t"}},
		"83 00 ffff 0c 00000026 | 000d 'SCHEMA_CHANGE' 0007 'UPDATED' 0005 'TABLE' 0002 'ks' 0001 't'")
}

func TestEncodeCompressedResponse(t *testing.T) {
	r := &Response{Version: 4, Stream: 1, Op: OpResult, Kind: KindSetKeyspace, Keyspace: "ks", Compress: SnappyEncodeLiteral}
	// body 00000003 0002 'ks' (8 bytes) -> preamble 08, literal tag (8-1)<<2 = 1c
	encodes(t, "snappy", r, "84 01 0001 08 0000000a | 08 1c 00000003 0002 'ks'")
	r.Compress = CassandraLZ4EncodeLiteral
	encodes(t, "lz4", r, "84 01 0001 08 0000000d | 00000008 80 00000003 0002 'ks'")
}

func TestOptionEncoding(t *testing.T) {
	opt := func(c ColType) []byte {
		w := &W{}
		w.Option(c)
		if w.Err != nil {
			t.Fatal(w.Err)
		}
		return w.B
	}
	eq(t, "custom", opt(ColType{ID: TCustom, Custom: "a.B"}), hx(t, "0000 0003 'a.B'"))
	eq(t, "map<int,set<text>>", opt(ColType{ID: TMap, Elems: []ColType{{ID: TInt}, {ID: TSet, Elems: []ColType{{ID: TVarchar}}}}}),
		hx(t, "0021 0009 0022 000d"))
	eq(t, "tuple<int,bigint>", opt(ColType{ID: TTuple, Elems: []ColType{{ID: TInt}, {ID: TBigint}}}), hx(t, "0031 0002 0009 0002"))
	eq(t, "udt", opt(ColType{ID: TUDT, UDTKeyspace: "ks", UDTName: "u", UDTFields: []string{"f", "g"},
		Elems: []ColType{{ID: TInt}, {ID: TList, Elems: []ColType{{ID: TBoolean}}}}}),
		hx(t, "0030 0002 'ks' 0001 'u' 0002 0001 'f' 0009 0001 'g' 0020 0004"))
	for _, bad := range []ColType{{ID: TList}, {ID: TMap, Elems: []ColType{{ID: TInt}}}, {ID: TUDT, UDTFields: []string{"f"}}} {
		w := &W{}
		if w.Option(bad); w.Err == nil {
			t.Errorf("Option(%+v): no error", bad)
		}
	}
}

func TestWriterPrimitives(t *testing.T) {
	w := &W{}
	w.Byte(1)
	w.Short(0xfffe)
	w.Int(-2)
	w.Long(-3)
	w.String("é")
	w.LongString("ab")
	w.Bytes(nil, true)
	w.Bytes(nil, false)
	w.ShortBytes([]byte{9})
	w.StringList([]string{"a", ""})
	w.StringMap(map[string]string{"b": "2", "a": "1"})
	w.Inet([]byte{1, 2, 3, 4}, 7)
	w.InetAddr([]byte{5, 6, 7, 8})
	w.Raw([]byte{0xee})
	eq(t, "primitives", w.B, hx(t, `01 fffe fffffffe fffffffffffffffd 0002 c3a9 00000002 'ab' ffffffff 00000000 0001 09
		0002 0001 'a' 0000 | 0002 0001 'a' 0001 '1' 0001 'b' 0001 '2' | 04 01020304 00000007 | 04 05060708 | ee`))
	if w.Err != nil {
		t.Error(w.Err)
	}
	w.String(string(make([]byte, 65536)))
	if w.Err == nil {
		t.Error("oversized [string]: no error recorded")
	}
}

func TestEncodeResponseRejects(t *testing.T) {
	cols := []ColSpec{{Keyspace: "ks", Table: "t", Name: "a", Type: ColType{ID: TInt}}}
	for name, r := range map[string]*Response{
		"nil":                   nil,
		"version 0":             {Version: 0, Op: OpReady},
		"version 6":             {Version: 6, Op: OpReady},
		"stream too big for v2": {Version: 2, Stream: 128, Op: OpReady},
		"stream too big for v4": {Version: 4, Stream: 32768, Op: OpReady},
		"request opcode":        {Version: 4, Op: OpQuery},
		"short tracing id":      {Version: 4, Op: OpReady, TracingID: []byte{1}},
		"warnings in v3":        {Version: 3, Op: OpReady, Warnings: []string{"w"}},
		"custom payload in v3":  {Version: 3, Op: OpReady, CustomPayload: map[string][]byte{}},
		"error nil":             {Version: 4, Op: OpError},
		"bad reason address":    {Version: 5, Op: OpError, Error: &ErrorBody{Code: ErrReadFailure, ReasonMap: []FailureReason{{IP: []byte{1}}}}},
		"rows nil":              {Version: 4, Op: OpResult, Kind: KindRows},
		"bad column type":       {Version: 4, Op: OpResult, Kind: KindRows, Rows: &RowsMeta{Columns: []ColSpec{{Name: "a", Type: ColType{ID: TMap}}}}},
		"prepared nil":          {Version: 4, Op: OpResult, Kind: KindPrepared},
		"pk indices in v3":      {Version: 3, Op: OpResult, Kind: KindPrepared, Prepared: &PreparedMeta{Columns: cols, PKIndices: []uint16{0}}},
		"schema nil":            {Version: 4, Op: OpResult, Kind: KindSchemaChange},
		"function target in v3": {Version: 3, Op: OpResult, Kind: KindSchemaChange, Schema: &SchemaChange{Change: "CREATED", Target: "FUNCTION"}},
		"unknown target":        {Version: 4, Op: OpResult, Kind: KindSchemaChange, Schema: &SchemaChange{Change: "CREATED", Target: "VIEW"}},
		"unknown kind":          {Version: 4, Op: OpResult, Kind: 6},
		"unknown event":         {Version: 4, Stream: -1, Op: OpEvent, EventType: "X"},
		"bad event address":     {Version: 4, Stream: -1, Op: OpEvent, EventType: "STATUS_CHANGE", EventChange: "UP", EventIP: []byte{1, 2}},
		"oversized string":      {Version: 4, Op: OpAuthenticate, AuthClass: string(make([]byte, 70000))},
	} {
		if b, err := EncodeResponse(r); err == nil {
			t.Errorf("%s: no error, got % x", name, b)
		}
	}
}
