package scen

import (
	crand "crypto/rand"
	"errors"
	"fmt"
	"io"
	"runtime"
	"sort"
	"sync"
	"sync/atomic"
	"time"

	"github.com/gocql/gocql"
)

// Scenario uuid (C19, the clauses with a clock or concurrency in them): 2-8 goroutines
// generate time-UUIDs from the current time while the simulated clock stands still (inside
// a bubble time does not move while goroutines run, so all UUIDs of a batch carry the same
// 100 ns timestamp and uniqueness rests on the clock sequence alone) or jumps forward by a
// tape-chosen amount between batches. Every UUID is checked for version, variant and the
// instant it carries; all UUIDs of the run are checked pairwise distinct. A few UUIDs are
// built from tape-chosen instants of the whole 60-bit range and read back.

func init() {
	register(&Scenario{
		Name:       "uuid",
		Properties: []string{"C19"},
		Run:        runUUID,
		Real:       []string{"gocql.TimeUUID / UUIDFromTime / UUID.Time / Timestamp / Version / Variant / String / ParseUUID (real code)", "Go runtime scheduler and atomics (real)"},
		Stub:       []string{"clock (testing/synctest fake clock: stalled while goroutines run, forward jumps only)", "callers (scripted goroutines)"},
		Rule: "one run = 1-6 batches; in each batch 2-8 goroutines released together generate 1-200 time-UUIDs each with TimeUUID() or UUIDFromTime(time.Now()) at one stalled instant, " +
			"batches separated by a tape-chosen forward jump (0 = same instant, 1 ns ... 1000 h); at most 16383 UUIDs share one instant (the 14-bit clock sequence is the stated bound: more cannot be distinct); " +
			"plus 4-24 UUIDs built from tape-chosen instants between 1583 and 5000 AD; distinct = distinct canonical-log fingerprint; non-trivial = at least one batch shared its instant with another batch or more than one goroutine generated in a batch (counted as uuid.variant faults) and at least one batch completed",
	})
}

const uuidPerInstantBound = 16383 // < 2^14: the clock sequence has 14 bits

type uuidGen struct {
	u      gocql.UUID
	before time.Time // time.Now() just before the call
	after  time.Time // time.Now() just after the call
	exact  bool      // before is the very value handed to UUIDFromTime
}

func runUUID(e *Env) {
	k := e.K
	tp := k.Tape

	nBatches := 1 + tp.Next(6)
	e.Note("batches", nBatches)
	jumps := []time.Duration{0, 100 * time.Nanosecond, time.Nanosecond, 99 * time.Nanosecond, time.Microsecond,
		time.Millisecond, time.Second, time.Hour, 1000 * time.Hour, 101 * time.Nanosecond}

	seen := map[gocql.UUID]int{} // uuid → batch that produced it
	perInstant := 0              // UUIDs generated at the current stalled instant so far
	instants := 1
	total := 0

	for b := 0; b < nBatches; b++ {
		nG := 2 + tp.Next(7)
		counts := make([]int, nG)
		modes := make([]int, nG)  // 0 TimeUUID(), 1 UUIDFromTime(time.Now())
		yields := make([]int, nG) // Gosched after every n-th call (0 = never)
		sum := 0
		for g := range counts {
			counts[g] = []int{8, 1, 2, 50, 200, 117}[tp.Next(6)]
			modes[g] = tp.Next(2)
			yields[g] = []int{0, 1, 3, 16}[tp.Next(4)]
			sum += counts[g]
		}
		jump := time.Duration(0)
		if b > 0 {
			jump = jumps[tp.Next(len(jumps))]
			if jump == 0 && perInstant+sum > uuidPerInstantBound {
				// the workload's stated bound: never more than 2^14-1 UUIDs at one instant
				jump = 100 * time.Nanosecond
				k.Probe("uuid.bound-forced-jump")
			}
			if jump > 0 {
				time.Sleep(jump)
				// a jump below 100 ns may stay inside the same 100 ns tick: the timestamps
				// are then equal although the instants differ
				perInstantReset := time.Now().Truncate(100*time.Nanosecond) != time.Now().Add(-jump).Truncate(100*time.Nanosecond)
				if perInstantReset {
					perInstant = 0
					instants++
				} else {
					k.Probe("uuid.jump-within-one-tick")
					if perInstant+sum > uuidPerInstantBound {
						time.Sleep(100 * time.Nanosecond)
						perInstant = 0
						instants++
					}
				}
				k.Fault("uuid.variant:jump")
			} else {
				k.Fault("uuid.variant:same-instant-batch")
			}
		}
		if nG > 1 {
			k.Fault("uuid.variant:concurrent-generators")
		}
		k.Rec("batch %d goroutines=%d uuids=%d jump=%v", b, nG, sum, jump)

		// ---- generate: all goroutines released together, clock stalled ----
		at := time.Now()
		out := make([][]uuidGen, nG)
		var wg sync.WaitGroup
		start := make(chan struct{})
		// with real parallelism (GOMAXPROCS > 1, the parallel pass) the generators
		// additionally spin on a flag so that their first calls really coincide
		spin := runtime.GOMAXPROCS(0) > 1
		var ready, gate int32
		for g := 0; g < nG; g++ {
			g := g
			out[g] = make([]uuidGen, 0, counts[g])
			wg.Add(1)
			go func() {
				defer wg.Done()
				<-start
				if spin {
					atomic.AddInt32(&ready, 1)
					for n := 0; atomic.LoadInt32(&gate) == 0; n++ {
						if n%1024 == 1023 {
							runtime.Gosched()
						}
					}
				}
				for i := 0; i < counts[g]; i++ {
					var r uuidGen
					if modes[g] == 0 {
						r.before = time.Now()
						r.u = gocql.TimeUUID()
						r.after = time.Now()
					} else {
						t := time.Now()
						r.before, r.after, r.exact = t, t, true
						r.u = gocql.UUIDFromTime(t)
					}
					out[g] = append(out[g], r)
					if y := yields[g]; y > 0 && (i+1)%y == 0 {
						runtime.Gosched()
					}
				}
			}()
		}
		close(start)
		if spin {
			for n := 0; atomic.LoadInt32(&ready) < int32(nG) && n < 1<<22; n++ {
				runtime.Gosched()
			}
			atomic.StoreInt32(&gate, 1)
		}
		wg.Wait()
		if !time.Now().Equal(at) {
			// cannot happen in a bubble: nothing sleeps while the generators run
			k.Violate("HARNESS", "uuid/clock-moved", "the simulated clock moved from %v to %v while generators ran", at, time.Now())
			return
		}
		perInstant += sum
		total += sum
		if k.Progress != nil {
			atomic.AddInt64(k.Progress, 1) // the run never calls Quiesce (it would move the clock)
		}

		// ---- oracles ----
		for g := 0; g < nG; g++ {
			for i, r := range out[g] {
				if r.u.Version() != 1 || r.u.Variant() != gocql.VariantIETF {
					k.Violate("C19", "C19/wrong-version-or-variant", "batch %d goroutine %d call %d: generated time-UUID has version %d variant %d (want 1 and %d = RFC 4122)",
						b, g, i, r.u.Version(), r.u.Variant(), gocql.VariantIETF)
					return
				}
				got := r.u.Time()
				// to 100 ns: the carried instant lies within one tick of the instant the
				// UUID was generated at (bracketed by the clock readings around the call)
				if got.Before(r.before.Add(-99*time.Nanosecond)) || got.After(r.after.Add(99*time.Nanosecond)) {
					k.Violate("C19", "C19/time-roundtrip", "batch %d goroutine %d call %d (exact=%v): UUID generated between %v and %v simulated carries %v",
						b, g, i, r.exact, r.before.UTC(), r.after.UTC(), got)
					return
				}
				if ts := r.u.Timestamp(); ts != got.Sub(uuidEpoch).Nanoseconds()/100+uuidEpochTicks {
					k.Violate("C19", "C19/time-roundtrip", "batch %d goroutine %d call %d: Timestamp()=%d disagrees with Time()=%v", b, g, i, ts, got)
					return
				}
				if prev, dup := seen[r.u]; dup {
					k.Violate("C19", "C19/duplicate-timeuuid", "batch %d goroutine %d call %d: time-UUID already generated in batch %d of this run (%d UUIDs at this instant, %d in the run; clock sequence %d)",
						b, g, i, prev, perInstant, total, r.u.Clock())
					return
				}
				seen[r.u] = b
				// cheap sequential sanity: print and parse back
				if i < 4 {
					p, err := gocql.ParseUUID(r.u.String())
					if err != nil || p != r.u {
						k.Violate("C19", "C19/print-parse-roundtrip", "batch %d goroutine %d call %d: ParseUUID(String()) returned err=%v, equal=%v", b, g, i, err, p == r.u)
						return
					}
				}
			}
		}
		k.OpDone()
	}
	e.Note("uuids", total)
	e.Note("instants", instants)
	if perInstant > 8000 {
		k.Probe("uuid.instant>8000")
	}
	if total > 1000 {
		k.Probe("uuid.run>1000")
	}
	if len(seen) != total {
		k.Violate("C19", "C19/duplicate-timeuuid", "%d UUIDs generated, %d distinct", total, len(seen))
		return
	}
	// clock sequences at one instant must be what tells UUIDs apart: probe that the worst
	// case was really exercised (many UUIDs with one timestamp)
	byTS := map[int64]int{}
	for u := range seen {
		byTS[u.Timestamp()]++
	}
	var maxSame int
	for _, n := range byTS {
		if n > maxSame {
			maxSame = n
		}
	}
	e.Note("max_same_timestamp", maxSame)
	if maxSame > 1 {
		k.Probe("uuid.same-timestamp")
	}
	if maxSame > 1000 {
		k.Probe("uuid.same-timestamp>1000")
	}

	// ---- instants of the whole timestamp range, built and read back ----
	n := 4 + tp.Next(21)
	var years []int
	prev := gocql.UUID{0xa5, 0x5a, 0xff, 0x0f, 0xf0, 0x33, 0xcc, 0x99, 0x66, 0xff, 0x00, 0xa5, 0x5a, 0x0f, 0xf0, 0xff}
	for i := 0; i < n; i++ {
		var t time.Time
		switch tp.Next(4) {
		case 0: // around now
			t = time.Now().Add(time.Duration(tp.Next(2000000)-1000000) * 37 * time.Microsecond)
		case 1: // 1970-2100
			t = time.Date(1970+tp.Next(131), time.Month(1+tp.Next(12)), 1+tp.Next(28), tp.Next(24), tp.Next(60), tp.Next(60), tp.Next(1000000000), time.UTC)
		case 2: // the documented 60-bit range, kept well inside it: 1583-5000 AD
			t = time.Date(1583+tp.Next(3418), time.Month(1+tp.Next(12)), 1+tp.Next(28), tp.Next(24), tp.Next(60), tp.Next(60), tp.Next(1000000000), time.UTC)
		default: // tick boundaries and another zone
			t = time.Date(1583+tp.Next(3418), time.Month(1+tp.Next(12)), 1+tp.Next(28), 23, 59, 59, []int{0, 99, 100, 999999900, 999999999, 999999899}[tp.Next(6)],
				time.FixedZone("x", []int{0, 3600, -7200, 19800}[tp.Next(4)]))
		}
		years = append(years, t.UTC().Year())
		u := gocql.UUIDFromTime(t)
		if u.Version() != 1 || u.Variant() != gocql.VariantIETF {
			k.Violate("C19", "C19/wrong-version-or-variant", "UUIDFromTime(%v) has version %d variant %d", t.UTC(), u.Version(), u.Variant())
			return
		}
		got := u.Time()
		d := t.Sub(got) // saturates when the two are centuries apart: still a mismatch
		if d <= -100*time.Nanosecond || d >= 100*time.Nanosecond {
			k.Violate("C19", "C19/time-roundtrip", "UUIDFromTime(%v).Time() = %v (more than 100 ns apart)", t.UTC(), got)
			return
		}
		if p, err := gocql.ParseUUID(u.String()); err != nil || p != u {
			k.Violate("C19", "C19/print-parse-roundtrip", "ParseUUID(String()) of a time-UUID for %v returned err=%v, equal=%v", t.UTC(), err, p == u)
			return
		}
		// the text and JSON decoders, into a variable that already holds another UUID
		reused := prev
		if err := reused.UnmarshalText([]byte(u.String())); err != nil || reused != u {
			k.Violate("C19", "C19/print-parse-roundtrip", "UnmarshalText(%s) into a variable holding %s gave %s, err=%v", u, prev, reused, err)
			return
		}
		reused = prev
		if err := reused.UnmarshalJSON([]byte(`"` + u.String() + `"`)); err != nil || reused != u {
			k.Violate("C19", "C19/print-parse-roundtrip", "UnmarshalJSON(%s) into a variable holding %s gave %s, err=%v", u, prev, reused, err)
			return
		}
		prev = u
		// any RFC 4122 version-1 UUID of this instant (arbitrary clock sequence and node) lies
		// between the two bounds under Cassandra's order: timestamp, then the low eight bytes
		// compared as signed bytes
		x := u
		for i := 8; i < 16; i++ {
			x[i] = byte(tp.Next(256))
		}
		if tp.Chance(1, 3) {
			x[9] = []byte{0x7f, 0x80, 0xff, 0x00}[tp.Next(4)]
		}
		x[8] = 0x80 | x[8]&0x3f
		lo, hi := gocql.MinTimeUUID(t), gocql.MaxTimeUUID(t)
		// every time-UUID built from a time (the bounds, and one with an arbitrary clock
		// sequence and node) is version 1 and of the RFC 4122 variant
		nodeID := make([]byte, 6)
		for i := range nodeID {
			nodeID[i] = byte(tp.Next(256))
		}
		clock := uint32(tp.Next(1 << 16))
		if tp.Chance(1, 3) {
			clock = []uint32{0, 0x3fff, 0x4000, 0x7f7f, 0x8080, 0xffff, 0x10000, 0xffffffff}[tp.Next(8)]
		}
		built := gocql.TimeUUIDWith(u.Timestamp(), clock, nodeID)
		for _, c := range []struct {
			what string
			u    gocql.UUID
		}{{"MinTimeUUID", lo}, {"MaxTimeUUID", hi}, {fmt.Sprintf("TimeUUIDWith(clock=%#x)", clock), built}} {
			if c.u.Version() != 1 || c.u.Variant() != gocql.VariantIETF || c.u.Timestamp() != u.Timestamp() {
				k.Violate("C19", "C19/wrong-version-or-variant", "%s for %v = %s has version %d variant %d timestamp %d (want 1, %d = RFC 4122, %d)",
					c.what, t.UTC(), c.u, c.u.Version(), c.u.Variant(), c.u.Timestamp(), gocql.VariantIETF, u.Timestamp())
				return
			}
		}
		// a string that goes on after a complete UUID is not a UUID
		tail := []string{"0", "a", "00", "\n", " ", "}", "; --", "\x00", "-0", "0123456789abcdef0123456789abcdef"}[tp.Next(10)]
		if p, err := gocql.ParseUUID(u.String() + tail); err == nil {
			k.Violate("C19", "C19/parse-accepts-trailing-input", "ParseUUID(%q) succeeded (%s): the string continues after the 32nd hex digit", u.String()+tail, p)
			return
		}
		// a random UUID is version 4 / RFC 4122 - or an error - whatever the random source does
		if tp.Chance(1, 4) {
			failAt := tp.Next(4)
			orig := crand.Reader
			crand.Reader = &flakyReader{r: orig, failAt: failAt, short: tp.Chance(1, 2)}
			for i := 0; i < 6; i++ {
				ru, err := gocql.RandomUUID()
				if err == nil && (ru.Version() != 4 || ru.Variant() != gocql.VariantIETF) {
					crand.Reader = orig
					k.Violate("C19", "C19/wrong-version-or-variant", "RandomUUID call %d returned %s (version %d variant %d) without error; the random source failed on its read number %d", i, ru, ru.Version(), ru.Variant(), failAt)
					return
				}
			}
			crand.Reader = orig
			k.Probe("uuid.random-source-failure")
		}
		// a string that is a UUID except for one character that is not a hex digit is rejected
		str := []rune(u.String())
		pos := tp.Next(len(str))
		if str[pos] != '-' {
			bad := []rune{'g', 'G', ' ', 'x', 0x0130, 0x0141, 0x0461, 0x2139, 0x1F535, '/', ':', '@', '`', 0xff10}[tp.Next(14)]
			str[pos] = bad
			if p, err := gocql.ParseUUID(string(str)); err == nil {
				k.Violate("C19", "C19/parse-accepts-non-hex", "ParseUUID(%q) succeeded (%s): position %d holds %q, not a hex digit", string(str), p, pos, bad)
				return
			}
		}
		if lo.Timestamp() != u.Timestamp() || hi.Timestamp() != u.Timestamp() || uuidCassandraLess(x, lo) || uuidCassandraLess(hi, x) {
			k.Violate("C19", "C19/min-max-not-bounds", "version-1 UUID %s of instant %v is not within [MinTimeUUID=%s, MaxTimeUUID=%s] under Cassandra's timeuuid order", x, t.UTC(), lo, hi)
			return
		}
	}
	sort.Ints(years)
	k.Rec("instants checked=%d years=%s", n, fmt.Sprint(years))
	if years[0] < 1700 {
		k.Probe("uuid.instant<1700")
	}
	if years[len(years)-1] > 4000 {
		k.Probe("uuid.instant>4000")
	}
	k.OpDone()
}

// 15 Oct 1582 00:00 UTC, from the RFC, not from the code; uuidEpochTicks lets the
// subtraction start from an instant time.Duration can reach (the simulated clock starts in 2000).
var (
	uuidEpoch      = time.Date(2000, 1, 1, 0, 0, 0, 0, time.UTC)
	uuidEpochTicks = int64(time.Date(2000, 1, 1, 0, 0, 0, 0, time.UTC).Unix()-time.Date(1582, 10, 15, 0, 0, 0, 0, time.UTC).Unix()) * 10000000
)

// uuidCassandraLess orders two time-UUIDs the way Cassandra's TimeUUIDType does: by
// timestamp, then by the remaining eight bytes as signed bytes.
func uuidCassandraLess(a, b gocql.UUID) bool {
	if ta, tb := a.Timestamp(), b.Timestamp(); ta != tb {
		return ta < tb
	}
	for i := 8; i < 16; i++ {
		if a[i] != b[i] {
			return int8(a[i]) < int8(b[i])
		}
	}
	return false
}

// flakyReader fails (or delivers nothing) on its failAt-th read.
type flakyReader struct {
	r      io.Reader
	n      int
	failAt int
	short  bool
}

func (f *flakyReader) Read(p []byte) (int, error) {
	f.n++
	if f.n-1 == f.failAt {
		if f.short {
			return 0, io.ErrUnexpectedEOF
		}
		return 0, errors.New("random source unavailable")
	}
	return f.r.Read(p)
}
