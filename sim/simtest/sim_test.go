//go:debug randseednop=0

// Package simtest hosts the simulation runs: `go test -c` builds it into the child
// binary that the runner (cmd/vcheck) fans out. One run = one testing/synctest bubble.
package simtest

import (
	"encoding/json"
	"flag"
	"fmt"
	"math/rand"
	"os"
	"runtime"
	"strings"
	"sync/atomic"
	"syscall"
	"testing"
	"testing/synctest"
	"time"

	"github.com/gocql/gocql"
	"github.com/gocql/gocql/verifsim/kernel"
	"github.com/gocql/gocql/verifsim/scen"
)

var (
	fScenario = flag.String("sim.scenario", "", "scenario name")
	fSeed     = flag.Int64("sim.seed", 1, "base seed (VERIF_SEED)")
	fFrom     = flag.Int("sim.from", 0, "first run index")
	fCount    = flag.Int("sim.count", 1, "number of runs")
	fStride   = flag.Int("sim.stride", 1, "index stride (worker interleaving)")
	fTier     = flag.String("sim.tier", "quick", "quick | thorough")
	fReplay   = flag.String("sim.replay", "", "replay file (JSON with scenario, seed, tape, nofaults)")
	fReps     = flag.Int("sim.reps", 1, "replay repetitions")
	fBudget   = flag.Duration("sim.budget", 0, "stop starting new runs after this wall time")
	fNoFaultN = flag.Int("sim.nofaultevery", 8, "every Nth run uses the fault-free configuration (0 = never)")
	fLog      = flag.Bool("sim.log", false, "print the canonical log of every run")
	fTrace    = flag.Int("sim.trace", 0, "include the first log lines of the first N runs in their RES line")
	fTapeOut  = flag.String("sim.tapeout", "", "stream the tape of the (single) run to this file")
	fMemLimit = flag.Int("sim.memlimit", 8192, "address-space limit of the child in MiB (0 = none)")
	fStall    = flag.Duration("sim.stall", 20*time.Second, "real-time watchdog: no step for this long = stall")
)

// Payload is what a violating run (and a replay file) carries.
type Payload struct {
	Scenario  string                 `json:"scenario"`
	Seed      int64                  `json:"seed"` // run seed (already mixed with the index)
	BaseSeed  int64                  `json:"base_seed"`
	Index     int                    `json:"index"`
	Tier      string                 `json:"tier"`
	NoFaults  bool                   `json:"nofaults"`
	Cfg       map[string]interface{} `json:"config,omitempty"`
	Tape      []uint32               `json:"tape"`
	Violation *kernel.Violation      `json:"violation,omitempty"`
	Log       []string               `json:"log,omitempty"`
}

// RunLine is the per-run summary line.
type RunLine struct {
	Index    int  `json:"index"`
	NoFaults bool `json:"nofaults"`
	kernel.Result
	Cfg     map[string]interface{} `json:"config,omitempty"`
	Samples []string               `json:"samples,omitempty"`
	Trace   []string               `json:"trace,omitempty"`
	Panic   string                 `json:"panic,omitempty"`
	WallUS  int64                  `json:"wall_us"`
}

func mix(seed int64, index int) int64 {
	z := uint64(seed) + uint64(index+1)*0x9E3779B97F4A7C15
	z = (z ^ (z >> 30)) * 0xBF58476D1CE4E5B9
	z = (z ^ (z >> 27)) * 0x94D049BB133111EB
	z ^= z >> 31
	return int64(z & 0x7fffffffffffffff)
}

var progress int64

func emit(tag string, v interface{}) {
	b, err := json.Marshal(v)
	if err != nil {
		b = []byte(fmt.Sprintf("%q", err.Error()))
	}
	fmt.Fprintf(os.Stdout, "%s %s\n", tag, b)
}

type outcome struct {
	res     kernel.Result
	cfg     map[string]interface{}
	samples []string
	log     []string
	tape    []uint32
	panicS  string
}

func runOne(t *testing.T, sc *scen.Scenario, seed int64, tape *kernel.Tape, tier string, nofaults bool) (o outcome) {
	defer func() {
		if r := recover(); r != nil {
			o.panicS = fmt.Sprintf("%v", r)
			o.tape = tape.Rec
		}
	}()
	synctest.Test(t, func(t *testing.T) {
		rand.Seed(seed)
		gocql.VerifReseed(seed)
		k := kernel.New(seed, tape)
		k.Progress = &progress
		env := &scen.Env{K: k, Tier: tier, NoFaults: nofaults}
		func() {
			defer func() {
				if r := recover(); r != nil {
					buf := make([]byte, 16<<10)
					buf = buf[:runtime.Stack(buf, false)]
					k.Violate("HARNESS", "harness/panic", "panic on the simulator's root goroutine: %v\n%s", r, buf)
				}
			}()
			sc.Run(env)
		}()
		gocql.VerifHook = nil
		o.res = k.Finish()
		o.cfg = env.Cfg
		o.samples = env.Samples
		o.log = k.Log()
		o.tape = tape.Rec
	})
	return o
}

func watchdog() {
	last := atomic.LoadInt64(&progress)
	lastChange := time.Now()
	for {
		time.Sleep(500 * time.Millisecond)
		cur := atomic.LoadInt64(&progress)
		if cur != last {
			last, lastChange = cur, time.Now()
			continue
		}
		if atomic.LoadInt64(&idle) == 1 {
			lastChange = time.Now()
			continue
		}
		if time.Since(lastChange) > *fStall {
			buf := make([]byte, 4<<20)
			buf = buf[:runtime.Stack(buf, true)]
			emit("STALL", map[string]interface{}{"class": classifyStall(string(buf)), "stacks": string(buf)})
			os.Exit(3)
		}
	}
}

var idle int64 = 1

// classifyStall decides whether a frozen bubble is a lock deadlock inside the driver
// (no goroutine is waiting inside a simulator seam, so nothing the simulator could do
// would unblock it) or the synctest/mutex artefact (some goroutine waits for the
// simulator while another is blocked on a sync.Mutex it holds).
// artefactSites are the places where the driver holds a mutex across a network round trip
// and a second goroutine may therefore wait for that mutex while the first waits for the
// simulator: testing/synctest does not count the waiter as durably blocked, so the bubble
// cannot quiesce although nothing is wrong (DESIGN 8.3).
var artefactSites = []string{"gocql.(*nextIter).fetch", "gocql.(*ringDescriber).", "gocql.(*schemaDescriber).", "gocql.(*Session).KeyspaceMetadata"}

func classifyStall(dump string) string {
	waitingOnSim := false
	mutexWaiters := 0
	unknownSiteWaiters := 0
	busy := false
	for _, blk := range strings.Split(dump, "\n\n") {
		nl := strings.IndexByte(blk, '\n')
		if nl < 0 {
			continue
		}
		head := blk[:nl]
		if !strings.Contains(head, "synctest bubble") {
			continue
		}
		if strings.Contains(head, "sync.Mutex.Lock") || strings.Contains(head, "sync.RWMutex") {
			mutexWaiters++
			known := false
			for _, site := range artefactSites {
				if strings.Contains(blk, site) {
					known = true
				}
			}
			if !known {
				unknownSiteWaiters++
			}
			continue
		}
		if (strings.Contains(head, "[running") || strings.Contains(head, "[runnable")) && strings.Contains(blk, "github.com/gocql/gocql.") {
			// a driver goroutine has been computing (or allocating) for the whole watchdog period
			busy = true
		}
		if strings.Contains(blk, "verifsim/simnet.") || strings.Contains(blk, "verifsim/kernel.(*Kernel).Yield") ||
			strings.Contains(blk, "verifsim/kernel.(*Task).Step") {
			waitingOnSim = true
		}
	}
	if mutexWaiters > 0 && (!waitingOnSim || unknownSiteWaiters > 0) {
		// nobody left who could ever release the lock, or a goroutine waits for a lock at a
		// place that is not one of the known "lock held across a round trip" sites (a
		// goroutine that takes a lock it already holds looks exactly like this)
		return "driver-lock-deadlock"
	}
	if mutexWaiters > 0 {
		return "synctest-mutex-artefact"
	}
	if busy {
		return "driver-busy-loop"
	}
	return "unknown"
}

func TestSim(t *testing.T) {
	if *fScenario == "" && *fReplay == "" {
		t.Skip("no -sim.scenario")
	}
	go watchdog()
	if *fMemLimit > 0 {
		// a corrupted length must not be able to take the machine down: cap the address
		// space so that a runaway allocation kills this child ("out of memory") instead
		lim := syscall.Rlimit{Cur: uint64(*fMemLimit) << 20, Max: uint64(*fMemLimit) << 20}
		_ = syscall.Setrlimit(syscall.RLIMIT_AS, &lim)
	}
	if *fReplay != "" {
		replay(t)
		return
	}
	sc := scen.Registry[*fScenario]
	if sc == nil {
		fmt.Fprintf(os.Stderr, "unknown scenario %q (have %v)\n", *fScenario, scen.Names())
		os.Exit(2)
	}
	start := time.Now()
	for i := 0; i < *fCount; i++ {
		if *fBudget > 0 && time.Since(start) > *fBudget {
			break
		}
		index := *fFrom + i**fStride
		seed := mix(*fSeed, index)
		nofaults := *fNoFaultN > 0 && index%*fNoFaultN == *fNoFaultN-1
		fmt.Fprintf(os.Stdout, "RUN %d\n", index)
		atomic.StoreInt64(&idle, 0)
		w0 := time.Now()
		tape := kernel.NewTape(seed)
		if *fTapeOut != "" {
			if f, err := os.Create(*fTapeOut); err == nil {
				fmt.Fprintf(f, "{\"seed\":%d,\"nofaults\":%v}\n", seed, nofaults)
				tape.Out = f
			}
		}
		o := runOne(t, sc, seed, tape, *fTier, nofaults)
		atomic.StoreInt64(&idle, 1)
		line := RunLine{Index: index, NoFaults: nofaults, Result: o.res, Panic: o.panicS, WallUS: time.Since(w0).Microseconds()}
		if i < 3 || o.res.Violation != nil {
			line.Cfg = o.cfg
			line.Samples = o.samples
		}
		if i < *fTrace {
			line.Cfg = o.cfg
			line.Trace = o.log
			if len(line.Trace) > 60 {
				line.Trace = append(append([]string(nil), line.Trace[:60]...), fmt.Sprintf("... %d more lines", len(o.log)-60))
			}
		}
		emit("RES", line)
		if *fLog {
			for _, l := range o.log {
				fmt.Println("LOG", l)
			}
		}
		if o.res.Violation != nil || o.panicS != "" {
			v := o.res.Violation
			if v == nil {
				v = &kernel.Violation{Property: "BUBBLE", Signature: "bubble/panic", Message: o.panicS}
			}
			emit("VIO", Payload{Scenario: sc.Name, Seed: seed, BaseSeed: *fSeed, Index: index, Tier: *fTier, NoFaults: nofaults,
				Cfg: o.cfg, Tape: o.tape, Violation: v, Log: o.log})
		}
	}
	fmt.Fprintln(os.Stdout, "DONE")
}

func replay(t *testing.T) {
	b, err := os.ReadFile(*fReplay)
	if err != nil {
		fmt.Fprintln(os.Stderr, err)
		os.Exit(2)
	}
	var p Payload
	if err := json.Unmarshal(b, &p); err != nil {
		fmt.Fprintln(os.Stderr, err)
		os.Exit(2)
	}
	sc := scen.Registry[p.Scenario]
	if sc == nil {
		fmt.Fprintf(os.Stderr, "unknown scenario %q\n", p.Scenario)
		os.Exit(2)
	}
	tier := p.Tier
	if tier == "" {
		tier = "quick"
	}
	for i := 0; i < *fReps; i++ {
		fmt.Fprintf(os.Stdout, "RUN %d\n", i)
		atomic.StoreInt64(&idle, 0)
		o := runOne(t, sc, p.Seed, kernel.ReplayTape(p.Tape), tier, p.NoFaults)
		atomic.StoreInt64(&idle, 1)
		v := o.res.Violation
		if v == nil && o.panicS != "" {
			v = &kernel.Violation{Property: "BUBBLE", Signature: "bubble/panic", Message: o.panicS}
		}
		emit("REP", Payload{Scenario: sc.Name, Seed: p.Seed, BaseSeed: p.BaseSeed, Index: p.Index, Tier: tier, NoFaults: p.NoFaults,
			Cfg: o.cfg, Tape: o.tape, Violation: v, Log: o.log})
		if *fLog {
			for _, l := range o.log {
				fmt.Println("LOG", l)
			}
		}
	}
	fmt.Fprintln(os.Stdout, "DONE")
}
