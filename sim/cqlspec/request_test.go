package cqlspec

import (
	"testing"
)

// Hand-written request frames. Every vector is complete, including the length field.

func TestHeaderAndFrameLen(t *testing.T) {
	h, err := ParseHeader(hx(t, "04 02 0102 07 0000002f"))
	if err != nil {
		t.Fatal(err)
	}
	eq(t, "v4 header", h, Header{Version: 4, Flags: 2, Stream: 0x0102, Opcode: OpQuery, Length: 0x2f})
	h, err = ParseHeader(hx(t, "82 00 ff 0c 00000010"))
	if err != nil {
		t.Fatal(err)
	}
	eq(t, "v2 header", h, Header{Version: 2, Response: true, Stream: -1, Opcode: OpEvent, Length: 16})
	h, _ = ParseHeader(hx(t, "83 00 ffff 0c ffffffff"))
	eq(t, "v3 header", h, Header{Version: 3, Response: true, Stream: -1, Opcode: OpEvent, Length: -1})
	for _, bad := range []string{"00 00 00 00 00000000", "06 00 0000 00 00000000", "7f", "04 00 0000 07 0000", ""} {
		if _, err := ParseHeader(hx(t, bad)); err == nil {
			t.Errorf("ParseHeader(%q): no error", bad)
		}
	}

	n, ok, err := FrameLen(hx(t, "04 00 0001 07 00000010 aa"))
	if n != 25 || !ok || err != nil {
		t.Errorf("FrameLen v4 = %d %v %v", n, ok, err)
	}
	n, ok, err = FrameLen(hx(t, "02 00 01 07 00000010"))
	if n != 24 || !ok || err != nil {
		t.Errorf("FrameLen v2 = %d %v %v", n, ok, err)
	}
	for _, short := range []string{"", "04", "04 00 0001 07 000000", "02 00 01 07 0000"} {
		if n, ok, err := FrameLen(hx(t, short)); ok || err != nil {
			t.Errorf("FrameLen(%q) = %d %v %v, want need-more", short, n, ok, err)
		}
	}
	for _, bad := range []string{"00", "86 00", "04 00 0001 07 ffffffff", "04 00 0001 07 10000001", "02 00 01 07 80000000"} {
		if _, ok, err := FrameLen(hx(t, bad)); ok || err == nil {
			t.Errorf("FrameLen(%q): ok=%v err=%v, want error", bad, ok, err)
		}
	}
	if n, ok, err := FrameLen(hx(t, "04 00 0001 07 10000000")); n != 9+256<<20 || !ok || err != nil {
		t.Errorf("FrameLen at the 256 MiB limit = %d %v %v", n, ok, err)
	}
	eq(t, "RawFrame v2", RawFrame(2, true, 1, -1, OpEvent, []byte{9}), hx(t, "82 01 ff 0c 00000001 09"))
	eq(t, "RawFrame v5", RawFrame(5, false, 0x10, 258, OpQuery, nil), hx(t, "05 10 0102 07 00000000"))
}

func TestStartupOptionsAuthRegister(t *testing.T) {
	opts := map[string]string{"CQL_VERSION": "3.0.0"}
	r := mustDecode(t, hx(t, "02 00 01 01 00000016 | 0001 000b 'CQL_VERSION' 0005 '3.0.0'"), nil)
	eq(t, "v2 startup options", r.Options, opts)
	eq(t, "v2 startup header", r.Header, Header{Version: 2, Stream: 1, Opcode: OpStartup, Length: 22})
	r = mustDecode(t, hx(t, "04 00 0001 01 0000002b | 0002 000b 'CQL_VERSION' 0005 '3.0.0' 000b 'COMPRESSION' 0006 'snappy'"), nil)
	eq(t, "v4 startup options", r.Options, map[string]string{"CQL_VERSION": "3.0.0", "COMPRESSION": "snappy"})
	r = mustDecode(t, hx(t, "05 10 0000 01 00000016 | 0001 000b 'CQL_VERSION' 0005 '3.0.0'"), nil)
	eq(t, "v5 startup options", r.Options, opts)
	eq(t, "v5 startup flags", r.Header.Flags, byte(FlagBeta))

	for _, f := range []string{"02 00 00 05 00000000", "04 00 0000 05 00000000", "05 10 7fff 05 00000000", "01 00 7f 05 00000000"} {
		r = mustDecode(t, hx(t, f), nil)
		eq(t, "options opcode", r.Header.Opcode, byte(OpOptions))
		eq(t, "options body", len(r.Body), 0)
	}
	eq(t, "max stream", r.Header.Stream, 127)

	r = mustDecode(t, hx(t, "02 00 02 0f 00000008 | 00000004 deadbeef"), nil)
	eq(t, "v2 token", r.AuthToken, []byte{0xde, 0xad, 0xbe, 0xef})
	eq(t, "v2 token null", r.AuthTokenNull, false)
	r = mustDecode(t, hx(t, "04 00 0002 0f 00000004 | ffffffff"), nil)
	eq(t, "v4 token null", r.AuthTokenNull, true)
	eq(t, "v4 token", r.AuthToken, []byte(nil))
	r = mustDecode(t, hx(t, "05 10 0002 0f 00000004 | 00000000"), nil)
	eq(t, "v5 token", r.AuthToken, []byte{})
	eq(t, "v5 token null", r.AuthTokenNull, false)

	r = mustDecode(t, hx(t, "02 00 03 0b 00000022 | 0002 000f 'TOPOLOGY_CHANGE' 000d 'STATUS_CHANGE'"), nil)
	eq(t, "v2 register", r.EventTypes, []string{"TOPOLOGY_CHANGE", "STATUS_CHANGE"})
	r = mustDecode(t, hx(t, "04 00 0003 0b 00000031 | 0003 000f 'TOPOLOGY_CHANGE' 000d 'STATUS_CHANGE' 000d 'SCHEMA_CHANGE'"), nil)
	eq(t, "v4 register", r.EventTypes, []string{"TOPOLOGY_CHANGE", "STATUS_CHANGE", "SCHEMA_CHANGE"})
	r = mustDecode(t, hx(t, "05 10 0003 0b 00000011 | 0001 000d 'SCHEMA_CHANGE'"), nil)
	eq(t, "v5 register", r.EventTypes, []string{"SCHEMA_CHANGE"})
}

func TestQuery(t *testing.T) {
	const q = "SELECT * FROM t"
	r := mustDecode(t, hx(t, "01 00 04 07 00000015 | 0000000f 'SELECT * FROM t' 0001"), nil)
	eq(t, "v1 query", r.Query, q)
	eq(t, "v1 params", r.Params, QueryParams{Consistency: ConsOne})

	r = mustDecode(t, hx(t, "02 00 04 07 00000016 | 0000000f 'SELECT * FROM t' 0001 00"), nil)
	eq(t, "v2 query", r.Query, q)
	eq(t, "v2 params", r.Params, QueryParams{Consistency: ConsOne})

	// tracing flag; values, page size, paging state, serial consistency
	r = mustDecode(t, hx(t, `02 02 04 07 00000030 | 0000000f 'SELECT * FROM t' 0001 1d
		0002 00000004 0000002a ffffffff | 00000064 | 00000002 abcd | 0008`), nil)
	eq(t, "v2 full header flags", r.Header.Flags, byte(FlagTracing))
	eq(t, "v2 full params", r.Params, QueryParams{
		Consistency: ConsOne, Flags: 0x1d, HasValues: true,
		Values:      []Value{{Bytes: []byte{0, 0, 0, 0x2a}}, {Null: true}},
		HasPageSize: true, PageSize: 100, HasPagingState: true, PagingState: []byte{0xab, 0xcd},
		HasSerial: true, SerialConsistency: ConsSerial,
	})

	// named values with an unset one, skip metadata, timestamp
	r = mustDecode(t, hx(t, `04 00 0004 07 0000002f | 0000000f 'SELECT * FROM t' 0006 63
		0002 0001 'a' 00000001 07 0001 'b' fffffffe | 0000000000000539`), nil)
	eq(t, "v4 params", r.Params, QueryParams{
		Consistency: ConsLocalQuorum, Flags: 0x63, HasValues: true, NamedValues: true, SkipMetadata: true,
		Values:       []Value{{Name: "a", Bytes: []byte{7}}, {Name: "b", Unset: true}},
		HasTimestamp: true, Timestamp: 1337,
	})

	// custom payload
	r = mustDecode(t, hx(t, `04 04 0004 07 00000020 | 0001 0001 'k' 00000001 ff | 0000000f 'SELECT * FROM t' 0001 00`), nil)
	eq(t, "v4 custom payload", r.CustomPayload, map[string][]byte{"k": {0xff}})
	eq(t, "v4 custom payload query", r.Query, q)

	// v5: [int] flags, page size, timestamp, keyspace
	r = mustDecode(t, hx(t, `05 10 0004 07 00000029 | 0000000f 'SELECT * FROM t' 000a 000000a4
		00001388 | 0000000000000539 | 0002 'ks'`), nil)
	eq(t, "v5 params", r.Params, QueryParams{
		Consistency: ConsLocalOne, Flags: 0xa4, HasPageSize: true, PageSize: 5000,
		HasTimestamp: true, Timestamp: 1337, HasKeyspace: true, Keyspace: "ks",
	})
	// values flag with zero values, empty (non-null) value
	r = mustDecode(t, hx(t, "03 00 0004 07 0000000a | 00000001 'x' 0000 01 0000"), nil)
	eq(t, "v3 zero values", r.Params.HasValues && len(r.Params.Values) == 0, true)
	r = mustDecode(t, hx(t, "03 00 0004 07 0000000e | 00000001 'x' 0000 01 0001 00000000"), nil)
	eq(t, "v3 empty value", r.Params.Values, []Value{{Bytes: []byte{}}})
}

func TestPrepareExecute(t *testing.T) {
	const q = "SELECT * FROM t"
	r := mustDecode(t, hx(t, "02 00 05 09 00000013 | 0000000f 'SELECT * FROM t'"), nil)
	eq(t, "v2 prepare", r.Query, q)
	r = mustDecode(t, hx(t, "04 00 0005 09 00000013 | 0000000f 'SELECT * FROM t'"), nil)
	eq(t, "v4 prepare", r.Query, q)
	r = mustDecode(t, hx(t, "05 10 0005 09 0000001b | 0000000f 'SELECT * FROM t' 00000001 0002 'ks'"), nil)
	eq(t, "v5 prepare", []any{r.Query, r.PrepareFlags, r.PrepareKeyspace}, []any{q, uint32(1), "ks"})
	r = mustDecode(t, hx(t, "05 10 0005 09 00000017 | 0000000f 'SELECT * FROM t' 00000000"), nil)
	eq(t, "v5 prepare no ks", []any{r.Query, r.PrepareFlags, r.PrepareKeyspace}, []any{q, uint32(0), ""})

	id := hx(t, id16)
	r = mustDecode(t, hx(t, "01 00 06 0a 0000000d | 0002 abcd 0001 00000001 01 0001"), nil)
	eq(t, "v1 execute id", r.PreparedID, []byte{0xab, 0xcd})
	eq(t, "v1 execute params", r.Params, QueryParams{Consistency: ConsOne, HasValues: true, Values: []Value{{Bytes: []byte{1}}}})

	r = mustDecode(t, hx(t, "02 00 06 0a 0000001c | 0010 "+id16+" 0004 01 0001 00000001 ff"), nil)
	eq(t, "v2 execute id", r.PreparedID, id)
	eq(t, "v2 execute params", r.Params, QueryParams{Consistency: ConsQuorum, Flags: 1, HasValues: true, Values: []Value{{Bytes: []byte{0xff}}}})

	r = mustDecode(t, hx(t, "04 00 0006 0a 00000027 | 0010 "+id16+" 0001 27 0001 fffffffe 00000064 0000000000000001"), nil)
	eq(t, "v4 execute id", r.PreparedID, id)
	eq(t, "v4 execute params", r.Params, QueryParams{
		Consistency: ConsOne, Flags: 0x27, HasValues: true, Values: []Value{{Unset: true}}, SkipMetadata: true,
		HasPageSize: true, PageSize: 100, HasTimestamp: true, Timestamp: 1,
	})

	r = mustDecode(t, hx(t, "05 10 0006 0a 0000001c | 0010 "+id16+" 0001 00000080 0002 'ks'"), nil)
	eq(t, "v5 execute id", r.PreparedID, id)
	eq(t, "v5 execute params", r.Params, QueryParams{Consistency: ConsOne, Flags: 0x80, HasKeyspace: true, Keyspace: "ks"})
}

func TestBatch(t *testing.T) {
	r := mustDecode(t, hx(t, `02 00 07 0d 0000001a | 00 0002
		00 00000002 'Q1' 0001 00000001 2a
		01 0002 beef 0000
		0001`), nil)
	eq(t, "v2 batch type", r.BatchType, byte(0))
	eq(t, "v2 batch entries", r.Batch, []BatchEntry{
		{Query: "Q1", Values: []Value{{Bytes: []byte{0x2a}}}},
		{Prepared: true, ID: []byte{0xbe, 0xef}, Values: []Value{}},
	})
	eq(t, "v2 batch consistency", r.BatchConsistency, uint16(ConsOne))
	eq(t, "v2 batch flags", r.BatchFlags, uint32(0))

	r = mustDecode(t, hx(t, `04 00 0007 0d 0000001d | 01 0001
		00 00000002 'Q1' 0001 fffffffe
		0006 30 0009 0000000000000001`), nil)
	eq(t, "v4 batch type", r.BatchType, byte(1))
	eq(t, "v4 batch entries", r.Batch, []BatchEntry{{Query: "Q1", Values: []Value{{Unset: true}}}})
	eq(t, "v4 batch tail", []any{r.BatchConsistency, r.BatchFlags, r.BatchHasSerial, r.BatchSerial, r.BatchHasTimestamp, r.BatchTimestamp, r.BatchHasKeyspace},
		[]any{uint16(ConsLocalQuorum), uint32(0x30), true, uint16(ConsLocalSerial), true, int64(1), false})

	r = mustDecode(t, hx(t, `05 10 0007 0d 0000001b | 02 0001
		01 0001 aa 0000
		000a 000000a0 0000000000000002 0002 'ks'`), nil)
	eq(t, "v5 batch type", r.BatchType, byte(2))
	eq(t, "v5 batch entries", r.Batch, []BatchEntry{{Prepared: true, ID: []byte{0xaa}, Values: []Value{}}})
	eq(t, "v5 batch tail", []any{r.BatchConsistency, r.BatchFlags, r.BatchHasSerial, r.BatchHasTimestamp, r.BatchTimestamp, r.BatchHasKeyspace, r.BatchKeyspace},
		[]any{uint16(ConsLocalOne), uint32(0xa0), false, true, int64(2), true, "ks"})

	// v3: flags byte present, no optional fields; empty batch
	r = mustDecode(t, hx(t, "03 00 0007 0d 00000006 | 00 0000 0001 00"), nil)
	eq(t, "v3 empty batch", len(r.Batch), 0)
}

func TestCompressedRequests(t *testing.T) {
	body := hx(t, "0000000f 'SELECT * FROM t' 0001 00")
	for _, c := range []struct {
		name string
		enc  func([]byte) []byte
		dec  Decompressor
	}{
		{"snappy", SnappyEncodeLiteral, SnappyDecode},
		{"lz4", CassandraLZ4EncodeLiteral, CassandraLZ4Decode},
	} {
		frame := RawFrame(4, false, FlagCompression, 9, OpQuery, c.enc(body))
		r := mustDecode(t, frame, c.dec)
		eq(t, c.name+" body", r.Body, body)
		eq(t, c.name+" flags", r.Header.Flags, byte(FlagCompression))
		eq(t, c.name+" query", r.Query, "SELECT * FROM t")
		if _, err := DecodeRequest(frame, nil); err == nil {
			t.Errorf("%s: compressed frame accepted without a decompressor", c.name)
		}
		// compressed OPTIONS (empty body) is decoded when asked
		r = mustDecode(t, RawFrame(4, false, FlagCompression, 9, OpOptions, c.enc(nil)), c.dec)
		eq(t, c.name+" options body", len(r.Body), 0)
	}
	// hand-written snappy frame: preamble 0x16, one 22-byte literal (tag (22-1)<<2 = 0x54)
	frame := hx(t, "04 01 0009 07 00000018 | 16 54 0000000f 'SELECT * FROM t' 0001 00")
	eq(t, "literal snappy frame", mustDecode(t, frame, SnappyDecode).Query, "SELECT * FROM t")
	// hand-written lz4 frame: length 22, token 0xf0 + 07 (15+7 literals)
	frame = hx(t, "04 01 0009 07 0000001c | 00000016 f0 07 0000000f 'SELECT * FROM t' 0001 00")
	eq(t, "literal lz4 frame", mustDecode(t, frame, CassandraLZ4Decode).Query, "SELECT * FROM t")
	// garbage behind the compression flag is a decode error
	if _, err := DecodeRequest(hx(t, "04 01 0009 07 00000002 | 05 00"), SnappyDecode); err == nil {
		t.Error("corrupt snappy body accepted")
	}
}
