package cqlspec

import (
	"encoding/binary"
	"fmt"
	"math"
	"unicode/utf8"
)

// Reference value codecs (spec section "Data Type Serialization Formats"). Encoders
// panic only on input that has no wire representation (a programming error of the
// caller, documented on each function); decoders are strict and never panic.

func EncInt(v int32) []byte      { return binary.BigEndian.AppendUint32(nil, uint32(v)) }
func EncBigint(v int64) []byte   { return binary.BigEndian.AppendUint64(nil, uint64(v)) }
func EncSmallint(v int16) []byte { return binary.BigEndian.AppendUint16(nil, uint16(v)) }
func EncTinyint(v int8) []byte   { return []byte{byte(v)} }
func EncDouble(v float64) []byte { return EncBigint(int64(math.Float64bits(v))) }
func EncFloat(v float32) []byte  { return EncInt(int32(math.Float32bits(v))) }
func EncText(s string) []byte    { return []byte(s) }

// EncTimestamp encodes milliseconds since the epoch.
func EncTimestamp(ms int64) []byte { return EncBigint(ms) }

func EncBool(v bool) []byte {
	if v {
		return []byte{1}
	}
	return []byte{0}
}

// EncInet encodes a 4- or 16-byte address; it panics on any other length.
func EncInet(ip []byte) []byte {
	if len(ip) != 4 && len(ip) != 16 {
		panic(fmt.Sprintf("cqlspec.EncInet: address of %d bytes", len(ip)))
	}
	return append([]byte{}, ip...)
}

func fixed(b []byte, n int, typ string) error {
	if len(b) != n {
		return fmt.Errorf("%s value: want exactly %d bytes, have %d", typ, n, len(b))
	}
	return nil
}

func DecInt(b []byte) (int32, error) {
	if err := fixed(b, 4, "int"); err != nil {
		return 0, err
	}
	return int32(binary.BigEndian.Uint32(b)), nil
}

func DecBigint(b []byte) (int64, error) {
	if err := fixed(b, 8, "bigint"); err != nil {
		return 0, err
	}
	return int64(binary.BigEndian.Uint64(b)), nil
}

func DecSmallint(b []byte) (int16, error) {
	if err := fixed(b, 2, "smallint"); err != nil {
		return 0, err
	}
	return int16(binary.BigEndian.Uint16(b)), nil
}

func DecTinyint(b []byte) (int8, error) {
	if err := fixed(b, 1, "tinyint"); err != nil {
		return 0, err
	}
	return int8(b[0]), nil
}

// DecBool accepts exactly one byte which must be 0 or 1.
func DecBool(b []byte) (bool, error) {
	if err := fixed(b, 1, "boolean"); err != nil {
		return false, err
	}
	if b[0] > 1 {
		return false, fmt.Errorf("boolean value: byte 0x%02x is neither 0 nor 1", b[0])
	}
	return b[0] == 1, nil
}

func DecDouble(b []byte) (float64, error) {
	if err := fixed(b, 8, "double"); err != nil {
		return 0, err
	}
	return math.Float64frombits(binary.BigEndian.Uint64(b)), nil
}

func DecFloat(b []byte) (float32, error) {
	if err := fixed(b, 4, "float"); err != nil {
		return 0, err
	}
	return math.Float32frombits(binary.BigEndian.Uint32(b)), nil
}

func DecText(b []byte) (string, error) {
	if !utf8.Valid(b) {
		return "", fmt.Errorf("text value: invalid UTF-8 in %q", clip(b, 32))
	}
	return string(b), nil
}

// DecTimestamp returns milliseconds since the epoch.
func DecTimestamp(b []byte) (int64, error) {
	if err := fixed(b, 8, "timestamp"); err != nil {
		return 0, err
	}
	return int64(binary.BigEndian.Uint64(b)), nil
}

func DecInet(b []byte) ([]byte, error) {
	if len(b) != 4 && len(b) != 16 {
		return nil, fmt.Errorf("inet value: want 4 or 16 bytes, have %d", len(b))
	}
	return append([]byte{}, b...), nil
}

// ---------------------------------------------------------------------------------
// Collections, tuples, UDTs.

// encCells writes <n> followed by each cell with its length prefix. v1-2: [short]
// count and lengths (nulls and elements over 65535 bytes are not representable and
// panic); v3+: [int] count and lengths, -1 for null.
func encCells(version, n int, cells []Cell) []byte {
	w := &W{}
	if version <= 2 {
		if n > 0xffff {
			panic(fmt.Sprintf("cqlspec: collection of %d elements does not fit the v%d [short] count", n, version))
		}
		w.Short(uint16(n))
		for i, c := range cells {
			if c.Null || len(c.Bytes) > 0xffff {
				panic(fmt.Sprintf("cqlspec: collection element %d (null=%v, %d bytes) is not representable in v%d", i, c.Null, len(c.Bytes), version))
			}
			w.ShortBytes(c.Bytes)
		}
		return w.B
	}
	w.Int(int32(n))
	for _, c := range cells {
		w.Bytes(c.Bytes, c.Null)
	}
	return w.B
}

// EncList encodes a list or set value.
func EncList(version int, elems []Cell) []byte { return encCells(version, len(elems), elems) }

// EncMap encodes a map value from flattened k,v,k,v cells; it panics on an odd count.
func EncMap(version int, kv []Cell) []byte {
	if len(kv)%2 != 0 {
		panic(fmt.Sprintf("cqlspec.EncMap: odd number of cells (%d)", len(kv)))
	}
	return encCells(version, len(kv)/2, kv)
}

// EncTuple encodes a tuple or UDT value: each field <int len> bytes, -1 for null.
func EncTuple(elems []Cell) []byte {
	w := &W{}
	for _, c := range elems {
		w.Bytes(c.Bytes, c.Null)
	}
	return w.B
}

// decCells reads <n> and then n*per length-prefixed cells, consuming b exactly.
func decCells(version int, b []byte, per int, typ string) ([]Cell, error) {
	r := &reader{b: b, ctx: fmt.Sprintf("%s value (v%d)", typ, version)}
	var n int
	if version <= 2 {
		n = int(r.short("<n>"))
	} else {
		start := r.off
		if n = int(r.int4("<n>")); n < 0 {
			r.off = start
			r.failf("<n>", "negative element count %d", n)
		}
	}
	if r.err != nil {
		return nil, r.err
	}
	minLen := 4
	if version <= 2 {
		minLen = 2
	}
	if n*per > r.left()/minLen {
		r.failf("<n>", "%d elements announced but only %d bytes follow", n, r.left())
		return nil, r.err
	}
	cells := make([]Cell, 0, n*per)
	for i := 0; i < n*per && r.err == nil; i++ {
		cells = append(cells, r.cell(fmt.Sprintf("element %d", i), version <= 2))
	}
	r.end()
	if r.err != nil {
		return nil, r.err
	}
	return cells, nil
}

// cell reads one length-prefixed element: [short bytes] or [bytes] with -1 = null.
func (r *reader) cell(what string, shortLen bool) Cell {
	if shortLen {
		return Cell{Bytes: r.shortBytes(what)}
	}
	b, null := r.bytes(what)
	return Cell{Null: null, Bytes: b}
}

// DecList decodes a list or set value.
func DecList(version int, b []byte) ([]Cell, error) { return decCells(version, b, 1, "list/set") }

// DecMap decodes a map value into flattened k,v,k,v cells.
func DecMap(version int, b []byte) ([]Cell, error) { return decCells(version, b, 2, "map") }

// DecTuple decodes a tuple or UDT value of exactly n fields, consuming b exactly.
// With n < 0 it decodes as many fields as b holds.
func DecTuple(b []byte, n int) ([]Cell, error) {
	r := &reader{b: b, ctx: "tuple/udt value"}
	var cells []Cell
	for i := 0; (n < 0 && r.left() > 0 || i < n) && r.err == nil; i++ {
		cells = append(cells, r.cell(fmt.Sprintf("field %d", i), false))
	}
	r.end()
	if r.err != nil {
		return nil, r.err
	}
	return cells, nil
}
