package scen

import (
	"errors"
	"fmt"
	"net"
	"runtime"
	"sort"
	"strconv"
	"strings"
	"sync"
	"sync/atomic"

	"github.com/gocql/gocql"
	"github.com/gocql/gocql/internal/murmur"
	"github.com/gocql/gocql/verifsim/kernel"
)

// Scenario pick (C11): a generated history of AddHost / RemoveHost / HostUp / HostDown /
// KeyspaceChanged notifications is applied to a real host selection policy exactly as
// the Session applies them (state change first, then the notification) and to a plain
// host-set model; Pick is iterated to exhaustion between the notifications and the
// offered sequence is compared with what the model allows. No Session and no network is
// needed: the token-aware policy gets its keyspace metadata from a stub, as in the
// package's own unit tests. An optional second phase races Pick iterations against
// mutations under the kernel's scheduler (safety only).
//
// History independence (token-aware policies): at tape-chosen points of the history and
// always at its end a FRESH policy of the same kind and options is fed the current host
// set through the calls Session.init makes, and both policies are picked with routing
// keys on both sides of every token range boundary: the replicas-first prefix and the
// remaining hosts must be the same sets (see historyCheck). Parallel rounds (token-aware
// policies): with GOMAXPROCS > 1 routed picks run truly concurrently with a mutating
// goroutine behind a spin barrier (see parallelRound); safety only.
//
// Extras (token-aware policies, tape-chosen; see pkModel.extras): keyspaces other than the
// session's exist from the start and a schema event for one of them arrives right before
// a comparison, so that its replicas are as current as the session keyspace's: it is then
// also compared with the fresh policy of a session whose OWN keyspace it is (a reference
// that does not go through KeyspaceChanged for a foreign keyspace). And windows of 1-6
// state changes in which the metadata of one keyspace or of all cannot be read (the
// schema source fails with a connection error, not with "no such keyspace"): the
// reference policy cannot read a keyspace either whose last recomputation on the policy
// under test fell into such a window; a policy that then keeps the replication it read
// before is accepted as long as it applies it to the hosts it knows now; a host that was
// removed is never offered for a keyspace whose replicas were recomputed since.

func init() {
	register(&Scenario{
		Name:       "pick",
		Properties: []string{"C11"},
		Run:        runPick,
		Real: []string{
			"RoundRobinHostPolicy, DCAwareRoundRobinPolicy, RackAwareRoundRobinPolicy, TokenAwareHostPolicy (policies.go, real code)",
			"token ring and replica placement (token.go, topology.go: SimpleStrategy, NetworkTopologyStrategy)",
			"HostInfo state, Query routing key / keyspace accessors",
		},
		Stub: []string{
			"Session (the history calls the policy the way session.go/events.go do: setState then HostUp/HostDown, AddHost(s), RemoveHost, KeyspaceChanged)",
			"keyspace metadata source (tokenAwareHostPolicy.getKeyspaceMetadata / getKeyspaceName, set through the verif shim)",
		},
		Rule: "one run = one tape-chosen case: policy kind (round-robin | dc-aware | rack-aware | token-aware over one of these x ShuffleReplicas x NonLocalReplicasFallback), 1-3 datacenters x 1-3 racks, 1-8 initial hosts with 1-8 Murmur3 vnode tokens each, keyspace replication (SimpleStrategy rf 1-3 | NetworkTopologyStrategy rf 0-3 per existing dc | none), (token-aware: optionally one token per host instead of vnodes; NetworkTopologyStrategy rf up to 5, i.e. above the number of racks), then a history of 5-30 operations (pick sequences with/without routing key, rotation bursts, host down/up, node-up event, add host, remove host, keyspace change, host replaced by a new one in the same rack with the same or new tokens, keyspace altered and altered back); token-aware: after tape-chosen changes of the host set or the schema and at the end of the history a fresh policy fed the current host set must offer the same replica prefix and the same remaining hosts for keys on both sides of every token range boundary; then optionally 2-4 parallel rounds (1-3 goroutines walking routed picks while one goroutine applies 3-16 state changes, really concurrent when GOMAXPROCS > 1, interleaved per operation otherwise; safety only, then a checked pick and a history check); token-aware extras (tape-chosen, 6 runs in 12): other keyspaces created and announced at the start, a KeyspaceChanged for a keyspace other than the session's right before 2 comparisons in 3 (1 in 3 of them altering it) and that keyspace compared also with the fresh policy of a session in it, operations of the kind: the metadata of ks | ks2 | every keyspace cannot be read (connection error) during the next 1-6 state changes; with a comparison after every ring or schema change while such a window is open or a keyspace was recomputed inside one; optionally followed by a scheduled phase (1-3 picking tasks, one NextHost call per step, against one mutating task); distinct = distinct canonical-log fingerprint; non-trivial = at least one pick sequence was iterated to exhaustion and checked while the policy knew >= 2 hosts (ops_done counts exactly those) and at least one state-changing operation was applied (counted as history.* faults)",
	})
}

const (
	pkRR = iota
	pkDC
	pkRack
	pkTA
)

var pkKindName = []string{"round-robin", "dc-aware", "rack-aware", "token-aware"}

const pkPartitioner = "org.apache.cassandra.dht.Murmur3Partitioner"

// pkHost is the model's view of one host.
type pkHost struct {
	idx      int
	id       string
	addr     net.IP
	dc, rack string
	tokens   []string
	cells    []int // tokens as cell numbers 0..4095 (token = (cell-2048)<<52 + cell)
	info     *gocql.HostInfo
	known    bool // the policy was told about it (AddHost) and not told to forget it (RemoveHost)
	up       bool // state as last set on the HostInfo
}

// pkSpec is a keyspace's replication as the schema reports it.
type pkSpec struct {
	class    string // SimpleStrategy | NetworkTopologyStrategy | LocalStrategy
	rf       int
	dcs      map[string]int
	asString bool // option values are strings (as read from the schema tables) instead of ints
}

func (s *pkSpec) String() string {
	if s == nil {
		return "unknown"
	}
	switch s.class {
	case "SimpleStrategy":
		return fmt.Sprintf("simple(%d)", s.rf)
	case "NetworkTopologyStrategy":
		var parts []string
		for _, dc := range sortedKeys(s.dcs) {
			parts = append(parts, fmt.Sprintf("%s:%d", dc, s.dcs[dc]))
		}
		return "nts(" + strings.Join(parts, ",") + ")"
	}
	return "local"
}

func sortedKeys(m map[string]int) []string {
	out := make([]string, 0, len(m))
	for k := range m {
		out = append(out, k)
	}
	sort.Strings(out)
	return out
}

func (s *pkSpec) clone() *pkSpec {
	if s == nil {
		return nil
	}
	c := *s
	if s.dcs != nil {
		c.dcs = make(map[string]int, len(s.dcs))
		for k, v := range s.dcs {
			c.dcs[k] = v
		}
	}
	return &c
}

func (s *pkSpec) meta(name string) *gocql.KeyspaceMetadata {
	val := func(n int) interface{} {
		if s.asString {
			return fmt.Sprint(n)
		}
		return n
	}
	opts := map[string]interface{}{"class": "org.apache.cassandra.locator." + s.class}
	switch s.class {
	case "SimpleStrategy":
		opts["replication_factor"] = val(s.rf)
	case "NetworkTopologyStrategy":
		for dc, rf := range s.dcs {
			opts[dc] = val(rf)
		}
	}
	return &gocql.KeyspaceMetadata{Name: name, StrategyClass: "org.apache.cassandra.locator." + s.class, StrategyOptions: opts}
}

type pkCfg struct {
	kind               int // pkRR..pkTA
	fb                 int // fallback kind of the token-aware policy
	shuffle, nonLocal  bool
	localDC, localRack string
	dcs                []string
	racks              map[string][]string
	sessionKS          string
	singleToken        bool // every host owns one token (no vnodes)
}

func (c *pkCfg) tierKind() int {
	if c.kind == pkTA {
		return c.fb
	}
	return c.kind
}

func (c *pkCfg) maxTier() int { return []int{0, 1, 2}[c.tierKind()] }

// tier is the distance class the property speaks of, derived from the configuration
// only: round-robin has one tier; dc-aware: local dc, other; rack-aware: local rack,
// rest of the local dc, other.
func (c *pkCfg) tier(h *pkHost) int {
	switch c.tierKind() {
	case pkDC:
		if h.dc == c.localDC {
			return 0
		}
		return 1
	case pkRack:
		if h.dc != c.localDC {
			return 2
		}
		if h.rack == c.localRack {
			return 0
		}
		return 1
	}
	return 0
}

func (c *pkCfg) String() string {
	s := pkKindName[c.kind]
	if c.kind == pkTA {
		s += "/" + pkKindName[c.fb]
		if c.shuffle {
			s += "+shuffle"
		}
		if c.nonLocal {
			s += "+nonlocal"
		}
	}
	if c.tierKind() >= pkDC {
		s += " local=" + c.localDC
	}
	if c.tierKind() == pkRack {
		s += "/" + c.localRack
	}
	return s
}

// pkModel is the reference model: the host set and the schema the policy was told about.
type pkModel struct {
	cfg     *pkCfg
	hosts   []*pkHost
	specs   map[string]*pkSpec
	usedTok map[int]bool
	ready   bool // the schema source answers (false while the initial hosts are added in unit-test order)

	// extras: the run also has keyspaces other than the session's from the start, schema
	// events for them right before comparisons, and windows in which keyspace metadata
	// cannot be read (all of it tape-chosen; false = the runs the scenario always had)
	extras bool
	// unread: keyspace (or "*" = every keyspace) -> number of history operations for which
	// its metadata still cannot be read (the schema query fails with a connection error)
	unread map[string]int
}

// errPkUnreadable is what the schema source answers while a keyspace cannot be read: an
// error that says nothing about the keyspace (it is not ErrKeyspaceDoesNotExist).
var errPkUnreadable = fmt.Errorf("error querying keyspace schema: %w", gocql.ErrNoConnections)

// unreadable: Session.KeyspaceMetadata answers for the empty name without a query.
func (m *pkModel) unreadable(name string) bool {
	return name != "" && (m.unread[name] > 0 || m.unread["*"] > 0)
}

func (m *pkModel) anyUnread() bool {
	for _, n := range m.unread {
		if n > 0 {
			return true
		}
	}
	return false
}

func (m *pkModel) clone() *pkModel {
	c := &pkModel{cfg: m.cfg, specs: map[string]*pkSpec{}, usedTok: map[int]bool{}, ready: m.ready, extras: m.extras, unread: map[string]int{}}
	for k, v := range m.unread {
		c.unread[k] = v
	}
	for _, h := range m.hosts {
		hc := *h
		c.hosts = append(c.hosts, &hc)
	}
	for k, v := range m.specs {
		c.specs[k] = v.clone()
	}
	for k := range m.usedTok {
		c.usedTok[k] = true
	}
	return c
}

func (m *pkModel) sel(f func(h *pkHost) bool) []*pkHost {
	var out []*pkHost
	for _, h := range m.hosts {
		if f(h) {
			out = append(out, h)
		}
	}
	return out
}

func (m *pkModel) known() []*pkHost { return m.sel(func(h *pkHost) bool { return h.known }) }

func (m *pkModel) existingDCs() []string {
	set := map[string]int{}
	for _, h := range m.known() {
		set[h.dc]++
	}
	return sortedKeys(set)
}

func (m *pkModel) byInfo(hi *gocql.HostInfo) *pkHost {
	for _, h := range m.hosts {
		if h.info == hi {
			return h
		}
	}
	return nil
}

func (m *pkModel) byID(id string) *pkHost {
	for _, h := range m.hosts {
		if h.id == id {
			return h
		}
	}
	return nil
}

func (m *pkModel) metaFn(name string) (*gocql.KeyspaceMetadata, error) {
	if !m.ready {
		return nil, errors.New("not initialized")
	}
	if m.unreadable(name) {
		return nil, errPkUnreadable
	}
	return pkReadSpec(m.specs[name], name)
}

func pkReadSpec(s *pkSpec, name string) (*gocql.KeyspaceMetadata, error) {
	if s == nil {
		return nil, gocql.ErrKeyspaceDoesNotExist
	}
	return s.meta(name), nil
}

// ---------------------------------------------------------------------------------
// generation (root goroutine only)

func (m *pkModel) genHost(tp *kernel.Tape, allowDown bool) *pkHost {
	c := m.cfg
	idx := len(m.hosts)
	h := &pkHost{idx: idx, id: fmt.Sprintf("h%02d", idx), addr: net.IPv4(10, 0, byte(idx/200), byte(idx%200+1))}
	h.dc = c.dcs[tp.Next(len(c.dcs))]
	h.rack = c.racks[h.dc][tp.Next(len(c.racks[h.dc]))]
	m.genTokens(tp, h)
	h.up = !(allowDown && tp.Chance(1, 6))
	h.info = gocql.VerifNewHost(h.id, h.addr, 9042, h.dc, h.rack, h.tokens, h.up)
	return h
}

func (m *pkModel) genTokens(tp *kernel.Tape, h *pkHost) {
	nt := 1
	if !m.cfg.singleToken {
		nt = tp.Range(1, 8)
	}
	for i := 0; i < nt; i++ {
		v := tp.Next(4096)
		for m.usedTok[v] {
			v = (v + 1) % 4096
		}
		m.usedTok[v] = true
		h.cells = append(h.cells, v)
		h.tokens = append(h.tokens, pkTokenOfCell(v))
	}
}

func pkTokenOfCell(v int) string { return fmt.Sprint(int64(v-2048)<<52 + int64(v)) }

// genHostLike draws the host that replaces old: same datacenter and rack, and either the
// tokens of old (the replace-node procedure) or tokens of its own.
func (m *pkModel) genHostLike(tp *kernel.Tape, old *pkHost) *pkHost {
	idx := len(m.hosts)
	h := &pkHost{idx: idx, id: fmt.Sprintf("h%02d", idx), addr: net.IPv4(10, 0, byte(idx/200), byte(idx%200+1)), dc: old.dc, rack: old.rack}
	if tp.Chance(1, 2) {
		m.genTokens(tp, h)
	} else {
		h.cells = append(h.cells, old.cells...)
		h.tokens = append(h.tokens, old.tokens...)
	}
	h.up = !tp.Chance(1, 6)
	h.info = gocql.VerifNewHost(h.id, h.addr, 9042, h.dc, h.rack, h.tokens, h.up)
	return h
}

// pkCellKey returns a 4-byte routing key whose Murmur3 token lies in cell c of the 4096
// equal cells of the token space, above the one token a host can own in that cell: the
// key belongs to the range that ends at the first host token in a later cell.
func pkCellKey(c int) []byte {
	pkCellOnce.Do(func() {
		for i, filled := uint32(0), 0; filled < 4096; i++ {
			key := []byte{byte(i >> 24), byte(i >> 16), byte(i >> 8), byte(i)}
			t := murmur.Murmur3H1(key)
			if t&(1<<52-1) < 4096 {
				continue
			}
			if cell := int(t>>52) + 2048; pkCellKeys[cell] == nil {
				pkCellKeys[cell] = key
				filled++
			}
		}
	})
	return pkCellKeys[c]
}

var (
	pkCellKeys [4096][]byte
	pkCellOnce sync.Once
)

func (m *pkModel) genSpec(tp *kernel.Tape) *pkSpec {
	dcs := m.existingDCs()
	ws := []int{3, 3, 1, 1}
	if len(dcs) == 0 {
		ws[1] = 0
	}
	switch tp.Weighted(ws) {
	case 0:
		return &pkSpec{class: "SimpleStrategy", rf: tp.Range(1, 3), asString: tp.Chance(1, 2)}
	case 1:
		s := &pkSpec{class: "NetworkTopologyStrategy", dcs: map[string]int{}}
		for _, dc := range dcs {
			if tp.Chance(1, 5) {
				continue // not named
			}
			s.dcs[dc] = []int{1, 2, 3, 0, 4, 5}[tp.Next(6)]
		}
		s.asString = tp.Chance(1, 2)
		return s
	case 2:
		return &pkSpec{class: "LocalStrategy"}
	}
	return nil // keyspace unknown to the schema source
}

type pkQuery struct {
	form int // 0 nil query, 1 query without routing key, 2 query with routing key
	ks   string
	key  []byte
}

func (q pkQuery) String() string {
	switch q.form {
	case 0:
		return "nil"
	case 1:
		return "nokey/" + q.ks
	}
	return fmt.Sprintf("key:%x/%s", q.key, q.ks)
}

func (m *pkModel) genQuery(tp *kernel.Tape) pkQuery {
	ws := []int{2, 1, 1}
	if m.cfg.kind == pkTA {
		ws = []int{1, 1, 5}
	}
	q := pkQuery{form: tp.Weighted(ws)}
	if q.form > 0 {
		ws := []int{5, 2, 1}
		if m.extras {
			ws = []int{3, 4, 1} // the other keyspace exists: route for it as often as for the session's
		}
		q.ks = []string{"ks", "ks2", "nope"}[tp.Weighted(ws)]
	}
	if q.form == 2 {
		n := tp.Range(1, 4)
		for i := 0; i < n; i++ {
			q.key = append(q.key, byte(tp.Next(256)))
		}
	}
	return q
}

const (
	opPick = iota
	opDown
	opUp
	opNodeUp
	opAdd
	opRemove
	opKS
	opBurst
	opUpMany
	opReplace // a host leaves and a new one joins in its place
	opKSFlip  // a keyspace's replication is altered and altered back
	// opMetaDown: the metadata of a keyspace (or of all) cannot be read for the next n
	// state-changing operations (extras only)
	opMetaDown
)

type pkKS struct {
	name string
	spec *pkSpec
}

type pkOp struct {
	kind    int
	hosts   []int // opUpMany: indexes into model.hosts
	host    int   // index into model.hosts
	newHost *pkHost
	fixes   []pkKS // keyspace alterations that precede a removal (see genOp)
	ks      pkKS
	ksBack  *pkSpec // opKSFlip: the replication the keyspace returns to
	picks   []pkQuery
	n       int // opMetaDown: length of the window, in state-changing operations
}

// genOp draws one operation that is valid in the model's current state. mutOnly
// restricts the menu to state changes (for the scheduled phase).
func (m *pkModel) genOp(tp *kernel.Tape, noFaults, mutOnly bool) pkOp {
	known := m.known()
	var ups, downs []*pkHost
	for _, h := range known {
		if h.up {
			ups = append(ups, h)
		} else {
			downs = append(downs, h)
		}
	}
	ws := []int{6, 3, 3, 1, 2, 1, 1, 1, 0, 1, 1, 0}
	if m.extras && !noFaults {
		ws[opMetaDown] = 2
	}
	if len(downs) >= 2 && !noFaults {
		ws[opUpMany] = 2
	}
	if len(known) == 0 || noFaults {
		ws[opReplace] = 0
	}
	if len(ups) == 0 {
		ws[opDown] = 0
	}
	if len(downs) == 0 {
		ws[opUp], ws[opNodeUp] = 0, 0
	}
	if len(known) >= 10 {
		ws[opAdd] = 0
	}
	if len(known) == 0 {
		ws[opRemove] = 0
	}
	if noFaults {
		ws[opDown], ws[opUp], ws[opNodeUp], ws[opRemove] = 0, 0, 0, 0
	}
	if mutOnly {
		ws[opPick], ws[opBurst] = 0, 0
	}
	op := pkOp{kind: tp.Weighted(ws)}
	switch op.kind {
	case opPick:
		n := tp.Range(1, 3)
		for i := 0; i < n; i++ {
			op.picks = append(op.picks, m.genQuery(tp))
		}
	case opDown:
		op.host = ups[tp.Next(len(ups))].idx
	case opUp, opNodeUp:
		op.host = downs[tp.Next(len(downs))].idx
	case opUpMany:
		// several pools report their host connected at the same moment (the session runs
		// handleNodeConnected on one goroutine per pool)
		n := 2 + tp.Next(2)
		first := tp.Next(len(downs))
		for i := 0; i < n && i < len(downs); i++ {
			op.hosts = append(op.hosts, downs[(first+i)%len(downs)].idx)
		}
	case opAdd:
		op.newHost = m.genHost(tp, true)
	case opRemove:
		h := known[tp.Next(len(known))]
		op.host = h.idx
		op.fixes = m.removalFixes(h)
	case opReplace:
		h := known[tp.Next(len(known))]
		op.host = h.idx
		op.fixes = m.removalFixes(h)
		op.newHost = m.genHostLike(tp, h)
	case opKS:
		op.ks.name = []string{"ks", "ks2"}[tp.Weighted([]int{2, 1})]
		op.ks.spec = m.genSpec(tp)
	case opKSFlip:
		op.ks.name = []string{"ks", "ks2"}[tp.Weighted([]int{2, 1})]
		op.ks.spec = m.genSpec(tp)
		op.ksBack = m.specs[op.ks.name].clone()
	case opMetaDown:
		op.ks.name = []string{"ks", "ks2", "*"}[tp.Weighted([]int{2, 1, 2})]
		op.n = tp.Range(1, 6)
	}
	return op
}

// removalFixes: generator constraint (DESIGN §3 C11): a NetworkTopologyStrategy keyspace
// names only datacenters that have nodes. When the last node of a datacenter goes, the
// keyspaces naming it are altered first (ALTER KEYSPACE, then decommission).
func (m *pkModel) removalFixes(h *pkHost) (fixes []pkKS) {
	for _, o := range m.known() {
		if o.idx != h.idx && o.dc == h.dc {
			return nil
		}
	}
	var names []string
	for n := range m.specs {
		names = append(names, n)
	}
	sort.Strings(names)
	for _, n := range names {
		s := m.specs[n]
		if s == nil || s.class != "NetworkTopologyStrategy" {
			continue
		}
		if _, named := s.dcs[h.dc]; named {
			ns := s.clone()
			delete(ns.dcs, h.dc)
			fixes = append(fixes, pkKS{n, ns})
		}
	}
	return fixes
}

// applyModel feeds the operation to the model.
func (m *pkModel) applyModel(op pkOp) {
	switch op.kind {
	case opDown:
		m.hosts[op.host].up = false
	case opUp:
		m.hosts[op.host].up = true
	case opUpMany:
		for _, i := range op.hosts {
			m.hosts[i].up = true
		}
	case opAdd:
		h := *op.newHost
		h.known = true
		m.hosts = append(m.hosts, &h)
	case opRemove:
		for _, f := range op.fixes {
			m.specs[f.name] = f.spec
		}
		m.hosts[op.host].known = false
	case opReplace:
		for _, f := range op.fixes {
			m.specs[f.name] = f.spec
		}
		m.hosts[op.host].known = false
		h := *op.newHost
		h.known = true
		m.hosts = append(m.hosts, &h)
	case opKS:
		m.specs[op.ks.name] = op.ks.spec
	case opKSFlip:
		m.specs[op.ks.name] = op.ksBack
	}
}

// ---------------------------------------------------------------------------------
// the run

type pkRun struct {
	e   *Env
	k   *kernel.Kernel
	m   *pkModel
	cfg *pkCfg
	pol gocql.HostSelectionPolicy
	seq int // record number: keeps the log of the sequential part in program order

	inBurst bool

	// what the history told the policy under test (see historyCheck)
	partSet     bool            // SetPartitioner was called
	ksAnnounced map[string]bool // KeyspaceChanged(keyspace) was called at least once
	ksCurrent   map[string]bool // ... and the set of known hosts has not changed since
	lastOp      string          // the last state-changing operation, for messages
	histMode    int             // 0 check at the end only, 1 after some state changes, 2 after every one

	// keyspace metadata that cannot be read (extras). The policy recomputes the replicas of
	// a keyspace on KeyspaceChanged for it and, for the session keyspace, on every change
	// of the host set: an attempt.
	ksStale     map[string]bool    // the last attempt for the keyspace found its metadata unreadable
	ksRecovered map[string]bool    // ... and a later attempt could read it again
	ksRingMoved map[string]bool    // the host set changed while the keyspace was in ksStale
	seenSpec    map[string]*pkSpec // the replication the last attempt that could read the keyspace saw (nil = no such keyspace)
}

// announced notes a KeyspaceChanged call on the policy under test.
func (r *pkRun) announced(ks string) {
	r.ksAnnounced[ks] = true
	r.ksCurrent[ks] = true
	r.attempt(ks)
}

// attempt notes that the policy under test was just made to recompute the replicas of ks,
// with the schema source in the state the model is in.
func (r *pkRun) attempt(ks string) {
	if r.cfg.kind != pkTA {
		return
	}
	if r.m.unreadable(ks) {
		r.ksStale[ks] = true
		delete(r.ksRecovered, ks)
		r.k.Probe("replicas-recomputed-while-metadata-unreadable")
		return
	}
	if r.ksStale[ks] {
		delete(r.ksStale, ks)
		delete(r.ksRingMoved, ks)
		r.ksRecovered[ks] = true
		r.k.Probe("replicas-recomputed-after-metadata-readable-again")
	}
	r.seenSpec[ks] = r.m.specs[ks].clone()
}

// refMeta is the schema source of a reference policy: a keyspace whose last attempt on the
// policy under test failed because its metadata could not be read cannot be read by the
// reference either (whatever the schema source says at this moment); every other keyspace
// can. With asSeen the unreadable ones answer instead what the policy under test last
// managed to read.
func (r *pkRun) refMeta(asSeen bool) func(string) (*gocql.KeyspaceMetadata, error) {
	return func(name string) (*gocql.KeyspaceMetadata, error) {
		if r.ksStale[name] {
			if asSeen {
				return pkReadSpec(r.seenSpec[name], name)
			}
			return nil, errPkUnreadable
		}
		return pkReadSpec(r.m.specs[name], name)
	}
}

// ringChanged notes that the set of known hosts changed: only the session keyspace's
// replicas are recomputed then (tokenAwareHostPolicy.AddHost/RemoveHost), the others
// stay as they were until their next KeyspaceChanged.
func (r *pkRun) ringChanged() {
	for ks := range r.ksCurrent {
		delete(r.ksCurrent, ks)
	}
	r.attempt(r.cfg.sessionKS)
	for ks := range r.ksStale {
		r.ksRingMoved[ks] = true
	}
}

func (r *pkRun) rec(format string, args ...interface{}) {
	r.seq++
	r.k.Rec("%03d "+format, append([]interface{}{r.seq}, args...)...)
}

// guard runs one driver call; a panic becomes a violation whose signature names the
// driver function that panicked.
func (r *pkRun) guard(what string, fn func()) (ok bool) {
	defer func() {
		if p := recover(); p != nil {
			frames := pkDriverFrames()
			top := "?"
			if len(frames) > 0 {
				top = frames[0]
			}
			if len(frames) > 6 {
				frames = frames[:6]
			}
			r.k.Violate("C11", "C11/panic:"+top, "%s panicked: %v; driver frames: %s; policy %s", what, p, strings.Join(frames, " <- "), r.cfg)
			ok = false
		}
	}()
	fn()
	return true
}

func pkDriverFrames() []string {
	pcs := make([]uintptr, 64)
	n := runtime.Callers(2, pcs)
	frames := runtime.CallersFrames(pcs[:n])
	var out []string
	for {
		f, more := frames.Next()
		const pfx = "github.com/gocql/gocql."
		if strings.HasPrefix(f.Function, pfx) {
			out = append(out, strings.TrimPrefix(f.Function, pfx))
		}
		if !more {
			break
		}
	}
	return out
}

func runPick(e *Env) {
	k := e.K
	tp := k.Tape
	cfg := &pkCfg{racks: map[string][]string{}}
	cfg.kind = tp.Weighted([]int{1, 1, 1, 4})
	if cfg.kind == pkTA {
		cfg.fb = tp.Next(3)
		cfg.shuffle = tp.Chance(1, 3)
		cfg.nonLocal = tp.Chance(1, 2)
		cfg.singleToken = tp.Chance(1, 4)
	}
	nDC := tp.Range(1, 3)
	for i := 0; i < nDC; i++ {
		dc := fmt.Sprintf("dc%d", i+1)
		cfg.dcs = append(cfg.dcs, dc)
		nr := tp.Range(1, 3)
		for j := 0; j < nr; j++ {
			cfg.racks[dc] = append(cfg.racks[dc], fmt.Sprintf("r%d", j+1))
		}
	}
	cfg.localDC = cfg.dcs[tp.Next(nDC)]
	cfg.localRack = cfg.racks[cfg.localDC][tp.Next(len(cfg.racks[cfg.localDC]))]
	if tp.Chance(1, 16) {
		cfg.localDC = "dc9" // the application names a datacenter that has no nodes
	} else if tp.Chance(1, 16) {
		cfg.localRack = "r9"
	}
	cfg.sessionKS = "ks"
	if tp.Chance(1, 4) {
		cfg.sessionKS = "" // no default keyspace: replicas are computed on KeyspaceChanged only
	}
	m := &pkModel{cfg: cfg, specs: map[string]*pkSpec{}, usedTok: map[int]bool{}}
	r := &pkRun{e: e, k: k, m: m, cfg: cfg, ksAnnounced: map[string]bool{}, ksCurrent: map[string]bool{}, lastOp: "initial population",
		ksStale: map[string]bool{}, ksRecovered: map[string]bool{}, ksRingMoved: map[string]bool{}, seenSpec: map[string]*pkSpec{}}
	m.unread = map[string]int{}

	switch cfg.kind {
	case pkTA:
		r.pol = pkTokenAware(pkFallback(cfg, cfg.fb), cfg.shuffle, cfg.nonLocal)
		gocql.VerifTokenAwareWire(r.pol, func() string { return cfg.sessionKS }, m.metaFn)
	default:
		r.pol = pkFallback(cfg, cfg.kind)
	}
	e.Note("policy", cfg.String())
	e.Note("dcs", fmt.Sprint(cfg.racks))
	if cfg.singleToken {
		e.Note("tokens", "single")
	}
	if tp.Chance(1, 5) {
		// a session that has been picking hosts for a long time: the counter behind the
		// rotation is about to pass a power of two (2^31 is where a 32-bit int overflows,
		// 2^63 where a 64-bit one does)
		v := []uint64{1<<31 - 3, 1<<32 - 3, 1<<63 - 3, 1<<64 - 3, 1<<63 + 5, 1<<31 + 1<<62}[tp.Next(6)]
		if gocql.VerifSetPickCounter(r.pol, v) {
			k.Fault("history.many-picks-before")
			e.Note("picksBefore", fmt.Sprintf("%#x", v))
		}
	}

	// ---- initial population ----
	n0 := tp.Range(1, 8)
	for i := 0; i < n0; i++ {
		h := m.genHost(tp, true)
		h.known = true
		m.hosts = append(m.hosts, h)
	}
	m.specs["ks"] = m.genSpec(tp)
	order := tp.Weighted([]int{10, 5, 1}) // 0 session order, 1 unit-test order, 2 partitioner never set
	e.Note("init_order", order)
	e.Note("hosts0", n0)
	e.Note("ks", m.specs["ks"].String())
	r.rec("policy %s sessionKS=%q init-order=%d ks=%s", cfg, cfg.sessionKS, order, m.specs["ks"])
	for _, h := range m.hosts {
		r.rec("host %s %s/%s up=%v tokens=%s", h.id, h.dc, h.rack, h.up, strings.Join(h.tokens, ","))
	}
	var infos []*gocql.HostInfo
	for _, h := range m.hosts {
		infos = append(infos, h.info)
	}
	ok := r.guard("initial population", func() {
		switch order {
		case 0, 2: // Session.init: partitioner, AddHosts (bulk if supported), connected -> HostUp, KeyspaceChanged
			m.ready = true
			if order == 0 {
				r.pol.SetPartitioner(pkPartitioner)
				r.partSet = true
			}
			if bulk, isBulk := r.pol.(interface{ AddHosts([]*gocql.HostInfo) }); isBulk {
				bulk.AddHosts(infos)
			} else {
				for _, hi := range infos {
					r.pol.AddHost(hi)
				}
			}
			for _, h := range m.hosts {
				if h.up {
					h.info.VerifSetState(true)
					r.pol.HostUp(h.info)
				}
			}
			if cfg.sessionKS != "" {
				r.pol.KeyspaceChanged(gocql.KeyspaceUpdateEvent{Keyspace: cfg.sessionKS})
				r.announced(cfg.sessionKS)
			}
		case 1: // policies_test.go: hosts first, then the partitioner, then the schema
			for _, hi := range infos {
				r.pol.AddHost(hi)
			}
			r.pol.SetPartitioner(pkPartitioner)
			r.partSet = true
			m.ready = true
			r.pol.KeyspaceChanged(gocql.KeyspaceUpdateEvent{Keyspace: "ks"})
			r.announced("ks")
		}
	})
	if !ok {
		return
	}

	// ---- sequential history ----
	if cfg.kind == pkTA {
		// values 3..5: the same three modes with the extras (see pkModel.extras)
		r.histMode = tp.Weighted([]int{3, 2, 1, 2, 2, 2})
		if r.histMode >= 3 {
			r.histMode -= 3
			m.extras = true
			e.Note("extras", true)
		}
		e.Note("hist_mode", r.histMode)
	}
	if m.extras {
		// the cluster has keyspaces besides the session's, and the schema events that
		// announced them (CREATE KEYSPACE) have arrived
		for _, ks := range []string{"ks2", "ks"} {
			if ks == cfg.sessionKS || !tp.Chance(3, 4) {
				continue
			}
			op := pkOp{kind: opKS, ks: pkKS{ks, m.specs[ks]}}
			if ks == "ks2" {
				op.ks.spec = m.genSpec(tp)
			}
			if !r.apply(op, "") {
				return
			}
			m.applyModel(op)
		}
	}
	nOps := tp.Range(5, 30)
	e.Note("ops", nOps)
	for i := 0; i < nOps; i++ {
		op := m.genOp(tp, e.NoFaults, false)
		if !r.apply(op, "") {
			return
		}
		m.applyModel(op)
		// (host up/down reach the fallback policy only: they are seen by the next check)
		ringOrSchema := op.kind == opAdd || op.kind == opRemove || op.kind == opReplace || op.kind == opKS || op.kind == opKSFlip || op.kind == opNodeUp
		check := ringOrSchema && (r.histMode == 2 || r.histMode == 1 && tp.Chance(1, 3))
		if ringOrSchema && (m.anyUnread() || len(r.ksStale) > 0) {
			check = true // while and right after a window in which metadata cannot be read: every time
		}
		if check {
			if !r.historyCheck(true) {
				return
			}
		}
	}
	// every history ends with a checked pick so the last state change is observed
	if !r.apply(pkOp{kind: opPick, picks: []pkQuery{m.genQuery(tp)}}, "") {
		return
	}
	if !r.historyCheck(false) {
		return
	}

	// ---- parallel rounds ----
	if cfg.kind == pkTA {
		if rounds := []int{0, 2, 3, 4}[tp.Weighted([]int{5, 1, 1, 1})]; rounds > 0 {
			k.Probe("parallel-phase")
			for i := 0; i < rounds; i++ {
				if !r.parallelRound(i, i == rounds-1) {
					return
				}
			}
		}
	}

	// ---- scheduled phase ----
	if tp.Chance(1, 3) {
		r.concurrent()
	}
}

func pkTokenAware(fb gocql.HostSelectionPolicy, shuffle, nonLocal bool) gocql.HostSelectionPolicy {
	switch {
	case shuffle && nonLocal:
		return gocql.TokenAwareHostPolicy(fb, gocql.ShuffleReplicas(), gocql.NonLocalReplicasFallback())
	case shuffle:
		return gocql.TokenAwareHostPolicy(fb, gocql.ShuffleReplicas())
	case nonLocal:
		return gocql.TokenAwareHostPolicy(fb, gocql.NonLocalReplicasFallback())
	}
	return gocql.TokenAwareHostPolicy(fb)
}

func pkFallback(cfg *pkCfg, kind int) gocql.HostSelectionPolicy {
	switch kind {
	case pkDC:
		return gocql.DCAwareRoundRobinPolicy(cfg.localDC)
	case pkRack:
		return gocql.RackAwareRoundRobinPolicy(cfg.localDC, cfg.localRack)
	}
	return gocql.RoundRobinHostPolicy()
}

// apply performs one operation against the driver (the model is fed by the caller
// afterwards). who is the task name in the scheduled phase, "" in the sequential part.
func (r *pkRun) apply(op pkOp, who string) bool {
	k, m := r.k, r.m
	ok := true
	switch op.kind {
	case opDown:
		h := m.hosts[op.host]
		r.rec("%sdown %s", who, h.id)
		r.lastOp = "down " + h.id
		ok = r.guard("HostDown", func() { // Session.handleNodeDown
			h.info.VerifSetState(false)
			r.pol.HostDown(h.info)
		})
		k.Fault("history.host-down")
	case opUp:
		h := m.hosts[op.host]
		r.rec("%sup %s", who, h.id)
		r.lastOp = "up " + h.id
		ok = r.guard("HostUp", func() { // Session.handleNodeConnected
			h.info.VerifSetState(true)
			r.pol.HostUp(h.info)
		})
		k.Fault("history.host-up")
	case opUpMany:
		var ids []string
		for _, i := range op.hosts {
			ids = append(ids, m.hosts[i].id)
		}
		r.rec("%sup-at-once %s", who, strings.Join(ids, ","))
		r.lastOp = "up-at-once " + strings.Join(ids, ",")
		ok = r.guard("HostUp(concurrent)", func() {
			// with GOMAXPROCS > 1 (the parallel pass) the calls really coincide
			var wg sync.WaitGroup
			var ready, gate int32
			spin := runtime.GOMAXPROCS(0) > 1
			for _, i := range op.hosts {
				h := m.hosts[i]
				wg.Add(1)
				go func() {
					defer wg.Done()
					if spin {
						atomic.AddInt32(&ready, 1)
						for n := 0; atomic.LoadInt32(&gate) == 0; n++ {
							if n%1024 == 1023 {
								runtime.Gosched()
							}
						}
					}
					h.info.VerifSetState(true)
					r.pol.HostUp(h.info)
				}()
			}
			if spin {
				for n := 0; atomic.LoadInt32(&ready) < int32(len(op.hosts)) && n < 1<<22; n++ {
					runtime.Gosched()
				}
				atomic.StoreInt32(&gate, 1)
			}
			wg.Wait()
		})
		k.Fault("history.hosts-up-at-once")
	case opNodeUp:
		h := m.hosts[op.host]
		r.rec("%snode-up-event %s", who, h.id)
		r.lastOp = "node-up-event " + h.id
		ok = r.guard("AddHost(existing)", func() { r.pol.AddHost(h.info) }) // Session.handleNodeUp -> startPoolFill
		k.Fault("history.node-up-event")
	case opAdd:
		h := op.newHost
		r.rec("%sadd %s %s/%s up=%v tokens=%s", who, h.id, h.dc, h.rack, h.up, strings.Join(h.tokens, ","))
		r.lastOp = "add " + h.id
		ok = r.guard("AddHost", func() { r.pol.AddHost(h.info) })
		r.ringChanged()
		k.Fault("history.add-host")
	case opRemove, opReplace:
		h := m.hosts[op.host]
		for _, f := range op.fixes {
			f := f
			r.rec("%salter-keyspace %s %s (last node of %s leaves)", who, f.name, f.spec, h.dc)
			m.specs[f.name] = f.spec
			if ok = r.guard("KeyspaceChanged", func() { r.pol.KeyspaceChanged(gocql.KeyspaceUpdateEvent{Keyspace: f.name, Change: "UPDATED"}) }); !ok {
				return false
			}
			r.announced(f.name)
		}
		r.rec("%sremove %s", who, h.id)
		r.lastOp = "remove " + h.id
		ok = r.guard("RemoveHost", func() { r.pol.RemoveHost(h.info) })
		r.ringChanged()
		k.Fault("history.remove-host")
		if op.kind == opReplace && ok {
			n := op.newHost
			r.rec("%sadd %s %s/%s up=%v tokens=%s (in place of %s)", who, n.id, n.dc, n.rack, n.up, strings.Join(n.tokens, ","), h.id)
			r.lastOp = "remove " + h.id + ", add " + n.id + " in its place"
			ok = r.guard("AddHost", func() { r.pol.AddHost(n.info) })
			r.attempt(r.cfg.sessionKS)
			k.Fault("history.replace-host")
		}
	case opKS:
		r.rec("%skeyspace-changed %s %s", who, op.ks.name, op.ks.spec)
		r.lastOp = "keyspace-changed " + op.ks.name + " " + op.ks.spec.String()
		m.specs[op.ks.name] = op.ks.spec
		ok = r.guard("KeyspaceChanged", func() { r.pol.KeyspaceChanged(gocql.KeyspaceUpdateEvent{Keyspace: op.ks.name, Change: "UPDATED"}) })
		r.announced(op.ks.name)
		k.Fault("history.keyspace-changed")
	case opKSFlip:
		for i, sp := range []*pkSpec{op.ks.spec, op.ksBack} {
			sp := sp
			r.rec("%skeyspace-changed %s %s (%s)", who, op.ks.name, sp, []string{"altered", "altered back"}[i])
			m.specs[op.ks.name] = sp
			if ok = r.guard("KeyspaceChanged", func() { r.pol.KeyspaceChanged(gocql.KeyspaceUpdateEvent{Keyspace: op.ks.name, Change: "UPDATED"}) }); !ok {
				return false
			}
		}
		r.lastOp = "keyspace-changed " + op.ks.name + " " + op.ks.spec.String() + " and back to " + op.ksBack.String()
		r.announced(op.ks.name)
		k.Fault("history.keyspace-changed-and-back")
	case opPick:
		for _, q := range op.picks {
			if _, ok = r.pickAndCheck(q); !ok {
				return false
			}
		}
	case opBurst:
		ok = r.burst()
	case opMetaDown:
		what := "keyspace " + op.ks.name
		if op.ks.name == "*" {
			what = "every keyspace"
		}
		r.rec("%smetadata of %s cannot be read during the next %d state changes", who, what, op.n)
		if op.n > m.unread[op.ks.name] {
			m.unread[op.ks.name] = op.n
		}
		k.Fault("history.keyspace-metadata-unreadable")
	}
	if op.kind != opPick && op.kind != opBurst && op.kind != opMetaDown {
		// one state change is over: the windows in which metadata cannot be read get shorter
		for _, name := range []string{"*", "ks", "ks2"} {
			if m.unread[name] > 0 {
				if m.unread[name]--; m.unread[name] == 0 {
					r.rec("%smetadata of %s can be read again", who, name)
					k.Probe("metadata-readable-again")
				}
			}
		}
	}
	return ok && k.Violation() == nil
}

func pkExec(q pkQuery) gocql.ExecutableQuery {
	switch q.form {
	case 1:
		return gocql.VerifNewQuery(q.ks, nil)
	case 2:
		return gocql.VerifNewQuery(q.ks, q.key)
	}
	return nil // the package's tests use Pick(nil) for "no routing information"
}

func pkIDs(hs []*pkHost) string {
	var s []string
	for _, h := range hs {
		if h == nil {
			s = append(s, "<nil>")
		} else {
			s = append(s, h.id)
		}
	}
	return "[" + strings.Join(s, " ") + "]"
}

// pickAndCheck picks once, iterates to exhaustion and runs the sequential oracle. It
// returns the first host offered (nil if none).
func (r *pkRun) pickAndCheck(q pkQuery) (first *pkHost, ok bool) {
	k, m, cfg := r.k, r.m, r.cfg
	limit := 4*len(m.hosts) + 8

	// the replica list the driver itself computed for this key (placement is not checked here)
	var rInfos []*gocql.HostInfo
	var fromStrategy, routed bool
	if q.form == 2 {
		if !r.guard("replica lookup", func() { rInfos, fromStrategy, routed = gocql.VerifTokenAwareReplicas(r.pol, q.ks, q.key) }) {
			return nil, false
		}
	}

	// another query is picked and iterated while this one is half-way through its hosts (its
	// iterator must not be disturbed by that: each query owns its sequence)
	interAt := -1
	var q2 pkQuery
	if tp := k.Tape; !r.inBurst && tp.Chance(1, 4) {
		interAt = tp.Next(3)
		q2 = q
		if tp.Chance(1, 2) {
			q2 = m.genQuery(tp)
		}
		k.Fault("history.pick-inside-pick")
	}

	var offered []*gocql.HostInfo
	finished := false
	nilInfo := false
	if !r.guard("Pick/NextHost", func() {
		next := r.pol.Pick(pkExec(q))
		if next == nil {
			finished = true
			return
		}
		for i := 0; i < limit; i++ {
			if i == interAt+1 && interAt >= 0 {
				if n2 := r.pol.Pick(pkExec(q2)); n2 != nil {
					for j := 0; j < limit; j++ {
						if n2() == nil {
							break
						}
					}
				}
			}
			sh := next()
			if sh == nil {
				finished = true
				return
			}
			hi := sh.Info()
			if hi == nil {
				nilInfo = true
				return
			}
			offered = append(offered, hi)
		}
	}) {
		r.rec("pick %s -> panic", q)
		return nil, false
	}

	seq := make([]*pkHost, len(offered))
	for i, hi := range offered {
		seq[i] = m.byInfo(hi)
		if seq[i] == nil {
			seq[i] = m.byID(hi.HostID())
		}
	}
	var R []*pkHost // replica list, nil entries dropped, duplicates dropped (first occurrence kept)
	rHasNil, rHasDup := false, false
	if routed {
		seen := map[*pkHost]bool{}
		for _, hi := range rInfos {
			h := m.byInfo(hi)
			if h == nil {
				rHasNil = true
				continue
			}
			if seen[h] {
				rHasDup = true
				continue
			}
			seen[h] = true
			R = append(R, h)
		}
	}
	// placement of the primary: the first replica is the node that owns the key's token - the
	// owner of the lowest ring token that is not below it, the lowest token of all when none
	// is (the ring wraps) - wherever the replica list comes from the ring alone or from a
	// strategy that starts its walk at the owner
	if routed && len(rInfos) > 0 && rInfos[0] != nil {
		if owner := m.tokenOwner(murmur.Murmur3H1(q.key)); owner != nil {
			applies := !fromStrategy
			if spec := m.specs[q.ks]; fromStrategy && spec != nil && q.ks == cfg.sessionKS && !r.ksStale[q.ks] && !m.anyUnread() {
				applies = (spec.class == "SimpleStrategy" && spec.rf >= 1) || (spec.class == "NetworkTopologyStrategy" && spec.dcs[owner.dc] > 0)
			}
			if first := m.byInfo(rInfos[0]); applies && first != owner {
				k.Probe("primary-checked")
				k.Violate("C11", "C11/primary-replica-not-token-owner", "query %s: its token %d belongs to %s (tokens %s), the replica list the policy uses begins with %s; policy %s",
					q, murmur.Murmur3H1(q.key), owner.id, strings.Join(owner.tokens, ","), pkIDs([]*pkHost{first}), cfg)
				return nil, false
			} else if applies {
				k.Probe("primary-checked")
			}
		}
	}
	line := fmt.Sprintf("pick %s -> %s", q, pkIDs(seq))
	if routed {
		var raw []*pkHost
		for _, hi := range rInfos {
			raw = append(raw, m.byInfo(hi))
		}
		line += " R=" + pkIDs(raw)
	}
	r.rec("%s", line)

	viol := func(sig, format string, args ...interface{}) (*pkHost, bool) {
		k.Violate("C11", sig, "%s; query %s offered %s; policy %s; known up %s", fmt.Sprintf(format, args...), q, pkIDs(seq), cfg,
			pkIDs(m.sel(func(h *pkHost) bool { return h.known && h.up })))
		return nil, false
	}

	// (1) finite
	if nilInfo {
		return viol("C11/nil-host", "NextHost returned a selected host without HostInfo at position %d", len(offered))
	}
	if !finished {
		return viol("C11/iteration-not-finite", "NextHost still returns hosts after %d calls (%d hosts exist)", limit, len(m.hosts))
	}
	// (2) only up hosts, (3) no host twice
	seenID := map[string]int{}
	for i, h := range seq {
		if h == nil {
			return viol("C11/foreign-host", "position %d: host %s was never given to the policy", i, offered[i].HostID())
		}
		if !h.up {
			return viol("C11/down-host-offered", "position %d: host %s is down", i, h.id)
		}
		if j, dup := seenID[h.id]; dup {
			extra := ""
			if rHasDup {
				extra = " (the driver's replica list for the token names it twice)"
			}
			return viol("C11/host-offered-twice", "host %s offered at positions %d and %d%s", h.id, j, i, extra)
		}
		seenID[h.id] = i
		if !h.known {
			k.Probe("offered-removed-host")
			// RemoveHost takes the host out of the fallback policy, out of the token ring and
			// out of the replicas of the session keyspace, and a KeyspaceChanged since then did
			// the same for another keyspace - whether or not the keyspace metadata could be
			// read at that moment. Only the replicas of another keyspace that the policy was
			// not told about since may still name it (by design, see historyCheck).
			if !routed || q.ks == cfg.sessionKS || !r.ksAnnounced[q.ks] || r.ksCurrent[q.ks] {
				extra := ""
				if r.ksStale[q.ks] {
					extra = fmt.Sprintf(" (the metadata of keyspace %s could not be read when its replicas were last recomputed: the replicas of an older ring are still in use)", q.ks)
				}
				return viol("C11/removed-host-offered", "position %d: host %s was removed from the policy (RemoveHost) and the replicas of the query's keyspace were recomputed since%s", i, h.id, extra)
			}
		}
	}
	// (4) every up host the policy knows
	for _, h := range m.hosts {
		if h.known && h.up {
			if _, in := seenID[h.id]; !in {
				return viol("C11/up-host-missing", "host %s (%s/%s) is known and up but was not offered", h.id, h.dc, h.rack)
			}
		}
	}
	// (5)/(6) order
	tiersNonDecreasing := func(part []*pkHost, what string) bool {
		for i := 1; i < len(part); i++ {
			if cfg.tier(part[i]) < cfg.tier(part[i-1]) {
				viol("C11/tier-order", "%s: host %s (tier %d) offered after %s (tier %d)", what, part[i].id, cfg.tier(part[i]), part[i-1].id, cfg.tier(part[i-1]))
				return false
			}
		}
		return true
	}
	sameSet := func(a, b []*pkHost) bool {
		if len(a) != len(b) {
			return false
		}
		in := map[*pkHost]bool{}
		for _, h := range a {
			in[h] = true
		}
		for _, h := range b {
			if !in[h] {
				return false
			}
		}
		return true
	}
	if len(seenID) > 0 {
		// hosts the policy was told to forget are left out of the order checks
		kept := seq[:0:0]
		for _, h := range seq {
			if h.known {
				kept = append(kept, h)
			}
		}
		seq = kept
	}
	if !routed {
		if !tiersNonDecreasing(seq, "hosts") {
			return nil, false
		}
	} else {
		k.Probe("pick-routed")
		var p1, p2 []*pkHost
		downReplica, removedReplica := false, false
		for _, h := range R {
			if !h.known {
				// a replica map of a keyspace other than the session's is not recomputed
				// when a host is removed; the property neither demands nor forbids that
				// such a host is offered, so it is left out of the comparison
				removedReplica = true
				continue
			}
			if !h.up {
				downReplica = true
				continue
			}
			if cfg.tier(h) == 0 {
				p1 = append(p1, h)
			} else if cfg.nonLocal {
				p2 = append(p2, h)
			}
		}
		sort.SliceStable(p2, func(i, j int) bool { return cfg.tier(p2[i]) < cfg.tier(p2[j]) })
		if fromStrategy {
			k.Probe("pick-replicas-from-strategy")
			if s := m.specs[q.ks]; s != nil && s.class == "NetworkTopologyStrategy" {
				for _, h := range m.known() {
					if len(h.tokens) > 1 {
						k.Probe("vnodes-nts")
						break
					}
				}
			}
		} else {
			k.Probe("pick-primary-only")
		}
		if rHasNil {
			k.Probe("pick-empty-ring")
		}
		if rHasDup {
			k.Probe("replica-list-has-duplicate")
		}
		if downReplica {
			k.Probe("pick-with-down-replica")
		}
		if removedReplica {
			k.Probe("pick-stale-replica-removed-host")
		}
		if len(p1) == 0 && len(R) > 0 {
			k.Probe("pick-no-up-replica-in-nearest-tier")
		}
		if len(p2) > 0 {
			k.Probe("pick-token-aware-fallback-used")
		}
		if q.ks != cfg.sessionKS && fromStrategy && len(R) >= 2 {
			k.Probe("pick-other-keyspace-2-or-more-replicas")
			if len(p1)+len(p2) >= 2 {
				k.Probe("pick-other-keyspace-2-or-more-replicas-first")
			}
		}
		if m.unreadable(q.ks) {
			k.Probe("pick-while-metadata-unreadable")
		}
		if r.ksStale[q.ks] {
			k.Probe("pick-keyspace-recomputed-while-unreadable")
		}
		if len(seq) < len(p1)+len(p2) {
			return viol("C11/replicas-not-first", "up replicas %s %s of the token were not all offered", pkIDs(p1), pkIDs(p2))
		}
		got1 := seq[:len(p1)]
		if !sameSet(got1, p1) {
			return viol("C11/replicas-not-first", "the up replicas of the token in the nearest tier are %s but the first %d hosts offered are %s", pkIDs(p1), len(p1), pkIDs(got1))
		}
		if !cfg.shuffle {
			for i := range p1 {
				if got1[i] != p1[i] {
					return viol("C11/replica-order", "without shuffling the nearest-tier replicas must come in replica order %s (primary first), got %s", pkIDs(p1), pkIDs(got1))
				}
			}
		}
		got2 := seq[len(p1) : len(p1)+len(p2)]
		if !sameSet(got2, p2) {
			return viol("C11/nonlocal-replicas-not-before-rest", "NonLocalReplicasFallback: the up replicas in farther tiers are %s but after the nearest-tier replicas %s the next %d hosts offered are %s", pkIDs(p2), pkIDs(p1), len(p2), pkIDs(got2))
		}
		if !tiersNonDecreasing(got2, "non-local replicas") || !tiersNonDecreasing(seq[len(p1)+len(p2):], "remaining hosts") {
			return nil, false
		}
	}
	nKnown := len(m.known())
	if nKnown >= 2 {
		k.OpDone()
	}
	if len(seq) == 0 {
		k.Probe("pick-zero-up-hosts")
		return nil, true
	}
	return seq[0], true
}

// burst checks rotation: over 2 x (size of the first tier that has an up host)
// successive picks without routing key the first host offered is not constant when that
// tier has at least two up hosts.
func (r *pkRun) burst() bool {
	// rotation is judged over successive picks: nothing else may pick in between
	r.inBurst = true
	defer func() { r.inBurst = false }()
	m, cfg := r.m, r.cfg
	tier, size, upN := -1, 0, 0
	for t := 0; t <= cfg.maxTier() && tier < 0; t++ {
		in := m.sel(func(h *pkHost) bool { return h.known && cfg.tier(h) == t })
		u := 0
		for _, h := range in {
			if h.up {
				u++
			}
		}
		if u > 0 {
			tier, size, upN = t, len(in), u
		}
	}
	if tier < 0 {
		_, ok := r.pickAndCheck(pkQuery{})
		return ok
	}
	if tier > 0 {
		r.k.Probe("nearest-tier-has-no-up-host")
	}
	n := 2 * size
	r.rec("burst of %d picks (tier %d: %d hosts, %d up)", n, tier, size, upN)
	firsts := map[string]bool{}
	for i := 0; i < n; i++ {
		f, ok := r.pickAndCheck(pkQuery{form: i % 2}) // nil query and key-less query alternate
		if !ok {
			return false
		}
		if f != nil {
			firsts[f.id] = true
		}
	}
	if upN >= 2 {
		r.k.Probe("rotation-checked")
		if len(firsts) < 2 {
			r.k.Violate("C11", "C11/no-rotation", "%d successive picks without routing key all started with the same host %v although tier %d has %d up hosts; policy %s", n, sortedBoolKeys(firsts), tier, upN, cfg)
			return false
		}
	}
	return true
}

func sortedBoolKeys(m map[string]bool) []string {
	out := make([]string, 0, len(m))
	for k := range m {
		out = append(out, k)
	}
	sort.Strings(out)
	return out
}

// concurrent is the schedule part: picking tasks advance one NextHost call per step while
// one task mutates the host set; the kernel chooses the interleaving. Safety only:
// every iteration terminates, no nil host, no panic.
func (r *pkRun) concurrent() {
	k, m := r.k, r.m
	tp := k.Tape
	k.Probe("scheduled-phase")
	nPick := 1 + tp.Next(3)
	scripts := make([][]pkQuery, nPick)
	for i := range scripts {
		n := tp.Range(1, 3)
		for j := 0; j < n; j++ {
			scripts[i] = append(scripts[i], m.genQuery(tp))
		}
	}
	shadow := m.clone()
	nMut := 3 + tp.Next(10)
	var muts []pkOp
	for i := 0; i < nMut; i++ {
		op := shadow.genOp(tp, r.e.NoFaults, true)
		shadow.applyModel(op)
		muts = append(muts, op)
	}
	// tokens reserved while generating on the shadow stay reserved
	for v := range shadow.usedTok {
		m.usedTok[v] = true
	}
	limit := 4*len(shadow.hosts) + 8
	r.rec("scheduled phase: %d pickers, %d mutations", nPick, nMut)
	k.TimeWeight = 0
	k.MaxSteps = 4000

	for pi := 0; pi < nPick; pi++ {
		pi := pi
		name := fmt.Sprintf("p%d", pi)
		k.Spawn(name, func(t *kernel.Task) {
			for qi, q := range scripts[pi] {
				if !t.Step("pick") {
					return
				}
				var next gocql.NextHost
				if !r.guard("Pick (concurrent)", func() { next = r.pol.Pick(pkExec(q)) }) {
					return
				}
				k.Rec("%s pick#%d %s", name, qi, q)
				n := 0
				for next != nil {
					if !t.Step("next") {
						return
					}
					var sh gocql.SelectedHost
					if !r.guard("NextHost (concurrent)", func() { sh = next() }) {
						return
					}
					if sh == nil {
						k.Rec("%s pick#%d end after %d", name, qi, n)
						break
					}
					hi := sh.Info()
					if hi == nil {
						k.Violate("C11", "C11/nil-host", "concurrent: NextHost returned a selected host without HostInfo; query %s; policy %s", q, r.cfg)
						return
					}
					k.Rec("%s pick#%d -> %s", name, qi, hi.HostID())
					n++
					if n > limit {
						k.Violate("C11", "C11/iteration-not-finite", "concurrent: NextHost still returns hosts after %d calls (%d hosts exist); query %s; policy %s", n, len(shadow.hosts), q, r.cfg)
						return
					}
				}
				k.Probe("concurrent-pick-completed")
			}
		})
	}
	k.Spawn("mut", func(t *kernel.Task) {
		for _, op := range muts {
			if !t.Step("mutate") {
				return
			}
			if !r.apply(op, "mut ") {
				return
			}
			m.applyModel(op)
		}
	})
	k.Loop(nil)
	k.BeginSettle()
	k.SettleUntil(1e9, 1e6, nil, k.TasksDone)
	if k.Violation() != nil {
		return
	}
	// after the race: one more checked pick against the model (the mutations are over)
	if _, ok := r.pickAndCheck(m.genQuery(tp)); ok {
		r.historyCheck(false)
	}
}

// ---------------------------------------------------------------------------------
// history independence

// pkWalk picks once and iterates to exhaustion (at most limit hosts).
func pkWalk(pol gocql.HostSelectionPolicy, eq gocql.ExecutableQuery, limit int, buf []*gocql.HostInfo) (seq []*gocql.HostInfo, finished, nilInfo bool) {
	seq = buf[:0]
	next := pol.Pick(eq)
	if next == nil {
		return seq, true, false
	}
	for i := 0; i < limit; i++ {
		sh := next()
		if sh == nil {
			return seq, true, false
		}
		hi := sh.Info()
		if hi == nil {
			return seq, false, true
		}
		seq = append(seq, hi)
	}
	return seq, false, false
}

func (m *pkModel) toHosts(his []*gocql.HostInfo) []*pkHost {
	out := make([]*pkHost, len(his))
	for i, hi := range his {
		if hi != nil {
			out[i] = m.byInfo(hi)
		}
	}
	return out
}

// pkSameSet compares two short sequences without repeated hosts as sets.
func pkSameSet(a, b []*gocql.HostInfo) bool {
	if len(a) != len(b) {
		return false
	}
outer:
	for _, h := range a {
		for _, o := range b {
			if o == h {
				continue outer
			}
		}
		return false
	}
	return true
}

func pkContains(a []*gocql.HostInfo, h *gocql.HostInfo) bool {
	for _, o := range a {
		if o == h {
			return true
		}
	}
	return false
}

// historyCheck compares the token-aware policy under test, which learnt the cluster
// through the whole history of notifications, with a fresh policy of the same kind and
// options that is told the CURRENT state only, through the calls Session.init makes
// (SetPartitioner, AddHosts, HostUp for the connected hosts, KeyspaceChanged for the
// session keyspace). What a policy offers must depend on the cluster state, not on the
// way the state was reached: for routing keys on both sides of every token range
// boundary the two policies must offer the same hosts in the replicas-first prefix
// (nearest-tier up replicas; then, with NonLocalReplicasFallback, the up replicas of the
// farther tiers) - in the same order unless replicas are shuffled - and the same set of
// remaining hosts. The length of the prefix is taken from the fresh policy's replica
// list. By design the driver recomputes the replicas of keyspaces other than the
// session's on their KeyspaceChanged only: such a keyspace is compared when the policy
// under test was never told about it (both policies then know the token's owner alone)
// or was told after the last change of the host set (the fresh policy gets the same
// notification; a second fresh policy, of a session whose own keyspace it is, must agree
// as well: signature suffix /other-keyspace); otherwise it is left out. A check in the
// middle of the history (mid) looks at one keyspace only, the session's if there is one,
// plus the keyspace of the schema event that precedes the check (extras) and those whose
// metadata could not be read. Unreadable metadata: the reference policies cannot read a
// keyspace for which the last recomputation on the policy under test failed that way
// (they have no replica preference for it then, like the driver); if the policy under
// test disagrees with that, it may still agree with a reference that reads what the
// policy itself last read - the old replication applied to the CURRENT hosts - and only
// if it agrees with neither is it a violation (signature suffix /unreadable-metadata):
// it then orders hosts by the replicas of a ring it no longer has.
func (r *pkRun) historyCheck(mid bool) bool {
	cfg, k, m := r.cfg, r.k, r.m
	if cfg.kind != pkTA {
		return true
	}
	// extras: a schema event for a keyspace other than the session's arrives right before
	// the comparison, so that its replicas are as current as the session keyspace's
	focus := ""
	if m.extras {
		if tp := k.Tape; tp.Chance(2, 3) {
			var others []string
			for _, ks := range []string{"ks2", "ks"} {
				if ks != cfg.sessionKS {
					others = append(others, ks)
				}
			}
			focus = others[tp.Next(len(others))]
			op := pkOp{kind: opKS, ks: pkKS{focus, m.specs[focus]}}
			if tp.Chance(1, 3) {
				op.ks.spec = m.genSpec(tp) // ALTER KEYSPACE; otherwise e.g. a table of it changed
			}
			if !r.apply(op, "") {
				return false
			}
			m.applyModel(op)
			k.Probe("schema-event-for-other-keyspace-before-history-check")
		}
	}
	known := m.known()
	// newRef builds a reference policy: told the current host set through the calls
	// Session.init makes, by a session whose keyspace is sessKS, then told of the keyspaces
	// in tell by schema events.
	newRef := func(sessKS string, meta func(string) (*gocql.KeyspaceMetadata, error), tell []string) gocql.HostSelectionPolicy {
		ref := pkTokenAware(pkFallback(cfg, cfg.fb), cfg.shuffle, cfg.nonLocal)
		gocql.VerifTokenAwareWire(ref, func() string { return sessKS }, meta)
		if r.partSet {
			ref.SetPartitioner(pkPartitioner)
		}
		infos := make([]*gocql.HostInfo, 0, len(known))
		for _, h := range known {
			infos = append(infos, h.info)
		}
		if bulk, isBulk := ref.(interface{ AddHosts([]*gocql.HostInfo) }); isBulk {
			bulk.AddHosts(infos)
		} else {
			for _, hi := range infos {
				ref.AddHost(hi)
			}
		}
		for _, h := range known {
			if h.up {
				ref.HostUp(h.info) // the HostInfo is shared and already says "up"
			}
		}
		if sessKS != "" {
			ref.KeyspaceChanged(gocql.KeyspaceUpdateEvent{Keyspace: sessKS})
		}
		for _, ks := range tell {
			if ks != sessKS {
				ref.KeyspaceChanged(gocql.KeyspaceUpdateEvent{Keyspace: ks, Change: "UPDATED"})
			}
		}
		return ref
	}

	// the keyspaces that can be compared
	var ksList, told []string
	skipped := 0
	for _, ks := range []string{"ks", "ks2", "nope"} {
		switch {
		case ks == cfg.sessionKS, !r.ksAnnounced[ks]:
			ksList = append(ksList, ks)
		case r.ksCurrent[ks]:
			ksList = append(ksList, ks)
			told = append(told, ks)
		default:
			skipped++
		}
	}
	if !r.ksAnnounced["ks2"] || !r.ksAnnounced["ks"] && cfg.sessionKS != "ks" {
		// "nope" would repeat what a keyspace the policy never heard of already shows
		ksList = ksList[:len(ksList)-1]
	}
	if mid {
		// "ks" when it can be compared (always when it is the session keyspace), the keyspace of
		// the schema event above and those whose metadata could not be read
		keep := func(list []string, first string) []string {
			var out []string
			for _, ks := range list {
				if ks == first || ks == focus || r.ksStale[ks] {
					out = append(out, ks)
				}
			}
			return out
		}
		first := ksList[0]
		ksList = keep(ksList, first)
		if len(told) > 0 && told[0] != first {
			told = keep(told, "")
		} else if len(told) > 1 {
			told = keep(told, told[0])
		}
	}
	isTold := func(ks string) bool {
		for _, t := range told {
			if t == ks {
				return true
			}
		}
		return false
	}

	var fresh gocql.HostSelectionPolicy
	if !r.guard("start-up notifications on a fresh policy", func() { fresh = newRef(cfg.sessionKS, r.refMeta(false), told) }) {
		return false
	}

	// routing keys just below and just above every token of the current ring
	cellSet := map[int]bool{}
	for _, h := range known {
		for _, c := range h.cells {
			cellSet[c] = true
			cellSet[(c+4095)%4096] = true
		}
	}
	cells := make([]int, 0, len(cellSet)+1)
	for c := range cellSet {
		cells = append(cells, c)
	}
	sort.Ints(cells)
	if len(cells) == 0 {
		cells = append(cells, 0)
	}

	kindName := "token-aware/" + pkKindName[cfg.fb]
	limit := 4*len(m.hosts) + 8
	var q pkQuery
	var cell int
	var seqA, seqB, rA, rB []*gocql.HostInfo
	refWhat := ""
	describe := func() string {
		rA, _, _ = gocql.VerifTokenAwareReplicas(r.pol, q.ks, q.key)
		note := ""
		if r.ksStale[q.ks] {
			note = fmt.Sprintf(" (its metadata could not be read when the policy last recomputed its replicas; what it last read is %s)", r.seenSpec[q.ks])
		}
		return fmt.Sprintf("after %q: query %s (token in cell %d, i.e. between tokens %s and %s): the policy that went through the history offers %s (its replica list %s), a fresh policy%s told the same %d hosts %s offers %s (its replica list %s); keyspace %s is %s%s; policy %s",
			r.lastOp, q, cell, pkTokenOfCell(cell), pkTokenOfCell((cell+1)%4096), pkIDs(m.toHosts(seqA)), pkIDs(m.toHosts(rA)), refWhat, len(known), pkIDs(known), pkIDs(m.toHosts(seqB)), pkIDs(m.toHosts(rB)), q.ks, m.specs[q.ks], note, cfg)
	}
	bufA := make([]*gocql.HostInfo, 0, limit)
	bufB := make([]*gocql.HostInfo, 0, limit)
	maxReplicas := 0
	// compare walks both policies for keyspace ks and every key; "" = they agree
	compare := func(ref gocql.HostSelectionPolicy, ks string) (sig, msg string) {
		for _, c := range cells {
			cell = c
			q = pkQuery{form: 2, ks: ks, key: pkCellKey(c)}
			eq := pkExec(q)
			var routedA, routedB, finA, nilA, finB, nilB bool
			_, _, routedA = gocql.VerifTokenAwareReplicas(r.pol, q.ks, q.key)
			rB, _, routedB = gocql.VerifTokenAwareReplicas(ref, q.ks, q.key)
			seqA, finA, nilA = pkWalk(r.pol, eq, limit, bufA)
			seqB, finB, nilB = pkWalk(ref, eq, limit, bufB)
			switch {
			case nilA || nilB:
				return "C11/nil-host", "NextHost returned a selected host without HostInfo; " + describe()
			case !finA || !finB:
				return "C11/iteration-not-finite", fmt.Sprintf("NextHost still returns hosts after %d calls; ", limit) + describe()
			case routedA != routedB:
				return "C11/replicas-depend-on-history:" + kindName, fmt.Sprintf("one policy routes by token and the other does not (history %v, fresh %v); ", routedA, routedB) + describe()
			}
			// the prefix lengths, from the fresh policy's replica list
			n1, n2, distinct := 0, 0, 0
			if routedB {
				for i, hi := range rB {
					h := m.byInfo(hi)
					if h == nil || pkContains(rB[:i], hi) {
						continue
					}
					distinct++
					if !h.up {
						continue
					}
					if cfg.tier(h) == 0 {
						n1++
					} else if cfg.nonLocal {
						n2++
					}
				}
			}
			if distinct > maxReplicas {
				maxReplicas = distinct
			}
			if len(seqA) < n1+n2 || len(seqB) < n1+n2 {
				return "C11/replicas-depend-on-history:" + kindName, fmt.Sprintf("the replicas-first prefix has %d+%d hosts but fewer were offered; ", n1, n2) + describe()
			}
			if !pkSameSet(seqA[:n1], seqB[:n1]) {
				return "C11/replicas-depend-on-history:" + kindName, fmt.Sprintf("nearest-tier replicas (first %d hosts) differ: %s vs %s; ", n1, pkIDs(m.toHosts(seqA[:n1])), pkIDs(m.toHosts(seqB[:n1]))) + describe()
			}
			if !pkSameSet(seqA[n1:n1+n2], seqB[n1:n1+n2]) {
				return "C11/replicas-depend-on-history:" + kindName, fmt.Sprintf("non-local replicas (hosts %d..%d) differ: %s vs %s; ", n1, n1+n2-1, pkIDs(m.toHosts(seqA[n1:n1+n2])), pkIDs(m.toHosts(seqB[n1:n1+n2]))) + describe()
			}
			if !cfg.shuffle {
				for i := 0; i < n1+n2; i++ {
					if seqA[i] != seqB[i] {
						return "C11/replica-order-depends-on-history:" + kindName, fmt.Sprintf("without shuffling the first %d hosts must come in the same order, position %d differs; ", n1+n2, i) + describe()
					}
				}
			}
			if !pkSameSet(seqA[n1+n2:], seqB[n1+n2:]) {
				return "C11/offered-set-depends-on-history:" + kindName, "the hosts offered after the replicas differ; " + describe()
			}
		}
		return "", ""
	}
	var sig, msg string
	otherAsSession, otherRF2, staleCompared, staleRingMoved, lenient := false, false, false, false, false
	if !r.guard("Pick/NextHost (history check)", func() {
		for _, ks := range ksList {
			// the references for this keyspace: the fresh policy of a session like the one under
			// test and - for another keyspace the policy under test was told about since the
			// host set last changed - the fresh policy of a session whose own keyspace it is:
			// the replicas of a token must not depend on which of the two ways they were
			// computed (a schema event for the keyspace, a host set change of a session in it)
			type pkRef struct {
				sessKS, what, suffix string
				tell                 []string
				pol                  gocql.HostSelectionPolicy
			}
			refs := []pkRef{{cfg.sessionKS, "", "", told, fresh}}
			if ks != cfg.sessionKS && isTold(ks) {
				refs = append(refs, pkRef{ks, fmt.Sprintf(" of a session whose keyspace is %s", ks), "/other-keyspace", nil, nil})
				otherAsSession = true
			}
			for _, ref := range refs {
				if ref.pol == nil {
					ref.pol = newRef(ref.sessKS, r.refMeta(false), ref.tell)
				}
				refWhat = ref.what
				maxReplicas = 0
				sig, msg = compare(ref.pol, ks)
				if sig != "" && r.ksStale[ks] && !strings.HasPrefix(sig, "C11/nil-host") && !strings.HasPrefix(sig, "C11/iteration") {
					// the policy could not read the keyspace when it last recomputed its replicas:
					// besides "no replica preference" (what the reference above does) it may go on
					// with the replication it read before, applied to the hosts it knows NOW
					refWhat = ref.what + " that reads what the policy last read"
					sig2 := "?"
					func() {
						// (what it last read may name a datacenter that has no nodes any more, which
						// the placement code does not survive: then this reference says nothing)
						defer func() { recover() }()
						sig2, _ = compare(newRef(ref.sessKS, r.refMeta(true), ref.tell), ks)
					}()
					if sig2 == "" {
						sig, msg = "", ""
						lenient = true
					} else {
						sig += "/unreadable-metadata"
					}
				} else if sig != "" && strings.Contains(sig, "-depend") {
					sig += ref.suffix
				}
				if sig != "" {
					return
				}
				if ks != cfg.sessionKS && isTold(ks) && !r.ksStale[ks] && maxReplicas >= 2 {
					otherRF2 = true
				}
			}
			if r.ksStale[ks] {
				staleCompared = true
				if r.ksRingMoved[ks] {
					staleRingMoved = true
				}
			}
		}
	}) {
		return false
	}
	if sig != "" {
		k.Violate("C11", sig, "%s", msg)
		return false
	}

	r.rec("history check after %q: %d keyspaces x %d keys agree with a fresh policy", r.lastOp, len(ksList), len(cells))
	k.Probe("history-check")
	if mid {
		k.Probe("history-check-mid-history")
	}
	if skipped > 0 {
		k.Probe("history-check-left-out-stale-keyspace")
	}
	if len(told) > 0 {
		k.Probe("history-check-other-keyspace-current")
	}
	if otherAsSession {
		k.Probe("history-check-other-keyspace-against-session-in-it")
	}
	if otherRF2 {
		k.Probe("history-check-other-keyspace-2-or-more-replicas")
	}
	if m.anyUnread() {
		k.Probe("history-check-while-metadata-unreadable")
	}
	if staleCompared {
		k.Probe("history-check-keyspace-recomputed-while-unreadable")
	}
	if staleRingMoved {
		k.Probe("history-check-keyspace-recomputed-while-unreadable-host-set-changed")
	}
	if lenient {
		k.Probe("history-check-unreadable-keyspace-keeps-last-read-replication")
	}
	for _, ks := range ksList {
		if r.ksRecovered[ks] {
			k.Probe("history-check-keyspace-recomputed-after-readable-again")
			break
		}
	}
	if cfg.singleToken {
		k.Probe("history-check-single-tokens")
	}
	for _, ks := range ksList {
		s := m.specs[ks]
		if s == nil || s.class != "NetworkTopologyStrategy" {
			continue
		}
		for dc, rf := range s.dcs {
			racks := map[string]bool{}
			n := 0
			for _, h := range known {
				if h.dc == dc {
					racks[h.rack] = true
					n++
				}
			}
			if rf > len(racks) && n > len(racks) {
				k.Probe("history-check-nts-rf-above-racks")
			} else if rf > 0 && rf < len(racks) {
				k.Probe("history-check-nts-rf-below-racks")
			}
		}
	}
	return true
}

// ---------------------------------------------------------------------------------
// parallel rounds

type pkParRes struct {
	q                     pkQuery
	picks                 int
	during                int // picks that ended while the mutating goroutine was still at work
	panicked              bool
	panicVal              string
	frames                []string
	nilHost, dup, endless bool
	seq                   []string
}

// parallelRound: 1-3 goroutines walk routed picks to exhaustion while one goroutine
// applies a sequence of state changes (KeyspaceChanged, AddHost, RemoveHost, HostUp,
// HostDown) to the same policy. With GOMAXPROCS > 1 (the parallel pass) all of them leave
// a spin barrier together and really overlap; the pickers then repeat their script so
// that they last as long as the mutations. With one processor the same work is
// interleaved on the root goroutine (one pick of every picker after each state change),
// which keeps that pass deterministic. Safety only, the property's quantifier for
// interleavings: no panic, no nil host, no host twice within one pick, the iteration
// ends. (A concurrent map access the runtime detects ends the process; the runner reports
// that.) After the round the state is checked against the model and a fresh policy.
func (r *pkRun) parallelRound(round int, last bool) bool {
	k, m := r.k, r.m
	tp := k.Tape
	spin := runtime.GOMAXPROCS(0) > 1
	nPick := 1 + tp.Next(3)
	reps := []int{16, 64, 256}[tp.Next(3)]
	scripts := make([][]pkQuery, nPick)
	for i := range scripts {
		n := tp.Range(1, 4)
		for j := 0; j < n; j++ {
			q := pkQuery{form: 2, ks: []string{"ks", "ks2", "nope"}[tp.Weighted([]int{5, 2, 1})]}
			if tp.Chance(1, 2) {
				q.key = pkCellKey(tp.Next(4096))
			} else {
				q.key = []byte{byte(tp.Next(256)), byte(tp.Next(256))}
			}
			scripts[i] = append(scripts[i], q)
		}
	}
	shadow := m.clone()
	nMut := 3 + tp.Next(14)
	var muts []pkOp
	for i := 0; i < nMut; i++ {
		var op pkOp
		if tp.Chance(1, 2) {
			op = pkOp{kind: opKS}
			op.ks.name = []string{"ks", "ks2"}[tp.Weighted([]int{2, 1})]
			op.ks.spec = shadow.genSpec(tp)
		} else {
			op = shadow.genOp(tp, r.e.NoFaults, true)
		}
		shadow.applyModel(op)
		muts = append(muts, op)
	}
	for v := range shadow.usedTok {
		m.usedTok[v] = true
	}
	limit := 4*len(shadow.hosts) + 8
	r.rec("parallel round %d: %d pickers, %d mutations", round, nPick, nMut)
	k.Probe("parallel-round")

	res := make([]pkParRes, nPick)
	// one pick walked to exhaustion; false = stop this picker
	walk := func(pr *pkParRes, q pkQuery) bool {
		pr.q = q
		pr.seq = pr.seq[:0]
		next := r.pol.Pick(pkExec(q))
		pr.picks++
		if next == nil {
			return true
		}
		var seen [8]*gocql.HostInfo
		seenN := seen[:0]
		for n := 0; ; n++ {
			sh := next()
			if sh == nil {
				return true
			}
			hi := sh.Info()
			if hi == nil {
				pr.nilHost = true
				return false
			}
			pr.seq = append(pr.seq, hi.HostID())
			for _, o := range seenN {
				if o == hi {
					pr.dup = true
					return false
				}
			}
			seenN = append(seenN, hi)
			if n > limit {
				pr.endless = true
				return false
			}
		}
	}
	guarded := func(pr *pkParRes, fn func()) {
		defer func() {
			if p := recover(); p != nil {
				pr.panicked = true
				pr.panicVal = fmt.Sprint(p)
				pr.frames = pkDriverFrames()
			}
		}()
		fn()
	}
	mutate := func() {
		for _, op := range muts {
			if !r.apply(op, "par ") {
				return
			}
			m.applyModel(op)
		}
	}

	if !spin {
		pos := make([]int, nPick)
		stopped := make([]bool, nPick)
		for _, op := range muts {
			if !r.apply(op, "par ") {
				return false
			}
			m.applyModel(op)
			for pi := range scripts {
				if stopped[pi] {
					continue
				}
				pr := &res[pi]
				q := scripts[pi][pos[pi]%len(scripts[pi])]
				pos[pi]++
				guarded(pr, func() { stopped[pi] = !walk(pr, q) })
				if pr.panicked {
					stopped[pi] = true
				}
			}
		}
	} else {
		var wg sync.WaitGroup
		var ready, gate int32
		barrier := func() {
			atomic.AddInt32(&ready, 1)
			for n := 0; atomic.LoadInt32(&gate) == 0; n++ {
				if n%1024 == 1023 {
					runtime.Gosched()
				}
			}
		}
		var mutDone int32
		for pi := range scripts {
			pi := pi
			wg.Add(1)
			go func() {
				defer wg.Done()
				pr := &res[pi]
				barrier()
				guarded(pr, func() {
					// at least reps passes, and on until the mutations are over (bounded)
					for rep := 0; rep < reps || (atomic.LoadInt32(&mutDone) == 0 && rep < 64*reps); rep++ {
						for _, q := range scripts[pi] {
							if !walk(pr, q) {
								return
							}
							if atomic.LoadInt32(&mutDone) == 0 {
								pr.during++
							}
						}
					}
				})
			}()
		}
		wg.Add(1)
		go func() {
			defer wg.Done()
			defer atomic.StoreInt32(&mutDone, 1)
			barrier()
			mutate()
		}()
		for n := 0; atomic.LoadInt32(&ready) < int32(nPick+1) && n < 1<<22; n++ {
			runtime.Gosched()
		}
		atomic.StoreInt32(&gate, 1)
		wg.Wait()
		k.Probe("parallel-round-really-parallel")
	}

	for pi := range res {
		pr := &res[pi]
		where := fmt.Sprintf("parallel round %d, picker %d, pick %d, query %s, hosts offered so far [%s], while another goroutine applied %d state changes (last one begun: %q); policy %s", round, pi, pr.picks, pr.q, strings.Join(pr.seq, " "), nMut, r.lastOp, r.cfg)
		switch {
		case pr.panicked:
			top := "?"
			if len(pr.frames) > 0 {
				top = pr.frames[0]
			}
			if len(pr.frames) > 6 {
				pr.frames = pr.frames[:6]
			}
			k.Violate("C11", "C11/panic:"+top, "Pick/NextHost panicked: %s; driver frames: %s; %s", pr.panicVal, strings.Join(pr.frames, " <- "), where)
		case pr.nilHost:
			k.Violate("C11", "C11/nil-host", "concurrent: NextHost returned a selected host without HostInfo; %s", where)
		case pr.dup:
			k.Violate("C11", "C11/host-offered-twice", "concurrent: the last host was already offered by this iterator; %s", where)
		case pr.endless:
			k.Violate("C11", "C11/iteration-not-finite", "concurrent: NextHost still returns hosts after %d calls (%d hosts exist); %s", limit, len(shadow.hosts), where)
		}
	}
	if k.Violation() != nil {
		return false
	}
	k.Probe("parallel-round-completed")
	during := 0
	for pi := range res {
		during += res[pi].during
	}
	if during >= 16 {
		k.Probe("parallel-round-16-picks-or-more-overlapped-mutations")
	}
	if during >= 256 {
		k.Probe("parallel-round-256-picks-or-more-overlapped-mutations")
	}
	// the mutations are over: the policy must be where a sequential history would have left it
	q := pkQuery{form: 2, ks: "ks", key: pkCellKey(tp.Next(4096))}
	if _, ok := r.pickAndCheck(q); !ok {
		return false
	}
	return !last || r.historyCheck(false)
}

// tokenOwner is the model's own ring lookup: the known host owning the lowest token >= t,
// or the lowest token of all when t is above every token. nil when no known host has a
// token or two known hosts claim the deciding token.
func (m *pkModel) tokenOwner(t int64) *pkHost {
	var best, lowest *pkHost
	var bestTok, lowestTok int64
	dupBest, dupLowest := false, false
	for _, h := range m.known() {
		for _, ts := range h.tokens {
			v, err := strconv.ParseInt(ts, 10, 64)
			if err != nil {
				return nil
			}
			if lowest == nil || v < lowestTok {
				lowest, lowestTok, dupLowest = h, v, false
			} else if v == lowestTok && h != lowest {
				dupLowest = true
			}
			if v >= t {
				if best == nil || v < bestTok {
					best, bestTok, dupBest = h, v, false
				} else if v == bestTok && h != best {
					dupBest = true
				}
			}
		}
	}
	if best != nil {
		if dupBest {
			return nil
		}
		return best
	}
	if dupLowest {
		return nil
	}
	return lowest
}
