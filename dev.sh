#!/bin/bash
# dev helper: ./dev.sh <scenario> <count> [seed] [extra flags]
export GOFLAGS=-mod=mod GOPROXY=off GOSUMDB=off GOTOOLCHAIN=local
set -e
sc=$1; n=${2:-1000}; seed=${3:-1}; shift; shift || true; shift || true
W=/verif/.work/${DEVTAG:-dev}; mkdir -p $W
# build from a private copy so that files other people are still writing (SKIP="a.go b.go") do not break this build
SRC=$W/src; mkdir -p $SRC; EX=""; for f in $SKIP; do EX="$EX --exclude=$f"; done
rsync -a --delete --delete-excluded $EX /verif/sim/ $SRC/
(cd $SRC && go1.26.8 test -c -tags verif -o $W/sim.test ./simtest)
cd $W
set +e
/usr/bin/time -f "%es wall" env GOMAXPROCS=1 ./sim.test -test.run '^TestSim$' -sim.scenario=$sc -sim.seed=$seed -sim.count=$n "$@" > out.txt 2> err.txt
echo "exit=$? runs=$(grep -c ^RES out.txt)"; tail -1 err.txt
grep ^VIO out.txt | python3 -c "
import sys,json,collections
c=collections.Counter(); ex={}
for l in sys.stdin:
    d=json.loads(l[4:]); s=d['violation']['signature']; c[s]+=1; ex.setdefault(s,d)
for s,n in c.most_common(): print(n,s,'idx',ex[s]['index'], ex[s]['violation']['message'][:400].replace('\n',' | '))
"
grep ^STALL out.txt | cut -c1-300
grep -a "^panic\|^fatal" err.txt | head
