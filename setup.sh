#!/bin/bash
# Build the runner from files on disk only (offline).
cd "$(dirname "$0")" || exit 2
export GOFLAGS=-mod=mod GOPROXY=off GOSUMDB=off GOTOOLCHAIN=local
mkdir -p bin .work evidence replays
cd sim && go1.26.8 build -o ../bin/vcheck ./cmd/vcheck
