#!/usr/bin/env python3
# validates MANIFEST.json and evidence/*.json against the schemas (uses the tooling venv)
import json, sys, glob, jsonschema
ok = True
try:
    jsonschema.validate(json.load(open('/verif/MANIFEST.json')), json.load(open('/root/.vp/MANIFEST.schema.json')))
except Exception as e:
    ok = False; print('MANIFEST:', e)
es = json.load(open('/root/.vp/EVIDENCE.schema.json'))
for f in sorted(glob.glob('/verif/evidence/*.json')):
    try:
        jsonschema.validate(json.load(open(f)), es)
    except Exception as e:
        ok = False; print(f, str(e)[:300])
print('valid' if ok else 'INVALID')
