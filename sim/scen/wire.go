package scen

import (
	"bytes"
	"errors"
	"fmt"
	"net"
	"reflect"
	"sort"
	"strings"
	"sync"
	"time"

	"github.com/gocql/gocql"
	"github.com/gocql/gocql/lz4"
	"github.com/gocql/gocql/verifsim/cqlspec"
	"github.com/gocql/gocql/verifsim/kernel"
	"github.com/gocql/gocql/verifsim/node"
)

// Scenario wire (C03, C04, C18): every request the driver builds on a negotiated
// connection is decoded by the independent strict decoder and compared, field by field,
// with the logical request the workload registered under the request's token; every
// response is built from a logical description by the independent encoder and the
// driver's public view of it is compared with that description. Protocol version,
// compressor, advertised compressors, coalescing are drawn per run.

func init() {
	register(&Scenario{
		Name:       "wire",
		Properties: []string{"C03", "C04", "C18"},
		Run:        runWire,
		Real:       []string{"gocql framer (request building, response parsing), Marshal/Unmarshal for the cell and bind types used, snappy and lz4 compressors, Iter/Scanner/MapScan/SliceMap (real code)"},
		Stub:       []string{"Cassandra node with the independent cqlspec codec and independent snappy/lz4 block decoders"},
		Rule:       "one run = one negotiated session (protocol 1-5 x compressor x advertised set x coalescing drawn from the tape) on which 1-2 callers issue 4-10 generated logical requests (QUERY / PREPARE+EXECUTE / BATCH with generated options and bind values) answered by generated logical responses (rows with generated types and cells, void, every ERROR code, warnings, payload, trace id, paging state); distinct = distinct canonical-log fingerprint; non-trivial = at least one request/response variation beyond the defaults was drawn and at least one operation completed",
	})
}

type wireBind struct {
	t     wType
	val   interface{} // what is handed to the driver
	bytes []byte      // expected encoding
	null  bool
	unset bool
	name  string
}

type wireCell struct {
	null  bool
	val   interface{}
	bytes []byte
}

type wireCol struct {
	name string
	t    wType
}

type wireResp struct {
	kind      string // rows | void | error
	cols      []wireCol
	rows      [][]wireCell
	global    bool
	warnings  []string
	payload   map[string][]byte
	traceID   []byte
	hasMore   bool
	nextState []byte
	errBody   *cqlspec.ErrorBody
}

type wireEntry struct {
	stmt  string
	binds []wireBind
}

type wireOp struct {
	token     string
	kind      string // query | exec | batch
	stmt      string
	cons      gocql.Consistency
	serial    gocql.SerialConsistency
	pageSize  int // -1: session default
	pageState []byte
	tsMode    int // 0 session default (on), 1 off, 2 explicit
	ts        int64
	payload   map[string][]byte
	// inexpressible: the request asks for something the negotiated version cannot carry (a
	// custom payload before protocol 4); it must fail on the client, nothing of it is sent
	inexpressible bool
	why           string // what it asks for, if not a custom payload
	release       bool   // Query.Release() when the operation is over
	skipMask      int    // bit i set: column i is skipped by the Scan consumers (nil destinations)
	// batchBind: the entries of the batch are added with Batch.Bind (values come from a
	// binding callback); batchBindNamed: the callback returns named values, which a BATCH
	// cannot carry (protocol 3+): the request must be refused, nothing may be sent
	tooManyValues  bool
	batchBind      bool
	batchBindNamed bool
	// rebind: the same *Query is executed first with binds0, then given the real values with
	// Query.Bind and executed again; the second EXECUTE must carry the new values
	rebind     bool
	binds0     []wireBind
	trace      bool
	named      bool
	noSkipMeta bool
	binds      []wireBind
	batchType  gocql.BatchType
	entries    []wireEntry
	consumer   int
	resp       wireResp
	invokeAt   time.Time

	mainSeen int
}

type wireTracer struct {
	mu  sync.Mutex
	ids [][]byte
}

func (t *wireTracer) Trace(id []byte) {
	t.mu.Lock()
	t.ids = append(t.ids, append([]byte(nil), id...))
	t.mu.Unlock()
}

var allErrorCodes = []int32{cqlspec.ErrServer, cqlspec.ErrProtocol, cqlspec.ErrCredentials, cqlspec.ErrUnavailable, cqlspec.ErrOverloaded,
	cqlspec.ErrBootstrapping, cqlspec.ErrTruncate, cqlspec.ErrWriteTimeout, cqlspec.ErrReadTimeout, cqlspec.ErrReadFailure,
	cqlspec.ErrFunctionFailure, cqlspec.ErrWriteFailure, cqlspec.ErrCDCWriteFailure, cqlspec.ErrCASWriteUnknown, cqlspec.ErrSyntax,
	cqlspec.ErrUnauthorized, cqlspec.ErrInvalid, cqlspec.ErrConfig, cqlspec.ErrAlreadyExists}

// guardEncode: the simulated node compresses some of its responses with the driver's own
// compressors (library-compressed blocks); a compressor that panics there is the driver's
// fault, not the simulator's.
func guardEncode(k *kernel.Kernel, name string, enc func([]byte) ([]byte, error)) func([]byte) []byte {
	return func(b []byte) (out []byte) {
		defer func() {
			if r := recover(); r != nil {
				k.Violate("C18", "C18/compressor-panics:"+name, "the %s compressor panicked while encoding a %d byte body: %v", name, len(b), r)
				out = b
			}
		}()
		out, _ = enc(b)
		return out
	}
}

func runWire(e *Env) {
	k := e.K
	tp := k.Tape
	cl := node.NewCluster(k, 1)
	InstallHooks(k)

	// ---- swarm ----
	proto := []int{4, 3, 5, 2, 1}[tp.Next(5)]
	// a second node that advertises other compression algorithms than the first (a cluster in
	// the middle of an upgrade): what is negotiated is a matter of each connection
	var adv2 []string
	twoNodes := tp.Chance(1, 6)
	if twoNodes {
		h2 := *cl.Hosts[0]
		h2.Addr, h2.HostID, h2.Nonce = "10.0.0.2", "00000000-0000-4000-8000-000000000002", "n2"
		h2.Tokens = []string{"-8000000000000000000"}
		h2.Prepared = map[string]*node.PreparedStmt{}
		cl.Hosts = append(cl.Hosts, &h2)
		adv2 = [][]string{nil, {"snappy"}, {"lz4"}, {"snappy", "lz4"}}[tp.Next(4)]
		k.Fault("swarm.second-node-with-its-own-compression-list")
	}
	compName := []string{"", "snappy", "lz4"}[tp.Next(3)]
	adv := [][]string{{"snappy", "lz4"}, nil, {"snappy"}, {"lz4"}, {"zstd"}}[tp.Next(5)]
	respCompress := tp.Next(3) // 0 never, 1 literal-only blocks, 2 library-compressed blocks
	coalesce := []time.Duration{0, 200 * time.Microsecond}[tp.Next(2)]
	keyspace := []string{"", "ks"}[tp.Next(2)]
	pageDefault := []int{5000, 0, 100}[tp.Next(3)]
	nTasks := 1 + tp.Next(2)
	nOps := 4 + tp.Next(7)
	e.Note("proto", proto)
	e.Note("compressor", compName)
	e.Note("advertised", adv)
	e.Note("respCompress", respCompress)
	e.Note("keyspace", keyspace)
	if proto != 4 || compName != "" || keyspace != "" {
		k.Fault("swarm.nondefault-connection")
	}

	cl.Supported = map[string][]string{"CQL_VERSION": {"3.4.4"}}
	if adv != nil {
		cl.Supported["COMPRESSION"] = adv
	}
	contact := []string{"10.0.0.1"}
	if twoNodes {
		contact = append(contact, "10.0.0.2")
		sup2 := map[string][]string{"CQL_VERSION": {"3.4.4"}}
		if adv2 != nil {
			sup2["COMPRESSION"] = adv2
		}
		cl.SupportedFor = func(h *node.Host) map[string][]string {
			if h.Addr == "10.0.0.2" {
				return sup2
			}
			return cl.Supported
		}
	}
	cfg := BaseConfig(cl, contact...)
	// some sessions keep their control connection: the node can then push events, which
	// are frames like any other (stream -1, every protocol version)
	ctrl := tp.Chance(1, 4)
	e.Note("control", ctrl)
	cl.CompressEvents = respCompress != 0
	if !ctrl {
		gocql.VerifDisableControlConn(cfg, true)
	}
	cfg.ProtoVersion = proto
	cfg.NumConns = 1
	if tp.Chance(1, 3) {
		// more than one connection per node: each one negotiates for itself
		cfg.NumConns = 2 + tp.Next(2)
	}
	cfg.Timeout = 2 * time.Second
	cfg.WriteCoalesceWaitTime = coalesce
	cfg.Keyspace = keyspace
	cfg.PageSize = pageDefault
	if proto >= 2 && tp.Chance(1, 4) {
		cl.AuthClass = "org.apache.cassandra.auth.PasswordAuthenticator"
		cfg.Authenticator = gocql.PasswordAuthenticator{Username: "user", Password: "secret"}
		k.Fault("swarm.authentication")
		if proto >= 2 && tp.Chance(1, 2) {
			// a mechanism with several steps: every AUTH_RESPONSE must carry the token the
			// authenticator produced for that step
			cl.AuthClass = "com.example.StepAuthenticator"
			cl.AuthRounds = 2 + tp.Next(3)
			cfg.Authenticator = wireStepAuth{step: 0}
			cl.OnAuthResponse = func(sc *node.SConn, round int, token []byte) {
				want := wireStepToken(round)
				if string(token) != want {
					k.Violate("C03", "C03/auth-response-token", "conn %s: AUTH_RESPONSE of step %d carries %q, the authenticator produced %q", sc.C.Name, round, token, want)
				}
			}
			k.Fault("swarm.authentication-in-steps")
		}
	}
	switch compName {
	case "snappy":
		cfg.Compressor = gocql.SnappyCompressor{}
	case "lz4":
		cfg.Compressor = lz4.LZ4Compressor{}
	}
	negotiated := ""
	for _, a := range adv {
		if a == compName && compName != "" {
			negotiated = compName
		}
	}

	var mu sync.Mutex
	ops := map[string]*wireOp{}
	prepared := map[string]struct {
		token string
		entry int
	}{}
	tracer := &wireTracer{}

	compressWith := func(sc *node.SConn) func([]byte) []byte {
		if sc.Compression == "" || respCompress == 0 {
			return nil
		}
		switch {
		case sc.Compression == "snappy" && respCompress == 1:
			return cqlspec.SnappyEncodeLiteral
		case sc.Compression == "snappy":
			return guardEncode(k, "snappy", func(b []byte) ([]byte, error) { return gocql.SnappyCompressor{}.Encode(b) })
		case sc.Compression == "lz4" && respCompress == 1:
			return cqlspec.CassandraLZ4EncodeLiteral
		default:
			return guardEncode(k, "lz4", func(b []byte) ([]byte, error) { return lz4.LZ4Compressor{}.Encode(b) })
		}
	}

	cl.OnRequest = func(sc *node.SConn, rec *node.ReqRec) {
		if rec.Err != nil || rec.Req == nil {
			return
		}
		rq := rec.Req
		if rq.Header.Version != proto {
			k.Violate("C03", "C03/wrong-protocol-version", "conn %s: %s frame carries version %d, the session was configured for %d", sc.C.Name, cqlspec.OpName(rq.Header.Opcode), rq.Header.Version, proto)
		}
		if rq.Header.Opcode == cqlspec.OpStartup {
			want := ""
			for _, a := range sc.Advertised {
				if a == compName && compName != "" {
					want = compName
				}
			}
			if got := rq.Options["COMPRESSION"]; got != want {
				k.Violate("C18", "C18/wrong-compressor-negotiated", "conn %s: STARTUP COMPRESSION=%q; configured %q, this node advertised %v", sc.C.Name, got, compName, sc.Advertised)
			}
			if rq.Options["CQL_VERSION"] != cfg.CQLVersion {
				k.Violate("C03", "C03/startup-options", "STARTUP CQL_VERSION=%q, configured %q", rq.Options["CQL_VERSION"], cfg.CQLVersion)
			}
		}
		if negotiated != "" && rq.Header.Opcode != cqlspec.OpOptions && rq.Header.Opcode != cqlspec.OpStartup && rq.Header.Flags&cqlspec.FlagCompression != 0 {
			k.Probe("compressed-request-decoded")
		}
	}

	cl.App = func(sc *node.SConn, rec *node.ReqRec) {
		rq := rec.Req
		mu.Lock()
		defer mu.Unlock()
		send := func(resp *cqlspec.Response, label string) {
			resp.Compress = compressWith(sc)
			if resp.Compress != nil {
				k.Probe("compressed-response-sent")
			}
			cl.Send(sc, rec, resp, node.Auto, label)
		}
		switch rq.Header.Opcode {
		case cqlspec.OpPrepare:
			tok := tokenRe.FindString(rq.Query)
			op := ops[tok]
			if op == nil {
				cl.SendError(sc, rec, cqlspec.ErrInvalid, "unknown token", node.Auto)
				return
			}
			entry := -1
			var binds []wireBind
			if op.kind == "exec" {
				if rq.Query != op.stmt {
					k.Violate("C03", "C03/prepare-statement-differs", "PREPARE carries %q, the caller's statement is %q", rq.Query, op.stmt)
				}
				binds = op.binds
			} else {
				for i, en := range op.entries {
					if en.stmt == rq.Query {
						entry, binds = i, en.binds
					}
				}
				if entry < 0 {
					k.Violate("C03", "C03/prepare-statement-differs", "PREPARE carries %q which is no entry of batch %s", rq.Query, tok)
				}
			}
			if proto >= 5 {
				if rq.PrepareKeyspace != keyspace {
					k.Violate("C03", "C03/prepare-keyspace", "PREPARE keyspace %q, connection keyspace %q", rq.PrepareKeyspace, keyspace)
				}
			}
			id := []byte(fmt.Sprintf("id:%s:%d", tok, entry))
			prepared[string(id)] = struct {
				token string
				entry int
			}{tok, entry}
			pm := &cqlspec.PreparedMeta{GlobalSpec: true}
			for i, b := range binds {
				pm.Columns = append(pm.Columns, cqlspec.ColSpec{Keyspace: "ks", Table: "t", Name: fmt.Sprintf("c%d", i), Type: b.t.col()})
			}
			if proto >= 4 && len(binds) > 0 {
				pm.PKIndices = []uint16{0}
			}
			if len(binds) == 0 && tp.Chance(1, 2) {
				pm.GlobalSpec = false
			}
			var rm *cqlspec.RowsMeta
			if op.kind == "exec" && op.resp.kind == "rows" {
				rm = wireRowsMeta(&op.resp, false)
				rm.HasMorePages, rm.PagingState = false, nil
			}
			send(&cqlspec.Response{Op: cqlspec.OpResult, Kind: cqlspec.KindPrepared, PreparedID: id, Prepared: pm, PreparedRows: rm}, "PREPARED "+tok)
		case cqlspec.OpQuery:
			tok := tokenRe.FindString(rq.Query)
			op := ops[tok]
			if op != nil && op.kind == "exec" && len(op.binds) > len(rq.Params.Values) {
				k.Violate("C03", "C03/bound-values-not-sent", "the caller bound %d value(s) to %q; the driver sent the statement as QUERY with %d value(s)", len(op.binds), op.stmt, len(rq.Params.Values))
				return
			}
			if op == nil || op.kind != "query" {
				cl.SendError(sc, rec, cqlspec.ErrInvalid, "unknown token", node.Auto)
				return
			}
			op.mainSeen++
			if op.inexpressible {
				k.Violate("C03", "C03/inexpressible-request-sent", "%s asks for %s on protocol %d, which cannot carry that; the request was sent all the same", op.token, op.whyText(), proto)
			}
			if rq.Query != op.stmt {
				k.Violate("C03", "C03/query-statement-differs", "QUERY carries %q, the caller's statement is %q", rq.Query, op.stmt)
			}
			wireCheckParams(k, op, rq, proto, keyspace, pageDefault, nil)
			send(wireBuildResp(op, rq, proto), strings.ToUpper(op.resp.kind)+" "+tok)
		case cqlspec.OpExecute:
			p, ok := prepared[string(rq.PreparedID)]
			if !ok {
				k.Violate("C03", "C03/execute-unknown-id", "EXECUTE carries prepared id %q which this node never issued", rq.PreparedID)
				return
			}
			op := ops[p.token]
			op.mainSeen++
			if op.inexpressible {
				k.Violate("C03", "C03/inexpressible-request-sent", "%s asks for %s on protocol %d, which cannot carry that; the request was sent all the same", op.token, op.whyText(), proto)
			}
			if op.rebind && op.mainSeen == 1 {
				// the execution before the values were changed: answered with nothing to read
				wireCheckParams(k, op, rq, proto, keyspace, pageDefault, op.binds0)
				send(&cqlspec.Response{Op: cqlspec.OpResult, Kind: cqlspec.KindVoid}, "VOID "+p.token+" (before rebinding)")
				return
			}
			wireCheckParams(k, op, rq, proto, keyspace, pageDefault, op.binds)
			send(wireBuildResp(op, rq, proto), strings.ToUpper(op.resp.kind)+" "+p.token)
		case cqlspec.OpBatch:
			wireCheckBatch(k, ops, prepared, rq, proto, send)
		default:
			cl.SendError(sc, rec, cqlspec.ErrProtocol, "unexpected opcode", node.Auto)
		}
	}

	sess, err := Boot(k, cl, 10*time.Second, func() (*gocql.Session, error) { return gocql.NewSession(*cfg) })
	if err != nil {
		if compName != "" || proto == 1 {
			// not a harness problem per se: report what happened and stop
		}
		k.Violate("HARNESS", "wire/boot", "session creation failed in a fault-free boot (proto %d, compressor %q, advertised %v): %v", proto, compName, adv, err)
		cl.CloseAll()
		return
	}
	if cfg.NumConns > 1 {
		// the pools open their remaining connections in the background: let them finish (a
		// jump of the clock between a handshake request and the node reading it would be a
		// connect timeout, i.e. a fault this scenario does not inject)
		want := cfg.NumConns * len(cl.Hosts)
		k.SettleUntil(3*time.Second, time.Millisecond, func() { cl.Process(); cl.DeliverAll() }, func() bool {
			n := 0
			for _, cs := range sess.VerifPoolConns() {
				n += len(cs)
			}
			return n >= want
		})
	}

	for ti := 0; ti < nTasks; ti++ {
		ti := ti
		var plans []*wireOp
		for oi := 0; oi < nOps; oi++ {
			plans = append(plans, wireGenOp(k, fmt.Sprintf("tok-%d-%d", ti, oi), proto))
		}
		k.Spawn(fmt.Sprintf("w%d", ti), func(t *kernel.Task) {
			for _, op := range plans {
				if !t.Step(op.kind + " " + op.token) {
					return
				}
				mu.Lock()
				ops[op.token] = op
				op.invokeAt = time.Now()
				mu.Unlock()
				wireRunOp(k, sess, op, proto, tracer)
				k.OpDone()
				if k.Violation() != nil {
					return
				}
			}
		})
	}
	k.TimeWeight = 1
	k.PreStep = append(k.PreStep, cl.Process)
	if ctrl {
		pushed := 0
		k.Sources = append(k.Sources, func() []kernel.Action {
			if pushed >= 4 {
				return nil
			}
			return []kernel.Action{{Key: "event", Rank: 1, Weight: 2, Do: func() {
				pushed++
				typ, ch := "STATUS_CHANGE", "UP"
				if tp.Chance(1, 2) {
					typ, ch = "TOPOLOGY_CHANGE", "NEW_NODE"
				}
				k.Fault("event.pushed")
				cl.PushEvent(&cqlspec.Response{EventType: typ, EventChange: ch, EventIP: net.ParseIP("10.0.0.1").To4(), EventPort: 9042})
			}}}
		})
	}
	// everything the node sends in this scenario is well-formed and nothing fails: the
	// driver has no reason to give up a connection before the session is closed
	k.PreStep = append(k.PreStep, func() {
		for _, c := range cl.Net.Conns() {
			if c.ClientClosed() && k.Violation() == nil {
				k.Violate("C04", "C04/connection-given-up-on-well-formed-traffic", "the driver closed connection %s although the node sent only well-formed frames (events included) and nothing failed", c.Name)
			}
		}
	})
	k.Loop(nil)
	k.BeginSettle()
	if !k.SettleUntil(30*time.Second, 10*time.Millisecond, cl.Process, k.TasksDone) && k.Violation() == nil {
		k.Violate("HARNESS", "wire/stuck", "operations still running after 30 simulated seconds with immediate answers: %v", k.RunningOps())
	}
	closed := make(chan struct{})
	go func() { sess.Close(); close(closed) }()
	if !k.SettleUntil(20*time.Second, 50*time.Millisecond, cl.Process, func() bool {
		select {
		case <-closed:
			return true
		default:
			return false
		}
	}) && k.Violation() == nil {
		k.Violate("C06", "C06/session-close-hangs", "Session.Close did not return within 20 simulated seconds after a fault-free run; driver goroutines:\n%s", strings.Join(DriverGoroutines(), "\n\n"))
	}
	cl.CloseAll()
	k.SettleUntil(20*time.Second, 100*time.Millisecond, nil, func() bool { return len(kernel.BubbleGoroutines()) == 0 })
}

// ---------------------------------------------------------------------------------
// generation

// wireUnsetBeforeV4 lets wireGenBinds draw UnsetValue on protocols 1-3 (set by the one caller
// that knows how to expect the refusal).
var wireUnsetBeforeV4 = false

func wireGenBinds(k *kernel.Kernel, proto int, n int, allowNamed bool) ([]wireBind, bool) {
	tp := k.Tape
	named := allowNamed && proto >= 3 && n > 0 && tp.Chance(1, 5)
	if allowNamed && wireUnsetBeforeV4 && proto < 3 && n > 0 && tp.Chance(1, 12) {
		// names for values came with protocol 3: before it values can only be sent by
		// position, the request cannot be expressed
		named = true
		k.Fault("req.named-values-before-v3")
	}
	var out []wireBind
	for i := 0; i < n; i++ {
		t := genScalar(tp, proto)
		v, b := genValue(tp, t, proto)
		wb := wireBind{t: t, val: v, bytes: b}
		if t.ID == cqlspec.TInet {
			wb.val = v.(string)
		}
		switch tp.Weighted([]int{8, 1, 1}) {
		case 1:
			wb.null, wb.val, wb.bytes = true, nil, nil
			k.Fault("req.null-value")
		case 2:
			if proto >= 4 {
				wb.unset, wb.val, wb.bytes = true, gocql.UnsetValue, nil
				k.Fault("req.unset-value")
			} else if wireUnsetBeforeV4 && tp.Chance(1, 4) {
				// "not set" cannot be said before protocol 4 (a negative length means null
				// there): the request cannot be expressed
				wb.unset, wb.val, wb.bytes = true, gocql.UnsetValue, nil
				k.Fault("req.unset-value-before-v4")
			}
		}
		if named {
			wb.name = fmt.Sprintf("n%d", i)
		}
		out = append(out, wb)
	}
	if named {
		k.Fault("req.named-values")
	} else if allowNamed && proto >= 3 && n >= 2 && tp.Chance(1, 8) {
		// a list that mixes named and positional values cannot be expressed (the
		// protocol names all values or none): whatever the driver does with it, the
		// frame must stay well-formed. The names flag follows the first value.
		for i := range out {
			if tp.Next(2) == 1 {
				out[i].name = fmt.Sprintf("n%d", i)
			}
		}
		k.Fault("req.mixed-named-values")
		return out, out[0].name != ""
	}
	return out, named
}

func wireGenOp(k *kernel.Kernel, token string, proto int) *wireOp {
	tp := k.Tape
	op := &wireOp{token: token, pageSize: -1}
	kinds := []int{5, 5, 2}
	if proto == 1 {
		kinds[2] = 0
	}
	op.kind = []string{"query", "exec", "batch"}[tp.Weighted(kinds)]
	op.cons = []gocql.Consistency{gocql.Quorum, gocql.One, gocql.Any, gocql.All, gocql.LocalQuorum, gocql.EachQuorum, gocql.LocalOne, gocql.Two, gocql.Three}[tp.Next(9)]
	if tp.Chance(1, 4) {
		op.serial = []gocql.SerialConsistency{gocql.Serial, gocql.LocalSerial}[tp.Next(2)]
		k.Fault("req.serial-consistency")
	}
	switch tp.Weighted([]int{6, 1, 2}) {
	case 1:
		op.tsMode = 1
		k.Fault("req.timestamp-off")
	case 2:
		op.tsMode, op.ts = 2, []int64{1, 1700000000000000, -5, 1 << 60}[tp.Next(4)]
		if tp.Chance(1, 40) {
			op.ts = 0
		}
		k.Fault("req.explicit-timestamp")
	}
	if proto >= 4 && tp.Chance(1, 4) {
		op.payload = map[string][]byte{"k1": {1, 2, 3}}
		if tp.Chance(1, 2) {
			op.payload["k0"] = []byte{}
		}
		k.Fault("req.custom-payload")
	} else if proto < 4 && tp.Chance(1, 12) {
		op.payload = map[string][]byte{"k1": {1, 2, 3}}
		op.inexpressible = true
		k.Fault("req.custom-payload-before-v4")
	}
	if tp.Chance(1, 5) {
		op.trace = true
		k.Fault("req.tracing")
	}
	if op.kind != "batch" && tp.Chance(1, 3) {
		op.release = true
		k.Fault("req.query-released-afterwards")
	}
	switch op.kind {
	case "query":
		op.stmt = "ECHO '" + token + "'"
		if tp.Chance(1, 6) {
			// (one in ten of them well past a megabyte: a body of any size up to the frame
			// limit must arrive as it was built, compressed or not)
			op.stmt += " /*" + strings.Repeat("p", []int{5000, 5000, 5000, 5000, 5000, 5000, 5000, 70000, 300000, 1200000}[tp.Next(10)]) + "*/"
		}
	case "exec":
		n := tp.Next(5)
		wireUnsetBeforeV4 = true
		op.binds, op.named = wireGenBinds(k, proto, n, true)
		wireUnsetBeforeV4 = false
		if proto >= 2 && tp.Chance(1, 1200) {
			// the most values a frame can count (a [short]), and one more than that: the first
			// must arrive intact, the second cannot be expressed
			n = []int{65535, 65536}[tp.Next(2)]
			op.named = false
			op.binds = make([]wireBind, n)
			for i := range op.binds {
				op.binds[i] = wireBind{t: wType{ID: cqlspec.TInt}, val: 7, bytes: cqlspec.EncInt(7)}
			}
			if n > 65535 {
				op.inexpressible, op.tooManyValues = true, true
			}
			k.Fault(fmt.Sprintf("req.%d-bound-values", n))
		}
		for _, b := range op.binds {
			if b.unset && proto < 4 {
				op.inexpressible, op.why = true, "a value left unset (UnsetValue)"
			}
		}
		if op.named && proto < 3 {
			op.inexpressible, op.why = true, "values given by name (NamedValue)"
		}
		ph := make([]string, n)
		for i := range ph {
			ph[i] = fmt.Sprintf("c%d = ?", i)
		}
		if n > 0 && !op.named && tp.Chance(1, 8) {
			op.rebind = true
			for _, b := range op.binds {
				v, enc := genValue(tp, b.t, proto)
				wb := wireBind{t: b.t, val: v, bytes: enc}
				if b.t.ID == cqlspec.TInet {
					wb.val = v.(string)
				}
				op.binds0 = append(op.binds0, wb)
			}
			k.Fault("req.values-rebound-on-the-same-query")
		}
		op.stmt = "SELECT * FROM ks.t /*" + token + "*/ WHERE " + strings.Join(ph, " AND ")
		if n == 0 {
			op.stmt = "SELECT * FROM ks.t /*" + token + "*/"
		}
		if n > 0 && tp.Chance(1, 8) {
			// the statement does not begin with its keyword
			op.stmt = []string{"/* hint */ ", "-- c\n", "  \n\t"}[tp.Next(3)] + op.stmt
			k.Fault("req.statement-begins-with-comment")
		}
		if tp.Chance(1, 3) {
			op.noSkipMeta = true
		}
	case "batch":
		op.batchType = []gocql.BatchType{gocql.LoggedBatch, gocql.UnloggedBatch, gocql.CounterBatch}[tp.Next(3)]
		ne := 1 + tp.Next(3)
		for i := 0; i < ne; i++ {
			en := wireEntry{}
			n := tp.Next(3)
			en.binds, _ = wireGenBinds(k, proto, n, false)
			ph := make([]string, n)
			for j := range ph {
				ph[j] = "?"
			}
			en.stmt = fmt.Sprintf("INSERT INTO ks.t /*%s e%d*/ VALUES (%s)", token, i, strings.Join(ph, ","))
			op.entries = append(op.entries, en)
		}
		allBound := true
		for _, en := range op.entries {
			if len(en.binds) == 0 {
				allBound = false // (an entry without values is a simple statement, never prepared)
			}
		}
		if allBound && tp.Chance(1, 3) {
			op.batchBind = true
			k.Fault("req.batch-values-from-binding-callback")
			if proto >= 3 && tp.Chance(1, 3) {
				// names given in another order than the markers
				for i := range op.entries {
					if len(op.entries[i].binds) >= 1 {
						op.batchBindNamed = true
						for j := range op.entries[i].binds {
							op.entries[i].binds[j].name = fmt.Sprintf("c%d", len(op.entries[i].binds)-1-j)
						}
					}
				}
				if op.batchBindNamed {
					op.inexpressible = true
					k.Fault("req.batch-named-values-from-binding-callback")
				}
			}
		}
	}
	if op.kind != "batch" {
		switch tp.Weighted([]int{5, 1, 1, 1}) {
		case 1:
			op.pageSize = 0
		case 2:
			op.pageSize = 7
		case 3:
			// (an empty, non-nil state: what a stateless paging API decodes for "first page")
			op.pageState = [][]byte{[]byte("state-1"), {0, 1, 2, 0xff}, {}}[tp.Next(3)]
			k.Fault("req.paging-state")
		}
	}
	op.consumer = tp.Next(4)
	if tp.Chance(1, 4) {
		// Scan / Scanner.Scan with nil destinations: the caller skips those columns (a tuple
		// column owns one destination per element, all nil then); the others must still
		// receive their own cells
		op.skipMask = 1 + tp.Next(1<<12-1)
	}
	op.resp = wireGenResp(k, op, proto)
	return op
}

func wireGenResp(k *kernel.Kernel, op *wireOp, proto int) wireResp {
	tp := k.Tape
	r := wireResp{}
	kinds := []int{6, 2, 3}
	if op.kind == "batch" {
		kinds[0] = 0
	}
	r.kind = []string{"rows", "void", "error"}[tp.Weighted(kinds)]
	if proto >= 4 && tp.Chance(1, 5) {
		r.warnings = []string{"warning one", "w2 for " + op.token}[:1+tp.Next(2)]
		k.Fault("resp.warnings")
	}
	if proto >= 4 && tp.Chance(1, 5) {
		r.payload = map[string][]byte{"srv": []byte(op.token)}
		if tp.Chance(1, 2) {
			r.payload["empty"] = []byte{} // a value of length zero is not a null
		}
		k.Fault("resp.custom-payload")
	}
	if op.trace {
		r.traceID = make([]byte, 16)
		for i := range r.traceID {
			r.traceID[i] = byte(tp.Next(256))
		}
	}
	switch r.kind {
	case "rows":
		r.global = tp.Next(2) == 0
		metaOnly := tp.Chance(1, 5)
		nc := 1 + tp.Next(5)
		if !metaOnly && tp.Chance(1, 20) {
			nc = 0 // a result without columns (and so without rows): well-formed
			k.Fault("resp.rows-without-columns")
		}
		for i := 0; i < nc; i++ {
			c := wireCol{name: fmt.Sprintf("col%d", i)}
			if metaOnly {
				c.t = genMetaType(tp, proto, 3)
			} else {
				c.t = genCellType(tp, proto, true)
			}
			r.cols = append(r.cols, c)
		}
		if metaOnly {
			k.Fault("resp.deep-metadata")
		} else {
			nr := tp.Next(5)
			if nc == 0 {
				nr = 0
			} else if tp.Chance(1, 16) {
				// a long page of rows that all look alike (compresses very well)
				nr = 200 + tp.Next(500)
				var row []wireCell
				for _, c := range r.cols {
					if tp.Chance(1, 2) {
						row = append(row, wireCell{null: true})
						continue
					}
					v, b := genValue(tp, c.t, proto)
					if len(b) > 64 {
						row = append(row, wireCell{null: true}) // keep the page small on the wire
						continue
					}
					row = append(row, wireCell{val: v, bytes: b})
				}
				for i := 0; i < nr; i++ {
					r.rows = append(r.rows, row)
				}
				nr = 0
				k.Fault("resp.many-identical-rows")
			}
			for i := 0; i < nr; i++ {
				var row []wireCell
				for _, c := range r.cols {
					if tp.Chance(1, 6) {
						row = append(row, wireCell{null: true})
						k.Fault("resp.null-cell")
						continue
					}
					genShortUDT = true
					before := shortUDTs
					v, b := genValue(tp, c.t, proto)
					genShortUDT = false
					if shortUDTs != before {
						k.Fault("resp.udt-value-older-than-its-type")
					}
					row = append(row, wireCell{val: v, bytes: b})
				}
				r.rows = append(r.rows, row)
			}
		}
		if op.pageState != nil && tp.Chance(1, 2) {
			r.hasMore, r.nextState = true, []byte("next:"+op.token)
			k.Fault("resp.has-more-pages")
		}
	case "error":
		code := allErrorCodes[tp.Next(len(allErrorCodes))]
		eb := &cqlspec.ErrorBody{Code: code, Message: "err for " + op.token, Consistency: uint16(1 + tp.Next(6)),
			Required: int32(tp.Next(5)), Alive: int32(tp.Next(5)), Received: int32(tp.Next(5)), BlockFor: int32(tp.Next(5)),
			NumFailures: int32(tp.Next(3)), DataPresent: byte(tp.Next(2)), WriteType: []string{"SIMPLE", "BATCH", "CAS"}[tp.Next(3)],
			Keyspace: "ks", Table: "tbl", Function: "fn", ArgTypes: []string{"int", "text"}}
		if proto >= 5 {
			for i := 0; i < int(eb.NumFailures); i++ {
				eb.ReasonMap = append(eb.ReasonMap, cqlspec.FailureReason{IP: []byte{10, 0, 0, byte(i + 1)}, Code: uint16(i)})
			}
		}
		r.errBody = eb
		k.Fault(fmt.Sprintf("resp.error-%#x", code))
	}
	return r
}

func wireRowsMeta(r *wireResp, noMeta bool) *cqlspec.RowsMeta {
	m := &cqlspec.RowsMeta{GlobalSpec: r.global, HasMorePages: r.hasMore, PagingState: r.nextState}
	for _, c := range r.cols {
		m.Columns = append(m.Columns, cqlspec.ColSpec{Keyspace: "ks", Table: "t", Name: c.name, Type: c.t.col()})
	}
	if noMeta {
		m.NoMetadata, m.ColumnCount, m.Columns, m.GlobalSpec = true, len(r.cols), nil, false
	}
	return m
}

func wireBuildResp(op *wireOp, rq *cqlspec.Request, proto int) *cqlspec.Response {
	r := &op.resp
	resp := &cqlspec.Response{Op: cqlspec.OpResult, Warnings: r.warnings, CustomPayload: r.payload}
	if rq.Header.Flags&cqlspec.FlagTracing != 0 {
		resp.TracingID = r.traceID
	}
	switch r.kind {
	case "void":
		resp.Kind = cqlspec.KindVoid
	case "error":
		resp.Op, resp.Error = cqlspec.OpError, r.errBody
	case "rows":
		resp.Kind = cqlspec.KindRows
		resp.Rows = wireRowsMeta(r, rq.Header.Opcode == cqlspec.OpExecute && rq.Params.SkipMetadata)
		for _, row := range r.rows {
			var cells []cqlspec.Cell
			for _, c := range row {
				cells = append(cells, cqlspec.Cell{Null: c.null, Bytes: c.bytes})
			}
			resp.RowData = append(resp.RowData, cells)
		}
	}
	return resp
}

// ---------------------------------------------------------------------------------
// request-side oracle (C03)

func wireCheckValues(k *kernel.Kernel, what string, got []cqlspec.Value, want []wireBind, proto int, named bool) {
	if len(got) != len(want) {
		k.Violate("C03", "C03/value-count", "%s: %d values on the wire, %d bound by the caller", what, len(got), len(want))
		return
	}
	for i, w := range want {
		g := got[i]
		switch {
		case w.unset:
			if !g.Unset {
				k.Violate("C03", "C03/unset-not-unset", "%s value %d: caller bound UnsetValue, wire has null=%v bytes=%x", what, i, g.Null, g.Bytes)
			}
		case w.null:
			if !g.Null {
				k.Violate("C03", "C03/null-not-null", "%s value %d: caller bound nil, wire has unset=%v bytes=%x", what, i, g.Unset, g.Bytes)
			}
		default:
			if g.Null || g.Unset || !bytes.Equal(g.Bytes, w.bytes) {
				k.Violate("C03", "C03/value-bytes", "%s value %d (%s): wire has null=%v unset=%v % x, expected % x", what, i, w.t, g.Null, g.Unset, g.Bytes, w.bytes)
			}
		}
		if named && proto >= 3 && g.Name != w.name && !mixedNames(want) {
			k.Violate("C03", "C03/value-name", "%s value %d: name %q on the wire, caller named it %q", what, i, g.Name, w.name)
		}
	}
}

func wireCheckParams(k *kernel.Kernel, op *wireOp, rq *cqlspec.Request, proto int, keyspace string, pageDefault int, binds []wireBind) {
	p := rq.Params
	what := cqlspec.OpName(rq.Header.Opcode) + " " + op.token
	if p.Consistency != uint16(op.cons) {
		k.Violate("C03", "C03/consistency", "%s: consistency %#x on the wire, caller asked %#x", what, p.Consistency, uint16(op.cons))
	}
	if binds != nil || rq.Header.Opcode == cqlspec.OpExecute {
		wireCheckValues(k, what, p.Values, binds, proto, op.named)
		if proto >= 3 && p.NamedValues != (op.named && len(binds) > 0) {
			k.Violate("C03", "C03/names-flag", "%s: names-for-values flag %v, caller named values: %v", what, p.NamedValues, op.named)
		}
	} else if len(p.Values) != 0 {
		k.Violate("C03", "C03/value-count", "%s: %d values on the wire for a statement without bound values", what, len(p.Values))
	}
	if proto == 1 {
		return
	}
	wantSerial := op.serial != 0
	if p.HasSerial != wantSerial || (wantSerial && p.SerialConsistency != uint16(op.serial)) {
		k.Violate("C03", "C03/serial-consistency", "%s: serial consistency present=%v %#x, caller asked %#x", what, p.HasSerial, p.SerialConsistency, uint16(op.serial))
	}
	wantPage := pageDefault
	if op.pageSize >= 0 {
		wantPage = op.pageSize
	}
	if (wantPage > 0) != p.HasPageSize || (wantPage > 0 && int(p.PageSize) != wantPage) {
		k.Violate("C03", "C03/page-size", "%s: page size present=%v %d, caller asked %d", what, p.HasPageSize, p.PageSize, wantPage)
	}
	if (len(op.pageState) > 0) != p.HasPagingState || !bytes.Equal(p.PagingState, op.pageState) {
		k.Violate("C03", "C03/paging-state", "%s: paging state present=%v % x, caller gave % x", what, p.HasPagingState, p.PagingState, op.pageState)
	}
	if proto >= 3 {
		wireCheckTimestamp(k, what, op, p.HasTimestamp, p.Timestamp)
	} else if p.HasTimestamp {
		k.Violate("C03", "C03/timestamp", "%s: timestamp flag on protocol %d", what, proto)
	}
	if proto >= 5 {
		if p.HasKeyspace != (keyspace != "") || p.Keyspace != keyspace {
			k.Violate("C03", "C03/keyspace", "%s: keyspace present=%v %q, connection keyspace %q", what, p.HasKeyspace, p.Keyspace, keyspace)
		}
	}
	wantSkip := rq.Header.Opcode == cqlspec.OpExecute && !op.noSkipMeta
	if p.SkipMetadata != wantSkip {
		k.Violate("C03", "C03/skip-metadata", "%s: skip_metadata flag %v, expected %v (NoSkipMetadata called: %v)", what, p.SkipMetadata, wantSkip, op.noSkipMeta)
	}
	wireCheckEnvelope(k, what, op, rq, proto)
}

func wireCheckTimestamp(k *kernel.Kernel, what string, op *wireOp, has bool, ts int64) {
	switch op.tsMode {
	case 1:
		if has {
			k.Violate("C03", "C03/timestamp", "%s: timestamp on the wire although DefaultTimestamp(false)", what)
		}
	case 2:
		if has && op.ts == 0 && ts != 0 {
			// its own signature: this input is a recorded finding (known_findings.json)
			k.Violate("C03", "C03/timestamp-zero-sent-as-current-time", "%s: the caller fixed the timestamp 0 (WithTimestamp(0)); the wire carries %d", what, ts)
		} else if !has || ts != op.ts {
			k.Violate("C03", "C03/timestamp", "%s: timestamp present=%v %d, caller fixed %d", what, has, ts, op.ts)
		}
	default:
		lo := op.invokeAt.UnixNano() / 1000
		hi := time.Now().UnixNano()/1000 + 1
		if !has || ts < lo || ts > hi {
			k.Violate("C03", "C03/timestamp", "%s: generated timestamp present=%v %d not within the simulated call window [%d,%d] µs", what, has, ts, lo, hi)
		}
	}
}

func wireCheckEnvelope(k *kernel.Kernel, what string, op *wireOp, rq *cqlspec.Request, proto int) {
	if (rq.Header.Flags&cqlspec.FlagTracing != 0) != op.trace {
		k.Violate("C03", "C03/tracing-flag", "%s: tracing flag %v, caller asked for tracing: %v", what, rq.Header.Flags&cqlspec.FlagTracing != 0, op.trace)
	}
	if proto >= 4 {
		if len(rq.CustomPayload) != len(op.payload) {
			k.Violate("C03", "C03/custom-payload", "%s: custom payload %v on the wire, caller gave %v", what, rq.CustomPayload, op.payload)
			return
		}
		for key, v := range op.payload {
			if g, ok := rq.CustomPayload[key]; !ok || !bytes.Equal(g, v) {
				k.Violate("C03", "C03/custom-payload", "%s: custom payload key %q: % x on the wire, caller gave % x", what, key, g, v)
			}
		}
	}
}

func wireCheckBatch(k *kernel.Kernel, ops map[string]*wireOp, prepared map[string]struct {
	token string
	entry int
}, rq *cqlspec.Request, proto int, send func(*cqlspec.Response, string)) {
	// find the batch by the token of its first entry
	var op *wireOp
	for _, en := range rq.Batch {
		tok := ""
		if en.Prepared {
			if p, ok := prepared[string(en.ID)]; ok {
				tok = p.token
			} else {
				k.Violate("C03", "C03/batch-unknown-id", "BATCH entry carries prepared id %q which this node never issued", en.ID)
				return
			}
		} else {
			tok = tokenRe.FindString(en.Query)
		}
		if o := ops[tok]; o != nil {
			op = o
			break
		}
	}
	if op == nil || op.kind != "batch" {
		k.Violate("C03", "C03/batch-unattributable", "BATCH with %d entries matches no batch the workload issued", len(rq.Batch))
		return
	}
	op.mainSeen++
	if op.inexpressible {
		k.Violate("C03", "C03/inexpressible-request-sent", "%s asks for %s on protocol %d, which cannot carry that; the request was sent all the same", op.token, op.whyText(), proto)
	}
	what := "BATCH " + op.token
	if rq.BatchType != byte(op.batchType) {
		k.Violate("C03", "C03/batch-type", "%s: type %d on the wire, caller asked %d", what, rq.BatchType, op.batchType)
	}
	if len(rq.Batch) != len(op.entries) {
		k.Violate("C03", "C03/batch-entries", "%s: %d entries on the wire, %d in the batch", what, len(rq.Batch), len(op.entries))
		return
	}
	for i, en := range op.entries {
		g := rq.Batch[i]
		if len(en.binds) > 0 {
			p, ok := prepared[string(g.ID)]
			if !g.Prepared || !ok || p.token != op.token || p.entry != i {
				k.Violate("C03", "C03/batch-entry-id", "%s entry %d: prepared=%v id %q does not belong to that entry's statement", what, i, g.Prepared, g.ID)
			}
		} else if g.Prepared || g.Query != en.stmt {
			k.Violate("C03", "C03/batch-entry-statement", "%s entry %d: prepared=%v %q on the wire, statement %q", what, i, g.Prepared, g.Query, en.stmt)
		}
		wireCheckValues(k, fmt.Sprintf("%s entry %d", what, i), g.Values, en.binds, proto, false)
	}
	if rq.BatchConsistency != uint16(op.cons) {
		k.Violate("C03", "C03/consistency", "%s: consistency %#x on the wire, caller asked %#x", what, rq.BatchConsistency, uint16(op.cons))
	}
	if proto >= 3 {
		wantSerial := op.serial != 0
		if rq.BatchHasSerial != wantSerial || (wantSerial && rq.BatchSerial != uint16(op.serial)) {
			k.Violate("C03", "C03/serial-consistency", "%s: serial consistency present=%v %#x, caller asked %#x", what, rq.BatchHasSerial, rq.BatchSerial, uint16(op.serial))
		}
		wireCheckTimestamp(k, what, op, rq.BatchHasTimestamp, rq.BatchTimestamp)
	}
	wireCheckEnvelope(k, what, op, rq, proto)
	send(wireBuildResp(op, rq, proto), strings.ToUpper(op.resp.kind)+" "+op.token)
}

// ---------------------------------------------------------------------------------
// client side: issue the request, compare the driver's view of the response (C04)

func bindArgs(bs []wireBind) []interface{} {
	var out []interface{}
	for _, b := range bs {
		v := b.val
		if b.name != "" {
			v = gocql.NamedValue(b.name, v)
		}
		out = append(out, v)
	}
	return out
}

func wireRunOp(k *kernel.Kernel, sess *gocql.Session, op *wireOp, proto int, tracer *wireTracer) {
	if op.inexpressible {
		// the driver refuses by panicking on the caller's goroutine or by returning an error;
		// either way the node must not see the request (checked where requests arrive)
		var err error
		refused := false
		func() {
			defer func() {
				if recover() != nil {
					refused = true
				}
			}()
			if op.kind == "batch" && op.batchBindNamed {
				b := sess.NewBatch(op.batchType)
				for _, en := range op.entries {
					args := bindArgs(en.binds)
					b.Bind(en.stmt, func(*gocql.QueryInfo) ([]interface{}, error) { return args, nil })
				}
				err = sess.ExecuteBatch(b)
			} else if op.kind == "batch" {
				b := sess.NewBatch(op.batchType)
				for _, en := range op.entries {
					b.Query(en.stmt, bindArgs(en.binds)...)
				}
				b.CustomPayload = op.payload
				err = sess.ExecuteBatch(b)
			} else {
				err = sess.Query(op.stmt, bindArgs(op.binds)...).CustomPayload(op.payload).Exec()
			}
		}()
		if !refused && err == nil {
			what := "a custom payload"
			if op.tooManyValues {
				what = "65536 bound values, more than a frame can count,"
			}
			if op.batchBindNamed {
				what = "named values in a batch (from a binding callback)"
			}
			if op.why != "" {
				what = op.why
			}
			k.Violate("C03", "C03/inexpressible-request-accepted", "%s asked for %s on protocol %d and the call reported success", op.token, what, proto)
		}
		k.Rec("ret %s inexpressible refused=%v err=%s", op.token, refused, ErrClass(err))
		return
	}
	r := &op.resp
	if op.kind == "batch" {
		b := sess.NewBatch(op.batchType)
		b.Cons = op.cons
		for _, en := range op.entries {
			if op.batchBind {
				args := bindArgs(en.binds)
				b.Bind(en.stmt, func(*gocql.QueryInfo) ([]interface{}, error) { return args, nil })
			} else {
				b.Query(en.stmt, bindArgs(en.binds)...)
			}
		}
		if op.serial != 0 {
			b.SerialConsistency(op.serial)
		}
		switch op.tsMode {
		case 1:
			b.DefaultTimestamp(false)
		case 2:
			b.WithTimestamp(op.ts)
		}
		if op.payload != nil {
			b.CustomPayload = op.payload
		}
		if op.trace {
			b.Trace(tracer)
		}
		err := sess.ExecuteBatch(b)
		wireCheckError(k, op, err, proto)
		wireCheckTrace(k, op, tracer)
		wireCheckSeen(k, op)
		return
	}
	var q *gocql.Query
	var info *gocql.QueryInfo
	if op.kind == "query" {
		q = sess.Query(op.stmt)
	} else if op.rebind {
		q = sess.Query(op.stmt, bindArgs(op.binds0)...)
	} else {
		args := bindArgs(op.binds)
		q = sess.Bind(op.stmt, func(qi *gocql.QueryInfo) ([]interface{}, error) {
			cp := *qi
			info = &cp
			return args, nil
		})
	}
	if op.release {
		// the caller hands the Query back when it is done with it (Query.Release): the
		// session gives the object to a later Session.Query / Session.Bind, as new
		defer q.Release()
	}
	q.Consistency(op.cons)
	if op.serial != 0 {
		q.SerialConsistency(op.serial)
	}
	if op.pageSize >= 0 {
		q.PageSize(op.pageSize)
	}
	if op.pageState != nil {
		q.PageState(op.pageState)
	}
	switch op.tsMode {
	case 1:
		q.DefaultTimestamp(false)
	case 2:
		q.WithTimestamp(op.ts)
	}
	if op.payload != nil {
		q.CustomPayload(op.payload)
	}
	if op.trace {
		q.Trace(tracer)
	}
	if op.noSkipMeta {
		q.NoSkipMetadata()
	}
	if op.rebind {
		_ = q.Exec()
		q.Bind(bindArgs(op.binds)...)
		if op.pageState != nil {
			q.PageState(op.pageState) // Bind starts the query over: it forgets a paging state
		}
	}
	iter := q.Iter()
	if op.kind == "exec" {
		wireCheckQueryInfo(k, op, info, proto)
	}
	if r.kind == "error" {
		wireCheckError(k, op, iter.Close(), proto)
		wireCheckTrace(k, op, tracer)
		wireCheckSeen(k, op)
		return
	}
	// envelope parts must be read before Close
	if proto >= 4 {
		if w := iter.Warnings(); !reflect.DeepEqual(append([]string{}, w...), append([]string{}, r.warnings...)) {
			k.Violate("C04", "C04/warnings", "%s: Warnings() = %q, the frame carried %q", op.token, w, r.warnings)
		}
		gp := iter.GetCustomPayload()
		if len(gp) != len(r.payload) {
			k.Violate("C04", "C04/custom-payload", "%s: GetCustomPayload() = %v, the frame carried %v", op.token, gp, r.payload)
		}
		for key, v := range r.payload {
			if g, ok := gp[key]; ok && len(v) == 0 && v != nil && g == nil {
				k.Violate("C04", "C04/custom-payload", "%s: payload key %q carried a value of length zero, the driver reports a null", op.token, key)
				return
			}
			if !bytes.Equal(gp[key], v) {
				k.Violate("C04", "C04/custom-payload", "%s: payload key %q = % x, the frame carried % x", op.token, key, gp[key], v)
			}
		}
	}
	if r.kind == "rows" {
		wireCheckRows(k, op, iter, proto)
	}
	if err := iter.Close(); err != nil && k.Violation() == nil {
		k.Violate("C04", "C04/unexpected-error", "%s: a well-formed %s response was reported as error: %v", op.token, r.kind, err)
	}
	wireCheckTrace(k, op, tracer)
	wireCheckSeen(k, op)
}

func wireCheckSeen(k *kernel.Kernel, op *wireOp) {
	want := 1
	if op.rebind {
		want = 2
	}
	if op.mainSeen != want && k.Violation() == nil {
		k.Violate("C03", "C03/request-count", "%s: the node received the %s request %d times (no retry policy configured)", op.token, op.kind, op.mainSeen)
	}
}

func wireCheckTrace(k *kernel.Kernel, op *wireOp, tracer *wireTracer) {
	if !op.trace {
		return
	}
	tracer.mu.Lock()
	defer tracer.mu.Unlock()
	for _, id := range tracer.ids {
		if bytes.Equal(id, op.resp.traceID) {
			return
		}
	}
	if op.resp.kind == "error" {
		return // the driver does not promise a trace call for error responses
	}
	k.Violate("C04", "C04/trace-id", "%s: Tracer.Trace was not called with the trace id % x the response carried (ids seen: %d)", op.token, op.resp.traceID, len(tracer.ids))
}

func wireCheckQueryInfo(k *kernel.Kernel, op *wireOp, info *gocql.QueryInfo, proto int) {
	if info == nil {
		return // the PREPARE failed before the binding callback ran
	}
	if want := fmt.Sprintf("id:%s:-1", op.token); string(info.Id) != want {
		k.Violate("C04", "C04/prepared-id", "%s: QueryInfo.Id = %q, the node returned %q", op.token, info.Id, want)
	}
	if len(info.Args) != len(op.binds) {
		k.Violate("C04", "C04/prepared-bind-metadata", "%s: QueryInfo.Args has %d columns, the node returned %d", op.token, len(info.Args), len(op.binds))
		return
	}
	for i, b := range op.binds {
		a := info.Args[i]
		if a.Name != fmt.Sprintf("c%d", i) || a.Keyspace != "ks" || a.Table != "t" {
			k.Violate("C04", "C04/prepared-bind-metadata", "%s: bind column %d is %s.%s.%s, the node returned ks.t.c%d", op.token, i, a.Keyspace, a.Table, a.Name, i)
		}
		if d := sameTypeInfo(a.TypeInfo, b.t); d != "" {
			k.Violate("C04", "C04/prepared-bind-metadata", "%s: bind column %d: %s", op.token, i, d)
		}
	}
	if proto >= 4 && len(op.binds) > 0 {
		if !reflect.DeepEqual(info.PKeyColumns, []int{0}) {
			k.Violate("C04", "C04/prepared-pk-indexes", "%s: QueryInfo.PKeyColumns = %v, the node returned [0]", op.token, info.PKeyColumns)
		}
	}
	if op.resp.kind == "rows" && proto >= 2 {
		if len(info.Rval) != len(op.resp.cols) {
			k.Violate("C04", "C04/prepared-result-metadata", "%s: QueryInfo.Rval has %d columns, the node returned %d", op.token, len(info.Rval), len(op.resp.cols))
			return
		}
		for i, c := range op.resp.cols {
			if info.Rval[i].Name != c.name {
				k.Violate("C04", "C04/prepared-result-metadata", "%s: result column %d named %q, the node returned %q", op.token, i, info.Rval[i].Name, c.name)
			}
			if d := sameTypeInfo(info.Rval[i].TypeInfo, c.t); d != "" {
				k.Violate("C04", "C04/prepared-result-metadata", "%s: result column %d: %s", op.token, i, d)
			}
		}
	}
}

func wireCheckRows(k *kernel.Kernel, op *wireOp, iter *gocql.Iter, proto int) {
	r := &op.resp
	cols := iter.Columns()
	if len(cols) != len(r.cols) {
		k.Violate("C04", "C04/columns", "%s: Columns() has %d columns, the frame described %d", op.token, len(cols), len(r.cols))
		return
	}
	for i, c := range r.cols {
		if cols[i].Name != c.name || cols[i].Keyspace != "ks" || cols[i].Table != "t" {
			k.Violate("C04", "C04/columns", "%s: column %d is %s.%s.%s, the frame said ks.t.%s", op.token, i, cols[i].Keyspace, cols[i].Table, cols[i].Name, c.name)
			return
		}
		if d := sameTypeInfo(cols[i].TypeInfo, c.t); d != "" {
			k.Violate("C04", "C04/column-type", "%s: column %d (%s): %s", op.token, i, c.t, d)
			return
		}
	}
	if ps := iter.PageState(); !bytes.Equal(ps, r.nextState) {
		k.Violate("C04", "C04/paging-state", "%s: PageState() = % x, the frame carried % x", op.token, ps, r.nextState)
		return
	}
	if iter.NumRows() != len(r.rows) {
		k.Violate("C04", "C04/row-count", "%s: NumRows() = %d, the frame carried %d rows", op.token, iter.NumRows(), len(r.rows))
		return
	}
	if len(r.rows) == 0 {
		if n := iter.VerifRemaining(); n > 0 {
			k.Violate("C04", "C04/body-not-consumed", "%s: %d bytes of the frame body left after the metadata of an empty result", op.token, n)
		}
		return
	}
	for _, c := range r.cols {
		if c.t.ID == cqlspec.TCustom {
			return
		}
	}
	// consume with one of the four consumers; all deliver the default Go types
	var got []map[string]interface{}
	switch op.consumer {
	case 0:
		var err error
		got, err = iter.SliceMap()
		if err != nil {
			k.Violate("C04", "C04/unexpected-error", "%s: SliceMap failed on a well-formed result: %v", op.token, err)
			return
		}
	case 1:
		for {
			m := map[string]interface{}{}
			if !iter.MapScan(m) {
				break
			}
			got = append(got, m)
		}
	case 2:
		for {
			rd, err := iter.RowData()
			if err != nil {
				k.Violate("C04", "C04/unexpected-error", "%s: RowData failed: %v", op.token, err)
				return
			}
			skipped := wireSkipDests(k, op, r.cols, rd.Values)
			if !iter.Scan(rd.Values...) {
				break
			}
			m := map[string]interface{}{}
			for i, c := range rd.Columns {
				if !skipped[i] {
					m[c] = reflect.Indirect(reflect.ValueOf(rd.Values[i])).Interface()
				}
			}
			got = append(got, m)
		}
	default:
		rem := iter.VerifRemaining()
		sc := iter.Scanner()
		for sc.Next() {
			rd, _ := iter.RowData()
			skipped := wireSkipDests(k, op, r.cols, rd.Values)
			if err := sc.Scan(rd.Values...); err != nil {
				k.Violate("C04", "C04/unexpected-error", "%s: Scanner.Scan failed on a well-formed result: %v", op.token, err)
				return
			}
			m := map[string]interface{}{}
			for i, c := range rd.Columns {
				if !skipped[i] {
					m[c] = reflect.Indirect(reflect.ValueOf(rd.Values[i])).Interface()
				}
			}
			got = append(got, m)
		}
		_ = rem
	}
	if len(got) != len(r.rows) {
		k.Violate("C04", "C04/row-count", "%s: the consumer delivered %d rows, the frame carried %d (iterator error: %v)", op.token, len(got), len(r.rows), iter.Close())
		return
	}
	if op.consumer != 3 {
		if n := iter.VerifRemaining(); n > 0 {
			k.Violate("C04", "C04/body-not-consumed", "%s: %d bytes of the frame body left after the last row", op.token, n)
			return
		}
	}
	for ri, row := range r.rows {
		for ci, c := range r.cols {
			if op.skipMask>>uint(ci%12)&1 == 1 && op.consumer >= 2 {
				continue // skipped by the caller
			}
			cell := row[ci]
			check := func(name string, t wType, want interface{}, null bool) {
				g, ok := got[ri][name]
				if !ok {
					var keys []string
					for kk := range got[ri] {
						keys = append(keys, kk)
					}
					sort.Strings(keys)
					k.Violate("C04", "C04/cell-missing", "%s: row %d has no entry %q (has %v)", op.token, ri, name, keys)
					return
				}
				if null {
					want = zeroOf(t)
				}
				okv := sameValue(g, want)
				if !okv && t.ID == cqlspec.TSet {
					okv = sameSet(g, want)
				}
				if !okv {
					k.Violate("C04", "C04/cell-value", "%s: row %d column %s (%s, null=%v): driver delivered %#v, the frame encodes %#v", op.token, ri, name, t, null, g, want)
				}
			}
			if c.t.ID == cqlspec.TTuple {
				for ei, et := range c.t.Elems {
					var want interface{}
					if !cell.null {
						want = cell.val.([]interface{})[ei]
					}
					check(gocql.TupleColumnName(c.name, ei), et, want, cell.null)
				}
				continue
			}
			if c.t.ID == cqlspec.TUDT && cell.null {
				g := got[ri][c.name]
				if m, ok := g.(map[string]interface{}); !ok || len(m) != 0 {
					k.Violate("C04", "C04/cell-value", "%s: row %d column %s: null UDT delivered as %#v", op.token, ri, c.name, g)
				}
				continue
			}
			check(c.name, c.t, cell.val, cell.null)
			if k.Violation() != nil {
				return
			}
		}
	}
}

// wireCheckError compares the error the caller got with the ERROR frame's content.
func wireCheckError(k *kernel.Kernel, op *wireOp, err error, proto int) {
	r := &op.resp
	if r.kind != "error" {
		if err != nil {
			k.Violate("C04", "C04/unexpected-error", "%s: a well-formed %s response was reported as error: %v", op.token, r.kind, err)
		}
		return
	}
	eb := r.errBody
	if err == nil {
		k.Violate("C04", "C04/error-lost", "%s: the ERROR frame (code %#x) was reported as success", op.token, eb.Code)
		return
	}
	var re gocql.RequestError
	if !errors.As(err, &re) {
		k.Violate("C04", "C04/error-type", "%s: ERROR frame code %#x surfaced as %T: %v", op.token, eb.Code, err, err)
		return
	}
	if re.Code() != int(eb.Code) || re.Message() != eb.Message {
		k.Violate("C04", "C04/error-fields", "%s: error code %#x message %q, the frame carried %#x %q", op.token, re.Code(), re.Message(), eb.Code, eb.Message)
		return
	}
	bad := func(what string, got, want interface{}) {
		k.Violate("C04", "C04/error-fields", "%s: error %#x field %s = %v, the frame carried %v", op.token, eb.Code, what, got, want)
	}
	switch eb.Code {
	case cqlspec.ErrUnavailable:
		x, ok := err.(*gocql.RequestErrUnavailable)
		if !ok {
			bad("type", fmt.Sprintf("%T", err), "*RequestErrUnavailable")
		} else if uint16(x.Consistency) != eb.Consistency || x.Required != int(eb.Required) || x.Alive != int(eb.Alive) {
			bad("consistency/required/alive", fmt.Sprint(x.Consistency, x.Required, x.Alive), fmt.Sprint(eb.Consistency, eb.Required, eb.Alive))
		}
	case cqlspec.ErrWriteTimeout:
		x, ok := err.(*gocql.RequestErrWriteTimeout)
		if !ok {
			bad("type", fmt.Sprintf("%T", err), "*RequestErrWriteTimeout")
		} else if uint16(x.Consistency) != eb.Consistency || x.Received != int(eb.Received) || x.BlockFor != int(eb.BlockFor) || x.WriteType != eb.WriteType {
			bad("fields", fmt.Sprint(x.Consistency, x.Received, x.BlockFor, x.WriteType), fmt.Sprint(eb.Consistency, eb.Received, eb.BlockFor, eb.WriteType))
		}
	case cqlspec.ErrReadTimeout:
		x, ok := err.(*gocql.RequestErrReadTimeout)
		if !ok {
			bad("type", fmt.Sprintf("%T", err), "*RequestErrReadTimeout")
		} else if uint16(x.Consistency) != eb.Consistency || x.Received != int(eb.Received) || x.BlockFor != int(eb.BlockFor) || x.DataPresent != eb.DataPresent {
			bad("fields", fmt.Sprint(x.Consistency, x.Received, x.BlockFor, x.DataPresent), fmt.Sprint(eb.Consistency, eb.Received, eb.BlockFor, eb.DataPresent))
		}
	case cqlspec.ErrReadFailure:
		x, ok := err.(*gocql.RequestErrReadFailure)
		if !ok {
			bad("type", fmt.Sprintf("%T", err), "*RequestErrReadFailure")
		} else {
			if uint16(x.Consistency) != eb.Consistency || x.Received != int(eb.Received) || x.BlockFor != int(eb.BlockFor) || x.DataPresent != (eb.DataPresent != 0) {
				bad("fields", fmt.Sprint(x.Consistency, x.Received, x.BlockFor, x.DataPresent), fmt.Sprint(eb.Consistency, eb.Received, eb.BlockFor, eb.DataPresent != 0))
			}
			wireCheckFailures(k, op, proto, x.NumFailures, x.ErrorMap, eb)
		}
	case cqlspec.ErrWriteFailure:
		x, ok := err.(*gocql.RequestErrWriteFailure)
		if !ok {
			bad("type", fmt.Sprintf("%T", err), "*RequestErrWriteFailure")
		} else {
			if uint16(x.Consistency) != eb.Consistency || x.Received != int(eb.Received) || x.BlockFor != int(eb.BlockFor) || x.WriteType != eb.WriteType {
				bad("fields", fmt.Sprint(x.Consistency, x.Received, x.BlockFor, x.WriteType), fmt.Sprint(eb.Consistency, eb.Received, eb.BlockFor, eb.WriteType))
			}
			wireCheckFailures(k, op, proto, x.NumFailures, x.ErrorMap, eb)
		}
	case cqlspec.ErrFunctionFailure:
		x, ok := err.(*gocql.RequestErrFunctionFailure)
		if !ok {
			bad("type", fmt.Sprintf("%T", err), "*RequestErrFunctionFailure")
		} else if x.Keyspace != eb.Keyspace || x.Function != eb.Function || !reflect.DeepEqual(x.ArgTypes, eb.ArgTypes) {
			bad("fields", fmt.Sprint(x.Keyspace, x.Function, x.ArgTypes), fmt.Sprint(eb.Keyspace, eb.Function, eb.ArgTypes))
		}
	case cqlspec.ErrAlreadyExists:
		x, ok := err.(*gocql.RequestErrAlreadyExists)
		if !ok {
			bad("type", fmt.Sprintf("%T", err), "*RequestErrAlreadyExists")
		} else if x.Keyspace != eb.Keyspace || x.Table != eb.Table {
			bad("fields", fmt.Sprint(x.Keyspace, x.Table), fmt.Sprint(eb.Keyspace, eb.Table))
		}
	case cqlspec.ErrCASWriteUnknown:
		x, ok := err.(*gocql.RequestErrCASWriteUnknown)
		if !ok {
			bad("type", fmt.Sprintf("%T", err), "*RequestErrCASWriteUnknown")
		} else if uint16(x.Consistency) != eb.Consistency || x.Received != int(eb.Received) || x.BlockFor != int(eb.BlockFor) {
			bad("fields", fmt.Sprint(x.Consistency, x.Received, x.BlockFor), fmt.Sprint(eb.Consistency, eb.Received, eb.BlockFor))
		}
	case cqlspec.ErrCDCWriteFailure:
		if _, ok := err.(*gocql.RequestErrCDCWriteFailure); !ok {
			bad("type", fmt.Sprintf("%T", err), "*RequestErrCDCWriteFailure")
		}
	}
}

func wireCheckFailures(k *kernel.Kernel, op *wireOp, proto int, n int, m gocql.ErrorMap, eb *cqlspec.ErrorBody) {
	if proto >= 5 {
		if len(m) != len(eb.ReasonMap) {
			k.Violate("C04", "C04/error-fields", "%s: failure reason map has %d entries, the frame carried %d", op.token, len(m), len(eb.ReasonMap))
			return
		}
		for _, fr := range eb.ReasonMap {
			ip := fmt.Sprintf("%d.%d.%d.%d", fr.IP[0], fr.IP[1], fr.IP[2], fr.IP[3])
			if m[ip] != fr.Code {
				k.Violate("C04", "C04/error-fields", "%s: failure reason for %s = %d, the frame carried %d", op.token, ip, m[ip], fr.Code)
			}
		}
	} else if n != int(eb.NumFailures) {
		k.Violate("C04", "C04/error-fields", "%s: NumFailures = %d, the frame carried %d", op.token, n, eb.NumFailures)
	}
}

// mixedNames reports a bind list that names some values and not others; for such a list
// only well-formedness and the values are demanded, not the names.
func mixedNames(bs []wireBind) bool {
	some, all := false, true
	for _, b := range bs {
		if b.name != "" {
			some = true
		} else {
			all = false
		}
	}
	return some && !all
}

// wireStepAuth is an authenticator whose exchange takes several steps: step 0 answers the
// AUTHENTICATE frame, step n the n-th AUTH_CHALLENGE ("challenge-<n>").
type wireStepAuth struct{ step int }

func wireStepToken(step int) string {
	if step == 0 {
		return "step-0"
	}
	return fmt.Sprintf("step-%d:challenge-%d", step, step)
}

func (a wireStepAuth) Challenge(req []byte) ([]byte, gocql.Authenticator, error) {
	if a.step > 0 && string(req) != fmt.Sprintf("challenge-%d", a.step) {
		return nil, nil, fmt.Errorf("step %d: unexpected challenge %q", a.step, req)
	}
	return []byte(wireStepToken(a.step)), wireStepAuth{step: a.step + 1}, nil
}

func (a wireStepAuth) Success(data []byte) error { return nil }

func (op *wireOp) whyText() string {
	if op.why != "" {
		return op.why
	}
	return "a custom payload"
}

// wireSkipDests replaces the destinations of the columns the operation skips by nil (every
// element destination of a tuple column) and reports which destinations those are.
func wireSkipDests(k *kernel.Kernel, op *wireOp, cols []wireCol, dests []interface{}) []bool {
	skipped := make([]bool, len(dests))
	if op.skipMask == 0 {
		return skipped
	}
	at := 0
	for ci, c := range cols {
		n := 1
		if c.t.ID == cqlspec.TTuple {
			n = len(c.t.Elems)
		}
		if op.skipMask>>uint(ci%12)&1 == 1 {
			for j := at; j < at+n && j < len(dests); j++ {
				dests[j] = nil
				skipped[j] = true
			}
			if c.t.ID == cqlspec.TTuple {
				k.Probe("tuple-column-skipped-with-nil-destinations")
			}
		}
		at += n
	}
	return skipped
}
