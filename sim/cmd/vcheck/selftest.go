package main

import (
	"bufio"
	"bytes"
	"flag"
	"fmt"
	"os"
	"os/exec"
	"strconv"
	"strings"
	"sync"
)

// cmdSelftest is the determinism self-test: for every scenario it runs the same seeds
// several times in separate processes at GOMAXPROCS 1, 4 and 16 and compares the run
// fingerprints (FNV of the canonical log).
func cmdSelftest(args []string) {
	fs := flag.NewFlagSet("selftest", flag.ExitOnError)
	n := fs.Int("n", 200, "seeds per scenario")
	only := fs.String("scenario", "", "only this scenario")
	seed := fs.Int64("seed", envInt("VERIF_SEED", 1), "base seed")
	fs.Parse(args)
	build(false)
	names := map[string]bool{}
	for _, p := range properties {
		for _, s := range p.Scenarios {
			names[s.Name] = true
		}
	}
	bad := 0
	for name := range names {
		if *only != "" && name != *only {
			continue
		}
		type cfg struct{ procs, rep int }
		cfgs := []cfg{{1, 0}, {1, 1}, {1, 2}, {4, 0}, {16, 0}}
		res := make([]map[int]string, len(cfgs))
		var wg sync.WaitGroup
		for i, c := range cfgs {
			wg.Add(1)
			go func(i int, c cfg) {
				defer wg.Done()
				res[i] = fingerprints(name, *seed, *n, c.procs)
			}(i, c)
		}
		wg.Wait()
		div1, divN := 0, 0
		for idx, fp := range res[0] {
			for i := 1; i < len(cfgs); i++ {
				if res[i][idx] != fp {
					if cfgs[i].procs == 1 {
						div1++
					} else {
						divN++
					}
				}
			}
		}
		fmt.Printf("selftest: scenario %s: %d seeds x 5 processes: divergent at GOMAXPROCS=1: %d/%d, at 4/16: %d/%d\n",
			name, *n, div1, 2**n, divN, 2**n)
		if div1*100 > 2**n {
			bad++
		}
	}
	cleanup()
	if bad > 0 {
		fmt.Println("selftest: divergence above 1% at GOMAXPROCS=1")
		os.Exit(2)
	}
}

func fingerprints(scenario string, seed int64, n, procs int) map[int]string {
	cmd := exec.Command(simBin, "-test.run", "^TestSim$", "-test.timeout", "0", "-sim.scenario="+scenario,
		"-sim.seed="+strconv.FormatInt(seed, 10), "-sim.count="+strconv.Itoa(n))
	cmd.Env = append(os.Environ(), "GOMAXPROCS="+strconv.Itoa(procs))
	var out bytes.Buffer
	cmd.Stdout = &out
	cmd.Run()
	res := map[int]string{}
	sc := bufio.NewScanner(&out)
	sc.Buffer(make([]byte, 1<<20), 64<<20)
	for sc.Scan() {
		line := sc.Text()
		if strings.HasPrefix(line, "RES ") {
			var idx int
			fp := ""
			if i := strings.Index(line, `"index":`); i >= 0 {
				fmt.Sscanf(line[i+8:], "%d", &idx)
			}
			if i := strings.Index(line, `"fingerprint":"`); i >= 0 {
				fp = line[i+15 : i+31]
			}
			res[idx] = fp
		}
	}
	return res
}
