package scen

import (
	"bytes"
	"context"
	"fmt"
	"runtime"
	"sort"
	"strconv"
	"strings"
	"sync"
	"time"

	"github.com/gocql/gocql"
	"github.com/gocql/gocql/verifsim/cqlspec"
	"github.com/gocql/gocql/verifsim/kernel"
	"github.com/gocql/gocql/verifsim/node"
)

// Scenario page (C15): paged iteration yields every row exactly once, in order, and then
// stops. The simulated node answers from a per-query script (pages, rows, opaque paging
// states); every consumer step is a scheduler step, every page reply is held, so whether
// the asynchronously prefetched page arrives before, at or after the moment the consumer
// reaches the end of the current page is a choice of the tape.
//
// Simulator limit (documented in the report): nextIter.fetch serialises the prefetching
// goroutine and the consumer with a sync.Once, i.e. a sync.Mutex. A goroutine blocked on a
// mutex is not "durably blocked" for testing/synctest, so a consumer that physically
// entered fetch() while the prefetch is waiting for the network would freeze the bubble.
// The consumer therefore waits in front of its page-boundary call until no goroutine
// started by fetchAsync is alive (found in the goroutine dump, nothing is mirrored from the
// driver); "the consumer reached the page end before the prefetched page arrived" is thus
// represented by the consumer standing in front of that call. Because sync.Once admits no
// other interleaving between the two goroutines, no behaviour is lost. SliceMap consumes
// everything in one call and cannot be held at a boundary: it runs with Prefetch(0).
//
// Two further classes: (1) the consumer that checkpoints and wipes - at rows chosen with the
// script it takes Iter.PageState(), keeps a copy and overwrites the returned slice in place
// (likewise the []byte it scanned, the custom payload and the warnings of the page); the
// copy must be what the node sent, and the request for the following page must still carry,
// byte for byte, the state the node sent (C15/next-page-wrong-state where it arrives);
// (2) the node that pages although no page size was sent (Query.PageSize(0), or a session
// with ClusterConfig.PageSize 0), and the single page although one was sent.

func init() {
	register(&Scenario{
		Name:       "page",
		Properties: []string{"C15"},
		Run:        runPage,
		Real:       []string{"gocql Session/Query/Iter/nextIter/Scanner/helpers (SliceMap, MapScan), queryExecutor, pool, Conn, framer (real code)", "Go runtime scheduler, channels, timers (fake clock)"},
		Stub:       []string{"Cassandra node (scripted pages + cqlspec codec)", "TCP (simnet)", "clock (testing/synctest)"},
		Rule:       "one run = one seeded schedule of 1-4 tasks x 1-4 paged queries (1-6 pages of 0-8 rows, opaque/binary paging states, page size, prefetch, prepared or not, metadata skipped or not, Scan/Scanner/MapScan/SliceMap consumer or manual paging, session with or without a page size, consumer that wipes the page state / scanned bytes / payload it was handed) whose every row step, page reply delivery, park and fault is a tape choice; distinct = distinct canonical-log fingerprint; non-trivial = at least one query of two or more pages completed",
	})
}

const (
	pageConsScan = iota
	pageConsScanner
	pageConsMapScan
	pageConsSliceMap
)

var pageConsNames = []string{"Scan", "Scanner", "MapScan", "SliceMap"}

const (
	pageFaultNone = iota
	pageFaultError
	pageFaultDrop
	pageFaultClose
)

// every task prepares its own statement: several callers waiting for one in-flight PREPARE
// are all woken by its single reply, which is more than one stimulus per step
const pagePrepStmt = "SELECT id, v FROM ks.t WHERE k = ? AND c = "

type pageRow struct {
	id int
	v  string
}

// pageReq is one QUERY/EXECUTE the node received for a scripted query.
type pageReq struct {
	s         *pageScript
	g         *pageExec
	page      int
	sc        *node.SConn
	reply     *node.Reply
	recvAt    time.Duration
	async     bool // issued while the consumer was not inside a driver call: the prefetch goroutine
	failed    bool // answered with an error, never answered, or lost with its connection
	late      bool // delivered only after the request timeout had passed
	delivered bool
}

// pageScript is the script of one query and everything observed about it.
type pageScript struct {
	token string
	qid   int
	stmt  string

	// the result as the node serves it
	pages  [][]pageRow
	states [][]byte // states[p] is carried by page p and names page p+1 (nil for the last page)
	global bool     // global table spec in full metadata

	// how the caller asks
	prepared    bool
	bindFn      bool
	noSkip      bool
	consumer    int
	pageSizeSet bool
	pageSize    int
	prefetchSet bool
	prefetch    float64
	cons        gocql.Consistency
	serial      gocql.SerialConsistency
	tsMode      int // 0 driver-generated, 1 fixed value, 2 disabled
	payload     map[string][]byte
	manual      bool
	manualPage  int

	// injected failure of one page
	faultPage int
	faultKind int
	faultCode int

	// derived
	expect   []pageRow
	boundary map[int]bool // number of rows consumed at which the next call switches pages
	// race[n]: at this boundary the consumer does not wait for the prefetch to come and go:
	// if the prefetched page is on its way (its answer withheld by the node), the consumer
	// walks into the page end while the prefetch is still in flight, and the answer is
	// released by a helper goroutine of the bubble once the consumer is inside the driver
	race   map[int]bool
	cumEnd []int // cumEnd[p] = rows in pages 0..p

	// re-execution of the kept *gocql.Query value (non-manual queries only)
	reexec bool
	// releaseEarly: the caller hands the Query back to the driver's pool right after Iter()
	// and takes another Query (other statement, other value) from it while the iteration
	// goes on. speculative: the query is idempotent and has a speculative execution policy
	// (whose delay never expires here), so that it runs under the executor's own context.
	releaseEarly, speculative bool
	// releaseAfter: when the caller is done with the query it gives the Query back to the
	// driver's pool (Query.Release); the next Session.Query of anybody may get that object
	releaseAfter bool
	// ctxMode: the caller gives the query a context: 0 no, 1 as the first option, 2 as the
	// last one (after PageState and everything else) - options commute
	ctxMode int
	// scanGap: the Scanner consumer lets other callers run between Next() and Scan() of a row
	scanGap   bool
	consumer2 int
	abandonAt int // >0: the first iteration stops after this many rows, just behind a page switch
	faultGen  int // which execution the injected failure hits

	// a consumer that checkpoints and then wipes what the driver hands out: it calls
	// Iter.PageState(), keeps a private copy and overwrites the returned slice in place
	// (wipePat); the same for the byte slices it scanned and for the custom payload and the
	// warnings of the page (Iter.GetCustomPayload / Iter.Warnings return the Iter's storage).
	// All positions are drawn with the script (root goroutine).
	wipe       bool
	wipePat    byte
	wipeAtIter bool           // right after Iter() returned, before any row (every consumer)
	wipeRows   map[int]string // index into expect -> "first-row" / "middle-row" / "last-row": after that row came back (Scan, MapScan)
	wipeBlob   bool           // column v is scanned into a []byte that is wiped after every row (Scan, Scanner)
	respExtras bool           // the node adds a custom payload and a warning to every page (v4+)
	// what the query's page size is when the caller set none: the session's (0 = the session
	// was configured without paging)
	sessPageSize int

	// guarded by pageRun.mu: written by the tasks, read by the root goroutine
	seen   int
	inCall bool
	cur    *pageExec // the execution requests arriving now belong to
	execs  []*pageExec
}

// pageExec is what the node observed about one execution of a query. Executing the same
// Query value again starts a new one: the page bookkeeping begins afresh.
type pageExec struct {
	idx int

	// root goroutine only
	reqs          []*pageReq
	first         *cqlspec.Request
	requested     map[int]bool
	lastDelivered bool

	// guarded by pageRun.mu: written by the root goroutine, read by the tasks
	failedPage int // first page whose fetch was made to fail (-1 none)
	latePage   int // first page whose reply came only after the request timeout (-1 none)
	reqLog     string
	maxReq     int // highest page the node has been asked for (-1 none)
}

// newExec starts the next execution of s (task goroutine, or the root before the tasks run).
func (pr *pageRun) newExec(s *pageScript) *pageExec {
	pr.mu.Lock()
	defer pr.mu.Unlock()
	g := &pageExec{idx: len(s.execs), requested: map[int]bool{}, failedPage: -1, latePage: -1, maxReq: -1}
	s.execs = append(s.execs, g)
	s.cur = g
	s.seen = 0
	return g
}

func (s *pageScript) last() int { return len(s.pages) - 1 }

type pageStateRef struct {
	token string
	page  int
}

type pageRun struct {
	k       *kernel.Kernel
	cl      *node.Cluster
	stmtIDs map[string][]byte // statement text -> prepared id
	// the session has a retry policy, each query opts out of it
	sessionRetries bool
	e              *Env
	faults         bool
	timeout        time.Duration
	sess           *gocql.Session

	scripts map[string]*pageScript
	byState map[string]pageStateRef
	open    []*pageReq // replies not yet seen delivered

	mu      sync.Mutex
	waiters []chan struct{}
	stopped bool

	stackBuf []byte
}

// ---------------------------------------------------------------------------------
// script generation (root goroutine, before any task starts)

func pageState(tp *kernel.Tape, token string, next int) []byte {
	plain := []byte("ps:" + token + ":" + strconv.Itoa(next))
	switch tp.Next(4) {
	case 1: // zero bytes and high bytes around and inside
		b := []byte{0x00, 0xff, 0x00}
		b = append(b, []byte(token)...)
		b = append(b, 0x00, byte(next), 0x00, 0x80, 0xfe)
		return append(b, 0x00)
	case 2: // longer than any one-byte or 7-bit length
		b := append([]byte{}, plain...)
		for i := 0; i < 300; i++ {
			b = append(b, byte(i*7+next))
		}
		return b
	case 3: // a single distinguishing byte after a zero prefix
		return append([]byte{0, 0, 0, 0}, plain...)
	}
	return plain
}

func (pr *pageRun) drawScript(tp *kernel.Tape, ti, oi, qid, proto, sessPageSize int) *pageScript {
	s := &pageScript{token: fmt.Sprintf("tok-%d-%d", ti, oi), qid: qid, faultPage: -1, boundary: map[int]bool{}, sessPageSize: sessPageSize}
	s.stmt = "ECHO '" + s.token + "'"
	nPages := 1 + tp.Next(6)
	// page size: not set (the session's: 5000, or 0 in a session configured without paging),
	// 1, 5, 5000, 0 (no page size on the wire). The number of pages does not depend on it: a
	// node with a page cap pages although it was not asked to, and one page may be all there
	// is although a page size was sent
	switch tp.Next(5) {
	case 1:
		s.pageSizeSet, s.pageSize = true, 1
	case 2:
		s.pageSizeSet, s.pageSize = true, 5
	case 3:
		s.pageSizeSet, s.pageSize = true, 5000
	case 4:
		s.pageSizeSet, s.pageSize = true, 0
	}
	for p := 0; p < nPages; p++ {
		n := tp.Next(9)
		if s.pageSizeSet && s.pageSize > 0 && n > s.pageSize {
			n = s.pageSize // a server never returns more rows than the page size it was given
		}
		var rows []pageRow
		for r := 0; r < n; r++ {
			rows = append(rows, pageRow{id: qid*10000 + p*100 + r, v: fmt.Sprintf("%s/p%d/r%d", s.token, p, r)})
		}
		s.pages = append(s.pages, rows)
	}
	for p := 0; p < nPages; p++ {
		if p < nPages-1 {
			s.states = append(s.states, pageState(tp, s.token, p+1))
		} else {
			s.states = append(s.states, nil)
		}
	}
	s.global = !tp.Chance(1, 3)
	if s.prepared = tp.Chance(1, 2); s.prepared {
		s.stmt = pagePrepStmt + strconv.Itoa(ti)
		// the values come from a binding callback (Session.Bind) instead of the call
		s.bindFn = tp.Chance(1, 3)
	}
	s.noSkip = tp.Chance(1, 3)
	s.consumer = tp.Weighted([]int{3, 2, 2, 1})
	switch tp.Next(5) {
	case 1:
		s.prefetchSet, s.prefetch = true, 0
	case 2:
		s.prefetchSet, s.prefetch = true, 0.5
	case 3:
		s.prefetchSet, s.prefetch = true, 1
	case 4:
		s.prefetchSet, s.prefetch = true, 0.25
	}
	s.cons = []gocql.Consistency{gocql.Quorum, gocql.One, gocql.LocalQuorum, gocql.All}[tp.Next(4)]
	s.serial = []gocql.SerialConsistency{0, gocql.Serial, gocql.LocalSerial}[tp.Next(3)]
	s.tsMode = tp.Next(3)
	if proto >= 4 && tp.Chance(1, 4) {
		s.payload = map[string][]byte{"page-k": {1, 0, 2}, "tok": []byte(s.token)}
	}
	if tp.Chance(1, 5) {
		s.manual = true
		s.manualPage = tp.Next(nPages)
	}
	if s.consumer == pageConsSliceMap {
		// SliceMap cannot be held at a page boundary (see the comment at the top); also for
		// manual paging, where a correct driver never pages on, so that one that does is
		// reported instead of freezing the bubble
		s.prefetchSet, s.prefetch = true, 0
	}
	if pr.faults {
		switch tp.Weighted([]int{14, 2, 1, 1}) {
		case 1:
			s.faultKind = pageFaultError
			s.faultCode = []int{cqlspec.ErrReadTimeout, cqlspec.ErrOverloaded}[tp.Next(2)]
		case 2:
			s.faultKind = pageFaultDrop
		case 3:
			s.faultKind = pageFaultClose
		}
		if s.faultKind != pageFaultNone {
			if s.manual {
				s.faultPage = s.manualPage
			} else {
				s.faultPage = tp.Next(nPages)
			}
		}
	}
	// derived
	cum := 0
	for p, rows := range s.pages {
		cum += len(rows)
		s.cumEnd = append(s.cumEnd, cum)
		if !s.manual {
			s.expect = append(s.expect, rows...)
			if p < s.last() {
				s.boundary[cum] = true
				if pr.faults && tp.Chance(1, 3) {
					if s.race == nil {
						s.race = map[int]bool{}
					}
					s.race[cum] = true
				}
			}
		}
	}
	if s.manual {
		s.expect = append(s.expect, s.pages[s.manualPage]...)
		if s.manualPage < s.last() {
			// a correct driver stops here; one that pages on must not freeze the bubble
			s.boundary[len(s.expect)] = true
		}
	}
	for p, st := range s.states {
		if st != nil {
			if _, dup := pr.byState[string(st)]; dup {
				panic("page: paging states are not unique")
			}
			pr.byState[string(st)] = pageStateRef{s.token, p + 1}
		}
	}
	if !s.manual && tp.Chance(1, 4) {
		s.reexec = true
		s.consumer2 = tp.Weighted([]int{3, 2, 2, 1})
		if s.consumer2 == pageConsSliceMap {
			s.prefetchSet, s.prefetch = true, 0 // the Query value, and so its prefetch, is shared
		}
		if s.faultKind != pageFaultNone {
			s.faultGen = tp.Next(2)
		}
		// the abandoned variant: stop just behind a page switch, i.e. after the first row
		// of a later page
		var behind []int
		for p := 1; p < nPages; p++ {
			if len(s.pages[p]) > 0 {
				behind = append(behind, s.cumEnd[p-1]+1)
			}
		}
		if s.consumer != pageConsSliceMap && len(behind) > 0 && tp.Chance(1, 2) {
			s.abandonAt = behind[tp.Next(len(behind))]
		}
	}
	if !s.reexec && !s.manual && tp.Chance(1, 5) {
		s.releaseEarly = true
		pr.k.Fault("page.query-released-early")
	}
	if tp.Chance(1, 5) {
		s.speculative = true
		pr.k.Fault("page.idempotent-with-speculative-policy")
	}
	if !s.releaseEarly && tp.Chance(1, 3) {
		s.releaseAfter = true
		pr.k.Fault("page.query-released-when-done")
	}
	if tp.Chance(1, 3) {
		s.scanGap = true
	}
	if !s.reexec && tp.Chance(1, 4) {
		s.ctxMode = 1 + tp.Next(2)
		pr.k.Fault(fmt.Sprintf("page.with-context-mode-%d", s.ctxMode))
	}
	// the consumer that checkpoints and wipes (0 = it only reads)
	if tp.Chance(1, 3) {
		s.wipe = true
		s.wipeRows = map[int]string{}
		s.wipePat = []byte{0x00, 0xff}[tp.Next(2)]
		s.wipeAtIter = tp.Chance(1, 2)
		base := 0
		for p, rows := range s.pages {
			if s.manual && p != s.manualPage {
				continue
			}
			if n := len(rows); n > 0 {
				// bit 0: after the first row of the page, bit 1: a middle row, bit 2: the last
				// row (the page is used up, the next call switches pages)
				m := tp.Next(8)
				if m&2 != 0 {
					s.wipeRows[base+n/2] = "middle-row"
				}
				if m&4 != 0 {
					s.wipeRows[base+n-1] = "last-row"
				}
				if m&1 != 0 {
					s.wipeRows[base] = "first-row"
				}
			}
			base += len(rows)
		}
		s.wipeBlob = tp.Chance(1, 2)
		s.respExtras = proto >= 4 && tp.Chance(1, 2)
	}
	pr.scripts[s.token] = s
	pr.newExec(s)
	return s
}

// effPageSize is the page size the query runs with.
func (s *pageScript) effPageSize() int {
	if s.pageSizeSet {
		return s.pageSize
	}
	return s.sessPageSize
}

// pageOf returns the page row idx (index into expect) belongs to.
func (s *pageScript) pageOf(idx int) int {
	if s.manual {
		return s.manualPage
	}
	p := 0
	for s.cumEnd[p] <= idx {
		p++
	}
	return p
}

// wiped returns what a slice that held b holds after the consumer wiped it.
func (s *pageScript) wiped(b []byte) []byte {
	return bytes.Repeat([]byte{s.wipePat}, len(b))
}

func (s *pageScript) describe() string {
	var rows []string
	for _, p := range s.pages {
		rows = append(rows, strconv.Itoa(len(p)))
	}
	ps, pf := "default", "default"
	if s.pageSizeSet {
		ps = strconv.Itoa(s.pageSize)
	}
	if s.prefetchSet {
		pf = strconv.FormatFloat(s.prefetch, 'g', -1, 64)
	}
	m := ""
	if s.manual {
		m = fmt.Sprintf(" manual=p%d", s.manualPage)
	}
	f := ""
	if s.faultKind != pageFaultNone {
		f = fmt.Sprintf(" fault=%d@p%d", s.faultKind, s.faultPage)
	}
	if s.reexec {
		f += fmt.Sprintf(" reexec=%s abandon=%d faultexec=%d", pageConsNames[s.consumer2], s.abandonAt, s.faultGen)
	}
	if !s.pageSizeSet {
		ps = fmt.Sprintf("default(%d)", s.sessPageSize)
	}
	if s.wipe {
		var at []string
		for i := range s.expect {
			if w, ok := s.wipeRows[i]; ok {
				at = append(at, fmt.Sprintf("%d:%s", i, w))
			}
		}
		f += fmt.Sprintf(" wipe=%#02x afteriter=%v rows=[%s] blob=%v extras=%v", s.wipePat, s.wipeAtIter, strings.Join(at, ","), s.wipeBlob, s.respExtras)
	}
	return fmt.Sprintf("%s rows=[%s] pagesize=%s prefetch=%s prepared=%v noskip=%v consumer=%s%s%s",
		s.token, strings.Join(rows, ","), ps, pf, s.prepared, s.noSkip, pageConsNames[s.consumer], m, f)
}

// ---------------------------------------------------------------------------------
// node side (cl.App, root goroutine)

var (
	pageColID = cqlspec.ColSpec{Keyspace: "ks", Table: "t", Name: "id", Type: cqlspec.ColType{ID: cqlspec.TInt}}
	pageColV  = cqlspec.ColSpec{Keyspace: "ks", Table: "t", Name: "v", Type: cqlspec.ColType{ID: cqlspec.TVarchar}}
)

func (pr *pageRun) app(sc *node.SConn, rec *node.ReqRec) {
	k, cl := pr.k, pr.cl
	rq := rec.Req
	switch rq.Header.Opcode {
	case cqlspec.OpPrepare:
		// (the id of a statement is a function of its text: the same after an eviction)
		if pr.stmtIDs == nil {
			pr.stmtIDs = map[string][]byte{}
		}
		id := pr.stmtIDs[rq.Query]
		if id == nil {
			id = []byte(fmt.Sprintf("P%d", len(pr.stmtIDs)+1))
			pr.stmtIDs[rq.Query] = id
		}
		sc.Host.Prepared[string(id)] = &node.PreparedStmt{ID: id, Query: rq.Query, NBind: 1}
		pm := &cqlspec.PreparedMeta{GlobalSpec: true, Columns: []cqlspec.ColSpec{{Keyspace: "ks", Table: "t", Name: "k", Type: cqlspec.ColType{ID: cqlspec.TVarchar}}}}
		if rq.Header.Version >= 4 {
			pm.PKIndices = []uint16{0}
		}
		rm := &cqlspec.RowsMeta{GlobalSpec: true, Columns: []cqlspec.ColSpec{pageColID, pageColV}}
		cl.Send(sc, rec, &cqlspec.Response{Op: cqlspec.OpResult, Kind: cqlspec.KindPrepared, PreparedID: id, Prepared: pm, PreparedRows: rm}, node.Hold, "PREPARED")
		return
	case cqlspec.OpQuery, cqlspec.OpExecute:
	default:
		cl.SendError(sc, rec, cqlspec.ErrProtocol, "unexpected opcode", node.Hold)
		return
	}
	token := ""
	if rq.Header.Opcode == cqlspec.OpQuery {
		token = tokenRe.FindString(rq.Query)
	} else {
		if sc.Host.Prepared[string(rq.PreparedID)] == nil {
			cl.Send(sc, rec, &cqlspec.Response{Op: cqlspec.OpError, Error: &cqlspec.ErrorBody{Code: cqlspec.ErrUnprepared, Message: "unknown id", UnpreparedID: rq.PreparedID}}, node.Hold, "UNPREPARED")
			return
		}
		if len(rq.Params.Values) == 1 && !rq.Params.Values[0].Null {
			token = string(rq.Params.Values[0].Bytes)
		}
	}
	s := pr.scripts[token]
	if s == nil && rq.Params.HasPagingState {
		// a next-page request: its paging state tells whose it is; the values it carries
		// must be those of that query's first request
		if ref, ok := pr.byState[string(rq.Params.PagingState)]; ok {
			k.Violate("C15", "C15/next-page-other-values", "the request for page %d of %s carries %s: not the statement and values of the query it continues", ref.page, ref.token, node.Describe(rq))
			cl.SendError(sc, rec, cqlspec.ErrInvalid, "no such token", node.Hold)
			return
		}
	}
	if s == nil {
		k.Violate("HARNESS", "page/unknown-token", "the node received %s which names no scripted query", node.Describe(rq))
		cl.SendError(sc, rec, cqlspec.ErrInvalid, "no such token", node.Hold)
		return
	}

	pr.mu.Lock()
	inCall, g := s.inCall, s.cur
	pr.mu.Unlock()

	// ---- which page is asked for ----
	// byState is keyed by the bytes of the state: a state that differs in a single byte from
	// every state handed out is not found
	page := 0
	if rq.Params.HasPagingState {
		ref, ok := pr.byState[string(rq.Params.PagingState)]
		if !ok || ref.token != token {
			whose := "no page of any query carried it"
			if ok {
				whose = fmt.Sprintf("it is the state page %d of %s carried", ref.page-1, ref.token)
			}
			if !ok && !s.manual && len(g.reqs) > 0 {
				// the request follows a page of an automatic execution: it must carry, byte for
				// byte, the state that page carried
				prev := g.reqs[len(g.reqs)-1].page
				var want []byte
				if prev < len(s.states) {
					want = s.states[prev]
				}
				got := rq.Params.PagingState
				how := ""
				if s.wipe && len(got) > 0 && len(got) == len(want) && bytes.Equal(got, s.wiped(want)) {
					how = fmt.Sprintf(": the same length, every byte %#02x, which is what the consumer wrote over the slice Iter.PageState() had returned after keeping a copy", s.wipePat)
				}
				k.Violate("C15", "C15/next-page-wrong-state", "query %s: the request that follows page %d carries the paging state %q, page %d carried %q%s (states this query handed out: %s)", token, prev, got, prev, want, how, s.statesText())
			} else {
				k.Violate("C15", "C15/wrong-paging-state", "request for %s carries the paging state %q: %s (states this query handed out: %s)", token, rq.Params.PagingState, whose, s.statesText())
			}
			cl.SendError(sc, rec, cqlspec.ErrInvalid, "bad paging state", node.Hold)
			return
		}
		page = ref.page
	}
	k.Rec("page-req %s p%d conn=%s", token, page, sc.C.Name)
	req := &pageReq{s: s, g: g, page: page, sc: sc, recvAt: k.SimTime(), async: !inCall}
	which := ""
	if g.idx > 0 {
		which = fmt.Sprintf(" (execution %d of the same Query value)", g.idx+1)
	}
	if page > 0 && !s.manual {
		if req.async {
			k.Probe("next-page-requested-by-prefetch")
		} else {
			k.Probe("next-page-requested-by-consumer-at-page-end")
		}
	}

	// ---- node-side oracle ----
	switch {
	case s.manual && len(g.reqs) >= 1:
		k.Violate("C15", "C15/manual-paging-fetched-more", "query %s was given a page state by the caller (automatic paging disabled) but the driver sent a second request (page %d) after the one for page %d", token, page, g.reqs[0].page)
	case s.manual && page != s.manualPage:
		k.Violate("C15", "C15/wrong-paging-state", "query %s: the caller supplied the state of page %d, the request asks for page %d (paging state %q)", token, s.manualPage, page, rq.Params.PagingState)
	case g.lastDelivered:
		k.Violate("C15", "C15/request-after-last-page", "query %s%s: request for page %d arrived after the driver had received page %d, which has no has_more_pages flag", token, which, page, s.last())
	case g.requested[page]:
		k.Violate("C15", "C15/page-requested-twice", "query %s%s: page %d was requested a second time (retries are off; requests so far: %s)", token, which, page, g.reqsText())
	case g.first == nil && !s.manual && page != 0:
		k.Violate("C15", "C15/wrong-paging-state", "query %s%s: the caller supplied no page state, yet the first request of the execution carries the paging state %q (the one page %d carried, i.e. it asks for page %d)", token, which, rq.Params.PagingState, page-1, page)
	case g.first != nil:
		if d := pageReqDiff(g.first, rq, s.tsMode == 1); d != "" {
			k.Violate("C15", "C15/next-page-request-differs", "query %s%s: the request for page %d differs from the first request (page %d) in more than the paging state: %s", token, which, page, g.reqs[0].page, d)
		}
	case g.idx > 0 && s.execs[0].first != nil:
		// executing the same Query value again must ask the same question again
		if d := pageReqDiff(s.execs[0].first, rq, s.tsMode == 1); d != "" {
			k.Violate("C15", "C15/re-executed-query-request-differs", "query %s%s: its first request differs from the first request of the first execution: %s", token, which, d)
		}
	}
	if !s.manual && len(g.reqs) > 0 {
		// pages are asked for one after the other, each with the state of the one before
		if prev := g.reqs[len(g.reqs)-1].page; page != prev+1 && prev < s.last() {
			k.Violate("C15", "C15/next-page-wrong-state", "query %s%s: the request that follows page %d carries the paging state %q, which names page %d; page %d carried %q (requests so far: %s)", token, which, prev, rq.Params.PagingState, page, prev, s.states[prev], g.reqsText())
		}
	}
	if !s.manual && !rq.Params.HasPageSize {
		// the client asked for no paging; this node pages all the same
		if page > 0 {
			k.Probe("next-page-requested-without-page-size")
		} else if s.last() > 0 {
			k.Probe("node-pages-although-no-page-size-was-sent")
		}
	}
	if g.first == nil {
		g.first = rq
	}
	g.requested[page] = true
	g.reqs = append(g.reqs, req)
	pr.mu.Lock()
	g.reqLog = g.reqsText()
	if page > g.maxReq {
		g.maxReq = page
	}
	pr.mu.Unlock()
	if page >= len(s.pages) {
		cl.SendError(sc, rec, cqlspec.ErrInvalid, "page out of range", node.Hold)
		return
	}

	// ---- the failing page ----
	if pr.faults && s.faultPage == page && s.faultKind != pageFaultNone && s.faultGen == g.idx {
		pr.markFailed(req)
		if page > 0 {
			k.Probe("error-on-page>0")
		}
		switch s.faultKind {
		case pageFaultError:
			k.Fault(fmt.Sprintf("page.error-reply(%#x)", s.faultCode))
			body := &cqlspec.ErrorBody{Code: int32(s.faultCode), Message: "injected failure of page " + strconv.Itoa(page) + " of " + token}
			if s.faultCode == cqlspec.ErrReadTimeout {
				body.Consistency, body.Received, body.BlockFor, body.DataPresent = rq.Params.Consistency, 1, 2, 0
			}
			req.reply = cl.Send(sc, rec, &cqlspec.Response{Op: cqlspec.OpError, Error: body}, node.Hold, fmt.Sprintf("ERROR(%#x) %s p%d", s.faultCode, token, page))
			pr.open = append(pr.open, req)
		case pageFaultDrop:
			k.Fault("page.never-answered")
			cl.Send(sc, rec, &cqlspec.Response{Op: cqlspec.OpResult, Kind: cqlspec.KindVoid}, node.Drop, fmt.Sprintf("NEVER %s p%d", token, page))
		case pageFaultClose:
			k.Fault("page.conn-closed-outstanding")
			cl.Send(sc, rec, &cqlspec.Response{Op: cqlspec.OpResult, Kind: cqlspec.KindVoid}, node.Drop, fmt.Sprintf("LOST %s p%d", token, page))
			pr.closeConn(sc)
		}
		return
	}

	// ---- the page ----
	meta := &cqlspec.RowsMeta{GlobalSpec: s.global, Columns: []cqlspec.ColSpec{pageColID, pageColV}}
	if rq.Header.Opcode == cqlspec.OpExecute && rq.Params.SkipMetadata {
		meta = &cqlspec.RowsMeta{NoMetadata: true, ColumnCount: 2}
	}
	if page < s.last() {
		meta.HasMorePages = true
		meta.PagingState = s.states[page]
	}
	var data [][]cqlspec.Cell
	for _, r := range s.pages[page] {
		data = append(data, []cqlspec.Cell{{Bytes: cqlspec.EncInt(int32(r.id))}, {Bytes: cqlspec.EncText(r.v)}})
	}
	resp := &cqlspec.Response{Op: cqlspec.OpResult, Kind: cqlspec.KindRows, Rows: meta, RowData: data}
	if s.respExtras && rq.Header.Version >= 4 {
		resp.Warnings = []string{fmt.Sprintf("warning of %s p%d", token, page)}
		resp.CustomPayload = map[string][]byte{"page": []byte(fmt.Sprintf("%s/p%d", token, page)), "z": {0, 0xff, byte(page)}}
	}
	req.reply = cl.Send(sc, rec, resp, node.Hold, fmt.Sprintf("ROWS %s p%d", token, page))
	pr.open = append(pr.open, req)
}

func (pr *pageRun) markFailed(rq *pageReq) {
	rq.failed = true
	pr.mu.Lock()
	if rq.g.failedPage < 0 {
		rq.g.failedPage = rq.page
	}
	pr.mu.Unlock()
}

// closeConn closes a connection from the server side; every page request outstanding on
// it is lost.
func (pr *pageRun) closeConn(sc *node.SConn) {
	for _, rq := range pr.open {
		if rq.sc == sc && !rq.delivered {
			pr.markFailed(rq)
		}
	}
	pr.cl.CloseConn(sc, false)
	pr.sweep()
}

// sweep notices replies that have been delivered since the last call and drops requests
// whose reply can no longer be delivered.
func (pr *pageRun) sweep() {
	k := pr.k
	out := pr.open[:0]
	for _, rq := range pr.open {
		r := rq.reply
		if r != nil && r.Sent >= len(r.Frame) {
			rq.delivered = true
			s := rq.s
			if k.SimTime()-rq.recvAt >= pr.timeout-time.Millisecond {
				rq.late = true
				k.Probe("reply-after-request-timeout")
				pr.mu.Lock()
				if rq.g.latePage < 0 {
					rq.g.latePage = rq.page
				}
				pr.mu.Unlock()
			}
			if !rq.failed && rq.page == s.last() && !s.manual {
				rq.g.lastDelivered = true
			}
			pr.mu.Lock()
			seen, current := s.seen, s.cur == rq.g
			pr.mu.Unlock()
			if rq.async && rq.page > 0 && !s.manual && current {
				if seen < s.cumEnd[rq.page-1] {
					k.Probe("prefetch-arrived-before-page-end")
					if seen == s.cumEnd[rq.page-1]-1 {
						k.Probe("prefetch-arrived-one-row-before-page-end")
					}
				} else {
					k.Probe("prefetch-arrived-after-consumer-blocked")
				}
			}
			continue
		}
		if rq.sc.Dead {
			// lost with its connection, whoever closed it
			if !rq.failed {
				pr.markFailed(rq)
			}
			continue
		}
		out = append(out, rq)
	}
	pr.open = out
}

func (s *pageScript) statesText() string {
	var parts []string
	for p, st := range s.states {
		if st != nil {
			parts = append(parts, fmt.Sprintf("p%d:%q", p, st))
		}
	}
	return strings.Join(parts, " ")
}

func (g *pageExec) reqsText() string {
	var parts []string
	for _, r := range g.reqs {
		parts = append(parts, fmt.Sprintf("p%d@%s", r.page, r.sc.C.Name))
	}
	return strings.Join(parts, " ")
}

// pageReqDiff compares two decoded requests of one query in everything but the stream id
// and the paging state. A driver-generated default timestamp is a fresh clock reading per
// request, so its value is compared only when the caller fixed it.
func pageReqDiff(a, b *cqlspec.Request, tsFixed bool) string {
	var d []string
	add := func(what string, x, y interface{}) {
		d = append(d, fmt.Sprintf("%s: first %v, this %v", what, x, y))
	}
	if a.Header.Version != b.Header.Version {
		add("protocol version", a.Header.Version, b.Header.Version)
	}
	if a.Header.Flags != b.Header.Flags {
		add("header flags", a.Header.Flags, b.Header.Flags)
	}
	if a.Header.Opcode != b.Header.Opcode {
		add("opcode", cqlspec.OpName(a.Header.Opcode), cqlspec.OpName(b.Header.Opcode))
	}
	if a.Query != b.Query {
		add("statement", strconv.Quote(a.Query), strconv.Quote(b.Query))
	}
	if !bytes.Equal(a.PreparedID, b.PreparedID) {
		add("prepared id", fmt.Sprintf("%x", a.PreparedID), fmt.Sprintf("%x", b.PreparedID))
	}
	if len(a.CustomPayload) != len(b.CustomPayload) {
		add("custom payload entries", len(a.CustomPayload), len(b.CustomPayload))
	} else {
		keys := make([]string, 0, len(a.CustomPayload))
		for key := range a.CustomPayload {
			keys = append(keys, key)
		}
		sort.Strings(keys)
		for _, key := range keys {
			if bv, ok := b.CustomPayload[key]; !ok || !bytes.Equal(a.CustomPayload[key], bv) {
				add("custom payload["+key+"]", fmt.Sprintf("%x", a.CustomPayload[key]), fmt.Sprintf("%x present=%v", bv, ok))
			}
		}
	}
	p, q := a.Params, b.Params
	if p.Consistency != q.Consistency {
		add("consistency", p.Consistency, q.Consistency)
	}
	if fa, fb := p.Flags&^cqlspec.QFPagingState, q.Flags&^cqlspec.QFPagingState; fa != fb {
		add("query flags (without the paging-state bit)", fmt.Sprintf("%#x", fa), fmt.Sprintf("%#x", fb))
	}
	if len(p.Values) != len(q.Values) {
		add("number of bound values", len(p.Values), len(q.Values))
	} else {
		for i := range p.Values {
			x, y := p.Values[i], q.Values[i]
			if x.Name != y.Name || x.Null != y.Null || x.Unset != y.Unset || !bytes.Equal(x.Bytes, y.Bytes) {
				add(fmt.Sprintf("bound value %d", i), fmt.Sprintf("%+v", x), fmt.Sprintf("%+v", y))
			}
		}
	}
	if p.SkipMetadata != q.SkipMetadata {
		add("skip_metadata", p.SkipMetadata, q.SkipMetadata)
	}
	if p.HasPageSize != q.HasPageSize || p.PageSize != q.PageSize {
		add("page size", fmt.Sprintf("%v/%d", p.HasPageSize, p.PageSize), fmt.Sprintf("%v/%d", q.HasPageSize, q.PageSize))
	}
	if p.HasSerial != q.HasSerial || p.SerialConsistency != q.SerialConsistency {
		add("serial consistency", fmt.Sprintf("%v/%d", p.HasSerial, p.SerialConsistency), fmt.Sprintf("%v/%d", q.HasSerial, q.SerialConsistency))
	}
	if p.HasTimestamp != q.HasTimestamp || (tsFixed && p.Timestamp != q.Timestamp) {
		add("default timestamp", fmt.Sprintf("%v/%d", p.HasTimestamp, p.Timestamp), fmt.Sprintf("%v/%d", q.HasTimestamp, q.Timestamp))
	}
	if p.HasKeyspace != q.HasKeyspace || p.Keyspace != q.Keyspace {
		add("keyspace", p.Keyspace, q.Keyspace)
	}
	return strings.Join(d, "; ")
}

// ---------------------------------------------------------------------------------
// the page-boundary gate

// prefetchAlive reports whether a goroutine started by nextIter.fetchAsync exists.
func (pr *pageRun) prefetchAlive() bool {
	for {
		n := runtime.Stack(pr.stackBuf, true)
		if n < len(pr.stackBuf) {
			// "created by github.com/gocql/gocql.(*nextIter).fetchAsync.func1", or, when the
			// compiler inlined fetchAsync, "...(*Iter).Scan.(*nextIter).fetchAsync.func2"
			return bytes.Contains(pr.stackBuf[:n], []byte("(*nextIter).fetchAsync"))
		}
		pr.stackBuf = make([]byte, 2*len(pr.stackBuf))
	}
}

// waitNoPrefetch blocks the calling task (on a channel) until the root goroutine has seen
// a quiescence without a prefetch goroutine. false = the workload stops.
func (pr *pageRun) waitNoPrefetch() bool {
	ch := make(chan struct{})
	pr.mu.Lock()
	if pr.stopped {
		pr.mu.Unlock()
		return false
	}
	pr.waiters = append(pr.waiters, ch)
	pr.mu.Unlock()
	<-ch
	pr.mu.Lock()
	defer pr.mu.Unlock()
	return !pr.stopped
}

// openGate runs at every quiescence (root goroutine).
func (pr *pageRun) openGate(force bool) {
	pr.mu.Lock()
	n := len(pr.waiters)
	pr.mu.Unlock()
	if n == 0 {
		return
	}
	if !force && pr.prefetchAlive() {
		pr.k.Probe("consumer-held-at-page-end")
		return
	}
	pr.mu.Lock()
	ws := pr.waiters
	pr.waiters = nil
	pr.mu.Unlock()
	for _, ch := range ws {
		close(ch)
	}
	// let the released tasks reach their next Step before actions are collected
	pr.k.Quiesce()
}

// ---------------------------------------------------------------------------------
// client side (task goroutines)

func (pr *pageRun) setInCall(s *pageScript, v bool) {
	pr.mu.Lock()
	s.inCall = v
	pr.mu.Unlock()
}

func (pr *pageRun) buildQuery(sess *gocql.Session, s *pageScript) *gocql.Query {
	var q *gocql.Query
	if s.prepared && s.bindFn {
		token := s.token
		q = sess.Bind(s.stmt, func(*gocql.QueryInfo) ([]interface{}, error) { return []interface{}{token}, nil })
	} else if s.prepared {
		q = sess.Query(s.stmt, s.token)
	} else {
		q = sess.Query(s.stmt)
	}
	if s.ctxMode == 1 {
		q = q.WithContext(context.Background())
	}
	q.Consistency(s.cons)
	if pr.sessionRetries {
		q.RetryPolicy(nil)
	}
	if s.pageSizeSet {
		q.PageSize(s.pageSize)
	}
	if s.prefetchSet {
		q.Prefetch(s.prefetch)
	}
	if s.noSkip {
		q.NoSkipMetadata()
	}
	if s.serial != 0 {
		q.SerialConsistency(s.serial)
	}
	switch s.tsMode {
	case 1:
		q.WithTimestamp(1234567890123456)
	case 2:
		q.DefaultTimestamp(false)
	}
	if s.payload != nil {
		q.CustomPayload(s.payload)
	}
	if s.manual {
		var st []byte
		if s.manualPage > 0 {
			st = s.states[s.manualPage-1]
		}
		q.PageState(st)
	}
	if s.speculative {
		q.Idempotent(true).SetSpeculativeExecutionPolicy(&gocql.SimpleSpeculativeExecution{NumAttempts: 1, TimeoutDelay: time.Hour})
	}
	if s.ctxMode == 2 {
		q = q.WithContext(context.Background())
	}
	return q
}

// rowStep parks the task before its next row call; at a page boundary it first waits for
// the gate. n is the number of rows consumed so far.
func (pr *pageRun) rowStep(t *kernel.Task, s *pageScript, n int) bool {
	if s.boundary[n] && !s.race[n] {
		if !pr.waitNoPrefetch() {
			return false
		}
	}
	if !t.Step(fmt.Sprintf("scan %s #%d", s.token, n)) {
		return false
	}
	if s.boundary[n] && s.race[n] {
		// (this task was just released by the root goroutine, which now waits for the bubble
		// to become quiescent: the node's books are ours to read)
		// (nothing may be held at a yield point: the receive loop of the connection, for one,
		// has to run without the root goroutine's help)
		if r := pr.heldRowsReply(s); r != nil && len(pr.k.ParkedKeys()) == 0 && pr.prefetchAlive() {
			// The consumer is about to reach the page end while the prefetch of the next page
			// waits for its answer. In a correct driver the consumer then waits for the prefetch
			// (on a mutex, which the simulated clock cannot see through), so the answer must
			// arrive without the root goroutine's help: a helper of this bubble sends it as soon
			// as the consumer has gone as far as it can.
			pr.k.HoldParks()
			pr.k.Probe("consumer-reaches-page-end-during-prefetch")

			pr.k.Rec("race %s: page end reached with the prefetch in flight", s.token)
			go func() {
				for i := 0; i < 8; i++ {
					runtime.Gosched()
				}
				pr.cl.Deliver(r)
			}()
			return true
		}
		if !pr.waitNoPrefetch() {
			return false
		}
	}
	return true
}

// heldRowsReply returns the withheld rows answer to the request the prefetch goroutine of the
// current execution is waiting for: the last request of the execution, issued while the
// consumer was outside the driver, answered with rows, nothing of it sent yet.
func (pr *pageRun) heldRowsReply(s *pageScript) *node.Reply {
	pr.mu.Lock()
	g := s.cur
	pr.mu.Unlock()
	if g == nil || len(g.reqs) == 0 {
		return nil
	}
	last := g.reqs[len(g.reqs)-1]
	r := last.reply
	if !last.async || r == nil || !strings.HasPrefix(r.Label, "ROWS ") || r.Sent != 0 || r.Dropped || r.SC.Dead || r.SC.C.ClientClosed() {
		return nil
	}
	for _, h := range pr.cl.Held() {
		if h == r {
			return r
		}
	}
	return nil
}

// runQuery performs one scripted query: one iteration and, for a share of the queries, a
// second execution of the same *gocql.Query value (no new Session.Query, no Bind, no
// WithContext, no Release in between), after a complete first iteration or after one that
// was abandoned just behind a page switch. It returns false when the workload must stop.
func (pr *pageRun) runQuery(t *kernel.Task, sess *gocql.Session, s *pageScript) bool {
	k := pr.k
	q := pr.buildQuery(sess, s)
	pr.mu.Lock()
	g := s.cur
	pr.mu.Unlock()
	if !pr.iterate(t, s, g, q, s.consumer, s.abandonAt) {
		return false
	}
	release := func() bool {
		if s.releaseAfter {
			// (nothing of this query may still be running: an abandoned iteration can have
			// left a prefetch behind)
			if !pr.waitNoPrefetch() {
				return false
			}
			q.Release()
		}
		return true
	}
	if !s.reexec {
		return release()
	}
	// an abandoned iteration may have left a prefetch behind: its request belongs to the
	// first execution, so it must have come and gone before the second one starts
	if !pr.waitNoPrefetch() {
		return false
	}
	g2 := pr.newExec(s)
	k.Rec("re-execute %s", s.token)
	if !pr.iterate(t, s, g2, q, s.consumer2, 0) {
		return false
	}
	return release()
}

// iterate executes q once and consumes the result with the given consumer; abandonAt > 0
// stops after that many rows. It returns false when the workload must stop.
func (pr *pageRun) iterate(t *kernel.Task, s *pageScript, g *pageExec, q *gocql.Query, consumer, abandonAt int) bool {
	k := pr.k
	if !t.Step(fmt.Sprintf("iter %s x%d", s.token, g.idx+1)) {
		return false
	}
	pr.setInCall(s, true)
	iter := q.Iter()
	if s.releaseEarly {
		q.Release()
		_ = pr.sess.Query("SELECT v FROM ks.decoy WHERE k = ?", "decoy-"+s.token)
	}
	pr.setInCall(s, false)
	k.Rec("iter %s x%d returned numrows=%d", s.token, g.idx+1, iter.NumRows())

	// the consumer that checkpoints and wipes: wiped[p] = it has overwritten the state page p
	// exposed; emptyAtIter = right after Iter() no state was exposed although the first page
	// carries one, which is right only if that page failed (decided at the end)
	wiped := map[int]bool{}
	emptyAtIter := false
	firstPage := 0
	if s.manual {
		firstPage = s.manualPage
	}
	if s.wipe && s.wipeAtIter {
		emptyAtIter = pr.checkpoint(s, g, iter, firstPage, "after-iter", wiped)
	}
	var vb []byte // the consumer's own buffer for column v, reused from row to row

	var got []pageRow
	var err error
	complete, abandoned := false, false
	record := func(r pageRow) {
		got = append(got, r)
		pr.mu.Lock()
		s.seen = len(got)
		pr.mu.Unlock()
	}
	more := func() bool {
		if abandonAt > 0 && len(got) >= abandonAt {
			abandoned = true
			return false
		}
		return len(got) <= len(s.expect)+2
	}

	switch consumer {
	case pageConsScan, pageConsMapScan:
		for more() {
			if !pr.rowStep(t, s, len(got)) {
				break
			}
			var r pageRow
			var ok bool
			pr.setInCall(s, true)
			if consumer == pageConsScan && s.wipe && s.wipeBlob {
				if ok = iter.Scan(&r.id, &vb); ok {
					r.v = string(vb)
					for i := range vb {
						vb[i] = s.wipePat
					}
				}
			} else if consumer == pageConsScan {
				ok = iter.Scan(&r.id, &r.v)
			} else {
				m := map[string]interface{}{}
				if ok = iter.MapScan(m); ok {
					r.id, _ = m["id"].(int)
					r.v, _ = m["v"].(string)
					if len(m) != 2 {
						r.v = fmt.Sprintf("%s (map has %d keys: %v)", r.v, len(m), m)
					}
				}
			}
			pr.setInCall(s, false)
			if !ok {
				complete = true
				break
			}
			record(r)
			pr.checkIterState(s, iter, len(got)-1, wiped)
			if where, at := s.wipeRows[len(got)-1]; at && s.wipe && len(got) <= len(s.expect) {
				pr.checkpoint(s, g, iter, s.pageOf(len(got)-1), where, wiped)
			}
		}
		err = iter.Close()
	case pageConsScanner:
		sc := iter.Scanner()
		for more() {
			if !pr.rowStep(t, s, len(got)) {
				break
			}
			pr.setInCall(s, true)
			ok := sc.Next()
			pr.setInCall(s, false)
			if !ok {
				complete = true
				break
			}
			if s.scanGap {
				// other callers' answers arrive between Next and Scan: what Next made current
				// must still be there when Scan copies it out
				pr.k.Probe("scanner-gap-between-next-and-scan")
				if !t.Step(fmt.Sprintf("scan-after-next %s #%d", s.token, len(got))) {
					break
				}
			}
			var r pageRow
			if s.wipe && s.wipeBlob {
				if serr := sc.Scan(&r.id, &vb); serr != nil {
					r.v = "scan error: " + serr.Error()
				} else {
					r.v = string(vb)
					for i := range vb {
						vb[i] = s.wipePat
					}
				}
			} else if serr := sc.Scan(&r.id, &r.v); serr != nil {
				r.v = "scan error: " + serr.Error()
			}
			record(r)
		}
		err = sc.Err()
	case pageConsSliceMap:
		if t.Step("slicemap " + s.token) {
			pr.setInCall(s, true)
			rows, serr := iter.SliceMap()
			pr.setInCall(s, false)
			for _, m := range rows {
				var r pageRow
				r.id, _ = m["id"].(int)
				r.v, _ = m["v"].(string)
				record(r)
			}
			complete = true
			err = serr
			if cerr := iter.Close(); (cerr == nil) != (serr == nil) {
				k.Violate("C15", "C15/slicemap-and-close-disagree", "query %s: SliceMap returned error %v but Close returned %v", s.token, serr, cerr)
			}
		} else {
			iter.Close()
		}
	}
	if s.manual && complete && err == nil {
		pr.checkIterState(s, iter, -1, wiped)
	}
	if emptyAtIter && complete && (err == nil || len(got) > 0) {
		k.Violate("C15", "C15/wrong-exposed-page-state", "query %s: right after Iter() returned, Iter.PageState() was empty, yet page %d came through (%d rows returned, error %v) and carried %q", s.token, firstPage, len(got), err, s.states[firstPage])
	}
	k.Rec("end %s x%d rows=%d complete=%v abandoned=%v %s", s.token, g.idx+1, len(got), complete, abandoned, ErrClass(err))
	clean := pr.verdict(s, g, consumer, got, err, complete)
	if complete {
		k.OpDone()
	}
	if clean && g.idx > 0 {
		if s.abandonAt > 0 {
			k.Probe("query-object-re-executed-after-abandoned-iteration")
		} else {
			k.Probe("query-object-re-executed")
		}
	}
	return complete || abandoned
}

// checkpoint is the consumer that checkpoints its progress and wipes the buffers it was
// handed (task goroutine; where and with what is the script's, drawn on the root): it takes
// Iter.PageState() while the Iter stands on page p, keeps a private copy - which must be,
// byte for byte, the state page p carried - and overwrites the returned slice in place; the
// custom payload and the warnings of the page, which the Iter hands out without copying,
// are overwritten too. None of this is the driver's business: the following page must still
// be asked for with the state the node sent (checked where the request arrives). It returns
// true when the state was empty right after Iter() although the page carries one.
func (pr *pageRun) checkpoint(s *pageScript, g *pageExec, iter *gocql.Iter, p int, where string, wiped map[int]bool) (emptyAtIter bool) {
	k := pr.k
	st := iter.PageState()
	keep := append([]byte(nil), st...)
	want := s.states[p]
	switch {
	case bytes.Equal(keep, want):
	case wiped[p] && bytes.Equal(keep, s.wiped(want)):
		// what this consumer wrote there at an earlier row of the page
	case where == "after-iter" && len(keep) == 0:
		emptyAtIter = true
	default:
		k.Violate("C15", "C15/wrong-exposed-page-state", "query %s (%s): the copy the consumer took of Iter.PageState() while on page %d is %q, the page carried %q", s.token, where, p, keep, want)
	}
	for i := range st {
		st[i] = s.wipePat
	}
	if len(st) > 0 {
		wiped[p] = true
		k.Probe("pagestate-wiped:" + where)
		if !s.manual {
			pr.mu.Lock()
			sent := g.maxReq > p
			pr.mu.Unlock()
			switch {
			case sent:
				k.Probe("pagestate-wiped-after-next-page-request")
			case s.prefetchSet && s.prefetch == 0:
				k.Probe("pagestate-wiped-before-next-page-request:prefetch-0")
			default:
				k.Probe("pagestate-wiped-before-next-page-request")
			}
		}
	}
	touched := false
	for _, v := range iter.GetCustomPayload() {
		for i := range v {
			v[i] = s.wipePat
			touched = true
		}
	}
	ws := iter.Warnings()
	for i := range ws {
		ws[i] = ""
		touched = true
	}
	if touched {
		k.Probe("page-payload-and-warnings-wiped")
	}
	return emptyAtIter
}

// checkIterState checks the documented accessors after row idx (index into s.expect) was
// returned by Iter.Scan / Iter.MapScan (which update the Iter in place); idx -1 = at the
// clean end of a manual query.
func (pr *pageRun) checkIterState(s *pageScript, iter *gocql.Iter, idx int, wiped map[int]bool) {
	k := pr.k
	// a state this consumer has wiped holds what it wrote (or, should the accessor hand out
	// copies, still what the page carried)
	same := func(got []byte, p int) bool {
		return bytes.Equal(got, s.states[p]) || wiped[p] && bytes.Equal(got, s.wiped(s.states[p]))
	}
	if idx < 0 {
		want := s.states[s.manualPage]
		if got := iter.PageState(); !same(got, s.manualPage) {
			k.Violate("C15", "C15/wrong-exposed-page-state", "manual paging of %s, page %d: Iter.PageState() = %q, the page carried %q", s.token, s.manualPage, got, want)
		}
		if got := iter.NumRows(); got != len(s.pages[s.manualPage]) {
			k.Violate("C15", "C15/wrong-numrows", "manual paging of %s, page %d: Iter.NumRows() = %d, the page has %d rows", s.token, s.manualPage, got, len(s.pages[s.manualPage]))
		}
		return
	}
	if idx >= len(s.expect) || s.manual {
		return
	}
	// the page the row belongs to
	p := 0
	for s.cumEnd[p] <= idx {
		p++
	}
	lastOfPage := idx == s.cumEnd[p]-1
	if got := iter.NumRows(); got != len(s.pages[p]) {
		k.Violate("C15", "C15/wrong-numrows", "query %s: after row %d (page %d) Iter.NumRows() = %d, that page has %d rows", s.token, idx, p, got, len(s.pages[p]))
	}
	if got, want := iter.WillSwitchPage(), lastOfPage && p < s.last(); got != want {
		k.Violate("C15", "C15/wrong-willswitchpage", "query %s: after row %d (page %d of %d, last row of the page: %v) Iter.WillSwitchPage() = %v", s.token, idx, p, len(s.pages), lastOfPage, got)
	}
	if got := iter.PageState(); !same(got, p) {
		k.Violate("C15", "C15/wrong-exposed-page-state", "query %s: while on page %d Iter.PageState() = %q, the page carried %q", s.token, p, got, s.states[p])
	}
}

// verdict is the client-side oracle for one finished (or abandoned) iteration; clean = the
// iteration ran to its end without an error and returned the whole result.
func (pr *pageRun) verdict(s *pageScript, g *pageExec, consumer int, got []pageRow, err error, complete bool) (clean bool) {
	k := pr.k
	name := s.token
	if g.idx > 0 {
		name += fmt.Sprintf(", execution %d of the same Query value", g.idx+1)
	}
	index := map[string]int{}
	for i, r := range s.expect {
		index[r.v] = i
	}
	show := func() string {
		var parts []string
		for _, r := range got {
			parts = append(parts, fmt.Sprintf("%d:%s", r.id, r.v))
		}
		if len(parts) > 24 {
			parts = append(parts[:24], fmt.Sprintf("... %d more", len(parts)-24))
		}
		return strings.Join(parts, " ")
	}
	idx := make([]int, len(got))
	for i, r := range got {
		j, ok := index[r.v]
		if !ok || s.expect[j].id != r.id {
			k.Violate("C15", "C15/wrong-row-value", "query %s (%s): row %d returned to the consumer is (id=%d, v=%q), which the node never sent for this query; rows: %s", name, s.describe(), i, r.id, r.v, show())
			return
		}
		idx[i] = j
	}
	seenAt := map[int]int{}
	for i, j := range idx {
		if at, dup := seenAt[j]; dup {
			k.Violate("C15", "C15/row-duplicated", "query %s (%s): row %q was returned twice (positions %d and %d); rows: %s", name, s.describe(), s.expect[j].v, at, i, show())
			return
		}
		seenAt[j] = i
	}
	for i := 1; i < len(idx); i++ {
		if idx[i] < idx[i-1] {
			k.Violate("C15", "C15/row-out-of-order", "query %s (%s): row %q was returned after row %q; rows: %s", name, s.describe(), s.expect[idx[i]].v, s.expect[idx[i-1]].v, show())
			return
		}
	}
	for i, j := range idx {
		if j != i {
			k.Violate("C15", "C15/row-missing", "query %s (%s): row %q was skipped (position %d holds %q); rows: %s", name, s.describe(), s.expect[i].v, i, s.expect[j].v, show())
			return
		}
	}
	// got is a prefix of the expected sequence
	if !complete {
		return // the workload was stopped: a prefix is all that can be demanded
	}
	pr.mu.Lock()
	failedPage, latePage, reqLog := g.failedPage, g.latePage, g.reqLog
	pr.mu.Unlock()
	if err == nil {
		if len(got) < len(s.expect) {
			switch {
			case failedPage >= 0:
				k.Violate("C15", "C15/fetch-error-swallowed", "query %s (%s): the fetch of page %d failed, yet the iteration ended without an error after %d of %d rows", name, s.describe(), failedPage, len(got), len(s.expect))
			case latePage >= 0:
				k.Violate("C15", "C15/fetch-error-swallowed", "query %s (%s): the reply for page %d came only after the request timeout, yet the iteration ended without an error after %d of %d rows", name, s.describe(), latePage, len(got), len(s.expect))
			default:
				k.Violate("C15", "C15/early-normal-end", "query %s (%s): the iteration ended without an error after %d of %d rows; pages requested: %s", name, s.describe(), len(got), len(s.expect), reqLog)
			}
			return
		}
		// a complete, clean iteration
		if s.manual {
			k.Probe("manual-paging")
		} else {
			for p, rows := range s.pages {
				if len(rows) == 0 && p < s.last() {
					k.Probe("empty-page")
				}
				if len(rows) == 0 && p == s.last() && p > 0 {
					k.Probe("empty-last-page")
				}
			}
			if len(s.pages) > 1 {
				k.Probe("multi-page-complete:" + pageConsNames[consumer])
				if s.wipe {
					k.Probe("multi-page-complete-with-wiping-consumer")
				}
				if s.effPageSize() == 0 {
					// the client asked for no paging, the node paged, the driver followed
					if s.pageSizeSet {
						k.Probe("multi-page-complete-without-page-size:query")
					} else {
						k.Probe("multi-page-complete-without-page-size:session")
					}
				}
			} else if s.effPageSize() > 0 {
				k.Probe("single-page-complete-with-page-size")
			}
		}
		return true
	}
	// the iteration reported an error
	if failedPage >= 0 {
		before := 0
		if !s.manual && failedPage > 0 {
			before = s.cumEnd[failedPage-1]
		}
		if consumer != pageConsSliceMap {
			if len(got) == before {
				k.Probe("rows-before-failed-page-all-delivered")
			} else {
				k.Probe("rows-before-failed-page-short")
			}
		}
	}
	if !pr.faults && ErrClass(err) != "timeout" {
		k.Violate("C15", "C15/spurious-error", "query %s (%s): no fault was injected, no reply was late, yet the iteration failed after %d rows with: %v", name, s.describe(), len(got), err)
	}
	return false
}

// ---------------------------------------------------------------------------------

func runPage(e *Env) {
	k := e.K
	tp := k.Tape
	cl := node.NewCluster(k, 1)
	InstallHooks(k)

	// ---- swarm configuration (index 0 = boring) ----
	proto := []int{4, 2, 3}[tp.Next(3)]
	numConns := 1 + tp.Next(2)
	timeout := []time.Duration{300 * time.Millisecond, 100 * time.Millisecond}[tp.Next(2)]
	// no write coalescing: a caller waiting for the coalescer's timer while its connection is
	// closed makes closeWithError's delivery order (a Go map iteration) visible in the log
	coalesce := time.Duration(0)
	nTasks := 1 + tp.Next(4)
	closeRun := !e.NoFaults && tp.Chance(1, 4) // server-side connection closes at arbitrary moments
	// a session configured without paging (ClusterConfig.PageSize 0): queries that set no
	// page size of their own go out without one; this node pages all the same
	sessPageSize := 5000
	if tp.Chance(1, 4) {
		sessPageSize = 0
	}
	e.Note("sessPageSize", sessPageSize)
	e.Note("proto", proto)
	e.Note("numConns", numConns)
	e.Note("timeout", timeout.String())
	e.Note("coalesce", coalesce.String())
	e.Note("tasks", nTasks)

	cfg := BaseConfig(cl, "10.0.0.1")
	gocql.VerifDisableControlConn(cfg, true)
	cfg.ProtoVersion = proto
	cfg.NumConns = numConns
	cfg.PageSize = sessPageSize
	cfg.Timeout = timeout
	cfg.ConnectTimeout = 500 * time.Millisecond
	cfg.WriteCoalesceWaitTime = coalesce
	cfg.ReconnectInterval = 500 * time.Millisecond

	pr := &pageRun{k: k, cl: cl, e: e, faults: !e.NoFaults, timeout: timeout,
		scripts: map[string]*pageScript{}, byState: map[string]pageStateRef{}, stackBuf: make([]byte, 64<<10)}
	if tp.Chance(1, 3) {
		// the session retries whatever fails, every query says "not this one"
		// (RetryPolicy(nil)): that holds for each of its pages, so no page is asked for twice
		cfg.RetryPolicy = pageRetrySameHost{}
		cfg.DefaultIdempotence = true
		pr.sessionRetries = true
		k.Fault("page.session-retry-policy-overridden-per-query")
	}
	k.MaxSteps = 1500
	k.FaultBudget = 1
	k.FaultWeight = 1
	// replies are never late on their own: time passes in small steps, a request timeout
	// takes several of them
	k.TimeMenu = []time.Duration{5 * time.Millisecond, time.Millisecond, 20 * time.Millisecond, 100 * time.Millisecond}
	k.TimeWeight = 1

	// ---- scripts: drawn before any task starts ----
	plan := make([][]*pageScript, nTasks)
	qid := 0
	for ti := 0; ti < nTasks; ti++ {
		nq := 1 + tp.Next(4)
		for oi := 0; oi < nq; oi++ {
			qid++
			s := pr.drawScript(tp, ti, oi, qid, proto, sessPageSize)
			plan[ti] = append(plan[ti], s)
			k.Rec("script %s", s.describe())
		}
	}
	e.Note("queries", qid)
	cl.App = pr.app

	// ---- boot (fault free, FIFO) ----
	sess, err := Boot(k, cl, 10*time.Second, func() (*gocql.Session, error) { return gocql.NewSession(*cfg) })
	if err != nil {
		k.Violate("HARNESS", "page/boot", "session creation failed in a fault-free boot: %v", err)
		cl.CloseAll()
		return
	}
	pr.sess = sess

	// the pool opens its remaining connections in the background: let it finish first
	k.SettleUntil(2*time.Second, time.Millisecond, func() { cl.Process(); cl.DeliverAll() }, func() bool {
		n := 0
		for _, cs := range sess.VerifPoolConns() {
			n += len(cs)
		}
		return n >= numConns
	})

	// ---- park plan: where a page reply can be held up inside the driver ----
	if pr.faults {
		k.DrawPlan([]string{"exec.afterWrite", "exec.gotResp", "recv.deliver", "recv.removed"}, 3, 40)
	}

	// ---- workload ----
	for ti := 0; ti < nTasks; ti++ {
		ti := ti
		k.Spawn(fmt.Sprintf("c%d", ti), func(t *kernel.Task) {
			for _, s := range plan[ti] {
				if !pr.runQuery(t, sess, s) {
					return
				}
			}
		})
	}

	// ---- actions ----
	k.Sources = append(k.Sources, func() []kernel.Action {
		acts := cl.DeliverActions()
		for i := range acts {
			do := acts[i].Do
			acts[i].Do = func() { do(); pr.sweep() }
		}
		return acts
	})
	if pr.faults {
		// a node forgets the statements it prepared (its cache evicts them): the next EXECUTE
		// is answered UNPREPARED, the driver prepares again and sends the same request again
		evictions := 0
		k.Sources = append(k.Sources, func() []kernel.Action {
			var acts []kernel.Action
			for _, h := range cl.Hosts {
				if len(h.Prepared) == 0 || evictions >= 2 {
					continue
				}
				h := h
				acts = append(acts, kernel.Action{Key: "evict:" + h.Addr, Rank: 6, Weight: 1, Do: func() {
					evictions++
					k.Fault("page.node-forgets-prepared-statements")
					h.Prepared = map[string]*node.PreparedStmt{}
				}})
			}
			return acts
		})
	}
	if closeRun {
		k.Sources = append(k.Sources, func() []kernel.Action {
			var acts []kernel.Action
			for _, sc := range cl.SConns() {
				if sc.Dead || sc.C.ClientClosed() {
					continue
				}
				n := 0
				for _, rq := range pr.open {
					if rq.sc == sc && !rq.delivered && !rq.failed {
						n++
					}
				}
				if n == 0 {
					continue
				}
				sc := sc
				acts = append(acts, kernel.Action{Key: "srvclose:" + sc.C.Name, Rank: 6, Weight: 1, Do: func() {
					k.Fault("conn.server-close")
					pr.closeConn(sc)
				}})
			}
			return acts
		})
	}
	k.PreStep = append(k.PreStep, func() {
		cl.Process()
		pr.sweep()
		pr.openGate(false)
	})

	k.Loop(nil)

	// ---- settle: no more faults, FIFO delivery, bounded liveness ----
	k.BeginSettle()
	pr.mu.Lock()
	pr.stopped = true
	pr.mu.Unlock()
	pr.openGate(true)
	each := func() { cl.Process(); cl.DeliverAll(); pr.sweep(); pr.openGate(true) }
	bound := 2*timeout + time.Second + 6*time.Second
	if !k.SettleUntil(bound, 20*time.Millisecond, each, k.TasksDone) && k.Violation() == nil {
		k.Violate("C15", "C15/iteration-never-returns", "after faults stopped, paged iterations still blocked after %v simulated: %v", bound, k.RunningOps())
	}
	k.SettleUntil(50*time.Millisecond, 5*time.Millisecond, each, func() bool { return false })

	// ---- close ----
	closed := make(chan struct{})
	go func() { sess.Close(); close(closed) }()
	closeBound := 5*maxDur(timeout, cfg.ConnectTimeout) + 10*time.Second
	k.SettleUntil(closeBound, 20*time.Millisecond, each, func() bool {
		select {
		case <-closed:
			return true
		default:
			return false
		}
	})
	k.SettleUntil(closeBound, 100*time.Millisecond, nil, func() bool { return len(DriverGoroutines()) == 0 })
	cl.CloseAll()
	if !k.SettleUntil(closeBound, 100*time.Millisecond, nil, func() bool { return len(kernel.BubbleGoroutines()) == 0 }) {
		if gs := kernel.BubbleGoroutines(); len(gs) > 0 {
			k.Rec("lingering %d: %s", len(gs), gs[0])
		}
	}
}

// pageRetrySameHost is a session-level retry policy that tries a failed request again on
// the same host, up to three attempts.
type pageRetrySameHost struct{}

func (pageRetrySameHost) Attempt(q gocql.RetryableQuery) bool { return q.Attempts() <= 2 }
func (pageRetrySameHost) GetRetryType(error) gocql.RetryType  { return gocql.Retry }
