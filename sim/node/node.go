// Package node is the simulated Cassandra side: a cluster model and, per accepted
// connection, a protocol state machine that decodes every request with the independent
// strict decoder (cqlspec) and answers from the model. When and whether an answer reaches
// the driver is decided by simulator actions.
package node

import (
	"encoding/hex"
	"fmt"
	"net"
	"sort"
	"strings"
	"sync"

	"github.com/gocql/gocql/verifsim/cqlspec"
	"github.com/gocql/gocql/verifsim/kernel"
	"github.com/gocql/gocql/verifsim/simnet"
)

// Host is one node of the cluster model.
type Host struct {
	Addr          string // rpc = broadcast = peer address unless the fields below are set
	Broadcast     string // node-to-node address if different from Addr
	Port          int
	HostID        string
	DC, Rack      string
	Tokens        []string
	Version       string
	SchemaVersion string
	// Stalled: the node accepts bytes but processes nothing.
	Stalled bool
	// nextPrepared numbers prepared ids issued by this node.
	nextPrepared int
	Prepared     map[string]*PreparedStmt // by id (string of bytes)
	Nonce        string
}

// PreparedStmt is a statement a node prepared.
type PreparedStmt struct {
	ID       []byte
	Query    string
	Keyspace string
	NBind    int
}

// Fate says what happens to a reply after the node produced it.
type Fate int

const (
	Hold Fate = iota // kept until a simulator action delivers it
	Auto             // delivered in the same step
	Drop             // never delivered (the stream stays outstanding for the oracle)
)

// Reply is a response frame the node produced.
type Reply struct {
	SC      *SConn
	Stream  int
	Seq     int
	Frame   []byte
	Label   string
	Sent    int // bytes already delivered (split delivery)
	Dropped bool
}

// ReqRec is one request a connection received.
type ReqRec struct {
	Seq    int
	Step   int
	Req    *cqlspec.Request
	Err    error // strict-decode error, if any
	Stream int
}

// SConn is the server side of one connection.
type SConn struct {
	C           *simnet.Conn
	Host        *Host
	Version     int
	Compression string
	Started     bool
	Authed      bool
	AuthRound   int
	Keyspace    string
	Registered  []string
	Requests    []*ReqRec
	Outstanding map[int]*Reply // stream → reply not (fully) delivered
	Dead        bool
	NeedAuth    bool
	// Advertised is the COMPRESSION list of the last SUPPORTED sent on this connection.
	Advertised []string
	// partial is a reply of which only a prefix has been delivered; the byte stream of
	// a connection is sequential, so its remainder goes out before anything else.
	partial *Reply
}

// Cluster is the simulated cluster.
type Cluster struct {
	K     *kernel.Kernel
	Net   *simnet.Net
	Hosts []*Host

	// Supported is the SUPPORTED multimap; AuthClass non-empty makes STARTUP answer
	// AUTHENTICATE.
	Supported   map[string][]string
	AuthClass   string
	Partitioner string
	ClusterName string

	// App handles every request that is not part of the handshake or a system-table
	// query. It answers through Send.
	App func(sc *SConn, rq *ReqRec)
	// OnRequest observes every frame after strict decoding (wire oracles).
	OnRequest func(sc *SConn, rq *ReqRec)
	// SystemFate is the fate of handshake and system-table replies (default Auto).
	SystemFate Fate
	// MaxDeliverChoices bounds how many held replies per connection are offered as
	// actions at a step (oldest first).
	MaxDeliverChoices int
	DeliverWeight     int
	// PeersV2: answer system.peers_v2 (else Invalid error like Cassandra 3).
	PeersV2 bool
	// ResponseCompress makes the node compress response bodies on connections that
	// negotiated compression.
	ResponseCompress bool
	// FrameHook, when set, sees every outgoing frame and may replace it (byzantine node);
	// closeAfter closes the connection right after the (possibly truncated) bytes.
	FrameHook func(sc *SConn, stream int, label string, frame []byte) (out []byte, closeAfter bool)
	// NoWireOracle turns the generic C03/C18 request checks off (byzantine scenarios).
	NoWireOracle bool
	// PeersHook, when set, replaces PeersOf (invalid / duplicated / changed rows).
	PeersHook func(h *Host) []PeerRow
	// FailPeers makes system.peers queries fail with a server error.
	FailPeers bool
	// PeerQueries counts answered system.peers queries (refresh counter).
	PeerQueries int
	// SystemQueryHook handles further system queries (schema tables); true = handled.
	SystemQueryHook func(sc *SConn, rec *ReqRec) bool
	// AuthRounds > 1 makes the node answer the first AuthRounds-1 AUTH_RESPONSE frames of a
	// connection with AUTH_CHALLENGE "challenge-<n>"; OnAuthResponse sees every token.
	AuthRounds     int
	OnAuthResponse func(sc *SConn, round int, token []byte)
	// LocalWithoutAddress makes system.local rows carry no usable address.
	LocalWithoutAddress bool
	// EventsToAll makes PushEvent send on every started connection, registered or not
	// (a misbehaving node).
	EventsToAll bool
	// SupportedFor, when set, gives the SUPPORTED multimap of one node (nodes of different
	// versions or configurations advertise different things).
	SupportedFor func(h *Host) map[string][]string
	// OptionsReply, when set and returning a response, answers an OPTIONS request in place
	// of SUPPORTED (a node that sheds load answers probes with ERROR frames)
	OptionsReply func(sc *SConn, rec *ReqRec) *cqlspec.Response
	// CompressEvents makes pushed events compressed on connections that negotiated compression.
	CompressEvents bool
	// SystemFateFn, when set, decides the fate of each system reply.
	SystemFateFn func(sc *SConn, rec *ReqRec) Fate

	// mu guards sconns/bySim: connections are accepted on the driver's dialling
	// goroutines, everything else runs on the simulator's root goroutine
	mu     sync.Mutex
	sconns []*SConn
	bySim  map[*simnet.Conn]*SConn
	held   []*Reply
	seq    int
}

// NewCluster builds a cluster of n hosts 10.0.0.1..n, one DC, one rack, one token each.
func NewCluster(k *kernel.Kernel, n int) *Cluster {
	cl := &Cluster{
		K:                 k,
		Net:               simnet.New(),
		Supported:         map[string][]string{"CQL_VERSION": {"3.4.4"}, "COMPRESSION": {"snappy", "lz4"}},
		Partitioner:       "org.apache.cassandra.dht.Murmur3Partitioner",
		ClusterName:       "simcluster",
		SystemFate:        Auto,
		MaxDeliverChoices: 6,
		DeliverWeight:     5,
		bySim:             map[*simnet.Conn]*SConn{},
	}
	cl.Net.Rec = k.Rec
	cl.Net.Yield = k.Yield
	cl.Net.Wake = k.Wake
	for i := 1; i <= n; i++ {
		cl.Hosts = append(cl.Hosts, &Host{
			Addr:          fmt.Sprintf("10.0.0.%d", i),
			Port:          9042,
			HostID:        fmt.Sprintf("00000000-0000-4000-8000-%012d", i),
			DC:            "dc1",
			Rack:          "r1",
			Tokens:        []string{fmt.Sprintf("%d", int64(i)*1000000-9000000000000000000)},
			Version:       "3.11.4",
			SchemaVersion: "11111111-1111-4111-8111-111111111111",
			Prepared:      map[string]*PreparedStmt{},
			Nonce:         fmt.Sprintf("n%d", i),
		})
	}
	cl.Net.OnConnect = cl.accept
	return cl
}

// HostByAddr finds a host of the model.
func (cl *Cluster) HostByAddr(addr string) *Host {
	for _, h := range cl.Hosts {
		if h.Addr == addr {
			return h
		}
	}
	return nil
}

func (cl *Cluster) accept(c *simnet.Conn) {
	h := cl.HostByAddr(c.Host)
	sc := &SConn{C: c, Host: h, Outstanding: map[int]*Reply{}}
	cl.mu.Lock()
	cl.sconns = append(cl.sconns, sc)
	cl.bySim[c] = sc
	cl.mu.Unlock()
}

// SConns returns the server-side connections in accept order.
func (cl *Cluster) SConns() []*SConn {
	cl.mu.Lock()
	defer cl.mu.Unlock()
	return append([]*SConn(nil), cl.sconns...)
}

// SConnOf maps a simulated connection to its server side.
func (cl *Cluster) SConnOf(c *simnet.Conn) *SConn {
	cl.mu.Lock()
	defer cl.mu.Unlock()
	return cl.bySim[c]
}

// HasHeld reports whether an undelivered reply with one of the labels is held for sc.
func (cl *Cluster) HasHeld(sc *SConn, labels ...string) bool {
	for _, r := range cl.held {
		if r.SC != sc {
			continue
		}
		for _, l := range labels {
			if r.Label == l {
				return true
			}
		}
	}
	return false
}

// Partial reports whether a reply has been delivered in part on the connection.
func (cl *Cluster) Partial(sc *SConn) bool { return sc.partial != nil }

// Held returns the undelivered replies, oldest first.
func (cl *Cluster) Held() []*Reply { return cl.held }

// ---------------------------------------------------------------------------------
// processing

func (sc *SConn) decompressor() cqlspec.Decompressor {
	switch sc.Compression {
	case "snappy":
		return cqlspec.SnappyDecode
	case "lz4":
		return cqlspec.CassandraLZ4Decode
	}
	return nil
}

// Process lets every live node consume the complete request frames in its connections'
// inboxes. It is called at quiescence, in deterministic connection order.
func (cl *Cluster) Process() {
	for _, sc := range cl.SConns() {
		if sc.Dead || sc.Host == nil || sc.Host.Stalled {
			continue
		}
		if sc.C.ClientClosed() {
			sc.Dead = true
			cl.dropHeld(sc)
			continue
		}
		for {
			in := sc.C.Inbox()
			if len(in) == 0 {
				break
			}
			n, ok, err := cqlspec.FrameLen(in)
			if err != nil && sc.C.PartialWrite() {
				// the transport cut a write short: what follows is not a frame boundary
				sc.Dead = true
				break
			}
			if err != nil {
				cl.K.Violate("C03", "C03/unframeable", "conn %s: %v (first bytes % x)", sc.C.Name, err, in[:min(len(in), 16)])
				sc.Dead = true
				break
			}
			if !ok || len(in) < n {
				break
			}
			frame := append([]byte(nil), in[:n]...)
			sc.C.Consume(n)
			cl.handle(sc, frame)
			if sc.Dead {
				break
			}
		}
	}
}

func (cl *Cluster) dropHeld(sc *SConn) {
	out := cl.held[:0]
	for _, r := range cl.held {
		if r.SC != sc {
			out = append(out, r)
		}
	}
	cl.held = out
}

func (cl *Cluster) handle(sc *SConn, frame []byte) {
	rq, err := cqlspec.DecodeRequest(frame, sc.decompressor())
	cl.seq++
	rec := &ReqRec{Seq: cl.seq, Step: cl.K.Step(), Req: rq, Err: err}
	if rq != nil {
		rec.Stream = rq.Header.Stream
	} else if h, herr := cqlspec.ParseHeader(frame); herr == nil {
		rec.Stream = h.Stream
		rec.Req = &cqlspec.Request{Header: h, Raw: frame}
	}
	sc.Requests = append(sc.Requests, rec)
	if err != nil {
		cl.K.Rec("recv %s UNDECODABLE %v", sc.C.Name, err)
		cl.wireViolation(sc, frame, err)
	} else {
		cl.K.Rec("recv %s s=%d %s", sc.C.Name, rec.Stream, Describe(rq))
	}
	// stream-id reuse oracle (C01): an id must not come back while the node still owes,
	// or decided never to send, the answer to the previous request with that id.
	if prev := sc.Outstanding[rec.Stream]; prev != nil {
		cl.K.Violate("C01", "C01/stream-reused-while-response-outstanding",
			"conn %s: request with stream %d arrived while the reply %q to the previous request on that stream is undelivered (dropped=%v)",
			sc.C.Name, rec.Stream, prev.Label, prev.Dropped)
	}
	if cl.OnRequest != nil {
		cl.OnRequest(sc, rec)
	}
	if err != nil {
		// a real server answers a protocol error and usually closes; keep the
		// connection usable so the run can continue after the verdict.
		msg := err.Error()
		if len(msg) > 300 {
			msg = msg[:300]
		}
		cl.SendError(sc, rec, cqlspec.ErrProtocol, "undecodable request: "+msg, Auto)
		return
	}
	if sc.Version == 0 {
		sc.Version = rq.Header.Version
	}
	cl.wireChecks(sc, rq)
	switch rq.Header.Opcode {
	case cqlspec.OpOptions:
		if cl.OptionsReply != nil {
			if resp := cl.OptionsReply(sc, rec); resp != nil {
				cl.Send(sc, rec, resp, cl.systemFate(sc, rec), "OPTIONS-REFUSED")
				return
			}
		}
		sup := cl.Supported
		if cl.SupportedFor != nil {
			sup = cl.SupportedFor(sc.Host)
		}
		sc.Advertised = sup["COMPRESSION"]
		cl.Send(sc, rec, &cqlspec.Response{Op: cqlspec.OpSupported, Supported: sup}, cl.systemFate(sc, rec), "SUPPORTED")
	case cqlspec.OpStartup:
		sc.Compression = rq.Options["COMPRESSION"]
		// the STARTUP reply itself is never compressed
		if cl.AuthClass != "" {
			sc.NeedAuth = true
			cl.sendRaw(sc, rec, &cqlspec.Response{Op: cqlspec.OpAuthenticate, AuthClass: cl.AuthClass}, cl.systemFate(sc, rec), "AUTHENTICATE", false)
		} else {
			sc.Started = true
			cl.sendRaw(sc, rec, &cqlspec.Response{Op: cqlspec.OpReady}, cl.systemFate(sc, rec), "READY", false)
		}
	case cqlspec.OpAuthResponse:
		if cl.OnAuthResponse != nil {
			cl.OnAuthResponse(sc, sc.AuthRound, rq.AuthToken)
		}
		sc.AuthRound++
		if sc.AuthRound < cl.AuthRounds {
			// a SASL mechanism with several steps
			cl.Send(sc, rec, &cqlspec.Response{Op: cqlspec.OpAuthChallenge, AuthToken: []byte(fmt.Sprintf("challenge-%d", sc.AuthRound))}, cl.systemFate(sc, rec), "AUTH_CHALLENGE")
			return
		}
		sc.Started, sc.Authed = true, true
		cl.Send(sc, rec, &cqlspec.Response{Op: cqlspec.OpAuthSuccess, AuthNull: true}, cl.systemFate(sc, rec), "AUTH_SUCCESS")
	case cqlspec.OpRegister:
		sc.Registered = rq.EventTypes
		cl.Send(sc, rec, &cqlspec.Response{Op: cqlspec.OpReady}, cl.systemFate(sc, rec), "READY")
	case cqlspec.OpQuery:
		if cl.systemQuery(sc, rec) {
			return
		}
		cl.app(sc, rec)
	default:
		cl.app(sc, rec)
	}
}

func (cl *Cluster) app(sc *SConn, rec *ReqRec) {
	if cl.App != nil {
		cl.App(sc, rec)
		return
	}
	cl.Send(sc, rec, &cqlspec.Response{Op: cqlspec.OpResult, Kind: cqlspec.KindVoid}, Hold, "VOID")
}

// Send encodes resp for the connection's version on the request's stream and gives it the
// fate. Bodies are compressed when the connection negotiated compression and the cluster
// is configured to compress responses.
func (cl *Cluster) Send(sc *SConn, rec *ReqRec, resp *cqlspec.Response, fate Fate, label string) *Reply {
	return cl.sendRaw(sc, rec, resp, fate, label, true)
}

func (cl *Cluster) sendRaw(sc *SConn, rec *ReqRec, resp *cqlspec.Response, fate Fate, label string, mayCompress bool) *Reply {
	resp.Version = sc.Version
	if rec.Req != nil {
		resp.Version = rec.Req.Header.Version
	}
	resp.Stream = rec.Stream
	if resp.Version == 5 {
		resp.ExtraFlags |= cqlspec.FlagBeta
	}
	if mayCompress && cl.ResponseCompress && resp.Compress == nil {
		switch sc.Compression {
		case "snappy":
			resp.Compress = cqlspec.SnappyEncodeLiteral
		case "lz4":
			resp.Compress = cqlspec.CassandraLZ4EncodeLiteral
		}
	}
	frame, err := cqlspec.EncodeResponse(resp)
	if err != nil {
		panic(fmt.Sprintf("node: cannot encode response %s: %v", label, err))
	}
	return cl.SendFrame(sc, rec.Stream, frame, fate, label)
}

// SendFrame queues raw bytes as the reply on a stream.
func (cl *Cluster) SendFrame(sc *SConn, stream int, frame []byte, fate Fate, label string) *Reply {
	closeAfter := false
	if cl.FrameHook != nil {
		frame, closeAfter = cl.FrameHook(sc, stream, label, frame)
	}
	if closeAfter {
		defer func() {
			cl.flushAll(sc)
			cl.CloseConn(sc, false)
		}()
	}
	cl.seq++
	r := &Reply{SC: sc, Stream: stream, Seq: cl.seq, Frame: frame, Label: label}
	switch fate {
	case Auto:
		cl.K.Rec("send %s s=%d %s auto", sc.C.Name, stream, label)
		cl.flushPartial(sc)
		sc.C.ServerSend(frame)
	case Drop:
		r.Dropped = true
		sc.Outstanding[stream] = r
		cl.K.Rec("drop %s s=%d %s", sc.C.Name, stream, label)
	default:
		sc.Outstanding[stream] = r
		cl.held = append(cl.held, r)
	}
	return r
}

// SendError answers an ERROR frame.
func (cl *Cluster) SendError(sc *SConn, rec *ReqRec, code int32, msg string, fate Fate) *Reply {
	return cl.Send(sc, rec, &cqlspec.Response{Op: cqlspec.OpError, Error: &cqlspec.ErrorBody{Code: code, Message: msg}}, fate, fmt.Sprintf("ERROR(%#x)", code))
}

// Deliver sends the rest of a held reply to the driver.
func (cl *Cluster) Deliver(r *Reply) {
	cl.DeliverPart(r, len(r.Frame)-r.Sent)
}

// DeliverPart sends the next n bytes of a held reply; the reply stays held until all of
// it has been sent.
func (cl *Cluster) DeliverPart(r *Reply, n int) {
	if r.SC.partial != nil && r.SC.partial != r {
		cl.flushPartial(r.SC)
	}
	if n > len(r.Frame)-r.Sent {
		n = len(r.Frame) - r.Sent
	}
	r.SC.C.ServerSend(r.Frame[r.Sent : r.Sent+n])
	r.Sent += n
	r.SC.partial = r
	if r.Sent >= len(r.Frame) {
		r.SC.partial = nil
		cl.unhold(r)
		if r.SC.Outstanding[r.Stream] == r {
			delete(r.SC.Outstanding, r.Stream)
		}
	}
}

// flushAll delivers every held reply of a connection in order.
func (cl *Cluster) flushAll(sc *SConn) {
	for {
		var next *Reply
		for _, r := range cl.held {
			if r.SC == sc {
				next = r
				break
			}
		}
		if next == nil {
			return
		}
		cl.Deliver(next)
	}
}

func (cl *Cluster) flushPartial(sc *SConn) {
	if p := sc.partial; p != nil {
		cl.DeliverPart(p, len(p.Frame)-p.Sent)
	}
}

// Forget turns a held reply into one that is never sent.
func (cl *Cluster) Forget(r *Reply) {
	cl.unhold(r)
	r.Dropped = true
}

func (cl *Cluster) unhold(r *Reply) {
	for i, q := range cl.held {
		if q == r {
			cl.held = append(cl.held[:i], cl.held[i+1:]...)
			return
		}
	}
}

// CloseConn closes the server side of a connection; replies it still held are gone.
func (cl *Cluster) CloseConn(sc *SConn, reset bool) {
	sc.Dead = true
	cl.dropHeld(sc)
	sc.C.ServerClose(reset)
}

// PushEvent sends an EVENT frame on every live connection registered for its type.
func (cl *Cluster) PushEvent(ev *cqlspec.Response) int {
	n := 0
	for _, sc := range cl.SConns() {
		if sc.Dead || sc.C.ClientClosed() {
			continue
		}
		reg := false
		for _, t := range sc.Registered {
			if t == ev.EventType {
				reg = true
			}
		}
		if !reg && !(cl.EventsToAll && sc.Started) {
			continue
		}
		e := *ev
		e.Op = cqlspec.OpEvent
		e.Version = sc.Version
		e.Stream = -1
		if cl.ResponseCompress || cl.CompressEvents {
			// a node compresses what it pushes like any other frame of a connection that
			// negotiated compression
			switch sc.Compression {
			case "snappy":
				e.Compress = cqlspec.SnappyEncodeLiteral
			case "lz4":
				e.Compress = cqlspec.CassandraLZ4EncodeLiteral
			}
		}
		if e.Version == 5 {
			e.ExtraFlags |= cqlspec.FlagBeta
		}
		frame, err := cqlspec.EncodeResponse(&e)
		if err != nil {
			panic(err)
		}
		cl.K.Rec("event %s %s %s %s", sc.C.Name, ev.EventType, ev.EventChange, net.IP(ev.EventIP))
		closeAfter := false
		if cl.FrameHook != nil {
			frame, closeAfter = cl.FrameHook(sc, -1, "EVENT", frame)
		}
		cl.flushPartial(sc)
		sc.C.ServerSend(frame)
		if closeAfter {
			cl.CloseConn(sc, false)
		}
		n++
	}
	return n
}

// DeliverActions offers the held replies (oldest first, bounded per connection) as
// simulator actions.
func (cl *Cluster) DeliverActions() []kernel.Action {
	var acts []kernel.Action
	per := map[*SConn]int{}
	for _, r := range cl.held {
		if per[r.SC] >= cl.MaxDeliverChoices {
			continue
		}
		per[r.SC]++
		r := r
		acts = append(acts, kernel.Action{
			Key:    fmt.Sprintf("deliver:%s:%06d:s%d:%s", r.SC.C.Name, r.Seq, r.Stream, r.Label),
			Rank:   1,
			Weight: cl.DeliverWeight,
			Do:     func() { cl.Deliver(r) },
		})
	}
	return acts
}

// DeliverAll delivers every held reply in order (settle phase).
func (cl *Cluster) DeliverAll() {
	for len(cl.held) > 0 {
		cl.Deliver(cl.held[0])
	}
}

// CloseAll closes the server side of every connection (end of run).
func (cl *Cluster) CloseAll() {
	for _, sc := range cl.SConns() {
		if !sc.C.ServerClosed() {
			sc.C.ServerClose(false)
		}
		sc.Dead = true
	}
	cl.held = nil
}

// ---------------------------------------------------------------------------------
// system tables

func uuidBytes(s string) []byte {
	b, err := hex.DecodeString(strings.ReplaceAll(s, "-", ""))
	if err != nil || len(b) != 16 {
		panic("bad uuid " + s)
	}
	return b
}

func ipBytes(s string) []byte {
	ip := net.ParseIP(s)
	if v4 := ip.To4(); v4 != nil {
		return v4
	}
	return ip
}

func col(table, name string, t cqlspec.ColType) cqlspec.ColSpec {
	return cqlspec.ColSpec{Keyspace: "system", Table: table, Name: name, Type: t}
}

var (
	tText = cqlspec.ColType{ID: cqlspec.TVarchar}
	tUUID = cqlspec.ColType{ID: cqlspec.TUUID}
	tInet = cqlspec.ColType{ID: cqlspec.TInet}
	tInt  = cqlspec.ColType{ID: cqlspec.TInt}
	tSetT = cqlspec.ColType{ID: cqlspec.TSet, Elems: []cqlspec.ColType{{ID: cqlspec.TVarchar}}}
)

func cell(b []byte) cqlspec.Cell { return cqlspec.Cell{Bytes: b} }

func tokensCell(version int, toks []string) cqlspec.Cell {
	var elems []cqlspec.Cell
	for _, t := range toks {
		elems = append(elems, cell(cqlspec.EncText(t)))
	}
	return cell(cqlspec.EncList(version, elems))
}

func (h *Host) broadcast() string {
	if h.Broadcast != "" {
		return h.Broadcast
	}
	return h.Addr
}

// LocalRows builds the system.local result for a host.
func (cl *Cluster) LocalRows(version int, h *Host) (*cqlspec.RowsMeta, [][]cqlspec.Cell) {
	meta := &cqlspec.RowsMeta{GlobalSpec: true, Columns: []cqlspec.ColSpec{
		col("local", "key", tText), col("local", "broadcast_address", tInet), col("local", "cluster_name", tText),
		col("local", "data_center", tText), col("local", "host_id", tUUID), col("local", "listen_address", tInet),
		col("local", "partitioner", tText), col("local", "rack", tText), col("local", "release_version", tText),
		col("local", "rpc_address", tInet), col("local", "schema_version", tUUID), col("local", "tokens", tSetT),
	}}
	row := []cqlspec.Cell{
		cell(cqlspec.EncText("local")), cell(ipBytes(h.broadcast())), cell(cqlspec.EncText(cl.ClusterName)),
		cell(cqlspec.EncText(h.DC)), cell(uuidBytes(h.HostID)), cell(ipBytes(h.broadcast())),
		cell(cqlspec.EncText(cl.Partitioner)), cell(cqlspec.EncText(h.Rack)), cell(cqlspec.EncText(h.Version)),
		cell(ipBytes(h.Addr)), cell(uuidBytes(h.SchemaVersion)), tokensCell(version, h.Tokens),
	}
	if cl.LocalWithoutAddress {
		// a local row that names no usable address (a misbehaving node)
		row[1], row[5] = cqlspec.Cell{Null: true}, cqlspec.Cell{Null: true}
		row[9] = cell(ipBytes("0.0.0.0"))
	}
	return meta, [][]cqlspec.Cell{row}
}

// PeerRow is one row of system.peers as the simulated node reports it; scenarios may
// replace PeersOf to inject invalid or duplicated rows.
type PeerRow struct {
	Peer, RPC, DC, Rack, HostID, Version, SchemaVersion string
	Tokens                                              []string
	NullRPC, NullHostID, NullDC, NullRack, NullTokens   bool
	NullPeer                                            bool
}

// PeersOf lists the peers host h reports: every other host of the model.
func (cl *Cluster) PeersOf(h *Host) []PeerRow {
	var rows []PeerRow
	for _, p := range cl.Hosts {
		if p == h {
			continue
		}
		rows = append(rows, PeerRow{Peer: p.broadcast(), RPC: p.Addr, DC: p.DC, Rack: p.Rack, HostID: p.HostID,
			Version: p.Version, SchemaVersion: p.SchemaVersion, Tokens: p.Tokens})
	}
	return rows
}

func nullable(null bool, b []byte) cqlspec.Cell {
	if null {
		return cqlspec.Cell{Null: true}
	}
	return cell(b)
}

// PeerRows builds the system.peers result.
func (cl *Cluster) PeerRows(version int, peers []PeerRow) (*cqlspec.RowsMeta, [][]cqlspec.Cell) {
	meta := &cqlspec.RowsMeta{GlobalSpec: true, Columns: []cqlspec.ColSpec{
		col("peers", "peer", tInet), col("peers", "data_center", tText), col("peers", "host_id", tUUID),
		col("peers", "preferred_ip", tInet), col("peers", "rack", tText), col("peers", "release_version", tText),
		col("peers", "rpc_address", tInet), col("peers", "schema_version", tUUID), col("peers", "tokens", tSetT),
	}}
	var rows [][]cqlspec.Cell
	for _, p := range peers {
		var hid, rpc []byte
		if !p.NullHostID {
			hid = uuidBytes(p.HostID)
		}
		if !p.NullRPC {
			rpc = ipBytes(p.RPC)
		}
		tok := tokensCell(version, p.Tokens)
		if p.NullTokens {
			tok = cqlspec.Cell{Null: true}
		}
		rows = append(rows, []cqlspec.Cell{
			nullable(p.NullPeer, ipBytes(p.Peer)), nullable(p.NullDC, cqlspec.EncText(p.DC)), nullable(p.NullHostID, hid),
			{Null: true}, nullable(p.NullRack, cqlspec.EncText(p.Rack)), cell(cqlspec.EncText(p.Version)),
			nullable(p.NullRPC, rpc), cell(uuidBytes(p.SchemaVersion)), tok,
		})
	}
	return meta, rows
}

// Peers is the hook scenarios use to alter what a host reports about its peers.
func (cl *Cluster) peers(h *Host) []PeerRow {
	if cl.PeersHook != nil {
		return cl.PeersHook(h)
	}
	return cl.PeersOf(h)
}

func (cl *Cluster) systemQuery(sc *SConn, rec *ReqRec) bool {
	q := rec.Req.Query
	v := rec.Req.Header.Version
	switch {
	case q == "SELECT * FROM system.local WHERE key='local'":
		meta, rows := cl.LocalRows(v, sc.Host)
		cl.Send(sc, rec, &cqlspec.Response{Op: cqlspec.OpResult, Kind: cqlspec.KindRows, Rows: meta, RowData: rows}, cl.systemFate(sc, rec), "ROWS(local)")
	case q == "SELECT * FROM system.peers":
		if cl.FailPeers {
			cl.SendError(sc, rec, cqlspec.ErrServer, "injected peers failure", cl.systemFate(sc, rec))
			return true
		}
		meta, rows := cl.PeerRows(v, cl.peers(sc.Host))
		cl.PeerQueries++
		cl.Send(sc, rec, &cqlspec.Response{Op: cqlspec.OpResult, Kind: cqlspec.KindRows, Rows: meta, RowData: rows}, cl.systemFate(sc, rec), "ROWS(peers)")
	case q == "SELECT * FROM system.peers_v2":
		cl.SendError(sc, rec, cqlspec.ErrInvalid, "unconfigured table peers_v2", cl.systemFate(sc, rec))
	case q == "SELECT schema_version FROM system.local WHERE key='local'":
		meta := &cqlspec.RowsMeta{GlobalSpec: true, Columns: []cqlspec.ColSpec{col("local", "schema_version", tUUID)}}
		cl.Send(sc, rec, &cqlspec.Response{Op: cqlspec.OpResult, Kind: cqlspec.KindRows, Rows: meta,
			RowData: [][]cqlspec.Cell{{cell(uuidBytes(sc.Host.SchemaVersion))}}}, cl.systemFate(sc, rec), "ROWS(schema_version)")
	case strings.HasPrefix(q, `USE "`) && strings.HasSuffix(q, `"`):
		ks := q[5 : len(q)-1]
		sc.Keyspace = ks
		cl.Send(sc, rec, &cqlspec.Response{Op: cqlspec.OpResult, Kind: cqlspec.KindSetKeyspace, Keyspace: ks}, cl.systemFate(sc, rec), "SET_KEYSPACE")
	default:
		if cl.SystemQueryHook != nil && cl.SystemQueryHook(sc, rec) {
			return true
		}
		return false
	}
	return true
}

func (cl *Cluster) systemFate(sc *SConn, rec *ReqRec) Fate {
	if cl.SystemFateFn != nil {
		return cl.SystemFateFn(sc, rec)
	}
	return cl.SystemFate
}

// Describe renders a decoded request compactly for the log (maps sorted).
func Describe(rq *cqlspec.Request) string {
	switch rq.Header.Opcode {
	case cqlspec.OpOptions:
		return "OPTIONS"
	case cqlspec.OpStartup:
		keys := make([]string, 0, len(rq.Options))
		for k := range rq.Options {
			keys = append(keys, k)
		}
		sort.Strings(keys)
		var sb strings.Builder
		sb.WriteString("STARTUP")
		for _, k := range keys {
			fmt.Fprintf(&sb, " %s=%s", k, rq.Options[k])
		}
		return sb.String()
	case cqlspec.OpAuthResponse:
		return fmt.Sprintf("AUTH_RESPONSE len=%d", len(rq.AuthToken))
	case cqlspec.OpRegister:
		return "REGISTER " + strings.Join(rq.EventTypes, ",")
	case cqlspec.OpQuery:
		return fmt.Sprintf("QUERY %q cl=%d nvals=%d", rq.Query, rq.Params.Consistency, len(rq.Params.Values))
	case cqlspec.OpPrepare:
		return fmt.Sprintf("PREPARE %q", rq.Query)
	case cqlspec.OpExecute:
		return fmt.Sprintf("EXECUTE id=%x nvals=%d", rq.PreparedID, len(rq.Params.Values))
	case cqlspec.OpBatch:
		return fmt.Sprintf("BATCH type=%d n=%d", rq.BatchType, len(rq.Batch))
	}
	return fmt.Sprintf("op=%#x", rq.Header.Opcode)
}

// wireViolation reports a request frame the strict decoder rejects (C03), or, when the
// rejection is about compression, the corresponding C18 clause. A connection whose
// transport cut a write short is exempt: its byte stream is legitimately torn.
func (cl *Cluster) wireViolation(sc *SConn, frame []byte, err error) {
	if sc.C.PartialWrite() || cl.NoWireOracle {
		return
	}
	h, herr := cqlspec.ParseHeader(frame)
	op := "?"
	if herr == nil {
		op = cqlspec.OpName(h.Opcode)
		if h.Flags&cqlspec.FlagCompression != 0 && sc.Compression == "" {
			cl.K.Violate("C18", "C18/compressed-without-negotiation", "conn %s: %s frame carries the compression flag but STARTUP negotiated no compressor", sc.C.Name, op)
			return
		}
		if h.Flags&cqlspec.FlagCompression != 0 {
			if _, derr := sc.decompressor()(frame[cqlspec.HeaderSize(frame[0]):]); derr != nil {
				cl.K.Violate("C18", "C18/body-not-a-valid-"+sc.Compression+"-block", "conn %s: %s frame has the compression flag but its body does not decode with the independent %s decoder: %v", sc.C.Name, op, sc.Compression, derr)
				return
			}
		}
	}
	msg := err.Error()
	if len(msg) > 300 {
		msg = msg[:300]
	}
	cl.K.Violate("C03", "C03/undecodable-request:"+op, "conn %s: the strict decoder rejects a %s frame (%d bytes): %s", sc.C.Name, op, len(frame), msg)
}

// wireChecks are the conversation-level rules every decoded request must satisfy.
func (cl *Cluster) wireChecks(sc *SConn, rq *cqlspec.Request) {
	if cl.NoWireOracle {
		return
	}
	op := rq.Header.Opcode
	if (op == cqlspec.OpOptions || op == cqlspec.OpStartup) && rq.Header.Flags&cqlspec.FlagCompression != 0 {
		cl.K.Violate("C18", "C18/handshake-frame-compressed", "conn %s: %s carries the compression flag", sc.C.Name, cqlspec.OpName(op))
	}
	if sc.Version != 0 && rq.Header.Version != sc.Version {
		cl.K.Violate("C03", "C03/version-changed-mid-connection", "conn %s: %s frame has version %d, the connection started with %d", sc.C.Name, cqlspec.OpName(op), rq.Header.Version, sc.Version)
	}
	if op == cqlspec.OpStartup {
		if c, ok := rq.Options["COMPRESSION"]; ok {
			adv := false
			for _, a := range sc.Advertised {
				if a == c {
					adv = true
				}
			}
			if !adv {
				cl.K.Violate("C18", "C18/compressor-not-advertised", "conn %s: STARTUP asks for COMPRESSION=%q, the SUPPORTED answer on this connection advertised %v", sc.C.Name, c, sc.Advertised)
			}
		}
	} else if op != cqlspec.OpOptions && !sc.Started && !sc.NeedAuth {
		cl.K.Violate("C03", "C03/request-before-startup", "conn %s: %s sent before STARTUP completed", sc.C.Name, cqlspec.OpName(op))
	}
}
