package cqlspec

import (
	"encoding/binary"
	"fmt"
	"sort"
	"unicode/utf8"
)

// ---------------------------------------------------------------------------------
// W: low-level body writer (spec section 3 notations).

// W appends protocol primitives to B. It never validates semantics, so it can be used
// to hand-craft malformed bodies. The only thing it records (in Err, first one wins)
// is a value that does not fit its length prefix; the bytes are still appended.
type W struct {
	B   []byte
	Err error
}

func (w *W) fail(format string, a ...any) {
	if w.Err == nil {
		w.Err = fmt.Errorf(format, a...)
	}
}

// Raw appends b verbatim (e.g. a [uuid]).
func (w *W) Raw(b []byte) { w.B = append(w.B, b...) }

// Byte writes a [byte].
func (w *W) Byte(v byte) { w.B = append(w.B, v) }

// Short writes a [short].
func (w *W) Short(v uint16) { w.B = binary.BigEndian.AppendUint16(w.B, v) }

// Int writes an [int].
func (w *W) Int(v int32) { w.B = binary.BigEndian.AppendUint32(w.B, uint32(v)) }

// Long writes a [long].
func (w *W) Long(v int64) { w.B = binary.BigEndian.AppendUint64(w.B, uint64(v)) }

// String writes a [string]: <short n> n bytes.
func (w *W) String(s string) {
	if len(s) > 0xffff {
		w.fail("[string] of %d bytes does not fit a [short] length", len(s))
	}
	w.Short(uint16(len(s)))
	w.B = append(w.B, s...)
}

// LongString writes a [long string]: <int n> n bytes.
func (w *W) LongString(s string) {
	if len(s) > 0x7fffffff {
		w.fail("[long string] of %d bytes does not fit an [int] length", len(s))
	}
	w.Int(int32(len(s)))
	w.B = append(w.B, s...)
}

// Bytes writes a [bytes]: <int n> n bytes, or length -1 and nothing else when null.
func (w *W) Bytes(b []byte, null bool) {
	if null {
		w.Int(-1)
		return
	}
	if len(b) > 0x7fffffff {
		w.fail("[bytes] of %d bytes does not fit an [int] length", len(b))
	}
	w.Int(int32(len(b)))
	w.B = append(w.B, b...)
}

// ShortBytes writes a [short bytes]: <short n> n bytes.
func (w *W) ShortBytes(b []byte) {
	if len(b) > 0xffff {
		w.fail("[short bytes] of %d bytes does not fit a [short] length", len(b))
	}
	w.Short(uint16(len(b)))
	w.B = append(w.B, b...)
}

func (w *W) count(n int, what string) {
	if n > 0xffff {
		w.fail("%s with %d entries does not fit a [short] count", what, n)
	}
	w.Short(uint16(n))
}

// StringList writes a [string list]: <short n> n x [string].
func (w *W) StringList(l []string) {
	w.count(len(l), "[string list]")
	for _, s := range l {
		w.String(s)
	}
}

func sortedKeys[V any](m map[string]V) []string {
	keys := make([]string, 0, len(m))
	for k := range m {
		keys = append(keys, k)
	}
	sort.Strings(keys)
	return keys
}

// StringMap writes a [string map] with keys in sorted order.
func (w *W) StringMap(m map[string]string) {
	w.count(len(m), "[string map]")
	for _, k := range sortedKeys(m) {
		w.String(k)
		w.String(m[k])
	}
}

// StringMultiMap writes a [string multimap] with keys in sorted order.
func (w *W) StringMultiMap(m map[string][]string) {
	w.count(len(m), "[string multimap]")
	for _, k := range sortedKeys(m) {
		w.String(k)
		w.StringList(m[k])
	}
}

// BytesMap writes a [bytes map] with keys in sorted order; a nil value is written as
// a null [bytes] (length -1).
func (w *W) BytesMap(m map[string][]byte) {
	w.count(len(m), "[bytes map]")
	for _, k := range sortedKeys(m) {
		w.String(k)
		w.Bytes(m[k], m[k] == nil)
	}
}

// InetAddr writes an [inetaddr]: <byte size> address bytes (no port).
func (w *W) InetAddr(ip []byte) {
	if len(ip) > 0xff {
		w.fail("[inetaddr] of %d bytes does not fit a [byte] size", len(ip))
	}
	w.Byte(byte(len(ip)))
	w.B = append(w.B, ip...)
}

// Inet writes an [inet]: <byte size> address bytes <int port>.
func (w *W) Inet(ip []byte, port int32) {
	w.InetAddr(ip)
	w.Int(port)
}

// Option writes the [option] describing a column type.
func (w *W) Option(t ColType) {
	w.Short(t.ID)
	switch t.ID {
	case TCustom:
		w.String(t.Custom)
	case TList, TSet:
		if len(t.Elems) != 1 {
			w.fail("[option] 0x%04x needs exactly 1 element type, have %d", t.ID, len(t.Elems))
			return
		}
		w.Option(t.Elems[0])
	case TMap:
		if len(t.Elems) != 2 {
			w.fail("[option] map needs exactly 2 element types, have %d", len(t.Elems))
			return
		}
		w.Option(t.Elems[0])
		w.Option(t.Elems[1])
	case TUDT:
		if len(t.UDTFields) != len(t.Elems) {
			w.fail("[option] udt has %d field names but %d field types", len(t.UDTFields), len(t.Elems))
			return
		}
		w.String(t.UDTKeyspace)
		w.String(t.UDTName)
		w.count(len(t.Elems), "[option] udt")
		for i, e := range t.Elems {
			w.String(t.UDTFields[i])
			w.Option(e)
		}
	case TTuple:
		w.count(len(t.Elems), "[option] tuple")
		for _, e := range t.Elems {
			w.Option(e)
		}
	}
}

// ---------------------------------------------------------------------------------
// reader: strict body reader with a sticky error.

type reader struct {
	b   []byte
	off int
	ctx string // "QUERY v4", used as the prefix of every error
	err error
}

// failf records the first error: "<ctx>: <what> at body offset N: <detail>".
func (r *reader) failf(what, format string, a ...any) {
	if r.err == nil {
		r.err = fmt.Errorf("%s: %s at body offset %d: %s", r.ctx, what, r.off, fmt.Sprintf(format, a...))
	}
}

func (r *reader) left() int { return len(r.b) - r.off }

// take returns the next n bytes (aliasing the body, capacity clipped) or nil on error.
func (r *reader) take(n int, what string) []byte {
	if r.err != nil {
		return nil
	}
	if n < 0 || n > r.left() {
		r.failf(what, "need %d bytes, only %d left", n, r.left())
		return nil
	}
	s := r.b[r.off : r.off+n : r.off+n]
	r.off += n
	return s
}

func (r *reader) byte1(what string) byte {
	if s := r.take(1, what); s != nil {
		return s[0]
	}
	return 0
}

func (r *reader) short(what string) uint16 {
	if s := r.take(2, what); s != nil {
		return binary.BigEndian.Uint16(s)
	}
	return 0
}

func (r *reader) int4(what string) int32 {
	if s := r.take(4, what); s != nil {
		return int32(binary.BigEndian.Uint32(s))
	}
	return 0
}

func (r *reader) long(what string) int64 {
	if s := r.take(8, what); s != nil {
		return int64(binary.BigEndian.Uint64(s))
	}
	return 0
}

func (r *reader) utf8(s []byte, what string, start int) string {
	if r.err == nil && !utf8.Valid(s) {
		r.off = start
		r.failf(what, "invalid UTF-8 in %q", s)
	}
	return string(s)
}

// str reads a [string].
func (r *reader) str(what string) string {
	start := r.off
	n := int(r.short(what + " length"))
	return r.utf8(r.take(n, what), what, start)
}

// longStr reads a [long string].
func (r *reader) longStr(what string) string {
	start := r.off
	n := r.int4(what + " length")
	if n < 0 {
		r.off = start
		r.failf(what, "negative [long string] length %d", n)
		return ""
	}
	return r.utf8(r.take(int(n), what), what, start)
}

// bytes reads a [bytes]. Only -1 is accepted as the null length.
func (r *reader) bytes(what string) (b []byte, null bool) {
	start := r.off
	n := r.int4(what + " length")
	switch {
	case r.err != nil:
		return nil, false
	case n == -1:
		return nil, true
	case n < 0:
		r.off = start
		r.failf(what, "[bytes] length %d (only -1 may denote null)", n)
		return nil, false
	}
	b = r.take(int(n), what)
	if b == nil && r.err == nil {
		b = []byte{}
	}
	return b, false
}

// shortBytes reads a [short bytes].
func (r *reader) shortBytes(what string) []byte {
	n := int(r.short(what + " length"))
	b := r.take(n, what)
	if b == nil && r.err == nil {
		b = []byte{}
	}
	return b
}

// value reads a [value]: -1 null, -2 unset (v4+), >= 0 bytes.
func (r *reader) value(what string, version int) Value {
	start := r.off
	n := r.int4(what + " length")
	switch {
	case r.err != nil:
		return Value{}
	case n == -1:
		return Value{Null: true}
	case n == -2:
		if version < 4 {
			r.off = start
			r.failf(what, "[value] length -2 (unset) is not defined before protocol v4")
			return Value{}
		}
		return Value{Unset: true}
	case n < 0:
		r.off = start
		r.failf(what, "invalid [value] length %d", n)
		return Value{}
	}
	b := r.take(int(n), what)
	if b == nil && r.err == nil {
		b = []byte{}
	}
	return Value{Bytes: b}
}

// Consistency levels.
const (
	ConsAny         = 0x0000
	ConsOne         = 0x0001
	ConsTwo         = 0x0002
	ConsThree       = 0x0003
	ConsQuorum      = 0x0004
	ConsAll         = 0x0005
	ConsLocalQuorum = 0x0006
	ConsEachQuorum  = 0x0007
	ConsSerial      = 0x0008
	ConsLocalSerial = 0x0009
	ConsLocalOne    = 0x000A
)

// consistency reads a [consistency] and checks it is a known level.
func (r *reader) consistency(what string) uint16 {
	start := r.off
	c := r.short(what)
	if r.err == nil && c > ConsLocalOne {
		r.off = start
		r.failf(what, "unknown [consistency] 0x%04x", c)
	}
	return c
}

// serialConsistency reads a [consistency] that must be SERIAL or LOCAL_SERIAL.
func (r *reader) serialConsistency(what string) uint16 {
	start := r.off
	c := r.consistency(what)
	if r.err == nil && c != ConsSerial && c != ConsLocalSerial {
		r.off = start
		r.failf(what, "[consistency] 0x%04x is neither SERIAL nor LOCAL_SERIAL", c)
	}
	return c
}

// stringList reads a [string list].
func (r *reader) stringList(what string) []string {
	n := int(r.short(what + " count"))
	l := make([]string, 0, min(n, r.left()/2))
	for i := 0; i < n && r.err == nil; i++ {
		l = append(l, r.str(fmt.Sprintf("%s[%d]", what, i)))
	}
	return l
}

// stringMap reads a [string map]; duplicate keys are an error.
func (r *reader) stringMap(what string) map[string]string {
	n := int(r.short(what + " count"))
	m := make(map[string]string)
	for i := 0; i < n && r.err == nil; i++ {
		start := r.off
		k := r.str(fmt.Sprintf("%s key %d", what, i))
		if _, dup := m[k]; dup && r.err == nil {
			r.off = start
			r.failf(what, "duplicate key %q", k)
		}
		m[k] = r.str(fmt.Sprintf("%s value of %q", what, k))
	}
	return m
}

// bytesMap reads a [bytes map]; duplicate keys are an error, null values map to nil.
func (r *reader) bytesMap(what string) map[string][]byte {
	n := int(r.short(what + " count"))
	m := make(map[string][]byte)
	for i := 0; i < n && r.err == nil; i++ {
		start := r.off
		k := r.str(fmt.Sprintf("%s key %d", what, i))
		if _, dup := m[k]; dup && r.err == nil {
			r.off = start
			r.failf(what, "duplicate key %q", k)
		}
		m[k], _ = r.bytes(fmt.Sprintf("%s value of %q", what, k))
	}
	return m
}

// end checks that the whole body has been consumed.
func (r *reader) end() {
	if r.err == nil && r.left() != 0 {
		r.failf("end of body", "%d trailing bytes (% x)", r.left(), clip(r.b[r.off:], 16))
	}
}

func clip(b []byte, n int) []byte {
	if len(b) > n {
		return b[:n]
	}
	return b
}
