// vcheck is the runner: it rebuilds the simulation binary from /repo's working tree
// (build tag verif), fans out child processes (one simulated run at a time per child),
// aggregates evidence, classifies child exits, shrinks failing tapes, writes replay
// files, applies the known-findings file and sets the exit status:
// 0 held / 1 violation / 2 infrastructure trouble.
package main

import (
	"bufio"
	"bytes"
	"encoding/json"
	"flag"
	"fmt"
	"os"
	"os/exec"
	"path/filepath"
	"regexp"
	"sort"
	"strconv"
	"strings"
	"sync"
	"time"
)

const (
	verifDir = "/verif"
	goBin    = "go1.26.8"
)

var repoDir = "/repo"

// outDir is where evidence/ and replays/ are written: /verif, or $VERIF_OUT for
// development runs against seeded changes (so that they do not overwrite the real ones).
var outDir = func() string {
	if d := os.Getenv("VERIF_OUT"); d != "" {
		return d
	}
	return verifDir
}()

type violation struct {
	Property  string `json:"property"`
	Signature string `json:"signature"`
	Message   string `json:"message"`
}

type payload struct {
	Scenario  string                 `json:"scenario"`
	Seed      int64                  `json:"seed"`
	BaseSeed  int64                  `json:"base_seed"`
	Index     int                    `json:"index"`
	Tier      string                 `json:"tier"`
	NoFaults  bool                   `json:"nofaults"`
	Cfg       map[string]interface{} `json:"config,omitempty"`
	Tape      []uint32               `json:"tape"`
	Violation *violation             `json:"violation,omitempty"`
	Log       []string               `json:"log,omitempty"`
	// filled by the runner
	Property   string `json:"property,omitempty"`
	ShrunkFrom int    `json:"shrunk_from_tape_len,omitempty"`
	ReplaysOK  string `json:"replays_ok,omitempty"`
	RepoHead   string `json:"repo_head,omitempty"`
	Crash      string `json:"crash,omitempty"`
}

type runLine struct {
	Index       int                    `json:"index"`
	NoFaults    bool                   `json:"nofaults"`
	Steps       int                    `json:"steps"`
	SimNS       int64                  `json:"sim_ns"`
	Faults      map[string]int         `json:"faults"`
	Parks       map[string]int         `json:"parks"`
	Probes      map[string]int         `json:"probes"`
	OpsDone     int                    `json:"ops_done"`
	Fingerprint string                 `json:"fingerprint"`
	TapeLen     int                    `json:"tape_len"`
	Violation   *violation             `json:"violation"`
	Cfg         map[string]interface{} `json:"config"`
	Samples     []string               `json:"samples"`
	Trace       []string               `json:"trace"`
	Panic       string                 `json:"panic"`
	WallUS      int64                  `json:"wall_us"`
}

type finding struct {
	Property  string `json:"property"`
	Signature string `json:"signature"`
	Status    string `json:"status"` // known | fixed
	Commit    string `json:"commit,omitempty"`
	What      string `json:"what"`
	Example   string `json:"example_replay,omitempty"`
}

// scenario aggregates
type agg struct {
	runs, nofaultRuns int
	steps             int64
	simNS             int64
	ops               int64
	faults            map[string]int
	parks             map[string]int
	probes            map[string]int
	fps               map[string]bool
	fpsNontrivial     map[string]bool
	samples           []interface{}
	wallUS            int64
}

func newAgg() *agg {
	return &agg{faults: map[string]int{}, parks: map[string]int{}, probes: map[string]int{}, fps: map[string]bool{}, fpsNontrivial: map[string]bool{}}
}

func (a *agg) add(r *runLine) {
	a.runs++
	if r.NoFaults {
		a.nofaultRuns++
	}
	a.steps += int64(r.Steps)
	a.simNS += r.SimNS
	a.ops += int64(r.OpsDone)
	a.wallUS += r.WallUS
	nf := 0
	for k, v := range r.Faults {
		a.faults[k] += v
		nf += v
	}
	for k, v := range r.Parks {
		a.parks[k] += v
		nf += v
	}
	for k, v := range r.Probes {
		a.probes[k] += v
	}
	a.fps[r.Fingerprint] = true
	if nf > 0 && r.OpsDone > 0 {
		a.fpsNontrivial[r.Fingerprint] = true
	}
	if len(a.samples) < 4 && (len(r.Trace) > 0 || len(r.Samples) > 0) {
		a.samples = append(a.samples, map[string]interface{}{"index": r.Index, "config": r.Cfg, "steps": r.Steps, "faults": r.Faults, "parks": r.Parks, "trace": r.Trace, "artefacts": r.Samples})
	}
}

var (
	workDir string
	simBin  string
	mu      sync.Mutex
	// simSrc is the directory the simulation binary is built from (the harness module, or
	// a private copy of it when VERIF_SKIP / VERIF_REPO ask for one)
	simSrc = filepath.Join(verifDir, "sim")
)

func die(code int, format string, args ...interface{}) {
	fmt.Fprintf(os.Stderr, "vcheck: "+format+"\n", args...)
	cleanup()
	os.Exit(code)
}

func cleanup() {
	if workDir != "" && os.Getenv("VERIF_KEEP_WORK") == "" {
		os.RemoveAll(workDir)
	}
}

func goEnv() []string {
	env := os.Environ()
	env = append(env, "GOFLAGS=-mod=mod", "GOPROXY=off", "GOSUMDB=off", "GOTOOLCHAIN=local", "CGO_ENABLED=0")
	return env
}

func build(race bool) {
	workDir = filepath.Join(verifDir, ".work", strconv.Itoa(os.Getpid()))
	if err := os.MkdirAll(workDir, 0o755); err != nil {
		die(2, "mkdir %s: %v", workDir, err)
	}
	simBin = filepath.Join(workDir, "sim.test")
	args := []string{"test", "-c", "-tags", "verif", "-o", simBin}
	env := goEnv()
	if race {
		args = append(args, "-race")
		env = append(env, "CGO_ENABLED=1")
	}
	args = append(args, "./simtest")
	cmd := exec.Command(goBin, args...)
	cmd.Dir = filepath.Join(verifDir, "sim")
	altRepo := os.Getenv("VERIF_REPO")
	if altRepo != "" {
		repoDir = altRepo
	}
	if skip := os.Getenv("VERIF_SKIP"); skip != "" || altRepo != "" {
		// development aid: build from a private copy without files that are still being written
		src := filepath.Join(workDir, "src")
		rs := []string{"-a", "--delete"}
		for _, f := range strings.Fields(skip) {
			rs = append(rs, "--exclude="+f)
		}
		from := filepath.Join(verifDir, "sim")
		if v := os.Getenv("VERIF_SIM"); v != "" {
			// development aid: a frozen copy of the harness (a sweep over seeded changes
			// must not pick up edits made to the scenarios while it runs)
			from = v
		}
		rs = append(rs, from+"/", src+"/")
		if out, err := exec.Command("rsync", rs...).CombinedOutput(); err != nil {
			die(2, "rsync: %v\n%s", err, out)
		}
		cmd.Dir = src
		simSrc = src
		if altRepo != "" {
			// development aid: build against another checkout of the repository (a scratch
			// worktree with a seeded change, a snapshot) instead of /repo
			gm, err := os.ReadFile(filepath.Join(src, "go.mod"))
			if err != nil {
				die(2, "go.mod: %v", err)
			}
			t := strings.ReplaceAll(string(gm), "=> /repo/lz4", "=> "+altRepo+"/lz4")
			t = strings.ReplaceAll(t, "=> /repo\n", "=> "+altRepo+"\n")
			os.WriteFile(filepath.Join(src, "go.mod"), []byte(t), 0o644)
		}
	}
	cmd.Env = env
	out, err := cmd.CombinedOutput()
	if err != nil {
		die(2, "build of the simulation binary failed (exit 2, not a verdict):\n%s", out)
	}
}

func repoHead() string {
	out, err := exec.Command("git", "-C", repoDir, "rev-parse", "--short", "HEAD").Output()
	if err != nil {
		return "?"
	}
	dirty, _ := exec.Command("git", "-C", repoDir, "status", "--porcelain").Output()
	s := strings.TrimSpace(string(out))
	if len(bytes.TrimSpace(dirty)) > 0 {
		s += "+dirty"
	}
	return s
}

// ---------------------------------------------------------------------------------

type childResult struct {
	lines   []*runLine
	vios    []*payload
	crashes []*payload
	stalls  []string
	stallAt []int
	err     error
}

func panicSignature(stderr string) (sig, head string) {
	i := strings.Index(stderr, "panic: ")
	if i < 0 {
		i = strings.Index(stderr, "fatal error: ")
	}
	if i < 0 {
		return "crash/unknown", lastLines(stderr, 5)
	}
	rest := stderr[i:]
	head = rest
	if nl := strings.IndexByte(rest, '\n'); nl >= 0 {
		head = rest[:nl]
	}
	// first driver frame after the panic line
	site := "?"
	for _, line := range strings.Split(rest, "\n") {
		if !strings.HasPrefix(line, "github.com/gocql/gocql") || strings.Contains(line, "verifsim") ||
			strings.Contains(line, ".parseFrame.func1") {
			continue // parseFrame's deferred function only re-panics runtime errors
		}
		fn := line
		if i := strings.LastIndex(fn, "("); i > 0 {
			fn = fn[:i]
		}
		site = strings.TrimPrefix(fn, "github.com/gocql/gocql.")
		site = strings.TrimPrefix(site, "github.com/gocql/gocql/")
		break
	}
	return "panic/" + site, head
}

func lastLines(s string, n int) string {
	ls := strings.Split(strings.TrimSpace(s), "\n")
	if len(ls) > n {
		ls = ls[len(ls)-n:]
	}
	return strings.Join(ls, "\n")
}

// runChild runs one child over [from, from+count*stride) and restarts it after crashes.
func runChild(scenario string, seed int64, tier string, from, stride, count int, budget time.Duration, extra []string, procs int, res *childResult) {
	deadline := time.Now().Add(budget)
	for count > 0 && time.Now().Before(deadline) {
		left := time.Until(deadline)
		args := []string{"-test.run", "^TestSim$", "-test.timeout", "0", "-sim.stall=10s",
			"-sim.scenario=" + scenario, "-sim.seed=" + strconv.FormatInt(seed, 10), "-sim.tier=" + tier,
			"-sim.from=" + strconv.Itoa(from), "-sim.stride=" + strconv.Itoa(stride), "-sim.count=" + strconv.Itoa(count),
			"-sim.budget=" + left.String()}
		args = append(args, extra...)
		cmd := exec.Command(simBin, args...)
		if procs < 1 {
			procs = 1
		}
		cmd.Env = append(os.Environ(), "GOMAXPROCS="+strconv.Itoa(procs), "VERIF_BURST=1")
		var stderr bytes.Buffer
		cmd.Stderr = &stderr
		stdout, _ := cmd.StdoutPipe()
		if err := cmd.Start(); err != nil {
			res.err = err
			return
		}
		lastRun, lastRes := -1, -1
		done := false
		sc := bufio.NewScanner(stdout)
		sc.Buffer(make([]byte, 1<<20), 64<<20)
		for sc.Scan() {
			line := sc.Text()
			switch {
			case strings.HasPrefix(line, "RUN "):
				lastRun, _ = strconv.Atoi(line[4:])
			case strings.HasPrefix(line, "RES "):
				var r runLine
				if json.Unmarshal([]byte(line[4:]), &r) == nil {
					res.lines = append(res.lines, &r)
					lastRes = r.Index
				}
			case strings.HasPrefix(line, "VIO "):
				var p payload
				if json.Unmarshal([]byte(line[4:]), &p) == nil {
					res.vios = append(res.vios, &p)
				}
			case strings.HasPrefix(line, "STALL "):
				res.stalls = append(res.stalls, line[6:])
				res.stallAt = append(res.stallAt, lastRun)
			case line == "DONE":
				done = true
			}
		}
		err := cmd.Wait()
		if done && err == nil {
			return
		}
		if lastRun < 0 || lastRun == lastRes {
			if err != nil && len(res.stalls) == 0 {
				res.err = fmt.Errorf("child failed outside a run: %v\n%s", err, lastLines(stderr.String(), 15))
			}
			return
		}
		// the child died inside run lastRun
		if len(res.stalls) > 0 {
			// stall already recorded; continue after it
		} else {
			sig, head := panicSignature(stderr.String())
			res.crashes = append(res.crashes, &payload{Scenario: scenario, BaseSeed: seed, Index: lastRun, Tier: tier,
				Violation: &violation{Property: "CRASH", Signature: sig, Message: head}, Crash: lastLines(stderr.String(), 60)})
		}
		done0 := (lastRun-from)/stride + 1
		from += done0 * stride
		count -= done0
	}
}

// replayOnce runs a payload reps times in a fresh child and returns the signatures seen
// ("" for a clean run, "crash:<sig>" when the child died).
func replayOnce(p *payload, reps int, keepLog bool) (sigs []string, last *payload, crash string) {
	f, err := os.CreateTemp(workDir, "cand-*.json")
	if err != nil {
		return nil, nil, err.Error()
	}
	json.NewEncoder(f).Encode(p)
	f.Close()
	defer os.Remove(f.Name())
	cmd := exec.Command(simBin, "-test.run", "^TestSim$", "-test.timeout", "0", "-sim.replay="+f.Name(), "-sim.reps="+strconv.Itoa(reps), "-sim.stall=10s")
	cmd.Env = append(os.Environ(), "GOMAXPROCS=1")
	var stderr, stdout bytes.Buffer
	cmd.Stderr = &stderr
	cmd.Stdout = &stdout
	runErr := cmd.Run()
	sc := bufio.NewScanner(&stdout)
	sc.Buffer(make([]byte, 1<<20), 64<<20)
	for sc.Scan() {
		line := sc.Text()
		if strings.HasPrefix(line, "REP ") {
			var q payload
			if json.Unmarshal([]byte(line[4:]), &q) == nil {
				s := ""
				if q.Violation != nil {
					if p.Violation != nil && p.Violation.Property == "C18" {
						promoteC18(&q)
					}
					s = q.Violation.Signature
				}
				sigs = append(sigs, s)
				qq := q
				last = &qq
			}
		}
		if strings.HasPrefix(line, "STALL ") {
			var st struct{ Class string }
			json.Unmarshal([]byte(line[6:]), &st)
			sigs = append(sigs, "stall/"+st.Class)
		}
	}
	if runErr != nil && len(sigs) < reps {
		sig, head := panicSignature(stderr.String())
		sigs = append(sigs, sig)
		crash = head + "\n" + lastLines(stderr.String(), 60)
	}
	_ = keepLog
	return sigs, last, crash
}

func allEqual(sigs []string, want string, n int) bool {
	if len(sigs) < n {
		return false
	}
	for _, s := range sigs[:n] {
		if s != want {
			return false
		}
	}
	return true
}

// shrink minimises p.Tape while the same signature reproduces in every repetition.
func shrink(p *payload, sig string, budget time.Duration) *payload {
	deadline := time.Now().Add(budget)
	best := *p
	try := func(cands [][]uint32) bool {
		// run candidates in parallel, take the first (in order) that reproduces
		type out struct {
			ok   bool
			last *payload
		}
		outs := make([]out, len(cands))
		var wg sync.WaitGroup
		sem := make(chan struct{}, 16)
		for i, c := range cands {
			wg.Add(1)
			go func(i int, c []uint32) {
				defer wg.Done()
				sem <- struct{}{}
				defer func() { <-sem }()
				q := best
				q.Tape = c
				q.Log = nil
				sigs, last, crash := replayOnce(&q, 2, false)
				need := 2
				if crash != "" {
					need = 1 // a crash ends the child: one signature per process
				}
				outs[i] = out{allEqual(sigs, sig, need), last}
			}(i, c)
		}
		wg.Wait()
		for i, o := range outs {
			if o.ok {
				best.Tape = cands[i]
				if o.last != nil && len(o.last.Tape) > 0 && len(o.last.Tape) <= len(cands[i]) {
					best.Tape = o.last.Tape // the tape actually consumed
				}
				return true
			}
		}
		return false
	}
	// 1. truncate the tail
	for time.Now().Before(deadline) {
		n := len(best.Tape)
		if n == 0 {
			break
		}
		var cands [][]uint32
		for _, k := range []int{n / 8, n / 4, n / 2, 3 * n / 4, n - 8, n - 4, n - 2, n - 1} {
			if k >= 0 && k < n {
				cands = append(cands, append([]uint32(nil), best.Tape[:k]...))
			}
		}
		if !try(cands) {
			break
		}
	}
	// 2. zero blocks (ddmin style), then single values
	for size := len(best.Tape) / 2; size >= 1 && time.Now().Before(deadline); size /= 2 {
		progress := true
		for progress && time.Now().Before(deadline) {
			progress = false
			var cands [][]uint32
			for off := 0; off+size <= len(best.Tape); off += size {
				c := append([]uint32(nil), best.Tape...)
				nz := false
				for i := off; i < off+size; i++ {
					if c[i] != 0 {
						nz = true
					}
					c[i] = 0
				}
				if nz {
					cands = append(cands, c)
				}
			}
			// also try deleting blocks
			for off := 0; off+size <= len(best.Tape) && len(cands) < 64; off += size {
				c := append(append([]uint32(nil), best.Tape[:off]...), best.Tape[off+size:]...)
				cands = append(cands, c)
			}
			if len(cands) > 0 && try(cands) {
				progress = true
			}
		}
	}
	// 3. lower single values
	for i := 0; i < len(best.Tape) && time.Now().Before(deadline); i++ {
		if best.Tape[i] > 1 {
			var cands [][]uint32
			for _, v := range []uint32{1, best.Tape[i] / 2, best.Tape[i] - 1} {
				if v < best.Tape[i] {
					c := append([]uint32(nil), best.Tape...)
					c[i] = v
					cands = append(cands, c)
				}
			}
			try(cands)
		}
	}
	return &best
}

func slug(s string) string {
	s = regexp.MustCompile(`[^A-Za-z0-9._-]+`).ReplaceAllString(s, "_")
	if len(s) > 80 {
		s = s[:80]
	}
	return strings.Trim(s, "_")
}

func loadFindings() []finding {
	b, err := os.ReadFile(filepath.Join(verifDir, "known_findings.json"))
	if err != nil {
		return nil
	}
	var fs []finding
	if err := json.Unmarshal(b, &fs); err != nil {
		die(2, "known_findings.json: %v", err)
	}
	return fs
}

// lockSite names the driver function in which a goroutine of a frozen run waits for a mutex.
func lockSite(stacks string) string {
	for _, blk := range strings.Split(stacks, "\n\n") {
		nl := strings.IndexByte(blk, '\n')
		if nl < 0 || !(strings.Contains(blk[:nl], "sync.Mutex.Lock") || strings.Contains(blk[:nl], "sync.RWMutex")) {
			continue
		}
		for _, l := range strings.Split(blk[nl+1:], "\n") {
			if strings.HasPrefix(l, "github.com/gocql/gocql.") && !strings.Contains(l, "verifsim") {
				l = strings.TrimPrefix(l, "github.com/gocql/gocql.")
				if i := strings.LastIndex(l, "("); i > 0 {
					l = l[:i]
				}
				return l
			}
		}
	}
	return "?"
}

func knownFor(fs []finding, prop, sig string) *finding {
	for i := range fs {
		if fs[i].Status == "known" && fs[i].Property == prop && fs[i].Signature == sig {
			return &fs[i]
		}
	}
	return nil
}

// ---------------------------------------------------------------------------------

func envInt(name string, def int64) int64 {
	if v := os.Getenv(name); v != "" {
		if n, err := strconv.ParseInt(v, 10, 64); err == nil {
			return n
		}
	}
	return def
}

func main() {
	if len(os.Args) < 2 {
		fmt.Fprintln(os.Stderr, "usage: vcheck <property>|replay <file>|selftest [flags]")
		os.Exit(2)
	}
	switch os.Args[1] {
	case "replay":
		cmdReplay(os.Args[2:])
	case "selftest":
		cmdSelftest(os.Args[2:])
	default:
		cmdCheck(os.Args[1], os.Args[2:])
	}
}

func cmdCheck(prop string, args []string) {
	fs := flag.NewFlagSet("check", flag.ExitOnError)
	tier := fs.String("tier", os.Getenv("VERIF_TIER"), "quick | thorough")
	seed := fs.Int64("seed", envInt("VERIF_SEED", 1), "base seed")
	budgetS := fs.Int64("budget", envInt("VERIF_BUDGET_S", 0), "seconds of simulation per scenario (0 = tier default)")
	workers := fs.Int("workers", 16, "child processes")
	fs.Parse(args)
	if *tier == "" {
		*tier = "quick"
	}
	spec, ok := properties[prop]
	if !ok {
		die(2, "unknown property %q", prop)
	}
	start := time.Now()
	fmt.Printf("vcheck: property=%s tier=%s VERIF_SEED=%d repo=%s\n", prop, *tier, *seed, repoHead())
	build(false)
	findings := loadFindings()

	total := newAgg()
	perScen := map[string]*agg{}
	var vios, crashes []*payload
	type stallRun struct {
		scenario string
		index    int
	}
	var stallRuns []stallRun
	// regression tapes: the minimal reproducers of findings that were fixed are replayed
	// first; one that reproduces again is reported like any other violation
	regs, _ := filepath.Glob(filepath.Join(verifDir, "regress", prop+"-*.json"))
	sort.Strings(regs)
	nreg := 0
	for _, f := range regs {
		b, err := os.ReadFile(f)
		if err != nil {
			continue
		}
		var p payload
		if json.Unmarshal(b, &p) != nil || p.Violation == nil {
			continue
		}
		want := p.Violation.Signature
		if i := strings.Index(want, "/panic/"); i >= 0 {
			want = want[i+1:]
		}
		if i := strings.Index(want, "/stall/"); i >= 0 {
			want = want[i+1:]
		}
		sigs, last, crash := replayOnce(&p, 1, false)
		nreg++
		if len(sigs) > 0 && sameOutcome(&p, want, sigs[0]) {
			q := p
			if last != nil {
				q = *last
				q.Violation = p.Violation
			}
			q.BaseSeed = p.BaseSeed
			if crash != "" {
				crashes = append(crashes, &q)
			} else {
				vios = append(vios, &q)
			}
			fmt.Printf("vcheck: regression tape %s reproduces again\n", f)
		}
	}
	if nreg > 0 {
		fmt.Printf("vcheck: %d regression tape(s) of fixed findings replayed\n", nreg)
	}
	var stalls []string
	var infra []string
	for _, sn := range spec.Scenarios {
		budget := time.Duration(sn.quickS) * time.Second
		if *tier == "thorough" {
			budget = time.Duration(sn.thoroughS) * time.Second
		}
		if *budgetS > 0 {
			budget = time.Duration(*budgetS) * time.Second
		}
		a := newAgg()
		key := sn.Name
		if sn.Procs > 1 {
			key = fmt.Sprintf("%s (GOMAXPROCS=%d, real parallelism)", sn.Name, sn.Procs)
		}
		perScen[key] = a
		nw := *workers
		if sn.Procs > 1 {
			nw = *workers / sn.Procs
			if nw < 1 {
				nw = 1
			}
		}
		results := make([]*childResult, nw)
		var wg sync.WaitGroup
		for w := 0; w < nw; w++ {
			results[w] = &childResult{}
			wg.Add(1)
			go func(w int) {
				defer wg.Done()
				extra := append([]string{"-sim.trace=2"}, sn.Extra...)
				pseed := *seed
				if sn.Procs > 1 {
					pseed += 7777 // a different block of seeds for the parallel pass
				}
				runChild(sn.Name, pseed, *tier, w, nw, 1<<30, budget, extra, sn.Procs, results[w])
			}(w)
		}
		wg.Wait()
		for _, r := range results {
			for _, l := range r.lines {
				a.add(l)
				total.add(l)
			}
			vios = append(vios, r.vios...)
			crashes = append(crashes, r.crashes...)
			stalls = append(stalls, r.stalls...)
			for _, at := range r.stallAt {
				stallRuns = append(stallRuns, stallRun{sn.Name, at})
			}
			if r.err != nil {
				infra = append(infra, r.err.Error())
			}
		}
		fmt.Printf("vcheck: scenario %s: %d runs, %d steps, %.1f simulated s, %d distinct fingerprints (%d non-trivial)\n",
			sn.Name, a.runs, a.steps, float64(a.simNS)/1e9, len(a.fps), len(a.fpsNontrivial))
	}

	// ---- data-race pass (thorough tier of properties that ask for it) ----
	var raceReports []string
	if spec.RaceScenario != "" && *tier == "thorough" {
		raceReports = racePass(spec.RaceScenario, *seed, total)
	}

	// ---- classify ----
	otherProps := map[string]int{}
	artefacts := 0
	oomOnce := 0
	loadStalls := 0
	type group struct {
		prop, sig string
		ex        []*payload
	}
	groups := map[string]*group{}
	addG := func(prop, sig string, p *payload) {
		key := prop + "\x00" + sig
		g := groups[key]
		if g == nil {
			g = &group{prop: prop, sig: sig}
			groups[key] = g
		}
		g.ex = append(g.ex, p)
	}
	for _, p := range vios {
		// a response that does not reach the caller intact on a connection that
		// compresses responses is also a C18 matter ("what the peer decodes is
		// byte-identical to what was encoded"): the C18 check counts it
		if prop == "C18" {
			promoteC18(p)
		}
		switch p.Violation.Property {
		case "HARNESS", "BUBBLE":
			infra = append(infra, fmt.Sprintf("%s run %d: %s: %s", p.Scenario, p.Index, p.Violation.Signature, firstLine(p.Violation.Message)))
		default:
			addG(p.Violation.Property, p.Violation.Signature, p)
		}
	}
	for _, p := range crashes {
		// a panic in a driver goroutine kills the process: that is C05 (and whatever
		// property the scenario serves); attribute to the checked property if the
		// scenario serves it, with the panic site as signature
		cp := crashProperty[p.Scenario]
		if prop == "C18" && p.Scenario == "wire" && (strings.Contains(p.Violation.Signature, "Compressor") || strings.Contains(p.Violation.Signature, "lz4.") || strings.Contains(p.Violation.Signature, "snappy.")) {
			// a compressor that crashes the process while a frame is built or read
			cp = "C18"
		}
		if cp == "" {
			infra = append(infra, fmt.Sprintf("%s run %d crashed: %s", p.Scenario, p.Index, firstLine(p.Violation.Message)))
			continue
		}
		p.Violation.Property = cp
		p.Violation.Signature = cp + "/" + p.Violation.Signature
		addG(cp, p.Violation.Signature, p)
	}
	for si, s := range stalls {
		var st struct {
			Class  string `json:"class"`
			Stacks string `json:"stacks"`
		}
		json.Unmarshal([]byte(s), &st)
		if st.Class == "driver-lock-deadlock" && spec.DeadlockProperty != "" {
			p := &payload{Violation: &violation{Property: spec.DeadlockProperty, Signature: spec.DeadlockProperty + "/lock-deadlock:" + lockSite(st.Stacks), Message: "a driver goroutine waits for a lock that nobody will release (goroutine dump of the frozen run):\n" + st.Stacks}}
			if si < len(stallRuns) {
				p.Scenario, p.BaseSeed, p.Index, p.Tier = stallRuns[si].scenario, *seed, stallRuns[si].index, *tier
			}
			addG(spec.DeadlockProperty, p.Violation.Signature, p)
		} else if st.Class == "driver-lock-deadlock" {
			otherProps["(lock deadlock in the driver; reported by the C06/C17 checks)"]++
			os.WriteFile(filepath.Join(verifDir, ".work", "last-stall-"+st.Class+".txt"), []byte(st.Stacks), 0o644)
		} else if st.Class == "driver-busy-loop" && si < len(stallRuns) && crashProperty[stallRuns[si].scenario] != "" {
			// a driver goroutine computing or allocating for the whole watchdog period
			cp := crashProperty[stallRuns[si].scenario]
			p := &payload{Scenario: stallRuns[si].scenario, BaseSeed: *seed, Index: stallRuns[si].index, Tier: *tier, Crash: st.Stacks,
				Violation: &violation{Property: cp, Signature: cp + "/stall/driver-busy-loop", Message: "a driver goroutine kept computing/allocating for the whole watchdog period (runaway loop): " + busySite(st.Stacks)}}
			addG(cp, p.Violation.Signature, p)
		} else if st.Class == "synctest-mutex-artefact" {
			// a goroutine waited for the simulator while holding a mutex another goroutine
			// wanted (testing/synctest cannot see through sync.Mutex): the run is abandoned,
			// it says nothing about the property; tolerated while rare
			artefacts++
			os.WriteFile(filepath.Join(verifDir, ".work", "last-stall-"+st.Class+".txt"), []byte(st.Stacks), 0o644)
		} else {
			infra = append(infra, "stall ("+st.Class+"): a bubble froze in real time; goroutine dump in the child's output")
			os.WriteFile(filepath.Join(verifDir, ".work", "last-stall-"+st.Class+".txt"), []byte(st.Stacks), 0o644)
		}
	}

	// ---- report ----
	exit := 0
	nviol := 0
	var keys []string
	for k := range groups {
		keys = append(keys, k)
	}
	sort.Strings(keys)
	shrinkBudget := 25 * time.Second
	if *tier == "thorough" {
		shrinkBudget = 120 * time.Second
	}
	os.MkdirAll(filepath.Join(outDir, "replays"), 0o755)
	for _, k := range keys {
		g := groups[k]
		if g.prop != prop {
			otherProps[g.prop+" "+g.sig] += len(g.ex)
			continue
		}
		if kf := knownFor(findings, g.prop, g.sig); kf != nil {
			fmt.Printf("KNOWN-FINDING: property=%s %s (%s; %d run(s) this time)\n", g.prop, kf.What, g.sig, len(g.ex))
			continue
		}
		nviol += len(g.ex)
		exit = 1
		// pick the example with the shortest tape
		sort.Slice(g.ex, func(i, j int) bool { return len(g.ex[i].Tape) < len(g.ex[j].Tape) })
		ex := g.ex[0]
		path := filepath.Join(outDir, "replays", fmt.Sprintf("%s-%s-%d.json", g.prop, slug(strings.TrimPrefix(g.sig, g.prop+"/")), ex.BaseSeed))
		final := finalize(ex, g.sig, shrinkBudget, *seed, *tier)
		if strings.Contains(g.sig, "/stall/") && !strings.HasPrefix(final.ReplaysOK, "3/3") {
			// a watchdog stall that does not reproduce from its own tape is machine load
			// (sixteen children allocating at once), not a property of the code
			nviol -= len(g.ex)
			if nviol == 0 {
				exit = 0
			}
			loadStalls += len(g.ex)
			fmt.Printf("vcheck: %d run(s) hit the watchdog once but do not stall when replayed (%s): counted as abandoned runs\n", len(g.ex), final.ReplaysOK)
			continue
		}
		if strings.Contains(g.sig, "/panic/") && strings.HasPrefix(final.ReplaysOK, "0/") && final.Violation != nil &&
			strings.Contains(firstLine(final.Violation.Message), "out of memory") {
			// a child that ran out of its address-space limit in a run which, replayed in
			// fresh processes, never does: the accumulated heap of a long-lived child
			// (frames may legitimately announce up to 256 MiB each), not this run
			nviol -= len(g.ex)
			if nviol == 0 {
				exit = 0
			}
			oomOnce += len(g.ex)
			fmt.Printf("vcheck: %d run(s) ended with 'out of memory' in a long-lived child but never when replayed alone (%s): counted as abandoned runs\n", len(g.ex), final.ReplaysOK)
			continue
		}
		final.Property = g.prop
		final.RepoHead = repoHead()
		b, _ := json.MarshalIndent(final, "", " ")
		os.WriteFile(path, b, 0o644)
		fmt.Printf("VIOLATION property=%s replay=%s\n", g.prop, path)
		fmt.Printf("  signature: %s (%d run(s)); replay stability %s; tape %d values (from %d)\n  %s\n", g.sig, len(g.ex), final.ReplaysOK, len(final.Tape), final.ShrunkFrom, firstLine(final.Violation.Message))
	}
	for i, rep := range raceReports {
		nviol++
		exit = 1
		path := filepath.Join(outDir, "replays", fmt.Sprintf("%s-data-race-%d-%d.txt", prop, *seed, i))
		os.WriteFile(path, []byte(rep), 0o644)
		fmt.Printf("VIOLATION property=%s replay=%s\n  signature: %s/data-race (race detector report of a real execution at GOMAXPROCS=4: not replayable)\n  %s\n", prop, path, prop, firstLine(strings.TrimSpace(strings.SplitN(rep, "\n", 3)[1])))
		if i >= 2 {
			break
		}
	}
	for k, n := range otherProps {
		fmt.Printf("vcheck: note: %d run(s) hit a violation of another property (%s); its own check reports it\n", n, k)
	}
	if artefacts > 0 {
		fmt.Printf("vcheck: %d run(s) abandoned: bubble frozen by the synctest/mutex artefact (not a verdict)\n", artefacts)
		if artefacts > 3+total.runs/20000 {
			infra = append(infra, fmt.Sprintf("%d runs abandoned because of the synctest/mutex artefact: too many for %d runs", artefacts, total.runs))
		}
	}
	total.probes["harness.runs-abandoned-synctest-mutex-artefact"] += artefacts
	total.probes["harness.runs-abandoned-watchdog-under-load-not-reproducible"] += loadStalls
	if loadStalls > 10+total.runs/2000 {
		// (a stall that is a property of the code reproduces from its tape; these did not)
		infra = append(infra, fmt.Sprintf("%d runs hit the watchdog without stalling when replayed: too many for %d runs (is the machine overloaded?)", loadStalls, total.runs))
	}
	total.probes["harness.runs-abandoned-out-of-memory-not-reproducible"] += oomOnce
	if oomOnce > 3+total.runs/100000 {
		infra = append(infra, fmt.Sprintf("%d runs ended with a non-reproducible out of memory: too many for %d runs", oomOnce, total.runs))
	}
	writeEvidence(prop, spec, *tier, *seed, total, perScen, nviol, time.Since(start))
	if len(infra) > 0 {
		sort.Strings(infra)
		for i, s := range infra {
			if i < 10 {
				fmt.Fprintf(os.Stderr, "vcheck: infrastructure: %s\n", s)
			}
		}
		if exit == 0 {
			cleanup()
			fmt.Fprintf(os.Stderr, "vcheck: %d infrastructure problem(s): exit 2 (not a verdict)\n", len(infra))
			os.Exit(2)
		}
	}
	if total.runs == 0 {
		die(2, "no simulated run completed")
	}
	cleanup()
	if exit == 0 {
		fmt.Printf("vcheck: property %s held on %d simulated runs (%d distinct non-trivial) in %.0fs\n", prop, total.runs, len(total.fpsNontrivial), time.Since(start).Seconds())
	}
	os.Exit(exit)
}

func firstLine(s string) string {
	if i := strings.IndexByte(s, '\n'); i >= 0 {
		s = s[:i]
	}
	if len(s) > 400 {
		s = s[:400]
	}
	return s
}

// finalize turns a failing example into a replay file: obtains the tape (for crashes, by
// re-running the run in search mode with tape streaming), checks replay stability,
// shrinks, and re-checks 3/3.
func finalize(ex *payload, sig string, budget time.Duration, seed int64, tier string) *payload {
	p := *ex
	if len(p.Tape) == 0 && p.Crash != "" {
		// crash: regenerate the tape by running the same index with a streaming tape file
		tf := filepath.Join(workDir, fmt.Sprintf("tape-%d.txt", p.Index))
		cmd := exec.Command(simBin, "-test.run", "^TestSim$", "-test.timeout", "0", "-sim.scenario="+p.Scenario,
			"-sim.seed="+strconv.FormatInt(p.BaseSeed, 10), "-sim.tier="+tier, "-sim.from="+strconv.Itoa(p.Index), "-sim.count=1", "-sim.tapeout="+tf)
		cmd.Env = append(os.Environ(), "GOMAXPROCS=1")
		cmd.Run()
		if b, err := os.ReadFile(tf); err == nil {
			var meta struct {
				Seed     int64 `json:"seed"`
				NoFaults bool  `json:"nofaults"`
			}
			lines := strings.Split(strings.TrimSpace(string(b)), "\n")
			if len(lines) > 0 {
				json.Unmarshal([]byte(lines[0]), &meta)
				p.Seed, p.NoFaults = meta.Seed, meta.NoFaults
				for _, l := range lines[1:] {
					if v, err := strconv.ParseUint(strings.TrimSpace(l), 10, 32); err == nil {
						p.Tape = append(p.Tape, uint32(v))
					}
				}
			}
		}
	}
	rawSig := sig
	if strings.Contains(sig, "/panic/") {
		rawSig = sig[strings.Index(sig, "/panic/")+1:]
	}
	if strings.Contains(sig, "/stall/") {
		rawSig = sig[strings.Index(sig, "/stall/")+1:]
	}
	if strings.Contains(sig, "/lock-deadlock") {
		p.ReplaysOK = "not replayed (stall)"
		return &p
	}
	p.ShrunkFrom = len(p.Tape)
	if strings.HasPrefix(rawSig, "stall/") || (strings.HasPrefix(rawSig, "panic/") && p.Violation != nil && strings.Contains(p.Violation.Message, "out of memory")) {
		// a runaway computation ends as a watchdog stall in a long-lived child and as
		// "out of memory" (the child's address-space limit) when replayed alone, or the other
		// way round: what reproduces is "the run does not end normally"
		abn, example := countAbnormal(&p, 3)
		if abn == 3 {
			p.ReplaysOK = "3/3 (every replay ends abnormally: " + example + "; not shrunk)"
			return &p
		}
		p.ReplaysOK = fmt.Sprintf("%d/3 replay=unstable", abn)
		return &p
	}
	okN := countRepro(&p, rawSig, 3)
	if okN < 3 {
		okN += countRepro(&p, rawSig, 2)
		if okN < 3 {
			p.ReplaysOK = fmt.Sprintf("%d/5 replay=unstable", okN)
			return &p
		}
	}
	best := shrink(&p, rawSig, budget)
	if countRepro(best, rawSig, 3) == 3 {
		_, last, crash := replayOnce(best, 1, true)
		best.ReplaysOK = "3/3"
		if last != nil {
			best.Log = last.Log
			best.Cfg = last.Cfg
			if last.Violation != nil {
				best.Violation = last.Violation
			}
		}
		if crash != "" {
			best.Crash = crash
		}
		return best
	}
	p.ReplaysOK = "3/3 (unshrunk; shrunk candidate unstable)"
	return &p
}

// countRepro replays p in n fresh processes and counts how many show the signature.
func countRepro(p *payload, sig string, n int) int {
	res := make([]bool, n)
	var wg sync.WaitGroup
	for i := 0; i < n; i++ {
		wg.Add(1)
		go func(i int) {
			defer wg.Done()
			sigs, _, _ := replayOnce(p, 1, false)
			res[i] = len(sigs) > 0 && sigs[0] == sig
		}(i)
	}
	wg.Wait()
	c := 0
	for _, ok := range res {
		if ok {
			c++
		}
	}
	return c
}

// sameOutcome: does a replay that ended with signature got reproduce the recorded raw
// signature? Runaway computations (stalls, out of memory) reproduce as any abnormal end.
func sameOutcome(p *payload, raw, got string) bool {
	if got == "" {
		return false
	}
	if got == raw {
		return true
	}
	if strings.HasPrefix(raw, "stall/") || (strings.HasPrefix(raw, "panic/") && p.Violation != nil && strings.Contains(p.Violation.Message, "out of memory")) {
		return strings.HasPrefix(got, "stall/") || strings.HasPrefix(got, "panic/") || strings.HasPrefix(got, "crash/")
	}
	return false
}

// countAbnormal replays p in n fresh processes and counts how many end in a stall or a
// crash of the process (whatever the signature).
func countAbnormal(p *payload, n int) (int, string) {
	res := make([]string, n)
	var wg sync.WaitGroup
	for i := 0; i < n; i++ {
		wg.Add(1)
		go func(i int) {
			defer wg.Done()
			sigs, _, _ := replayOnce(p, 1, false)
			if len(sigs) > 0 && (strings.HasPrefix(sigs[0], "stall/") || strings.HasPrefix(sigs[0], "panic/") || strings.HasPrefix(sigs[0], "crash/")) {
				res[i] = sigs[0]
			}
		}(i)
	}
	wg.Wait()
	c, ex := 0, ""
	for _, r := range res {
		if r != "" {
			c++
			ex = r
		}
	}
	return c, ex
}

func cmdReplay(args []string) {
	if len(args) < 1 {
		die(2, "usage: vcheck replay <file>")
	}
	b, err := os.ReadFile(args[0])
	if err != nil {
		die(2, "%v", err)
	}
	var p payload
	if err := json.Unmarshal(b, &p); err != nil {
		die(2, "%v", err)
	}
	build(false)
	want := ""
	if p.Violation != nil {
		want = p.Violation.Signature
	}
	raw := want
	if i := strings.Index(want, "/panic/"); i >= 0 {
		raw = want[i+1:]
	}
	if i := strings.Index(want, "/stall/"); i >= 0 {
		raw = want[i+1:]
	}
	sigs, last, crash := replayOnce(&p, 1, true)
	cleanup()
	got := ""
	if len(sigs) > 0 {
		got = sigs[0]
	}
	if sameOutcome(&p, raw, got) {
		prop := p.Property
		if prop == "" && p.Violation != nil {
			prop = p.Violation.Property
		}
		fmt.Printf("VIOLATION property=%s replay=%s\n", prop, args[0])
		if last != nil && last.Violation != nil {
			fmt.Printf("  %s: %s\n", last.Violation.Signature, firstLine(last.Violation.Message))
		} else if crash != "" {
			fmt.Printf("  %s\n", firstLine(crash))
		}
		os.Exit(1)
	}
	fmt.Printf("NOT-REPRODUCED replay=%s (recorded %q, this run %q)\n", args[0], want, got)
	os.Exit(0)
}

// racePass rebuilds the simulation binary with the race detector and runs the scenario
// with GOMAXPROCS=4 (real parallelism inside each bubble). A report that involves driver
// code is a violation of "without data races"; these are real executions, not replayable.
func racePass(scenario string, seed int64, total *agg) []string {
	bin := filepath.Join(workDir, "simrace.test")
	cmd := exec.Command(goBin, "test", "-c", "-race", "-tags", "verif", "-o", bin, "./simtest")
	cmd.Dir = simSrc
	env := os.Environ()
	env = append(env, "GOFLAGS=-mod=mod", "GOPROXY=off", "GOSUMDB=off", "GOTOOLCHAIN=local", "CGO_ENABLED=1")
	cmd.Env = env
	if out, err := cmd.CombinedOutput(); err != nil {
		fmt.Fprintf(os.Stderr, "vcheck: race build failed, race pass skipped:\n%s\n", lastLines(string(out), 10))
		return nil
	}
	budget := time.Duration(envInt("VERIF_RACE_S", 120)) * time.Second
	var mu sync.Mutex
	var reports []string
	runs := 0
	var wg sync.WaitGroup
	for w := 0; w < 4; w++ {
		wg.Add(1)
		go func(w int) {
			defer wg.Done()
			c := exec.Command(bin, "-test.run", "^TestSim$", "-test.timeout", "0", "-sim.scenario="+scenario,
				"-sim.seed="+strconv.FormatInt(seed+int64(1000+w), 10), "-sim.count=1000000", "-sim.budget="+budget.String(), "-sim.memlimit=0")
			c.Env = append(os.Environ(), "GOMAXPROCS=4", "GORACE=halt_on_error=0")
			var stdout, stderr bytes.Buffer
			c.Stdout, c.Stderr = &stdout, &stderr
			c.Run()
			n := strings.Count(stdout.String(), "\nRES ")
			mu.Lock()
			runs += n
			for _, blk := range strings.Split(stderr.String(), "==================") {
				if strings.Contains(blk, "WARNING: DATA RACE") && strings.Contains(blk, "github.com/gocql/gocql.") {
					reports = append(reports, blk)
				}
			}
			mu.Unlock()
		}(w)
	}
	wg.Wait()
	total.probes["race-pass.runs"] += runs
	total.probes["race-pass.reports"] += len(reports)
	fmt.Printf("vcheck: race pass: %d runs of scenario %s under the race detector at GOMAXPROCS=4, %d report(s) involving driver code\n", runs, scenario, len(reports))
	return reports
}

// busySite names the driver frames of the goroutine that was busy when the watchdog fired.
func busySite(stacks string) string {
	for _, blk := range strings.Split(stacks, "\n\n") {
		head := blk
		if nl := strings.IndexByte(blk, '\n'); nl >= 0 {
			head = blk[:nl]
		}
		if !strings.Contains(head, "synctest bubble") || !(strings.Contains(head, "[running") || strings.Contains(head, "[runnable")) {
			continue
		}
		var fns []string
		for _, l := range strings.Split(blk, "\n") {
			if strings.HasPrefix(l, "github.com/gocql/gocql.") {
				if i := strings.LastIndex(l, "("); i > 0 {
					l = l[:i]
				}
				fns = append(fns, strings.TrimPrefix(l, "github.com/gocql/gocql."))
				if len(fns) == 3 {
					break
				}
			}
		}
		if len(fns) > 0 {
			return strings.Join(fns, " <- ")
		}
	}
	return "?"
}

// promoteC18: a response that does not reach the caller intact (a C04 verdict of scenario
// wire) on a connection that compresses responses is also a C18 matter.
func promoteC18(p *payload) {
	if p.Scenario != "wire" || p.Violation == nil || p.Violation.Property != "C04" || p.Cfg == nil {
		return
	}
	comp, _ := p.Cfg["compressor"].(string)
	rc, _ := p.Cfg["respCompress"].(float64)
	if comp != "" && rc != 0 {
		p.Violation.Property = "C18"
		p.Violation.Signature = "C18/compressed-response-not-intact:" + strings.TrimPrefix(p.Violation.Signature, "C04/")
	}
}
