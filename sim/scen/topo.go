package scen

import (
	"fmt"
	"net"
	"sort"
	"strings"
	"sync"
	"time"

	"github.com/gocql/gocql"
	"github.com/gocql/gocql/verifsim/cqlspec"
	"github.com/gocql/gocql/verifsim/kernel"
	"github.com/gocql/gocql/verifsim/node"
	"github.com/gocql/gocql/verifsim/simnet"
)

// Scenario topo (C16): a cluster model of 1-6 nodes goes through a tape-chosen history of
// membership changes (add, remove, address change with the same host id, new host id on an
// old address, invalid and duplicated peer rows), status and topology events for known and
// unknown addresses, control-connection loss and failing peer queries, with queries in
// between. After every step and a fault-free settle the session's picture (ring by id, by
// address, ordered list; pools; what the selection policy offers) is compared with the model.

func init() {
	register(&Scenario{
		Name:       "topo",
		Properties: []string{"C16"},
		Run:        runTopo,
		Real:       []string{"gocql control connection, ringDescriber/refreshRing, event debouncers, handleNodeUp/Down, ring, policyConnPool/hostConnPool, round-robin policy (real code)"},
		Stub:       []string{"Cassandra cluster model answering system.local/system.peers from the model and pushing EVENT frames"},
		Rule:       "one run = one tape-chosen history of 3-10 steps (membership change / event burst / control-connection loss / peers failure / query) on a cluster of 1-6 nodes, each followed by a fault-free settle and a full comparison of the session's view with the model; distinct = distinct canonical-log fingerprint; non-trivial = at least one membership change or fault was applied and at least one comparison completed",
	})
}

// recPolicy wraps the round-robin policy and records what the session tells it.
type recPolicy struct {
	gocql.HostSelectionPolicy
	mu    sync.Mutex
	known map[string]*gocql.HostInfo // by host id
}

func (p *recPolicy) AddHost(h *gocql.HostInfo) {
	p.mu.Lock()
	p.known[h.HostID()] = h
	p.mu.Unlock()
	p.HostSelectionPolicy.AddHost(h)
}

func (p *recPolicy) RemoveHost(h *gocql.HostInfo) {
	p.mu.Lock()
	delete(p.known, h.HostID())
	p.mu.Unlock()
	p.HostSelectionPolicy.RemoveHost(h)
}

type topoState struct {
	k      *kernel.Kernel
	cl     *node.Cluster
	sess   *gocql.Session
	pol    *recPolicy
	nextIP int
	nextID int
	// reportedDown: addresses the cluster reported DOWN (and made unreachable)
	down map[string]bool
	// unreach: addresses that currently refuse connections
	unreach map[string]bool
	// invalid / duplicate row injection for the next refreshes
	invalidFor  string
	invalidKind int
	// filterOn: the session has a host filter that rejects the addresses 10.0.0.x with
	// x = 2 mod 3 (never the first contact point)
	filterOn bool
	// noLookup: DisableInitialHostLookup; until the first refresh the session knows its
	// contact points only, under ids of its own making
	noLookup     bool
	firstRefresh bool
	// ownRow: every node lists itself among its peers
	ownRow bool
	// reconnTicker: the session retries nodes it holds for down (ReconnectInterval > 0): a
	// node reported down that is in fact reachable comes back on its own
	reconnTicker bool
	dupFor       string
	compares     int
	// splitAddrs: nodes have distinct rpc and node-to-node addresses
	splitAddrs bool
}

// n2n is the node-to-node address of a host: what system.peers reports as peer, what
// system.local reports as broadcast_address, and what the ring's address index is keyed by.
func n2n(h *node.Host) string {
	if h.Broadcast != "" {
		return h.Broadcast
	}
	return h.Addr
}

func (st *topoState) newHost() *node.Host {
	st.nextIP++
	st.nextID++
	bc := ""
	if st.splitAddrs {
		bc = fmt.Sprintf("10.1.0.%d", st.nextIP)
	}
	return &node.Host{
		Broadcast: bc,
		Addr:      fmt.Sprintf("10.0.0.%d", st.nextIP), Port: 9042,
		HostID: fmt.Sprintf("00000000-0000-4000-8000-%012d", st.nextID),
		DC:     "dc1", Rack: "r1", Tokens: []string{fmt.Sprintf("%d", int64(st.nextID)*7919-9000000000000000000)},
		Version: "3.11.4", SchemaVersion: "11111111-1111-4111-8111-111111111111",
		Prepared: map[string]*node.PreparedStmt{}, Nonce: fmt.Sprintf("n%d", st.nextID),
	}
}

// unreachable makes an address refuse dials and drops its connections.
func (st *topoState) unreachable(addr string) {
	st.unreach[addr] = true
	st.cl.Net.SetDialMode(addr, simnet.DialRefuse)
	for _, sc := range st.cl.SConns() {
		if sc.C.Host == addr && !sc.Dead {
			st.cl.CloseConn(sc, false)
		}
	}
}

func (st *topoState) reachable(addr string) {
	delete(st.unreach, addr)
	st.cl.Net.SetDialMode(addr, simnet.DialAccept)
}

// eventFor pushes an event about a host; events name the node-to-node address, which is what
// the session looks hosts up by.
func (st *topoState) eventFor(typ, change string, h *node.Host) { st.event(typ, change, n2n(h)) }

func (st *topoState) event(typ, change, addr string) {
	st.cl.PushEvent(&cqlspec.Response{EventType: typ, EventChange: change, EventIP: net.ParseIP(addr).To4(), EventPort: 9042})
}

// rejected: does the session's host filter reject the node at this address?
func (st *topoState) rejected(addr string) bool {
	if !st.filterOn {
		return false
	}
	ip := net.ParseIP(addr).To4()
	return ip != nil && ip[0] == 10 && ip[1] == 0 && ip[3]%3 == 2
}

func runTopo(e *Env) {
	k := e.K
	tp := k.Tape
	n0 := 1 + tp.Next(4)
	cl := node.NewCluster(k, n0)
	InstallHooks(k)
	st := &topoState{k: k, cl: cl, nextIP: n0, nextID: n0, down: map[string]bool{}, unreach: map[string]bool{}}
	e.Note("hosts", n0)
	if tp.Chance(1, 3) {
		st.splitAddrs = true
		for i, h := range cl.Hosts {
			h.Broadcast = fmt.Sprintf("10.1.0.%d", i+1)
		}
		k.Fault("topo.split-rpc-and-broadcast-addresses")
	}
	e.Note("splitAddrs", st.splitAddrs)

	cfg := BaseConfig(cl, "10.0.0.1")
	if tp.Chance(1, 4) {
		// a host filter; every initial node is a contact point, so that the control connection
		// may well begin at a node the filter rejects
		st.filterOn = true
		cfg.Hosts = nil
		for _, h := range cl.Hosts {
			cfg.Hosts = append(cfg.Hosts, h.Addr)
		}
		cfg.HostFilter = gocql.HostFilterFunc(func(h *gocql.HostInfo) bool { return !st.rejected(h.ConnectAddress().String()) })
		k.Fault("topo.host-filter")
	}
	e.Note("hostFilter", st.filterOn)
	if !st.filterOn && tp.Chance(1, 8) {
		// the session is told not to look the cluster up at start: it begins with its contact
		// points (every initial node) and learns the rest from the first refresh
		st.noLookup = true
		cfg.DisableInitialHostLookup = true
		cfg.Hosts = nil
		for _, h := range cl.Hosts {
			cfg.Hosts = append(cfg.Hosts, h.Addr)
		}
		k.Fault("topo.initial-host-lookup-disabled")
	}
	e.Note("noInitialLookup", st.noLookup)
	if !e.NoFaults && tp.Chance(1, 5) {
		st.ownRow = true
		k.Fault("topo.node-lists-itself-among-its-peers")
	}
	cfg.ProtoVersion = []int{4, 3}[tp.Next(2)]
	cfg.NumConns = 1 + tp.Next(2)
	// the long timeout outlives the driver's one-second debounce windows, so that a refresh
	// can still be in flight when the next event is acted upon
	longTimeout := tp.Chance(1, 3)
	cfg.Timeout = 300 * time.Millisecond
	if longTimeout {
		cfg.Timeout = 2500 * time.Millisecond
	}
	cfg.ConnectTimeout = 300 * time.Millisecond
	if longTimeout {
		cfg.ConnectTimeout = 5 * time.Second
	}
	cfg.ReconnectInterval = 0
	if tp.Chance(1, 3) {
		// the session's reconnect ticker: every second it tries the nodes it holds for down
		st.reconnTicker = true
		cfg.ReconnectInterval = time.Second
		k.Fault("topo.reconnect-ticker")
	}
	e.Note("reconnectTicker", st.reconnTicker)
	cfg.ReconnectionPolicy = &gocql.ConstantReconnectionPolicy{MaxRetries: 1, Interval: 100 * time.Millisecond}
	var inner gocql.HostSelectionPolicy
	polName := ""
	switch tp.Weighted([]int{3, 2, 1, 1}) {
	case 1:
		inner, polName = gocql.TokenAwareHostPolicy(gocql.RoundRobinHostPolicy()), "token-aware/round-robin"
	case 2:
		inner, polName = gocql.TokenAwareHostPolicy(gocql.DCAwareRoundRobinPolicy("dc1")), "token-aware/dc-aware"
	case 3:
		inner, polName = gocql.DCAwareRoundRobinPolicy("dc1"), "dc-aware"
	default:
		inner, polName = gocql.RoundRobinHostPolicy(), "round-robin"
	}
	e.Note("policy", polName)
	st.pol = &recPolicy{HostSelectionPolicy: inner, known: map[string]*gocql.HostInfo{}}
	cfg.PoolConfig.HostSelectionPolicy = st.pol

	cl.PeersHook = func(h *node.Host) []node.PeerRow {
		rows := cl.PeersOf(h)
		for i := range rows {
			if rows[i].RPC == st.invalidFor {
				switch st.invalidKind {
				case 1: // no usable address at all: rpc_address 0.0.0.0 and no peer address
					rows[i].RPC, rows[i].NullPeer = "0.0.0.0", true
				case 2:
					rows[i].NullTokens = true
				case 3:
					rows[i].NullHostID = true
				case 4: // a node that is still joining: no rpc_address yet, everything else there
					rows[i].NullRPC = true
				case 5:
					rows[i].NullDC = true
				default:
					rows[i].NullRack = true
				}
			}
		}
		if st.ownRow {
			// a node that lists itself in its own system.peers (seen with some proxies and during
			// address changes): the row repeats what system.local says and comes first
			rows = append([]node.PeerRow{{Peer: n2n(h), RPC: h.Addr, DC: h.DC, Rack: h.Rack, HostID: h.HostID, Version: h.Version, SchemaVersion: h.SchemaVersion, Tokens: h.Tokens}}, rows...)
		}
		if st.dupFor != "" {
			for _, r := range rows {
				if r.RPC == st.dupFor {
					rows = append(rows, r)
					break
				}
			}
		}
		return rows
	}
	holdPeers := false
	slowHost := "" // this node answers the handshake of new connections late
	cl.SystemFateFn = func(sc *node.SConn, rec *node.ReqRec) node.Fate {
		if holdPeers && rec.Req.Query == "SELECT * FROM system.peers" {
			return node.Hold
		}
		if slowHost != "" && sc.C.Host == slowHost && !sc.Started {
			return node.Hold
		}
		return node.Auto
	}
	valMeta := &cqlspec.RowsMeta{GlobalSpec: true, Columns: []cqlspec.ColSpec{{Keyspace: "ks", Table: "t", Name: "v", Type: cqlspec.ColType{ID: cqlspec.TVarchar}}}}
	cl.App = func(sc *node.SConn, rec *node.ReqRec) {
		tok := tokenRe.FindString(rec.Req.Query)
		cl.Send(sc, rec, &cqlspec.Response{Op: cqlspec.OpResult, Kind: cqlspec.KindRows, Rows: valMeta,
			RowData: [][]cqlspec.Cell{{{Bytes: cqlspec.EncText(tok + "/" + sc.Host.Addr)}}}}, node.Auto, "ROWS "+tok)
	}

	sess, err := Boot(k, cl, 20*time.Second, func() (*gocql.Session, error) { return gocql.NewSession(*cfg) })
	if err != nil {
		k.Violate("HARNESS", "topo/boot", "session creation failed in a fault-free boot: %v", err)
		cl.CloseAll()
		return
	}
	st.sess = sess
	// the node the control connection went to (with several contact points: any of them,
	// possibly one the host filter rejects); it is never removed or moved
	ctrlAddr := "10.0.0.1"
	if c := sess.VerifControlConn(); c != nil {
		if name := ConnName(c); strings.Contains(name, "#") {
			ctrlAddr = name[:strings.Index(name, "#")]
		}
	}
	if ctrlAddr != "10.0.0.1" {
		k.Probe("control-connection-on-another-contact-point")
		if st.rejected(ctrlAddr) {
			k.Probe("control-connection-on-a-node-the-filter-rejects")
		}
	}
	pump := func() { cl.Process(); cl.DeliverAll() }
	settle := func(d time.Duration) {
		k.SettleUntil(d, 50*time.Millisecond, pump, func() bool { return false })
	}
	settle(3 * time.Second)
	if !st.noLookup {
		st.compare("after boot")
	}

	// the goroutine that refreshes the ring is slow to get going (descheduled right before
	// it starts a refresh): whatever else was started by the reconnect finishes first
	holdRefresher := func() {
		if e.NoFaults || !tp.Chance(1, 3) {
			return
		}
		k.Fault("topo.ring-refresher-held-before-refresh")
		k.ArmNext("rd.beforeRefresh")
		k.SettleUntil(5*time.Second, 20*time.Millisecond, pump, func() bool { return len(k.ParkedKeys()) > 0 })
		if len(k.ParkedKeys()) > 0 {
			k.Probe("ring-refresher-held")
			k.SettleUntil(500*time.Millisecond, 20*time.Millisecond, pump, func() bool { return false })
		}
		k.Disarm("rd.beforeRefresh")
		k.ResumeAll()
	}
	nSteps := 3 + tp.Next(8)
	if e.NoFaults {
		nSteps = 3
	}
	qn := 0
	for step := 0; step < nSteps && k.Violation() == nil; step++ {
		// the control host is never removed or moved
		var others []*node.Host
		for _, h := range cl.Hosts {
			if h.Addr != ctrlAddr {
				others = append(others, h)
			}
		}
		pick := func() *node.Host { return others[tp.Next(len(others))] }
		ws := []int{3, 3, 2, 2, 2, 2, 1, 1, 2, 1, 2, 0, 2, 0, 0, 0, 0, 2, 0, 2}
		if len(others) >= 1 && (!st.noLookup || st.firstRefresh) {
			ws[18] = 2
		}
		if len(others) >= 2 {
			ws[16] = 2
		}
		if st.splitAddrs && len(others) > 0 {
			ws[11] = 3
		}
		if longTimeout {
			ws[13], ws[14], ws[15] = 3, 3, 3
		}
		if len(others) == 0 {
			ws[1], ws[2], ws[3], ws[4], ws[6], ws[7] = 0, 0, 0, 0, 0, 0
		}
		if len(cl.Hosts) >= 6 {
			ws[0], ws[13], ws[14], ws[15], ws[19] = 0, 0, 0, 0, 0
		}
		if e.NoFaults {
			ws = []int{1, 0, 0, 0, 0, 0, 0, 0, 1, 0, 0, 0, 0, 0, 0, 0, 0, 0, 0, 0}
		}
		peersBefore := cl.PeerQueries
		preDown := map[string]bool{} // reported down before this step
		for a := range st.down {
			preDown[a] = true
		}
		switch tp.Weighted(ws) {
		case 0: // a node joins
			h := st.newHost()
			cl.Hosts = append(cl.Hosts, h)
			k.Rec("step join %s %s", h.Addr, h.HostID)
			k.Fault("topo.join")
			st.eventFor("TOPOLOGY_CHANGE", "NEW_NODE", h)
			if tp.Chance(1, 2) {
				st.eventFor("STATUS_CHANGE", "UP", h)
			}
		case 18: // an event arrives while the batch before it is about to be handled: a node is
			// reported DOWN (it stays reachable), the driver's debounce interval passes and the
			// goroutine that will handle the batch is held at its first instruction; then
			// another event arrives; then the handler goes on. Both events count.
			h := pick()
			k.Rec("step down %s, next event before its batch is handled", h.Addr)
			k.Fault("topo.event-arrives-before-previous-batch-is-handled")
			k.ArmNext("events.handle")
			st.down[h.Addr] = true
			st.eventFor("STATUS_CHANGE", "DOWN", h)
			k.SettleUntil(1500*time.Millisecond, 20*time.Millisecond, cl.Process, func() bool { return len(k.ParkedKeys()) > 0 })
			if len(k.ParkedKeys()) > 0 {
				k.Probe("event-batch-handler-held")
			}
			// (about an address nobody knows: it changes nothing by itself)
			st.event("STATUS_CHANGE", "UP", "10.0.7.7")
			k.Quiesce()
			cl.Process()
			k.ResumeAll()
		case 17: // the node of the control connection is unreachable for a while (a restart):
			// every connection to it drops, dials are refused, then it accepts connections
			// again - and nobody sends an event about it (in a one-node cluster nobody can)
			var ch *node.Host
			for _, h := range cl.Hosts {
				if h.Addr == ctrlAddr {
					ch = h
				}
			}
			if ch == nil {
				break
			}
			k.Rec("step control node %s restarts (no events)", ctrlAddr)
			k.Fault("topo.control-node-restarts-silently")
			st.unreachable(ctrlAddr)
			// long enough for the driver to give up its refill and mark the node down
			settle([]time.Duration{2 * time.Second, 500 * time.Millisecond, 6 * time.Second}[tp.Next(3)])
			st.reachable(ctrlAddr)
			delete(st.down, ctrlAddr)
			if len(cl.Hosts) > 1 {
				// the other nodes notice and say so (to whichever node the control connection
				// has moved to meanwhile); a node that is alone has nobody to announce it
				st.eventFor("STATUS_CHANGE", "UP", ch)
			}
			// the control connection finds its way back (it retries on its own), and with it
			// the node must get its pool back
			settle(8 * time.Second)
			// (in a cluster of several nodes the control connection may have moved; the node it
			// is on now describes itself in its local row - an invalid peer row about it no longer
			// reaches the session - and is plainly up, whatever was reported about it before)
			if c := sess.VerifControlConn(); c != nil {
				if name := ConnName(c); strings.Contains(name, "#") {
					ctrlAddr = name[:strings.Index(name, "#")]
				}
			}
			if st.invalidFor == ctrlAddr {
				st.invalidFor = ""
			}
			delete(st.down, ctrlAddr)
		case 16: // two nodes move at once, the first to the address the second gives up
			a := pick()
			b := pick()
			for b == a {
				b = pick()
			}
			if tp.Chance(1, 2) {
				// the order of the two rows in system.peers matters to a refresh that handles
				// them one after the other
				for i, h := range cl.Hosts {
					if h == a {
						for j, g := range cl.Hosts {
							if g == b && j < i {
								cl.Hosts[i], cl.Hosts[j] = cl.Hosts[j], cl.Hosts[i]
							}
						}
					}
				}
			}
			oldA, oldB := a.Addr, b.Addr
			st.nextIP++
			b.Addr = fmt.Sprintf("10.0.0.%d", st.nextIP)
			a.Addr = oldB
			delete(st.down, oldA)
			delete(st.down, oldB)
			k.Rec("step chain-move %s -> %s, %s -> %s (same ids)", oldA, a.Addr, oldB, b.Addr)
			k.Fault("topo.chained-address-change")
			st.unreachable(oldA)
			for _, sc := range cl.SConns() {
				if sc.C.Host == oldB && !sc.Dead {
					cl.CloseConn(sc, false)
				}
			}
			st.reachable(oldB)
			st.eventFor("TOPOLOGY_CHANGE", "NEW_NODE", a)
			st.eventFor("TOPOLOGY_CHANGE", "NEW_NODE", b)
		case 1: // a node leaves
			h := pick()
			st.removeModel(h)
			k.Rec("step leave %s", h.Addr)
			k.Fault("topo.leave")
			st.unreachable(h.Addr)
			st.eventFor("TOPOLOGY_CHANGE", "REMOVED_NODE", h)
		case 2: // same host id, new address
			h := pick()
			old := h.Addr
			st.nextIP++
			h.Addr = fmt.Sprintf("10.0.0.%d", st.nextIP)
			delete(st.down, old)
			k.Rec("step move %s -> %s (same id)", old, h.Addr)
			k.Fault("topo.address-change")
			st.unreachable(old)
			st.eventFor("TOPOLOGY_CHANGE", "NEW_NODE", h)
		case 3: // the node on an address is replaced: new host id, same address
			h := pick()
			st.nextID++
			oldID := h.HostID
			h.HostID = fmt.Sprintf("00000000-0000-4000-8000-%012d", st.nextID)
			// a new node: whatever was reported about its predecessor does not apply to it
			delete(st.down, h.Addr)
			st.reachable(h.Addr)
			k.Rec("step replace %s id %s -> %s", h.Addr, oldID, h.HostID)
			k.Fault("topo.new-id-on-old-address")
			for _, sc := range cl.SConns() {
				if sc.C.Host == h.Addr && !sc.Dead {
					cl.CloseConn(sc, false)
				}
			}
			st.eventFor("TOPOLOGY_CHANGE", "NEW_NODE", h)
		case 4: // reported DOWN (unreachable, or still reachable: gossip says down), later UP;
			// the report may come as a flapping burst of which only the last event counts
			h := pick()
			flap := func(final string) {
				if tp.Chance(1, 2) {
					other := map[string]string{"UP": "DOWN", "DOWN": "UP"}[final]
					for i := 1 + tp.Next(2); i > 0; i-- {
						st.eventFor("STATUS_CHANGE", other, h)
						st.eventFor("STATUS_CHANGE", final, h)
					}
					k.Fault("topo.status-flapping-burst")
					return
				}
				st.eventFor("STATUS_CHANGE", final, h)
			}
			var h2 *node.Host
			if len(others) >= 2 && tp.Chance(1, 3) {
				// a second node changes its status in the same debounce window
				for _, c := range others {
					if c != h && st.down[c.Addr] == st.down[h.Addr] {
						h2 = c
						break
					}
				}
			}
			if h2 != nil {
				k.Fault("topo.two-status-changes-in-one-window")
				if st.down[h2.Addr] {
					delete(st.down, h2.Addr)
					st.reachable(h2.Addr)
					k.Rec("step up %s (same window)", h2.Addr)
					st.eventFor("STATUS_CHANGE", "UP", h2)
				} else {
					st.down[h2.Addr] = true
					st.unreachable(h2.Addr)
					k.Rec("step down %s (unreachable, same window)", h2.Addr)
					st.eventFor("STATUS_CHANGE", "DOWN", h2)
				}
			}
			if st.down[h.Addr] {
				delete(st.down, h.Addr)
				st.reachable(h.Addr)
				k.Rec("step up %s", h.Addr)
				k.Fault("topo.status-up")
				flap("UP")
			} else {
				st.down[h.Addr] = true
				if tp.Chance(1, 2) {
					k.Rec("step down %s (unreachable)", h.Addr)
					k.Fault("topo.status-down")
					st.unreachable(h.Addr)
				} else {
					k.Rec("step down %s (reported down, still reachable)", h.Addr)
					k.Fault("topo.status-down-but-reachable")
				}
				flap("DOWN")
			}
		case 5: // a burst of events, also for unknown addresses
			n := 3 + tp.Next(6)
			unknownUps := tp.Chance(1, 3)
			if unknownUps {
				// status events for many different addresses the session has never heard of
				n = 8 + tp.Next(8)
			}
			k.Rec("step burst %d", n)
			k.Fault("topo.event-burst")
			for i := 0; i < n; i++ {
				if unknownUps {
					st.event("STATUS_CHANGE", "UP", fmt.Sprintf("10.0.8.%d", 1+i))
					continue
				}
				addr := fmt.Sprintf("10.0.9.%d", 1+tp.Next(3))
				var known *node.Host
				if len(others) > 0 && tp.Chance(1, 2) {
					known = pick()
					addr = n2n(known)
				}
				typ, ch := "TOPOLOGY_CHANGE", []string{"NEW_NODE", "REMOVED_NODE", "MOVED_NODE"}[tp.Next(3)]
				if tp.Chance(1, 2) {
					typ, ch = "STATUS_CHANGE", "UP"
					if known != nil && st.down[known.Addr] {
						ch = "DOWN"
					}
				}
				st.event(typ, ch, addr)
			}
			settle(4 * time.Second)
			if got := cl.PeerQueries - peersBefore; got > 6 && k.Violation() == nil {
				k.Violate("C16", "C16/unbounded-refreshes", "a burst of %d events within one step caused %d system.peers queries", n, got)
			}
			k.Probe("burst-checked")
		case 6: // an invalid peer row for one node (it must be ignored, i.e. look removed)
			h := pick()
			if prev := st.invalidFor; prev != "" && prev != h.Addr && st.down[prev] && !st.unreach[prev] {
				// the node whose row was invalid reappears as a new host and is connected
				// again (it is reachable): its earlier DOWN report no longer applies
				delete(st.down, prev)
			}
			st.invalidFor = h.Addr
			st.invalidKind = tp.Next(6)
			k.Rec("step invalid-row %s kind %d", h.Addr, st.invalidKind)
			k.Fault("topo.invalid-peer-row")
			st.event("TOPOLOGY_CHANGE", "NEW_NODE", h.Addr)
		case 7: // a duplicated peer row
			h := pick()
			st.dupFor = h.Addr
			k.Rec("step duplicate-row %s", h.Addr)
			k.Fault("topo.duplicate-peer-row")
			st.event("TOPOLOGY_CHANGE", "NEW_NODE", h.Addr)
		case 8: // queries
			for i := 0; i < 2+tp.Next(3); i++ {
				qn++
				tok := fmt.Sprintf("tok-0-%d", qn)
				done := make(chan error, 1)
				go func() {
					var got string
					done <- sess.Query("ECHO '" + tok + "'").Scan(&got)
				}()
				k.SettleUntil(5*time.Second, 5*time.Millisecond, pump, func() bool { return len(done) > 0 })
				if len(done) == 0 {
					k.Violate("C06", "C06/request-never-completed", "query %s did not return within 5 s on a settled cluster", tok)
					break
				}
				k.Rec("query %s -> %s", tok, ErrClass(<-done))
				k.OpDone()
			}
		case 9: // the control connection is lost
			k.Rec("step control-loss")
			k.Fault("topo.control-connection-loss")
			if c := sess.VerifControlConn(); c != nil {
				if sc, ok := c.VerifNetConn().(*simnet.Conn); ok {
					if ssc := cl.SConnOf(sc); ssc != nil {
						cl.CloseConn(ssc, false)
					}
				}
			}
			holdRefresher()
		case 12: // the control connection is lost and the cluster changes before anybody
			// listens for events again: only the refresh after reconnecting can tell
			k.Rec("step control-loss with a silent change")
			k.Fault("topo.control-loss-with-silent-change")
			if c := sess.VerifControlConn(); c != nil {
				if sc, ok := c.VerifNetConn().(*simnet.Conn); ok {
					if ssc := cl.SConnOf(sc); ssc != nil {
						cl.CloseConn(ssc, false)
					}
				}
			}
			if len(others) > 0 && (len(cl.Hosts) >= 6 || tp.Chance(1, 2)) {
				h := pick()
				st.removeModel(h)
				k.Rec("  silent leave %s", h.Addr)
				st.unreachable(h.Addr)
				st.eventFor("TOPOLOGY_CHANGE", "REMOVED_NODE", h)
			} else {
				h := st.newHost()
				cl.Hosts = append(cl.Hosts, h)
				k.Rec("  silent join %s %s", h.Addr, h.HostID)
				st.eventFor("TOPOLOGY_CHANGE", "NEW_NODE", h)
			}
			holdRefresher()
		case 13: // a second node joins while the refresh caused by the first is in flight:
			// its answer was computed before the second node existed
			h1 := st.newHost()
			cl.Hosts = append(cl.Hosts, h1)
			k.Rec("step join %s, then another during the refresh", h1.Addr)
			k.Fault("topo.join-during-refresh")
			st.eventFor("TOPOLOGY_CHANGE", "NEW_NODE", h1)
			holdPeers = true
			inFlight := k.SettleUntil(4*time.Second, 20*time.Millisecond, cl.Process, func() bool { return cl.PeerQueries > peersBefore })
			if inFlight {
				h2 := st.newHost()
				cl.Hosts = append(cl.Hosts, h2)
				k.Rec("  refresh in flight; join %s", h2.Addr)
				st.eventFor("TOPOLOGY_CHANGE", "NEW_NODE", h2)
				// the driver's event debounce (1 s) passes while the answer is still withheld
				k.SettleUntil(1200*time.Millisecond, 20*time.Millisecond, cl.Process, func() bool { return false })
				k.Probe("join-during-refresh")
			}
			holdPeers = false
		case 14: // a node joins, is slow to answer its first handshake, and is reported gone
			// before it does; then it answers
			h := st.newHost()
			cl.Hosts = append(cl.Hosts, h)
			k.Rec("step join %s (slow handshake), leaves before its first connection is up", h.Addr)
			k.Fault("topo.leave-during-first-dial")
			slowHost = h.Addr
			st.eventFor("TOPOLOGY_CHANGE", "NEW_NODE", h)
			dialling := k.SettleUntil(4*time.Second, 20*time.Millisecond, cl.Process, func() bool {
				for _, r := range cl.Held() {
					if r.SC.C.Host == h.Addr {
						return true
					}
				}
				return false
			})
			if dialling {
				st.removeModel(h)
				k.Rec("  first connection waits for its handshake; %s leaves", h.Addr)
				st.eventFor("TOPOLOGY_CHANGE", "REMOVED_NODE", h)
				// both debounce windows pass while the handshake is still unanswered
				k.SettleUntil(2500*time.Millisecond, 20*time.Millisecond, cl.Process, func() bool { return false })
				k.Probe("leave-during-first-dial")
			}
			slowHost = ""
		case 15: // a node joins, is slow to answer its first handshake, and is reported DOWN
			// before it does; then it answers. It stays a member: reported down, reachable.
			h := st.newHost()
			cl.Hosts = append(cl.Hosts, h)
			k.Rec("step join %s (slow handshake), reported DOWN before its first connection is up", h.Addr)
			k.Fault("topo.down-during-first-dial")
			slowHost = h.Addr
			st.eventFor("TOPOLOGY_CHANGE", "NEW_NODE", h)
			dialling := k.SettleUntil(4*time.Second, 20*time.Millisecond, cl.Process, func() bool {
				for _, r := range cl.Held() {
					if r.SC.C.Host == h.Addr {
						return true
					}
				}
				return false
			})
			if dialling {
				st.down[h.Addr] = true
				k.Rec("  first connection waits for its handshake; %s is reported DOWN", h.Addr)
				st.eventFor("STATUS_CHANGE", "DOWN", h)
				// the event debounce passes while the handshake is still unanswered
				k.SettleUntil(1500*time.Millisecond, 20*time.Millisecond, cl.Process, func() bool { return false })
				k.Probe("down-during-first-dial")
			}
			slowHost = ""
		case 19: // a node joins and is connected to; the goroutine that announces the first
			// connection (host up, policy told) is slow to get going, and the node is gone
			// again - reported, and removed by the refresh - before it does
			h := st.newHost()
			cl.Hosts = append(cl.Hosts, h)
			k.Rec("step join %s, gone again before its first connection is announced", h.Addr)
			k.Fault("topo.leave-before-first-connection-is-announced")
			k.ArmNext("session.nodeConnected")
			st.eventFor("TOPOLOGY_CHANGE", "NEW_NODE", h)
			held := k.SettleUntil(4*time.Second, 20*time.Millisecond, pump, func() bool { return len(k.ParkedKeys()) > 0 })
			k.Disarm("session.nodeConnected")
			if held {
				k.Probe("first-connection-announcement-held")
				st.removeModel(h)
				st.unreachable(h.Addr)
				k.Rec("  %s leaves", h.Addr)
				st.eventFor("TOPOLOGY_CHANGE", "REMOVED_NODE", h)
				k.SettleUntil(3*time.Second, 20*time.Millisecond, pump, func() bool { return false })
			}
			k.ResumeAll()
		case 11: // same host id, same rpc address, new node-to-node address
			h := pick()
			st.nextIP++
			old := n2n(h)
			h.Broadcast = fmt.Sprintf("10.1.0.%d", st.nextIP)
			if st.down[h.Addr] && !st.unreach[h.Addr] {
				// the refresh replaces the host and connects to it again, which succeeds:
				// "not offered until it is connected again" is satisfied
				delete(st.down, h.Addr)
			}
			k.Rec("step node-to-node address of %s: %s -> %s", h.Addr, old, h.Broadcast)
			k.Fault("topo.node-to-node-address-change")
			st.eventFor("TOPOLOGY_CHANGE", "NEW_NODE", h)
		case 10: // peer queries fail for a while, with a topology event in between
			k.Rec("step peers-failure")
			k.Fault("topo.peers-query-failure")
			cl.FailPeers = true
			st.event("TOPOLOGY_CHANGE", "NEW_NODE", "10.0.9.9")
			settle(3 * time.Second)
			cl.FailPeers = false
			st.event("TOPOLOGY_CHANGE", "NEW_NODE", "10.0.9.9")
		}
		if k.Violation() != nil {
			break
		}
		// settle: both debounce windows (1 s + 1 s), reconnects, pool fills
		settle(6 * time.Second)
		if st.noLookup && !st.firstRefresh && cl.PeerQueries > 0 {
			// the first refresh replaces every contact point (known under an id of the session's
			// making) by the node the cluster reports: new hosts, connected afresh, to which
			// earlier DOWN reports no longer apply
			st.firstRefresh = true
			for addr := range preDown {
				if !st.unreach[addr] {
					delete(st.down, addr)
				}
			}
		}
		if !st.noLookup || cl.PeerQueries > 0 {
			st.compare(fmt.Sprintf("after step %d", step))
		}
		k.OpDone()
	}

	closed := make(chan struct{})
	go func() { sess.Close(); close(closed) }()
	if !k.SettleUntil(60*time.Second, 50*time.Millisecond, pump, func() bool {
		select {
		case <-closed:
			return true
		default:
			return false
		}
	}) && k.Violation() == nil {
		k.Violate("C17", "C17/session-close-hangs", "Session.Close did not return within 60 simulated seconds; driver goroutines:\n%s", strings.Join(DriverGoroutines(), "\n\n"))
	}
	cl.CloseAll()
	k.SettleUntil(90*time.Second, 200*time.Millisecond, nil, func() bool { return len(kernel.BubbleGoroutines()) == 0 })
	e.Note("compares", st.compares)
}

func (st *topoState) removeModel(h *node.Host) {
	out := st.cl.Hosts[:0]
	for _, x := range st.cl.Hosts {
		if x != h {
			out = append(out, x)
		}
	}
	st.cl.Hosts = out
	delete(st.down, h.Addr)
	if st.invalidFor == h.Addr {
		st.invalidFor = ""
	}
	if st.dupFor == h.Addr {
		st.dupFor = ""
	}
}

// compare checks the session's picture of the cluster against the model.
func (st *topoState) compare(when string) {
	k := st.k
	if k.Violation() != nil {
		return
	}
	st.compares++
	// the model: reported, valid nodes
	want := map[string]*node.Host{}
	for _, h := range st.cl.Hosts {
		if h.Addr == st.invalidFor || st.rejected(h.Addr) {
			continue
		}
		want[h.HostID] = h
	}
	byID, byIP, list := st.sess.VerifRing()
	if st.filterOn {
		// whether the ring remembers a node the filter rejects (a contact point does stay there
		// until the next refresh) is not observable: such nodes are left out of the comparison
		// of the ring; pools and policy are compared in full
		for id, h := range byID {
			if st.rejected(h.ConnectAddress().String()) {
				delete(byID, id)
				for ip, iid := range byIP {
					if iid == id {
						delete(byIP, ip)
					}
				}
			}
		}
		kept := list[:0:0]
		for _, h := range list {
			if !st.rejected(h.ConnectAddress().String()) {
				kept = append(kept, h)
			}
		}
		list = kept
	}
	ids := func(m map[string]*gocql.HostInfo) []string {
		var out []string
		for id, h := range m {
			out = append(out, id[len(id)-4:]+"@"+h.ConnectAddress().String())
		}
		sort.Strings(out)
		return out
	}
	var wantS []string
	for id, h := range want {
		wantS = append(wantS, id[len(id)-4:]+"@"+h.Addr)
	}
	sort.Strings(wantS)
	gotS := ids(byID)
	if strings.Join(gotS, " ") != strings.Join(wantS, " ") {
		sig := "C16/ring-differs-from-cluster"
		for id := range byID {
			if want[id] == nil {
				sig = "C16/vanished-node-still-in-ring"
			}
		}
		for id := range want {
			if byID[id] == nil {
				sig = "C16/reported-node-missing-from-ring"
			}
		}
		k.Violate("C16", sig, "%s: the session's ring holds %v, the cluster reports %v", when, gotS, wantS)
		return
	}
	// by-address index consistent with by-id
	for id, h := range want {
		got, ok := st.sess.VerifHostByIP(n2n(h))
		if !ok || got == nil {
			k.Violate("C16", "C16/by-address-index-lost", "%s: node %s (id …%s) is in the ring by id but a lookup by its node-to-node address %s finds nothing (address index: %v)", when, h.Addr, id[len(id)-4:], n2n(h), byIP)
			return
		}
		if got.HostID() != id {
			k.Violate("C16", "C16/by-address-index-wrong-node", "%s: lookup by address %s returns the node with id …%s, the cluster has id …%s there", when, h.Addr, got.HostID()[len(got.HostID())-4:], id[len(id)-4:])
			return
		}
	}
	for ip, id := range byIP {
		h := want[id]
		if h == nil || n2n(h) != ip {
			k.Violate("C16", "C16/by-address-index-stale-entry", "%s: the address index maps %s to id …%s, but the cluster has no such node at that address", when, ip, id[len(id)-4:])
			return
		}
	}
	// ordered list = the same set, no duplicates
	seen := map[string]bool{}
	for _, h := range list {
		if seen[h.HostID()] || want[h.HostID()] == nil {
			k.Violate("C16", "C16/host-list-inconsistent", "%s: the ring's ordered list names id …%s twice or names a node the ring does not hold by id", when, h.HostID())
			return
		}
		seen[h.HostID()] = true
	}
	if len(list) != len(want) {
		k.Violate("C16", "C16/host-list-inconsistent", "%s: the ring's ordered list has %d nodes, the by-id index %d", when, len(list), len(want))
		return
	}
	// pools: exactly for reported nodes; every reachable, not-down node is connected
	pools := st.sess.VerifPoolConns()
	for id, conns := range pools {
		for _, h := range st.cl.Hosts {
			if h.HostID == id && st.rejected(h.Addr) {
				k.Violate("C16", "C16/pool-for-node-the-filter-rejects", "%s: a connection pool (%d connections) exists for node %s, which the session's host filter rejects", when, len(conns), h.Addr)
				return
			}
		}
		if want[id] == nil {
			k.Violate("C16", "C16/pool-for-vanished-node", "%s: a connection pool (%d connections) exists for id …%s which the cluster no longer reports", when, len(conns), id[len(id)-4:])
			return
		}
	}
	for id, h := range want {
		if st.down[h.Addr] {
			continue
		}
		live := 0
		for _, c := range pools[id] {
			if !c.Closed() {
				live++
			}
		}
		if live == 0 {
			k.Violate("C16", "C16/reported-node-not-connected", "%s: node %s (id …%s) is reported and reachable but the session has no connection to it", when, h.Addr, id[len(id)-4:])
			return
		}
	}
	// policy: offers exactly the reported nodes that are not down
	offered := map[string]bool{}
	next := st.pol.Pick(nil)
	for i := 0; i < 64; i++ {
		sh := next()
		if sh == nil {
			break
		}
		if hi := sh.Info(); hi != nil && hi.IsUp() {
			offered[hi.HostID()] = true
		}
	}
	for id, h := range want {
		if st.down[h.Addr] && st.reconnTicker && !st.unreach[h.Addr] {
			continue // reported down, reachable, and retried every second: either state is right
		}
		if st.down[h.Addr] {
			if offered[id] {
				k.Violate("C16", "C16/down-node-offered", "%s: node %s was last reported DOWN, yet the selection policy offers it as up", when, h.Addr)
				return
			}
			continue
		}
		if !offered[id] {
			k.Violate("C16", "C16/reported-node-not-offered", "%s: node %s (id …%s) is reported, reachable and connected but the selection policy does not offer it", when, h.Addr, id[len(id)-4:])
			return
		}
	}
	for id := range offered {
		for _, h := range st.cl.Hosts {
			if h.HostID == id && st.rejected(h.Addr) {
				k.Violate("C16", "C16/node-the-filter-rejects-offered", "%s: the selection policy offers node %s, which the session's host filter rejects", when, h.Addr)
				return
			}
		}
		if want[id] == nil {
			k.Violate("C16", "C16/vanished-node-offered", "%s: the selection policy still offers id …%s which the cluster no longer reports", when, id[len(id)-4:])
			return
		}
	}
	// the policy's own host lists: a token-aware policy keeps every reported node (and builds
	// its token ring from them), the round-robin based lists hold no node that vanished
	if lists, ok := gocql.VerifPolicyHosts(st.pol.HostSelectionPolicy); ok {
		var names []string
		for n := range lists {
			names = append(names, n)
		}
		sort.Strings(names)
		for _, n := range names {
			have := map[string]bool{}
			for _, id := range lists[n] {
				if have[id] {
					k.Violate("C16", "C16/policy-host-list-differs", "%s: the policy's list %s names id …%s twice", when, n, id[len(id)-4:])
					return
				}
				have[id] = true
				if want[id] == nil {
					k.Violate("C16", "C16/policy-host-list-differs", "%s: the policy's list %s still holds id …%s which the cluster no longer reports", when, n, id[len(id)-4:])
					return
				}
			}
			if strings.HasPrefix(n, "token-aware.") {
				for id, h := range want {
					if !have[id] {
						k.Violate("C16", "C16/policy-host-list-differs", "%s: node %s (id …%s) is reported by the cluster and in the session's ring, but missing from the policy's list %s %v", when, h.Addr, id[len(id)-4:], n, lists[n])
						return
					}
				}
			}
		}
		k.Probe("policy-lists-checked")
	}
	k.Probe("compare-ok")
}
