package scen

import (
	"errors"
	"fmt"
	"net"
	"runtime"
	"sort"
	"strings"
	"sync"
	"sync/atomic"

	"github.com/gocql/gocql"
	"github.com/gocql/gocql/verifsim/kernel"
)

// Scenario pick (C11): a generated history of AddHost / RemoveHost / HostUp / HostDown /
// KeyspaceChanged notifications is applied to a real host selection policy exactly as
// the Session applies them (state change first, then the notification) and to a plain
// host-set model; Pick is iterated to exhaustion between the notifications and the
// offered sequence is compared with what the model allows. No Session and no network is
// needed: the token-aware policy gets its keyspace metadata from a stub, as in the
// package's own unit tests. An optional second phase races Pick iterations against
// mutations under the kernel's scheduler (safety only).

func init() {
	register(&Scenario{
		Name:       "pick",
		Properties: []string{"C11"},
		Run:        runPick,
		Real: []string{
			"RoundRobinHostPolicy, DCAwareRoundRobinPolicy, RackAwareRoundRobinPolicy, TokenAwareHostPolicy (policies.go, real code)",
			"token ring and replica placement (token.go, topology.go: SimpleStrategy, NetworkTopologyStrategy)",
			"HostInfo state, Query routing key / keyspace accessors",
		},
		Stub: []string{
			"Session (the history calls the policy the way session.go/events.go do: setState then HostUp/HostDown, AddHost(s), RemoveHost, KeyspaceChanged)",
			"keyspace metadata source (tokenAwareHostPolicy.getKeyspaceMetadata / getKeyspaceName, set through the verif shim)",
		},
		Rule: "one run = one tape-chosen case: policy kind (round-robin | dc-aware | rack-aware | token-aware over one of these x ShuffleReplicas x NonLocalReplicasFallback), 1-3 datacenters x 1-3 racks, 1-8 initial hosts with 1-8 Murmur3 vnode tokens each, keyspace replication (SimpleStrategy rf 1-3 | NetworkTopologyStrategy rf 0-3 per existing dc | none), then a history of 5-30 operations (pick sequences with/without routing key, rotation bursts, host down/up, node-up event, add host, remove host, keyspace change), optionally followed by a scheduled phase (1-3 picking tasks, one NextHost call per step, against one mutating task); distinct = distinct canonical-log fingerprint; non-trivial = at least one pick sequence was iterated to exhaustion and checked while the policy knew >= 2 hosts (ops_done counts exactly those) and at least one state-changing operation was applied (counted as history.* faults)",
	})
}

const (
	pkRR = iota
	pkDC
	pkRack
	pkTA
)

var pkKindName = []string{"round-robin", "dc-aware", "rack-aware", "token-aware"}

const pkPartitioner = "org.apache.cassandra.dht.Murmur3Partitioner"

// pkHost is the model's view of one host.
type pkHost struct {
	idx      int
	id       string
	addr     net.IP
	dc, rack string
	tokens   []string
	info     *gocql.HostInfo
	known    bool // the policy was told about it (AddHost) and not told to forget it (RemoveHost)
	up       bool // state as last set on the HostInfo
}

// pkSpec is a keyspace's replication as the schema reports it.
type pkSpec struct {
	class    string // SimpleStrategy | NetworkTopologyStrategy | LocalStrategy
	rf       int
	dcs      map[string]int
	asString bool // option values are strings (as read from the schema tables) instead of ints
}

func (s *pkSpec) String() string {
	if s == nil {
		return "unknown"
	}
	switch s.class {
	case "SimpleStrategy":
		return fmt.Sprintf("simple(%d)", s.rf)
	case "NetworkTopologyStrategy":
		var parts []string
		for _, dc := range sortedKeys(s.dcs) {
			parts = append(parts, fmt.Sprintf("%s:%d", dc, s.dcs[dc]))
		}
		return "nts(" + strings.Join(parts, ",") + ")"
	}
	return "local"
}

func sortedKeys(m map[string]int) []string {
	out := make([]string, 0, len(m))
	for k := range m {
		out = append(out, k)
	}
	sort.Strings(out)
	return out
}

func (s *pkSpec) clone() *pkSpec {
	if s == nil {
		return nil
	}
	c := *s
	if s.dcs != nil {
		c.dcs = make(map[string]int, len(s.dcs))
		for k, v := range s.dcs {
			c.dcs[k] = v
		}
	}
	return &c
}

func (s *pkSpec) meta(name string) *gocql.KeyspaceMetadata {
	val := func(n int) interface{} {
		if s.asString {
			return fmt.Sprint(n)
		}
		return n
	}
	opts := map[string]interface{}{"class": "org.apache.cassandra.locator." + s.class}
	switch s.class {
	case "SimpleStrategy":
		opts["replication_factor"] = val(s.rf)
	case "NetworkTopologyStrategy":
		for dc, rf := range s.dcs {
			opts[dc] = val(rf)
		}
	}
	return &gocql.KeyspaceMetadata{Name: name, StrategyClass: "org.apache.cassandra.locator." + s.class, StrategyOptions: opts}
}

type pkCfg struct {
	kind               int // pkRR..pkTA
	fb                 int // fallback kind of the token-aware policy
	shuffle, nonLocal  bool
	localDC, localRack string
	dcs                []string
	racks              map[string][]string
	sessionKS          string
}

func (c *pkCfg) tierKind() int {
	if c.kind == pkTA {
		return c.fb
	}
	return c.kind
}

func (c *pkCfg) maxTier() int { return []int{0, 1, 2}[c.tierKind()] }

// tier is the distance class the property speaks of, derived from the configuration
// only: round-robin has one tier; dc-aware: local dc, other; rack-aware: local rack,
// rest of the local dc, other.
func (c *pkCfg) tier(h *pkHost) int {
	switch c.tierKind() {
	case pkDC:
		if h.dc == c.localDC {
			return 0
		}
		return 1
	case pkRack:
		if h.dc != c.localDC {
			return 2
		}
		if h.rack == c.localRack {
			return 0
		}
		return 1
	}
	return 0
}

func (c *pkCfg) String() string {
	s := pkKindName[c.kind]
	if c.kind == pkTA {
		s += "/" + pkKindName[c.fb]
		if c.shuffle {
			s += "+shuffle"
		}
		if c.nonLocal {
			s += "+nonlocal"
		}
	}
	if c.tierKind() >= pkDC {
		s += " local=" + c.localDC
	}
	if c.tierKind() == pkRack {
		s += "/" + c.localRack
	}
	return s
}

// pkModel is the reference model: the host set and the schema the policy was told about.
type pkModel struct {
	cfg     *pkCfg
	hosts   []*pkHost
	specs   map[string]*pkSpec
	usedTok map[int]bool
	ready   bool // the schema source answers (false while the initial hosts are added in unit-test order)
}

func (m *pkModel) clone() *pkModel {
	c := &pkModel{cfg: m.cfg, specs: map[string]*pkSpec{}, usedTok: map[int]bool{}, ready: m.ready}
	for _, h := range m.hosts {
		hc := *h
		c.hosts = append(c.hosts, &hc)
	}
	for k, v := range m.specs {
		c.specs[k] = v.clone()
	}
	for k := range m.usedTok {
		c.usedTok[k] = true
	}
	return c
}

func (m *pkModel) sel(f func(h *pkHost) bool) []*pkHost {
	var out []*pkHost
	for _, h := range m.hosts {
		if f(h) {
			out = append(out, h)
		}
	}
	return out
}

func (m *pkModel) known() []*pkHost { return m.sel(func(h *pkHost) bool { return h.known }) }

func (m *pkModel) existingDCs() []string {
	set := map[string]int{}
	for _, h := range m.known() {
		set[h.dc]++
	}
	return sortedKeys(set)
}

func (m *pkModel) byInfo(hi *gocql.HostInfo) *pkHost {
	for _, h := range m.hosts {
		if h.info == hi {
			return h
		}
	}
	return nil
}

func (m *pkModel) byID(id string) *pkHost {
	for _, h := range m.hosts {
		if h.id == id {
			return h
		}
	}
	return nil
}

func (m *pkModel) metaFn(name string) (*gocql.KeyspaceMetadata, error) {
	if !m.ready {
		return nil, errors.New("not initialized")
	}
	s := m.specs[name]
	if s == nil {
		return nil, gocql.ErrKeyspaceDoesNotExist
	}
	return s.meta(name), nil
}

// ---------------------------------------------------------------------------------
// generation (root goroutine only)

func (m *pkModel) genHost(tp *kernel.Tape, allowDown bool) *pkHost {
	c := m.cfg
	idx := len(m.hosts)
	h := &pkHost{idx: idx, id: fmt.Sprintf("h%02d", idx), addr: net.IPv4(10, 0, byte(idx/200), byte(idx%200+1))}
	h.dc = c.dcs[tp.Next(len(c.dcs))]
	h.rack = c.racks[h.dc][tp.Next(len(c.racks[h.dc]))]
	nt := tp.Range(1, 8)
	for i := 0; i < nt; i++ {
		v := tp.Next(4096)
		for m.usedTok[v] {
			v = (v + 1) % 4096
		}
		m.usedTok[v] = true
		h.tokens = append(h.tokens, fmt.Sprint(int64(v-2048)<<52+int64(v)))
	}
	h.up = !(allowDown && tp.Chance(1, 6))
	h.info = gocql.VerifNewHost(h.id, h.addr, 9042, h.dc, h.rack, h.tokens, h.up)
	return h
}

func (m *pkModel) genSpec(tp *kernel.Tape) *pkSpec {
	dcs := m.existingDCs()
	ws := []int{3, 3, 1, 1}
	if len(dcs) == 0 {
		ws[1] = 0
	}
	switch tp.Weighted(ws) {
	case 0:
		return &pkSpec{class: "SimpleStrategy", rf: tp.Range(1, 3), asString: tp.Chance(1, 2)}
	case 1:
		s := &pkSpec{class: "NetworkTopologyStrategy", dcs: map[string]int{}}
		for _, dc := range dcs {
			if tp.Chance(1, 5) {
				continue // not named
			}
			s.dcs[dc] = []int{1, 2, 3, 0}[tp.Next(4)]
		}
		s.asString = tp.Chance(1, 2)
		return s
	case 2:
		return &pkSpec{class: "LocalStrategy"}
	}
	return nil // keyspace unknown to the schema source
}

type pkQuery struct {
	form int // 0 nil query, 1 query without routing key, 2 query with routing key
	ks   string
	key  []byte
}

func (q pkQuery) String() string {
	switch q.form {
	case 0:
		return "nil"
	case 1:
		return "nokey/" + q.ks
	}
	return fmt.Sprintf("key:%x/%s", q.key, q.ks)
}

func (m *pkModel) genQuery(tp *kernel.Tape) pkQuery {
	ws := []int{2, 1, 1}
	if m.cfg.kind == pkTA {
		ws = []int{1, 1, 5}
	}
	q := pkQuery{form: tp.Weighted(ws)}
	if q.form > 0 {
		q.ks = []string{"ks", "ks2", "nope"}[tp.Weighted([]int{5, 2, 1})]
	}
	if q.form == 2 {
		n := tp.Range(1, 4)
		for i := 0; i < n; i++ {
			q.key = append(q.key, byte(tp.Next(256)))
		}
	}
	return q
}

const (
	opPick = iota
	opDown
	opUp
	opNodeUp
	opAdd
	opRemove
	opKS
	opBurst
	opUpMany
)

type pkKS struct {
	name string
	spec *pkSpec
}

type pkOp struct {
	kind    int
	hosts   []int // opUpMany: indexes into model.hosts
	host    int   // index into model.hosts
	newHost *pkHost
	fixes   []pkKS // keyspace alterations that precede a removal (see genOp)
	ks      pkKS
	picks   []pkQuery
}

// genOp draws one operation that is valid in the model's current state. mutOnly
// restricts the menu to state changes (for the scheduled phase).
func (m *pkModel) genOp(tp *kernel.Tape, noFaults, mutOnly bool) pkOp {
	known := m.known()
	var ups, downs []*pkHost
	for _, h := range known {
		if h.up {
			ups = append(ups, h)
		} else {
			downs = append(downs, h)
		}
	}
	ws := []int{6, 3, 3, 1, 2, 1, 1, 1, 0}
	if len(downs) >= 2 && !noFaults {
		ws[opUpMany] = 2
	}
	if len(ups) == 0 {
		ws[opDown] = 0
	}
	if len(downs) == 0 {
		ws[opUp], ws[opNodeUp] = 0, 0
	}
	if len(known) >= 10 {
		ws[opAdd] = 0
	}
	if len(known) == 0 {
		ws[opRemove] = 0
	}
	if noFaults {
		ws[opDown], ws[opUp], ws[opNodeUp], ws[opRemove] = 0, 0, 0, 0
	}
	if mutOnly {
		ws[opPick], ws[opBurst] = 0, 0
	}
	op := pkOp{kind: tp.Weighted(ws)}
	switch op.kind {
	case opPick:
		n := tp.Range(1, 3)
		for i := 0; i < n; i++ {
			op.picks = append(op.picks, m.genQuery(tp))
		}
	case opDown:
		op.host = ups[tp.Next(len(ups))].idx
	case opUp, opNodeUp:
		op.host = downs[tp.Next(len(downs))].idx
	case opUpMany:
		// several pools report their host connected at the same moment (the session runs
		// handleNodeConnected on one goroutine per pool)
		n := 2 + tp.Next(2)
		first := tp.Next(len(downs))
		for i := 0; i < n && i < len(downs); i++ {
			op.hosts = append(op.hosts, downs[(first+i)%len(downs)].idx)
		}
	case opAdd:
		op.newHost = m.genHost(tp, true)
	case opRemove:
		h := known[tp.Next(len(known))]
		op.host = h.idx
		// Generator constraint (DESIGN §3 C11): a NetworkTopologyStrategy keyspace names
		// only datacenters that have nodes. When the last node of a datacenter goes, the
		// keyspaces naming it are altered first (ALTER KEYSPACE, then decommission).
		last := true
		for _, o := range known {
			if o != h && o.dc == h.dc {
				last = false
			}
		}
		if last {
			var names []string
			for n := range m.specs {
				names = append(names, n)
			}
			sort.Strings(names)
			for _, n := range names {
				s := m.specs[n]
				if s == nil || s.class != "NetworkTopologyStrategy" {
					continue
				}
				if _, named := s.dcs[h.dc]; named {
					ns := s.clone()
					delete(ns.dcs, h.dc)
					op.fixes = append(op.fixes, pkKS{n, ns})
				}
			}
		}
	case opKS:
		op.ks.name = []string{"ks", "ks2"}[tp.Weighted([]int{2, 1})]
		op.ks.spec = m.genSpec(tp)
	}
	return op
}

// applyModel feeds the operation to the model.
func (m *pkModel) applyModel(op pkOp) {
	switch op.kind {
	case opDown:
		m.hosts[op.host].up = false
	case opUp:
		m.hosts[op.host].up = true
	case opUpMany:
		for _, i := range op.hosts {
			m.hosts[i].up = true
		}
	case opAdd:
		h := *op.newHost
		h.known = true
		m.hosts = append(m.hosts, &h)
	case opRemove:
		for _, f := range op.fixes {
			m.specs[f.name] = f.spec
		}
		m.hosts[op.host].known = false
	case opKS:
		m.specs[op.ks.name] = op.ks.spec
	}
}

// ---------------------------------------------------------------------------------
// the run

type pkRun struct {
	e   *Env
	k   *kernel.Kernel
	m   *pkModel
	cfg *pkCfg
	pol gocql.HostSelectionPolicy
	seq int // record number: keeps the log of the sequential part in program order

	inBurst bool
}

func (r *pkRun) rec(format string, args ...interface{}) {
	r.seq++
	r.k.Rec("%03d "+format, append([]interface{}{r.seq}, args...)...)
}

// guard runs one driver call; a panic becomes a violation whose signature names the
// driver function that panicked.
func (r *pkRun) guard(what string, fn func()) (ok bool) {
	defer func() {
		if p := recover(); p != nil {
			frames := pkDriverFrames()
			top := "?"
			if len(frames) > 0 {
				top = frames[0]
			}
			if len(frames) > 6 {
				frames = frames[:6]
			}
			r.k.Violate("C11", "C11/panic:"+top, "%s panicked: %v; driver frames: %s; policy %s", what, p, strings.Join(frames, " <- "), r.cfg)
			ok = false
		}
	}()
	fn()
	return true
}

func pkDriverFrames() []string {
	pcs := make([]uintptr, 64)
	n := runtime.Callers(2, pcs)
	frames := runtime.CallersFrames(pcs[:n])
	var out []string
	for {
		f, more := frames.Next()
		const pfx = "github.com/gocql/gocql."
		if strings.HasPrefix(f.Function, pfx) {
			out = append(out, strings.TrimPrefix(f.Function, pfx))
		}
		if !more {
			break
		}
	}
	return out
}

func runPick(e *Env) {
	k := e.K
	tp := k.Tape
	cfg := &pkCfg{racks: map[string][]string{}}
	cfg.kind = tp.Weighted([]int{1, 1, 1, 4})
	if cfg.kind == pkTA {
		cfg.fb = tp.Next(3)
		cfg.shuffle = tp.Chance(1, 3)
		cfg.nonLocal = tp.Chance(1, 2)
	}
	nDC := tp.Range(1, 3)
	for i := 0; i < nDC; i++ {
		dc := fmt.Sprintf("dc%d", i+1)
		cfg.dcs = append(cfg.dcs, dc)
		nr := tp.Range(1, 3)
		for j := 0; j < nr; j++ {
			cfg.racks[dc] = append(cfg.racks[dc], fmt.Sprintf("r%d", j+1))
		}
	}
	cfg.localDC = cfg.dcs[tp.Next(nDC)]
	cfg.localRack = cfg.racks[cfg.localDC][tp.Next(len(cfg.racks[cfg.localDC]))]
	if tp.Chance(1, 16) {
		cfg.localDC = "dc9" // the application names a datacenter that has no nodes
	} else if tp.Chance(1, 16) {
		cfg.localRack = "r9"
	}
	cfg.sessionKS = "ks"
	if tp.Chance(1, 4) {
		cfg.sessionKS = "" // no default keyspace: replicas are computed on KeyspaceChanged only
	}
	m := &pkModel{cfg: cfg, specs: map[string]*pkSpec{}, usedTok: map[int]bool{}}
	r := &pkRun{e: e, k: k, m: m, cfg: cfg}

	switch cfg.kind {
	case pkTA:
		r.pol = pkTokenAware(pkFallback(cfg, cfg.fb), cfg.shuffle, cfg.nonLocal)
		gocql.VerifTokenAwareWire(r.pol, func() string { return cfg.sessionKS }, m.metaFn)
	default:
		r.pol = pkFallback(cfg, cfg.kind)
	}
	e.Note("policy", cfg.String())
	e.Note("dcs", fmt.Sprint(cfg.racks))
	if tp.Chance(1, 5) {
		// a session that has been picking hosts for a long time: the counter behind the
		// rotation is about to pass a power of two (2^31 is where a 32-bit int overflows,
		// 2^63 where a 64-bit one does)
		v := []uint64{1<<31 - 3, 1<<32 - 3, 1<<63 - 3, 1<<64 - 3, 1<<63 + 5, 1<<31 + 1<<62}[tp.Next(6)]
		if gocql.VerifSetPickCounter(r.pol, v) {
			k.Fault("history.many-picks-before")
			e.Note("picksBefore", fmt.Sprintf("%#x", v))
		}
	}

	// ---- initial population ----
	n0 := tp.Range(1, 8)
	for i := 0; i < n0; i++ {
		h := m.genHost(tp, true)
		h.known = true
		m.hosts = append(m.hosts, h)
	}
	m.specs["ks"] = m.genSpec(tp)
	order := tp.Weighted([]int{10, 5, 1}) // 0 session order, 1 unit-test order, 2 partitioner never set
	e.Note("init_order", order)
	e.Note("hosts0", n0)
	e.Note("ks", m.specs["ks"].String())
	r.rec("policy %s sessionKS=%q init-order=%d ks=%s", cfg, cfg.sessionKS, order, m.specs["ks"])
	for _, h := range m.hosts {
		r.rec("host %s %s/%s up=%v tokens=%s", h.id, h.dc, h.rack, h.up, strings.Join(h.tokens, ","))
	}
	var infos []*gocql.HostInfo
	for _, h := range m.hosts {
		infos = append(infos, h.info)
	}
	ok := r.guard("initial population", func() {
		switch order {
		case 0, 2: // Session.init: partitioner, AddHosts (bulk if supported), connected -> HostUp, KeyspaceChanged
			m.ready = true
			if order == 0 {
				r.pol.SetPartitioner(pkPartitioner)
			}
			if bulk, isBulk := r.pol.(interface{ AddHosts([]*gocql.HostInfo) }); isBulk {
				bulk.AddHosts(infos)
			} else {
				for _, hi := range infos {
					r.pol.AddHost(hi)
				}
			}
			for _, h := range m.hosts {
				if h.up {
					h.info.VerifSetState(true)
					r.pol.HostUp(h.info)
				}
			}
			if cfg.sessionKS != "" {
				r.pol.KeyspaceChanged(gocql.KeyspaceUpdateEvent{Keyspace: cfg.sessionKS})
			}
		case 1: // policies_test.go: hosts first, then the partitioner, then the schema
			for _, hi := range infos {
				r.pol.AddHost(hi)
			}
			r.pol.SetPartitioner(pkPartitioner)
			m.ready = true
			r.pol.KeyspaceChanged(gocql.KeyspaceUpdateEvent{Keyspace: "ks"})
		}
	})
	if !ok {
		return
	}

	// ---- sequential history ----
	nOps := tp.Range(5, 30)
	e.Note("ops", nOps)
	for i := 0; i < nOps; i++ {
		op := m.genOp(tp, e.NoFaults, false)
		if !r.apply(op, "") {
			return
		}
		m.applyModel(op)
	}
	// every history ends with a checked pick so the last state change is observed
	if !r.apply(pkOp{kind: opPick, picks: []pkQuery{m.genQuery(tp)}}, "") {
		return
	}

	// ---- scheduled phase ----
	if tp.Chance(1, 3) {
		r.concurrent()
	}
}

func pkTokenAware(fb gocql.HostSelectionPolicy, shuffle, nonLocal bool) gocql.HostSelectionPolicy {
	switch {
	case shuffle && nonLocal:
		return gocql.TokenAwareHostPolicy(fb, gocql.ShuffleReplicas(), gocql.NonLocalReplicasFallback())
	case shuffle:
		return gocql.TokenAwareHostPolicy(fb, gocql.ShuffleReplicas())
	case nonLocal:
		return gocql.TokenAwareHostPolicy(fb, gocql.NonLocalReplicasFallback())
	}
	return gocql.TokenAwareHostPolicy(fb)
}

func pkFallback(cfg *pkCfg, kind int) gocql.HostSelectionPolicy {
	switch kind {
	case pkDC:
		return gocql.DCAwareRoundRobinPolicy(cfg.localDC)
	case pkRack:
		return gocql.RackAwareRoundRobinPolicy(cfg.localDC, cfg.localRack)
	}
	return gocql.RoundRobinHostPolicy()
}

// apply performs one operation against the driver (the model is fed by the caller
// afterwards). who is the task name in the scheduled phase, "" in the sequential part.
func (r *pkRun) apply(op pkOp, who string) bool {
	k, m := r.k, r.m
	ok := true
	switch op.kind {
	case opDown:
		h := m.hosts[op.host]
		r.rec("%sdown %s", who, h.id)
		ok = r.guard("HostDown", func() { // Session.handleNodeDown
			h.info.VerifSetState(false)
			r.pol.HostDown(h.info)
		})
		k.Fault("history.host-down")
	case opUp:
		h := m.hosts[op.host]
		r.rec("%sup %s", who, h.id)
		ok = r.guard("HostUp", func() { // Session.handleNodeConnected
			h.info.VerifSetState(true)
			r.pol.HostUp(h.info)
		})
		k.Fault("history.host-up")
	case opUpMany:
		var ids []string
		for _, i := range op.hosts {
			ids = append(ids, m.hosts[i].id)
		}
		r.rec("%sup-at-once %s", who, strings.Join(ids, ","))
		ok = r.guard("HostUp(concurrent)", func() {
			// with GOMAXPROCS > 1 (the parallel pass) the calls really coincide
			var wg sync.WaitGroup
			var ready, gate int32
			spin := runtime.GOMAXPROCS(0) > 1
			for _, i := range op.hosts {
				h := m.hosts[i]
				wg.Add(1)
				go func() {
					defer wg.Done()
					if spin {
						atomic.AddInt32(&ready, 1)
						for n := 0; atomic.LoadInt32(&gate) == 0; n++ {
							if n%1024 == 1023 {
								runtime.Gosched()
							}
						}
					}
					h.info.VerifSetState(true)
					r.pol.HostUp(h.info)
				}()
			}
			if spin {
				for n := 0; atomic.LoadInt32(&ready) < int32(len(op.hosts)) && n < 1<<22; n++ {
					runtime.Gosched()
				}
				atomic.StoreInt32(&gate, 1)
			}
			wg.Wait()
		})
		k.Fault("history.hosts-up-at-once")
	case opNodeUp:
		h := m.hosts[op.host]
		r.rec("%snode-up-event %s", who, h.id)
		ok = r.guard("AddHost(existing)", func() { r.pol.AddHost(h.info) }) // Session.handleNodeUp -> startPoolFill
		k.Fault("history.node-up-event")
	case opAdd:
		h := op.newHost
		r.rec("%sadd %s %s/%s up=%v tokens=%s", who, h.id, h.dc, h.rack, h.up, strings.Join(h.tokens, ","))
		ok = r.guard("AddHost", func() { r.pol.AddHost(h.info) })
		k.Fault("history.add-host")
	case opRemove:
		h := m.hosts[op.host]
		for _, f := range op.fixes {
			f := f
			r.rec("%salter-keyspace %s %s (last node of %s leaves)", who, f.name, f.spec, h.dc)
			m.specs[f.name] = f.spec
			if ok = r.guard("KeyspaceChanged", func() { r.pol.KeyspaceChanged(gocql.KeyspaceUpdateEvent{Keyspace: f.name, Change: "UPDATED"}) }); !ok {
				return false
			}
		}
		r.rec("%sremove %s", who, h.id)
		ok = r.guard("RemoveHost", func() { r.pol.RemoveHost(h.info) })
		k.Fault("history.remove-host")
	case opKS:
		r.rec("%skeyspace-changed %s %s", who, op.ks.name, op.ks.spec)
		m.specs[op.ks.name] = op.ks.spec
		ok = r.guard("KeyspaceChanged", func() { r.pol.KeyspaceChanged(gocql.KeyspaceUpdateEvent{Keyspace: op.ks.name, Change: "UPDATED"}) })
		k.Fault("history.keyspace-changed")
	case opPick:
		for _, q := range op.picks {
			if _, ok = r.pickAndCheck(q); !ok {
				return false
			}
		}
	case opBurst:
		ok = r.burst()
	}
	return ok && k.Violation() == nil
}

func pkExec(q pkQuery) gocql.ExecutableQuery {
	switch q.form {
	case 1:
		return gocql.VerifNewQuery(q.ks, nil)
	case 2:
		return gocql.VerifNewQuery(q.ks, q.key)
	}
	return nil // the package's tests use Pick(nil) for "no routing information"
}

func pkIDs(hs []*pkHost) string {
	var s []string
	for _, h := range hs {
		if h == nil {
			s = append(s, "<nil>")
		} else {
			s = append(s, h.id)
		}
	}
	return "[" + strings.Join(s, " ") + "]"
}

// pickAndCheck picks once, iterates to exhaustion and runs the sequential oracle. It
// returns the first host offered (nil if none).
func (r *pkRun) pickAndCheck(q pkQuery) (first *pkHost, ok bool) {
	k, m, cfg := r.k, r.m, r.cfg
	limit := 4*len(m.hosts) + 8

	// the replica list the driver itself computed for this key (placement is not checked here)
	var rInfos []*gocql.HostInfo
	var fromStrategy, routed bool
	if q.form == 2 {
		if !r.guard("replica lookup", func() { rInfos, fromStrategy, routed = gocql.VerifTokenAwareReplicas(r.pol, q.ks, q.key) }) {
			return nil, false
		}
	}

	// another query is picked and iterated while this one is half-way through its hosts (its
	// iterator must not be disturbed by that: each query owns its sequence)
	interAt := -1
	var q2 pkQuery
	if tp := k.Tape; !r.inBurst && tp.Chance(1, 4) {
		interAt = tp.Next(3)
		q2 = q
		if tp.Chance(1, 2) {
			q2 = m.genQuery(tp)
		}
		k.Fault("history.pick-inside-pick")
	}

	var offered []*gocql.HostInfo
	finished := false
	nilInfo := false
	if !r.guard("Pick/NextHost", func() {
		next := r.pol.Pick(pkExec(q))
		if next == nil {
			finished = true
			return
		}
		for i := 0; i < limit; i++ {
			if i == interAt+1 && interAt >= 0 {
				if n2 := r.pol.Pick(pkExec(q2)); n2 != nil {
					for j := 0; j < limit; j++ {
						if n2() == nil {
							break
						}
					}
				}
			}
			sh := next()
			if sh == nil {
				finished = true
				return
			}
			hi := sh.Info()
			if hi == nil {
				nilInfo = true
				return
			}
			offered = append(offered, hi)
		}
	}) {
		r.rec("pick %s -> panic", q)
		return nil, false
	}

	seq := make([]*pkHost, len(offered))
	for i, hi := range offered {
		seq[i] = m.byInfo(hi)
		if seq[i] == nil {
			seq[i] = m.byID(hi.HostID())
		}
	}
	var R []*pkHost // replica list, nil entries dropped, duplicates dropped (first occurrence kept)
	rHasNil, rHasDup := false, false
	if routed {
		seen := map[*pkHost]bool{}
		for _, hi := range rInfos {
			h := m.byInfo(hi)
			if h == nil {
				rHasNil = true
				continue
			}
			if seen[h] {
				rHasDup = true
				continue
			}
			seen[h] = true
			R = append(R, h)
		}
	}
	line := fmt.Sprintf("pick %s -> %s", q, pkIDs(seq))
	if routed {
		var raw []*pkHost
		for _, hi := range rInfos {
			raw = append(raw, m.byInfo(hi))
		}
		line += " R=" + pkIDs(raw)
	}
	r.rec("%s", line)

	viol := func(sig, format string, args ...interface{}) (*pkHost, bool) {
		k.Violate("C11", sig, "%s; query %s offered %s; policy %s; known up %s", fmt.Sprintf(format, args...), q, pkIDs(seq), cfg,
			pkIDs(m.sel(func(h *pkHost) bool { return h.known && h.up })))
		return nil, false
	}

	// (1) finite
	if nilInfo {
		return viol("C11/nil-host", "NextHost returned a selected host without HostInfo at position %d", len(offered))
	}
	if !finished {
		return viol("C11/iteration-not-finite", "NextHost still returns hosts after %d calls (%d hosts exist)", limit, len(m.hosts))
	}
	// (2) only up hosts, (3) no host twice
	seenID := map[string]int{}
	for i, h := range seq {
		if h == nil {
			return viol("C11/foreign-host", "position %d: host %s was never given to the policy", i, offered[i].HostID())
		}
		if !h.up {
			return viol("C11/down-host-offered", "position %d: host %s is down", i, h.id)
		}
		if j, dup := seenID[h.id]; dup {
			extra := ""
			if rHasDup {
				extra = " (the driver's replica list for the token names it twice)"
			}
			return viol("C11/host-offered-twice", "host %s offered at positions %d and %d%s", h.id, j, i, extra)
		}
		seenID[h.id] = i
		if !h.known {
			k.Probe("offered-removed-host")
		}
	}
	// (4) every up host the policy knows
	for _, h := range m.hosts {
		if h.known && h.up {
			if _, in := seenID[h.id]; !in {
				return viol("C11/up-host-missing", "host %s (%s/%s) is known and up but was not offered", h.id, h.dc, h.rack)
			}
		}
	}
	// (5)/(6) order
	tiersNonDecreasing := func(part []*pkHost, what string) bool {
		for i := 1; i < len(part); i++ {
			if cfg.tier(part[i]) < cfg.tier(part[i-1]) {
				viol("C11/tier-order", "%s: host %s (tier %d) offered after %s (tier %d)", what, part[i].id, cfg.tier(part[i]), part[i-1].id, cfg.tier(part[i-1]))
				return false
			}
		}
		return true
	}
	sameSet := func(a, b []*pkHost) bool {
		if len(a) != len(b) {
			return false
		}
		in := map[*pkHost]bool{}
		for _, h := range a {
			in[h] = true
		}
		for _, h := range b {
			if !in[h] {
				return false
			}
		}
		return true
	}
	if len(seenID) > 0 {
		// hosts the policy was told to forget are left out of the order checks
		kept := seq[:0:0]
		for _, h := range seq {
			if h.known {
				kept = append(kept, h)
			}
		}
		seq = kept
	}
	if !routed {
		if !tiersNonDecreasing(seq, "hosts") {
			return nil, false
		}
	} else {
		k.Probe("pick-routed")
		var p1, p2 []*pkHost
		downReplica, removedReplica := false, false
		for _, h := range R {
			if !h.known {
				// a replica map of a keyspace other than the session's is not recomputed
				// when a host is removed; the property neither demands nor forbids that
				// such a host is offered, so it is left out of the comparison
				removedReplica = true
				continue
			}
			if !h.up {
				downReplica = true
				continue
			}
			if cfg.tier(h) == 0 {
				p1 = append(p1, h)
			} else if cfg.nonLocal {
				p2 = append(p2, h)
			}
		}
		sort.SliceStable(p2, func(i, j int) bool { return cfg.tier(p2[i]) < cfg.tier(p2[j]) })
		if fromStrategy {
			k.Probe("pick-replicas-from-strategy")
			if s := m.specs[q.ks]; s != nil && s.class == "NetworkTopologyStrategy" {
				for _, h := range m.known() {
					if len(h.tokens) > 1 {
						k.Probe("vnodes-nts")
						break
					}
				}
			}
		} else {
			k.Probe("pick-primary-only")
		}
		if rHasNil {
			k.Probe("pick-empty-ring")
		}
		if rHasDup {
			k.Probe("replica-list-has-duplicate")
		}
		if downReplica {
			k.Probe("pick-with-down-replica")
		}
		if removedReplica {
			k.Probe("pick-stale-replica-removed-host")
		}
		if len(p1) == 0 && len(R) > 0 {
			k.Probe("pick-no-up-replica-in-nearest-tier")
		}
		if len(p2) > 0 {
			k.Probe("pick-token-aware-fallback-used")
		}
		if len(seq) < len(p1)+len(p2) {
			return viol("C11/replicas-not-first", "up replicas %s %s of the token were not all offered", pkIDs(p1), pkIDs(p2))
		}
		got1 := seq[:len(p1)]
		if !sameSet(got1, p1) {
			return viol("C11/replicas-not-first", "the up replicas of the token in the nearest tier are %s but the first %d hosts offered are %s", pkIDs(p1), len(p1), pkIDs(got1))
		}
		if !cfg.shuffle {
			for i := range p1 {
				if got1[i] != p1[i] {
					return viol("C11/replica-order", "without shuffling the nearest-tier replicas must come in replica order %s (primary first), got %s", pkIDs(p1), pkIDs(got1))
				}
			}
		}
		got2 := seq[len(p1) : len(p1)+len(p2)]
		if !sameSet(got2, p2) {
			return viol("C11/nonlocal-replicas-not-before-rest", "NonLocalReplicasFallback: the up replicas in farther tiers are %s but after the nearest-tier replicas %s the next %d hosts offered are %s", pkIDs(p2), pkIDs(p1), len(p2), pkIDs(got2))
		}
		if !tiersNonDecreasing(got2, "non-local replicas") || !tiersNonDecreasing(seq[len(p1)+len(p2):], "remaining hosts") {
			return nil, false
		}
	}
	nKnown := len(m.known())
	if nKnown >= 2 {
		k.OpDone()
	}
	if len(seq) == 0 {
		k.Probe("pick-zero-up-hosts")
		return nil, true
	}
	return seq[0], true
}

// burst checks rotation: over 2 x (size of the first tier that has an up host)
// successive picks without routing key the first host offered is not constant when that
// tier has at least two up hosts.
func (r *pkRun) burst() bool {
	// rotation is judged over successive picks: nothing else may pick in between
	r.inBurst = true
	defer func() { r.inBurst = false }()
	m, cfg := r.m, r.cfg
	tier, size, upN := -1, 0, 0
	for t := 0; t <= cfg.maxTier() && tier < 0; t++ {
		in := m.sel(func(h *pkHost) bool { return h.known && cfg.tier(h) == t })
		u := 0
		for _, h := range in {
			if h.up {
				u++
			}
		}
		if u > 0 {
			tier, size, upN = t, len(in), u
		}
	}
	if tier < 0 {
		_, ok := r.pickAndCheck(pkQuery{})
		return ok
	}
	if tier > 0 {
		r.k.Probe("nearest-tier-has-no-up-host")
	}
	n := 2 * size
	r.rec("burst of %d picks (tier %d: %d hosts, %d up)", n, tier, size, upN)
	firsts := map[string]bool{}
	for i := 0; i < n; i++ {
		f, ok := r.pickAndCheck(pkQuery{form: i % 2}) // nil query and key-less query alternate
		if !ok {
			return false
		}
		if f != nil {
			firsts[f.id] = true
		}
	}
	if upN >= 2 {
		r.k.Probe("rotation-checked")
		if len(firsts) < 2 {
			r.k.Violate("C11", "C11/no-rotation", "%d successive picks without routing key all started with the same host %v although tier %d has %d up hosts; policy %s", n, sortedBoolKeys(firsts), tier, upN, cfg)
			return false
		}
	}
	return true
}

func sortedBoolKeys(m map[string]bool) []string {
	out := make([]string, 0, len(m))
	for k := range m {
		out = append(out, k)
	}
	sort.Strings(out)
	return out
}

// concurrent is the schedule part: picking tasks advance one NextHost call per step while
// one task mutates the host set; the kernel chooses the interleaving. Safety only:
// every iteration terminates, no nil host, no panic.
func (r *pkRun) concurrent() {
	k, m := r.k, r.m
	tp := k.Tape
	k.Probe("scheduled-phase")
	nPick := 1 + tp.Next(3)
	scripts := make([][]pkQuery, nPick)
	for i := range scripts {
		n := tp.Range(1, 3)
		for j := 0; j < n; j++ {
			scripts[i] = append(scripts[i], m.genQuery(tp))
		}
	}
	shadow := m.clone()
	nMut := 3 + tp.Next(10)
	var muts []pkOp
	for i := 0; i < nMut; i++ {
		op := shadow.genOp(tp, r.e.NoFaults, true)
		shadow.applyModel(op)
		muts = append(muts, op)
	}
	// tokens reserved while generating on the shadow stay reserved
	for v := range shadow.usedTok {
		m.usedTok[v] = true
	}
	limit := 4*len(shadow.hosts) + 8
	r.rec("scheduled phase: %d pickers, %d mutations", nPick, nMut)
	k.TimeWeight = 0
	k.MaxSteps = 4000

	for pi := 0; pi < nPick; pi++ {
		pi := pi
		name := fmt.Sprintf("p%d", pi)
		k.Spawn(name, func(t *kernel.Task) {
			for qi, q := range scripts[pi] {
				if !t.Step("pick") {
					return
				}
				var next gocql.NextHost
				if !r.guard("Pick (concurrent)", func() { next = r.pol.Pick(pkExec(q)) }) {
					return
				}
				k.Rec("%s pick#%d %s", name, qi, q)
				n := 0
				for next != nil {
					if !t.Step("next") {
						return
					}
					var sh gocql.SelectedHost
					if !r.guard("NextHost (concurrent)", func() { sh = next() }) {
						return
					}
					if sh == nil {
						k.Rec("%s pick#%d end after %d", name, qi, n)
						break
					}
					hi := sh.Info()
					if hi == nil {
						k.Violate("C11", "C11/nil-host", "concurrent: NextHost returned a selected host without HostInfo; query %s; policy %s", q, r.cfg)
						return
					}
					k.Rec("%s pick#%d -> %s", name, qi, hi.HostID())
					n++
					if n > limit {
						k.Violate("C11", "C11/iteration-not-finite", "concurrent: NextHost still returns hosts after %d calls (%d hosts exist); query %s; policy %s", n, len(shadow.hosts), q, r.cfg)
						return
					}
				}
				k.Probe("concurrent-pick-completed")
			}
		})
	}
	k.Spawn("mut", func(t *kernel.Task) {
		for _, op := range muts {
			if !t.Step("mutate") {
				return
			}
			if !r.apply(op, "mut ") {
				return
			}
			m.applyModel(op)
		}
	})
	k.Loop(nil)
	k.BeginSettle()
	k.SettleUntil(1e9, 1e6, nil, k.TasksDone)
	if k.Violation() != nil {
		return
	}
	// after the race: one more checked pick against the model (the mutations are over)
	r.pickAndCheck(m.genQuery(tp))
}
