package cqlspec

import (
	"errors"
	"fmt"
)

// Query / execute / batch flag bits.
const (
	QFValues       = 0x01
	QFSkipMetadata = 0x02
	QFPageSize     = 0x04
	QFPagingState  = 0x08
	QFSerial       = 0x10
	QFTimestamp    = 0x20 // v3+
	QFNames        = 0x40 // v3+
	QFKeyspace     = 0x80 // v5
)

// DecodeRequest strictly decodes one complete request frame. Any deviation from the
// protocol specification for the frame's version yields a descriptive error.
func DecodeRequest(frame []byte, decomp Decompressor) (*Request, error) {
	if len(frame) == 0 {
		return nil, errors.New("request: empty frame")
	}
	h, err := ParseHeader(frame)
	if err != nil {
		return nil, fmt.Errorf("request: %w", err)
	}
	v, hs := h.Version, HeaderSize(frame[0])
	ctx := fmt.Sprintf("%s v%d", OpName(h.Opcode), v)
	if h.Response {
		return nil, fmt.Errorf("%s: header byte 0 = 0x%02x has the response direction bit set", ctx, frame[0])
	}
	if h.Length != len(frame)-hs {
		return nil, fmt.Errorf("%s: header length field is %d but the frame carries %d body bytes", ctx, h.Length, len(frame)-hs)
	}
	if h.Length > MaxFrameBody {
		return nil, fmt.Errorf("%s: body length %d exceeds the 256 MiB limit", ctx, h.Length)
	}
	const known = FlagCompression | FlagTracing | FlagCustomPayload | FlagWarning | FlagBeta
	switch f := h.Flags; {
	case f&^known != 0:
		return nil, fmt.Errorf("%s: unknown header flag bits 0x%02x (flags 0x%02x)", ctx, f&^known, f)
	case f&FlagWarning != 0:
		return nil, fmt.Errorf("%s: header flag 0x08 (warning) is only valid on responses (flags 0x%02x)", ctx, f)
	case f&FlagCustomPayload != 0 && v < 4:
		return nil, fmt.Errorf("%s: header flag 0x04 (custom payload) is not defined before v4 (flags 0x%02x)", ctx, f)
	case f&FlagBeta != 0 && v != 5:
		return nil, fmt.Errorf("%s: header flag 0x10 (beta) set on a non-beta version (flags 0x%02x)", ctx, f)
	case f&FlagBeta == 0 && v == 5:
		return nil, fmt.Errorf("%s: header flag 0x10 (beta) missing on a v5 (beta) request (flags 0x%02x)", ctx, f)
	}
	if h.Stream < 0 {
		return nil, fmt.Errorf("%s: negative stream id %d on a request", ctx, h.Stream)
	}
	body := frame[hs:]
	if h.Flags&FlagCompression != 0 {
		if decomp == nil {
			return nil, fmt.Errorf("%s: header flag 0x01 (compression) set but no compression was negotiated", ctx)
		}
		if body, err = decomp(body); err != nil {
			return nil, fmt.Errorf("%s: cannot decompress the %d-byte body: %w", ctx, h.Length, err)
		}
	}
	if body == nil {
		body = []byte{}
	}

	req := &Request{Header: h, Raw: frame, Body: body}
	r := &reader{b: body, ctx: ctx}
	if h.Flags&FlagCustomPayload != 0 {
		req.CustomPayload = r.bytesMap("<custom payload>")
	}
	switch h.Opcode {
	case OpStartup:
		req.Options = r.stringMap("<options>")
		if _, ok := req.Options["CQL_VERSION"]; !ok && r.err == nil {
			r.failf("<options>", "mandatory option CQL_VERSION is missing (have %v)", req.Options)
		}
	case OpOptions:
		// empty body
	case OpAuthResponse:
		if v < 2 {
			r.failf("message", "AUTH_RESPONSE is not defined in protocol v1 (v1 authenticates with CREDENTIALS 0x04)")
			break
		}
		req.AuthToken, req.AuthTokenNull = r.bytes("<token>")
	case OpRegister:
		req.EventTypes = r.stringList("<event types>")
		for i, e := range req.EventTypes {
			if e != "TOPOLOGY_CHANGE" && e != "STATUS_CHANGE" && e != "SCHEMA_CHANGE" && r.err == nil {
				r.failf("<event types>", "unknown event type %q (entry %d)", e, i)
			}
		}
	case OpQuery:
		req.Query = r.longStr("<query>")
		req.Params = r.queryParams(v)
	case OpPrepare:
		req.Query = r.longStr("<query>")
		if v >= 5 {
			start := r.off
			req.PrepareFlags = uint32(r.int4("<flags>"))
			if req.PrepareFlags&^0x01 != 0 && r.err == nil {
				r.off = start
				r.failf("<flags>", "unknown PREPARE flag bits 0x%x (flags 0x%x)", req.PrepareFlags&^0x01, req.PrepareFlags)
			}
			if req.PrepareFlags&0x01 != 0 {
				req.PrepareKeyspace = r.str("<keyspace>")
			}
		}
	case OpExecute:
		req.PreparedID = r.preparedID("<id>")
		if v == 1 {
			req.Params.HasValues = true
			req.Params.Values = r.values("<values>", v, false)
			req.Params.Consistency = r.consistency("<consistency>")
		} else {
			req.Params = r.queryParams(v)
		}
	case OpBatch:
		r.batch(req, v)
	default:
		r.failf("message", "opcode 0x%02x is not a request this decoder accepts", h.Opcode)
	}
	r.end()
	if r.err != nil {
		return nil, r.err
	}
	return req, nil
}

// preparedID reads a [short bytes] prepared statement id. The specification does not
// require it to be non-empty; whether the id is one the node issued is the scenarios' check.
func (r *reader) preparedID(what string) []byte {
	return r.shortBytes(what)
}

// values reads <short n> followed by n x ([string name] [value]).
func (r *reader) values(what string, version int, named bool) []Value {
	n := int(r.short(what + " count"))
	vals := make([]Value, 0, min(n, r.left()/4))
	for i := 0; i < n && r.err == nil; i++ {
		var name string
		if named {
			name = r.str(fmt.Sprintf("%s[%d] name", what, i))
		}
		val := r.value(fmt.Sprintf("%s[%d]", what, i), version)
		val.Name = name
		vals = append(vals, val)
	}
	return vals
}

// flags reads the QUERY/EXECUTE/BATCH flags ([byte] up to v4, [int] in v5) and rejects
// every bit outside allowed.
func (r *reader) flags(version int, allowed uint32) uint32 {
	start := r.off
	var f uint32
	if version >= 5 {
		f = uint32(r.int4("<flags>"))
	} else {
		f = uint32(r.byte1("<flags>"))
	}
	if bad := f &^ allowed; bad != 0 && r.err == nil {
		r.off = start
		r.failf("<flags>", "flag bits 0x%x are not defined for this message in v%d (flags 0x%x)", bad, version, f)
	}
	return f
}

// queryParams reads <consistency> (v1) or the full <query_parameters> (v2+).
func (r *reader) queryParams(version int) QueryParams {
	var p QueryParams
	p.Consistency = r.consistency("<consistency>")
	if version == 1 {
		return p
	}
	allowed := uint32(QFValues | QFSkipMetadata | QFPageSize | QFPagingState | QFSerial)
	if version >= 3 {
		allowed |= QFTimestamp | QFNames
	}
	if version >= 5 {
		allowed |= QFKeyspace
	}
	start := r.off
	f := r.flags(version, allowed)
	if f&QFNames != 0 && f&QFValues == 0 && r.err == nil {
		r.off = start
		r.failf("<flags>", "flag 0x40 (names for values) without flag 0x01 (values) (flags 0x%x)", f)
	}
	if r.err != nil {
		return p
	}
	p.Flags = f
	p.HasValues = f&QFValues != 0
	p.SkipMetadata = f&QFSkipMetadata != 0
	p.HasPageSize = f&QFPageSize != 0
	p.HasPagingState = f&QFPagingState != 0
	p.HasSerial = f&QFSerial != 0
	p.HasTimestamp = f&QFTimestamp != 0
	p.NamedValues = f&QFNames != 0
	p.HasKeyspace = f&QFKeyspace != 0
	if p.HasValues {
		p.Values = r.values("<values>", version, p.NamedValues)
	}
	if p.HasPageSize {
		p.PageSize = r.int4("<result_page_size>")
	}
	if p.HasPagingState {
		start := r.off
		var null bool
		if p.PagingState, null = r.bytes("<paging_state>"); null {
			r.off = start
			r.failf("<paging_state>", "null paging state with flag 0x08 set")
		}
	}
	if p.HasSerial {
		p.SerialConsistency = r.serialConsistency("<serial_consistency>")
	}
	if p.HasTimestamp {
		p.Timestamp = r.long("<timestamp>")
	}
	if p.HasKeyspace {
		p.Keyspace = r.str("<keyspace>")
	}
	return p
}

// batch reads a BATCH body (v2+).
func (r *reader) batch(req *Request, version int) {
	if version < 2 {
		r.failf("message", "BATCH is not defined in protocol v1")
		return
	}
	start := r.off
	if req.BatchType = r.byte1("<type>"); req.BatchType > 2 && r.err == nil {
		r.off = start
		r.failf("<type>", "unknown batch type %d (want 0 logged, 1 unlogged, 2 counter)", req.BatchType)
	}
	n := int(r.short("<n>"))
	req.Batch = make([]BatchEntry, 0, min(n, r.left()/5))
	for i := 0; i < n && r.err == nil; i++ {
		var e BatchEntry
		start := r.off
		switch kind := r.byte1(fmt.Sprintf("<query_%d> kind", i)); {
		case r.err != nil:
		case kind == 0:
			e.Query = r.longStr(fmt.Sprintf("<query_%d> string", i))
		case kind == 1:
			e.Prepared = true
			e.ID = r.preparedID(fmt.Sprintf("<query_%d> id", i))
		default:
			r.off = start
			r.failf(fmt.Sprintf("<query_%d> kind", i), "unknown kind %d (want 0 query string or 1 prepared id)", kind)
		}
		e.Values = r.values(fmt.Sprintf("<query_%d> values", i), version, false)
		req.Batch = append(req.Batch, e)
	}
	req.BatchConsistency = r.consistency("<consistency>")
	if version < 3 || r.err != nil {
		return
	}
	allowed := uint32(QFSerial | QFTimestamp | QFNames)
	if version >= 5 {
		allowed |= QFKeyspace
	}
	start = r.off
	f := r.flags(version, allowed)
	if f&QFNames != 0 && r.err == nil {
		r.off = start
		r.failf("<flags>", "flag 0x40 (names for values) makes a BATCH undecodable (CASSANDRA-10246) (flags 0x%x)", f)
	}
	if r.err != nil {
		return
	}
	req.BatchFlags = f
	if req.BatchHasSerial = f&QFSerial != 0; req.BatchHasSerial {
		req.BatchSerial = r.serialConsistency("<serial_consistency>")
	}
	if req.BatchHasTimestamp = f&QFTimestamp != 0; req.BatchHasTimestamp {
		req.BatchTimestamp = r.long("<timestamp>")
	}
	if req.BatchHasKeyspace = f&QFKeyspace != 0; req.BatchHasKeyspace {
		req.BatchKeyspace = r.str("<keyspace>")
	}
}
