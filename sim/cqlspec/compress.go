package cqlspec

import (
	"encoding/binary"
	"errors"
	"fmt"
)

// ---------------------------------------------------------------------------------
// Snappy raw block format (format_description.txt): a uvarint with the uncompressed
// length followed by elements. Each element starts with a tag byte whose low two bits
// select: 00 literal, 01 copy with 1-byte offset, 10 copy with 2-byte offset,
// 11 copy with 4-byte offset.

// SnappyDecode decodes one raw snappy block.
func SnappyDecode(b []byte) ([]byte, error) {
	want64, i := binary.Uvarint(b)
	if i <= 0 {
		return nil, errors.New("snappy: missing or malformed uncompressed-length preamble")
	}
	if want64 > 0xffffffff {
		return nil, fmt.Errorf("snappy: uncompressed length %d exceeds 32 bits", want64)
	}
	want := int(want64)
	out := make([]byte, 0, min(want, 1<<16))
	for i < len(b) {
		at, tag := i, b[i]
		i++
		var length, offset int
		switch tag & 3 {
		case 0: // literal
			length = int(tag >> 2)
			if length >= 60 {
				nb := length - 59 // 1..4 length bytes, little endian
				if nb > len(b)-i {
					return nil, fmt.Errorf("snappy: literal at %d: truncated %d-byte length", at, nb)
				}
				length = 0
				for k := nb - 1; k >= 0; k-- {
					length = length<<8 | int(b[i+k])
				}
				i += nb
			}
			length++
			if length > len(b)-i {
				return nil, fmt.Errorf("snappy: literal at %d: %d bytes announced, %d available", at, length, len(b)-i)
			}
			if length > want-len(out) {
				return nil, fmt.Errorf("snappy: literal at %d overruns the announced length %d", at, want)
			}
			out = append(out, b[i:i+length]...)
			i += length
			continue
		case 1:
			if len(b)-i < 1 {
				return nil, fmt.Errorf("snappy: copy-1 at %d: truncated offset", at)
			}
			length = 4 + int(tag>>2)&7
			offset = int(tag>>5)<<8 | int(b[i])
			i++
		case 2:
			if len(b)-i < 2 {
				return nil, fmt.Errorf("snappy: copy-2 at %d: truncated offset", at)
			}
			length = 1 + int(tag>>2)
			offset = int(binary.LittleEndian.Uint16(b[i:]))
			i += 2
		case 3:
			if len(b)-i < 4 {
				return nil, fmt.Errorf("snappy: copy-4 at %d: truncated offset", at)
			}
			length = 1 + int(tag>>2)
			offset = int(binary.LittleEndian.Uint32(b[i:]))
			i += 4
		}
		if offset == 0 || offset > len(out) {
			return nil, fmt.Errorf("snappy: copy at %d: offset %d invalid with %d bytes produced", at, offset, len(out))
		}
		if length > want-len(out) {
			return nil, fmt.Errorf("snappy: copy at %d overruns the announced length %d", at, want)
		}
		for ; length > 0; length-- { // byte by byte: source and destination may overlap
			out = append(out, out[len(out)-offset])
		}
	}
	if len(out) != want {
		return nil, fmt.Errorf("snappy: produced %d bytes, preamble announced %d", len(out), want)
	}
	return out, nil
}

// SnappyEncodeLiteral returns a valid snappy block for b that uses only literal
// elements of at most 65536 bytes each.
func SnappyEncodeLiteral(b []byte) []byte {
	out := binary.AppendUvarint(nil, uint64(len(b)))
	for len(b) > 0 {
		n := min(len(b), 65536)
		switch m := n - 1; {
		case m < 60:
			out = append(out, byte(m)<<2)
		case m < 256:
			out = append(out, 60<<2, byte(m))
		default:
			out = append(out, 61<<2, byte(m), byte(m>>8))
		}
		out = append(out, b[:n]...)
		b = b[n:]
	}
	return out
}

// ---------------------------------------------------------------------------------
// LZ4 block format (lz4_Block_format.md): a series of sequences, each
// <token> [literal length bytes] <literals> <2-byte LE offset> [match length bytes].
// token high nibble = literal length, low nibble = match length - 4; a nibble of 15
// is extended by following bytes, each added, until a byte != 255. The last sequence
// stops after its literals.

const (
	lz4MinMatch     = 4
	lz4LastLiterals = 5  // the last 5 bytes of the data are always literals
	lz4MFLimit      = 12 // the last match starts at least 12 bytes before the end
)

// lz4Len extends a nibble length of 15 with the following bytes.
func lz4Len(src []byte, i, n int) (int, int, bool) {
	if n != 15 {
		return n, i, true
	}
	for i < len(src) {
		c := src[i]
		i++
		n += int(c)
		if c != 255 {
			return n, i, true
		}
	}
	return 0, i, false
}

// LZ4BlockDecode decodes one LZ4 block that must decompress to exactly dstLen bytes.
// It also enforces the end-of-block rules of the format description (final sequence
// has no match, a block with matches ends in >= 5 literals, no match starts in the
// last 12 bytes), as the reference decoder does when given an exactly sized buffer.
func LZ4BlockDecode(src []byte, dstLen int) ([]byte, error) {
	if dstLen < 0 {
		return nil, fmt.Errorf("lz4: negative uncompressed length %d", dstLen)
	}
	if len(src) == 0 {
		return nil, errors.New("lz4: empty block (even empty data is encoded as one token)")
	}
	dst := make([]byte, 0, min(dstLen, 1<<16))
	matches := 0
	for i := 0; ; {
		if i >= len(src) {
			return nil, errors.New("lz4: block ends after a match; the last sequence must be literals only")
		}
		at, tok := i, src[i]
		lit, i2, ok := lz4Len(src, i+1, int(tok>>4))
		if !ok {
			return nil, fmt.Errorf("lz4: sequence at %d: truncated literal length", at)
		}
		i = i2
		if lit > len(src)-i {
			return nil, fmt.Errorf("lz4: sequence at %d: %d literals announced, %d bytes available", at, lit, len(src)-i)
		}
		if lit > dstLen-len(dst) {
			return nil, fmt.Errorf("lz4: sequence at %d: literals overrun the uncompressed length %d", at, dstLen)
		}
		dst = append(dst, src[i:i+lit]...)
		i += lit
		if i == len(src) { // last sequence
			if matches > 0 && lit < lz4LastLiterals {
				return nil, fmt.Errorf("lz4: block with matches ends in %d literals, want at least %d", lit, lz4LastLiterals)
			}
			break
		}
		if len(src)-i < 2 {
			return nil, fmt.Errorf("lz4: sequence at %d: truncated match offset", at)
		}
		offset := int(binary.LittleEndian.Uint16(src[i:]))
		ml, i2, ok := lz4Len(src, i+2, int(tok&15))
		if !ok {
			return nil, fmt.Errorf("lz4: sequence at %d: truncated match length", at)
		}
		i = i2
		ml += lz4MinMatch
		if offset == 0 || offset > len(dst) {
			return nil, fmt.Errorf("lz4: sequence at %d: match offset %d invalid with %d bytes produced", at, offset, len(dst))
		}
		if ml > dstLen-len(dst) {
			return nil, fmt.Errorf("lz4: sequence at %d: match overruns the uncompressed length %d", at, dstLen)
		}
		if len(dst) > dstLen-lz4MFLimit {
			return nil, fmt.Errorf("lz4: sequence at %d: match starts at %d, less than %d bytes before the end (%d)", at, len(dst), lz4MFLimit, dstLen)
		}
		for ; ml > 0; ml-- { // byte by byte: source and destination may overlap
			dst = append(dst, dst[len(dst)-offset])
		}
		matches++
	}
	if len(dst) != dstLen {
		return nil, fmt.Errorf("lz4: produced %d bytes, want %d", len(dst), dstLen)
	}
	return dst, nil
}

// LZ4BlockEncodeLiteral returns a valid LZ4 block holding b as one literal-only sequence.
func LZ4BlockEncodeLiteral(b []byte) []byte {
	n := len(b)
	if n < 15 {
		return append([]byte{byte(n) << 4}, b...)
	}
	out := []byte{0xf0}
	for n -= 15; n >= 255; n -= 255 {
		out = append(out, 255)
	}
	out = append(out, byte(n))
	return append(out, b...)
}

// ---------------------------------------------------------------------------------
// Cassandra's LZ4 frame body: <4-byte big-endian uncompressed length><one LZ4 block>.

// CassandraLZ4Decode decodes a compressed frame body. With length 0 the block may be
// absent or the one-token empty block.
func CassandraLZ4Decode(body []byte) ([]byte, error) {
	if len(body) < 4 {
		return nil, fmt.Errorf("cassandra lz4: body of %d bytes lacks the 4-byte uncompressed length", len(body))
	}
	n := int(int32(binary.BigEndian.Uint32(body)))
	if n < 0 {
		return nil, fmt.Errorf("cassandra lz4: negative uncompressed length %d", n)
	}
	if n > MaxFrameBody {
		return nil, fmt.Errorf("cassandra lz4: uncompressed length %d exceeds the 256 MiB frame limit", n)
	}
	if n == 0 && len(body) == 4 {
		return []byte{}, nil
	}
	out, err := LZ4BlockDecode(body[4:], n)
	if err != nil {
		return nil, fmt.Errorf("cassandra lz4 (uncompressed length %d): %w", n, err)
	}
	return out, nil
}

// CassandraLZ4EncodeLiteral encodes b as a Cassandra LZ4 frame body with a
// literal-only block (for empty b: length 0 followed by the one-token empty block,
// which is what a Cassandra server emits).
func CassandraLZ4EncodeLiteral(b []byte) []byte {
	out := binary.BigEndian.AppendUint32(nil, uint32(len(b)))
	return append(out, LZ4BlockEncodeLiteral(b)...)
}
