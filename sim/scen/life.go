package scen

import (
	"context"
	"errors"
	"fmt"
	"net"
	"strings"
	"sync"
	"sync/atomic"
	"time"

	"github.com/gocql/gocql"
	"github.com/gocql/gocql/verifsim/cqlspec"
	"github.com/gocql/gocql/verifsim/kernel"
	"github.com/gocql/gocql/verifsim/node"
	"github.com/gocql/gocql/verifsim/simnet"
)

// Scenario life (C17): pools of 1-4 connections to 1-3 hosts with the control connection
// on; callers run queries, the cluster pushes events (ring refreshes), connections fail
// during and after the handshake, dials are refused, and one or two callers call
// Session.Close at any step (twice, concurrently). Parks at the pool, debouncer, control
// connection and Session.Close yield points.

func init() {
	register(&Scenario{
		Name:       "life",
		Properties: []string{"C17"},
		Run:        runLife,
		Real:       []string{"gocql Session.Close, policyConnPool/hostConnPool fill/connect/HandleError/Close, controlConn heartbeat/reconnect/close, refreshDebouncer/eventDebouncer, event handling (real code)"},
		Stub:       []string{"Cassandra cluster model, network with refusable dials and closable connections"},
		Rule:       "one run = one seeded schedule of 1-4 callers' queries, 1-2 Session.Close calls at tape-chosen points, event pushes, pooled-connection and control-connection losses, handshake failures, dial refusals and yield-point parks on 1-3 hosts x 1-4 connections; distinct = distinct canonical-log fingerprint; non-trivial = at least one fault or park fired and at least one operation completed",
	})
}

func runLife(e *Env) {
	k := e.K
	tp := k.Tape
	nHosts := 1 + tp.Next(3)
	cl := node.NewCluster(k, nHosts)
	InstallHooks(k)
	faultsOn := !e.NoFaults

	numConns := 1 + tp.Next(4)
	// the long one outlives the driver's one-second event debounce: a request can still be
	// outstanding when a status event for its host is acted upon
	// (0: no request timeout at all - the documented meaning of Timeout 0; what the node
	// never answers is then waited for until the connection goes away)
	timeout := []time.Duration{300 * time.Millisecond, 100 * time.Millisecond, 2500 * time.Millisecond, 0}[tp.Weighted([]int{3, 3, 3, 1})]
	nTasks := 1 + tp.Next(4)
	nOps := 2 + tp.Next(5)
	closers := tp.Next(3)                  // none: the session stays open to the end and its pools are inspected after a settle
	closeAfter := tp.Next(nTasks*nOps + 1) // how many query ops complete before the first Close is allowed
	e.Note("hosts", nHosts)
	e.Note("numConns", numConns)
	e.Note("tasks", nTasks)
	e.Note("closers", closers)

	var addrs []string
	for _, h := range cl.Hosts {
		addrs = append(addrs, h.Addr)
	}
	cfg := BaseConfig(cl, addrs[0])
	cfg.ProtoVersion = 4
	cfg.NumConns = numConns
	cfg.Timeout = timeout
	cfg.ConnectTimeout = 300 * time.Millisecond
	cfg.ReconnectInterval = []time.Duration{0, time.Second}[tp.Next(2)]
	// (MaxRetries 0 - "do not retry", and what a policy literal that only sets the interval
	// has - still means one attempt per connection)
	cfg.ReconnectionPolicy = &gocql.ConstantReconnectionPolicy{MaxRetries: []int{2, 1, 0, 4}[tp.Next(4)], Interval: 100 * time.Millisecond}
	cfg.MaxWaitSchemaAgreement = 2 * time.Second
	if tp.Chance(1, 5) {
		// a policy that tells session creation when it may stop waiting for pools (ReadyPolicy)
		cfg.PoolConfig.HostSelectionPolicy = gocql.SingleHostReadyPolicy(gocql.RoundRobinHostPolicy())
		e.Note("policy", "single-host-ready")
	}
	// gocql.TimeoutLimit (package level, default 0 = off): a connection that has seen more
	// than this many request timeouts is closed by the driver - and replaced like any other
	gocql.TimeoutLimit = int64([]int{0, 0, 1, 2}[tp.Next(4)])
	defer func() { gocql.TimeoutLimit = 0 }()
	e.Note("timeoutLimit", gocql.TimeoutLimit)
	withRetry := tp.Chance(1, 2)
	if withRetry {
		// the queries of this scenario are not marked idempotent: whatever happens to
		// their connection, each may reach servers at most once (C13)
		cfg.RetryPolicy = &gocql.SimpleRetryPolicy{NumRetries: 2}
	}
	e.Note("retryPolicy", withRetry)
	// authentication: none, a fixed authenticator, or a per-host provider (a user callback
	// that may fail, e.g. a credentials service that is briefly unavailable)
	var authFailNext int32
	authMode := tp.Weighted([]int{6, 1, 2})
	if authMode > 0 {
		cl.AuthClass = "org.apache.cassandra.auth.PasswordAuthenticator"
		if authMode == 1 {
			cfg.Authenticator = gocql.PasswordAuthenticator{Username: "u", Password: "p"}
		} else {
			cfg.AuthProvider = func(h *gocql.HostInfo) (gocql.Authenticator, error) {
				if atomic.AddInt32(&authFailNext, -1) >= 0 {
					k.Fault("auth-provider.fails")
					return nil, errors.New("life: credentials service unavailable")
				}
				atomic.StoreInt32(&authFailNext, 0)
				return gocql.PasswordAuthenticator{Username: "u", Password: "p"}, nil
			}
		}
	}
	e.Note("authMode", authMode)
	// a conviction policy of the user's (a callback into user code, which may take its time)
	if !e.NoFaults && tp.Chance(1, 4) {
		cfg.ConvictionPolicy = lifeConviction{k: k}
		k.Fault("user-conviction-policy")
		k.ArmNext("user.convict") // its first call is held until the scheduler resumes it
	}
	muted := map[*node.SConn]bool{} // connections on which the node has stopped answering keep-alive probes
	received := map[string]int{}

	valMeta := &cqlspec.RowsMeta{GlobalSpec: true, Columns: []cqlspec.ColSpec{{Keyspace: "ks", Table: "t", Name: "v", Type: cqlspec.ColType{ID: cqlspec.TVarchar}}}}
	cl.App = func(sc *node.SConn, rec *node.ReqRec) {
		tok := tokenRe.FindString(rec.Req.Query)
		received[tok]++
		if received[tok] > 1 {
			k.Violate("C13", "C13/non-idempotent-retried", "query %s is not marked idempotent but reached servers %d times (retry policy configured: %v)", tok, received[tok], withRetry)
		}
		fate := node.Hold
		if !faultsOn {
			fate = node.Auto
		}
		cl.Send(sc, rec, &cqlspec.Response{Op: cqlspec.OpResult, Kind: cqlspec.KindRows, Rows: valMeta,
			RowData: [][]cqlspec.Cell{{{Bytes: cqlspec.EncText(tok)}}}}, fate, "ROWS "+tok)
	}
	// handshake faults: the next READY / SUPPORTED of a new connection is cut and the
	// connection closed
	cutNext := 0
	cl.FrameHook = func(sc *node.SConn, stream int, label string, frame []byte) ([]byte, bool) {
		if cutNext > 0 && (label == "READY" || label == "SUPPORTED") && !sc.Started {
			cutNext--
			if label == "READY" && tp.Chance(1, 2) {
				// the node refuses the connection with an ERROR reply to STARTUP (it is
				// overloaded, still bootstrapping, ...): a well-formed answer, the same for
				// every connection it refuses
				if refusal, err := cqlspec.EncodeResponse(&cqlspec.Response{Version: sc.Version, Stream: stream, Op: cqlspec.OpError,
					Error: &cqlspec.ErrorBody{Code: []int32{cqlspec.ErrOverloaded, cqlspec.ErrBootstrapping, cqlspec.ErrServer}[tp.Next(3)], Message: "not now"}}); err == nil {
					k.Fault("conn.startup-refused-with-error-reply")
					sc.Started = false
					return refusal, false
				}
			}
			k.Fault("conn.fail-during-handshake")
			return frame[:tp.Next(len(frame))], true
		}
		return frame, false
	}

	if faultsOn && tp.Chance(1, 8) {
		// closing a connection is never clean (tls.Conn.Close towards a peer that is gone):
		// every Close reports an error, which the driver passes to its error handler
		cl.Net.CloseErrAll = true
		k.Fault("conn.close-reports-error")
	}
	if faultsOn && tp.Chance(1, 6) {
		// the control connection's heartbeat goroutine is slow to start: it is held at its
		// first instruction until the scheduler resumes it (possibly after Close)
		k.SetPlan([]kernel.ParkSpec{{Point: "ctl.heartbeat.start", Nth: 1}})
		k.Fault("control.heartbeat-goroutine-starts-late")
	}
	sess, err := Boot(k, cl, 20*time.Second, func() (*gocql.Session, error) { return gocql.NewSession(*cfg) })
	if err != nil {
		k.Violate("HARNESS", "life/boot", "session creation failed in a fault-free boot: %v", err)
		cl.CloseAll()
		return
	}
	if faultsOn {
		// after session creation the answers to system-table queries (ring refreshes) may be
		// slow too: they are held like query answers and delivered by the scheduler
		cl.SystemFateFn = func(sc *node.SConn, rec *node.ReqRec) node.Fate {
			if sc.Started && strings.Contains(rec.Req.Query, "FROM system.") && tp.Chance(1, 3) {
				k.Fault("refresh.answer-held")
				return node.Hold
			}
			if sc.Started && rec.Req.Header.Opcode == cqlspec.OpOptions && muted[sc] {
				return node.Drop
			}
			if sc.Started && rec.Req.Header.Opcode == cqlspec.OpOptions && tp.Chance(1, 3) {
				// the answer to a keep-alive probe (pooled or control connection) is slow too
				k.Fault("heartbeat.answer-held")
				return node.Hold
			}
			return node.Auto
		}
		k.DrawPlan([]string{"rd.woke", "rd.beforeRefresh", "rd.stop", "ed.woke", "ed.stop", "sess.close.pool", "sess.close.control",
			"sess.close.events", "sess.close.refresher", "sess.close.cancel", "ctl.heartbeat", "ctl.reconnect", "ctl.reconnected", "ctl.reconnected", "ctl.close",
			"fill.upgrade", "fill.filling", "fill.stopping", "connect.dialed", "connect.dialed", "connect.dialed", "pool.handleError", "pool.close",
			"close.unlocked", "close.beforeCancel", "exec.afterWrite", "rd.woke", "rd.stop", "exec.beforeWrite", "exec.beforeWrite", "user.convict", "user.convict"}, 4, 6)
	}

	var mu sync.Mutex
	queriesDone := 0
	closeCalled, closeReturned, closeReturned2 := 0, 0, 0
	var closedAt time.Time
	lateSessionClosed := 0
	for ti := 0; ti < nTasks; ti++ {
		ti := ti
		k.Spawn(fmt.Sprintf("q%d", ti), func(t *kernel.Task) {
			for oi := 0; oi < nOps; oi++ {
				tok := fmt.Sprintf("tok-%d-%d", ti, oi)
				if !t.Step("q " + tok) {
					return
				}
				mu.Lock()
				wasClosed := closeReturned > 0
				mu.Unlock()
				start := time.Now()
				var got string
				err := sess.Query("ECHO '" + tok + "'").Scan(&got)
				if wasClosed {
					// a query that starts after Close returned fails immediately with the
					// session-closed error
					if !errors.Is(err, gocql.ErrSessionClosed) {
						k.Violate("C17", "C17/query-after-close-not-refused", "query %s started after Session.Close had returned and ended with %v instead of ErrSessionClosed", tok, err)
					} else if d := time.Since(start); d > 0 {
						k.Violate("C17", "C17/query-after-close-not-immediate", "query %s started after Session.Close had returned and took %v of simulated time to fail", tok, d)
					}
					mu.Lock()
					lateSessionClosed++
					mu.Unlock()
					k.Probe("query-after-close")
				} else if err == nil && got != tok {
					k.Violate("C01", "C01/misrouted-response", "caller of %s received %q", tok, got)
				}
				mu.Lock()
				queriesDone++
				mu.Unlock()
				k.OpDone()
				k.Rec("ret %s %s", tok, ErrClass(err))
			}
		})
	}
	for ci := 0; ci < closers; ci++ {
		ci := ci
		k.Spawn(fmt.Sprintf("closer%d", ci), func(t *kernel.Task) {
			for {
				mu.Lock()
				ready := queriesDone >= closeAfter
				mu.Unlock()
				if ready {
					break
				}
				if !t.Step("wait") {
					return
				}
			}
			if !t.Step("close") {
				return
			}
			mu.Lock()
			closeCalled++
			if closeCalled > 1 {
				k.Probe("close-called-twice")
			}
			mu.Unlock()
			mu.Lock()
			first := closeCalled == 1
			mu.Unlock()
			sess.Close()
			mu.Lock()
			// a second, concurrent Close returns at once while the first is still at work:
			// "closed" is counted from the return of the call that does the closing
			if first {
				closeReturned++
			} else {
				closeReturned2++
			}
			if first && closedAt.IsZero() {
				closedAt = time.Now()
			}
			mu.Unlock()
			k.Rec("close returned (closer %d)", ci)
			k.OpDone()
		})
	}

	k.Sources = append(k.Sources, cl.DeliverActions)
	if faultsOn {
		refused := map[string]bool{}
		k.Sources = append(k.Sources, func() []kernel.Action {
			var acts []kernel.Action
			ctrl := ""
			if c := sess.VerifControlConn(); c != nil {
				ctrl = ConnName(c)
			}
			for _, sc := range cl.SConns() {
				if sc.Dead || sc.C.ClientClosed() {
					continue
				}
				sc := sc
				name := "poolconn.server-close"
				if sc.C.Name == ctrl {
					name = "control.server-close"
				}
				acts = append(acts, kernel.Action{Key: "srvclose:" + sc.C.Name, Rank: 6, Weight: 2, Do: func() {
					k.Fault(name)
					cl.CloseConn(sc, false)
				}})
			}
			for _, h := range cl.Hosts {
				h := h
				acts = append(acts, kernel.Action{Key: "refuse:" + h.Addr, Rank: 6, Weight: 1, Do: func() {
					refused[h.Addr] = !refused[h.Addr]
					if refused[h.Addr] {
						k.Fault("dial.refuse-on")
						cl.Net.SetDialMode(h.Addr, []simnet.DialMode{simnet.DialRefuse, simnet.DialRefuseTmp, simnet.DialHang}[tp.Next(3)])
					} else {
						k.Fault("dial.refuse-off")
						cl.Net.SetDialMode(h.Addr, simnet.DialAccept)
					}
				}})
			}
			acts = append(acts, kernel.Action{Key: "cut-handshake", Rank: 6, Weight: 1, Do: func() { cutNext++ }})
			// a connection that stays open but on which keep-alive probes are never answered again
			// (a hung node, a half-open link): after a few failed probes the driver must give the
			// connection up AND replace it
			for _, sc := range cl.SConns() {
				sc := sc
				if sc.Dead || sc.C.ClientClosed() || !sc.Started || muted[sc] || sc.C.Name == ctrl {
					continue
				}
				acts = append(acts, kernel.Action{Key: "mute-heartbeats:" + sc.C.Name, Rank: 6, Weight: 1, Do: func() {
					muted[sc] = true
					k.Fault("poolconn.heartbeats-never-answered")
					// ... and the ten seconds it takes the driver to notice pass
					for end := time.Now().Add(10 * time.Second); time.Now().Before(end) && !sc.C.ClientClosed(); {
						k.AdvanceTime(time.Until(end))
						k.Quiesce()
						cl.Process()
					}
					if sc.C.ClientClosed() {
						k.Probe("connection-given-up-after-unanswered-heartbeats")
					}
				}})
				break
			}
			if authMode == 2 {
				acts = append(acts, kernel.Action{Key: "auth-provider-fails", Rank: 6, Weight: 3, Do: func() {
					atomic.StoreInt32(&authFailNext, int32(1+tp.Next(3)))
				}})
			}
			// a connection that fails in the middle of a response: the header (and part of the
			// body) of a held answer arrives, then the connection is reset or ends
			offered := map[*node.SConn]bool{}
			for _, r := range cl.Held() {
				r := r
				if r.Sent != 0 || len(r.Frame) < 11 || r.SC.Dead || r.SC.C.ClientClosed() || offered[r.SC] {
					continue
				}
				offered[r.SC] = true
				name, w := "poolconn.fails-mid-response", 2
				if r.SC.C.Name == ctrl {
					name, w = "control.fails-mid-response", 6
				}
				acts = append(acts, kernel.Action{Key: fmt.Sprintf("midbody:%s:%06d", r.SC.C.Name, r.Seq), Rank: 6, Weight: w, Do: func() {
					k.Fault(name)
					cl.DeliverPart(r, 9+tp.Next(len(r.Frame)-9))
					k.Quiesce()
					cl.CloseConn(r.SC, tp.Chance(1, 2))
				}})
			}
			for _, h := range cl.Hosts {
				h := h
				acts = append(acts, kernel.Action{Key: "refuse-next:" + h.Addr, Rank: 6, Weight: 2, Do: func() {
					k.Fault("dial.refuse-next-only")
					if tp.Chance(1, 2) {
						// let one dial through first (the synchronous first connection of a fill)
						cl.Net.DialOnce(h.Addr, simnet.DialAccept)
					}
					cl.Net.DialOnce(h.Addr, simnet.DialRefuse)
				}})
				acts = append(acts, kernel.Action{Key: "lose-all:" + h.Addr, Rank: 6, Weight: 2, Do: func() {
					k.Fault("poolconn.server-close-all")
					for _, sc := range cl.SConns() {
						if sc.C.Host == h.Addr && !sc.Dead && sc.C.Name != ctrl {
							cl.CloseConn(sc, false)
						}
					}
				}})
			}
			acts = append(acts, kernel.Action{Key: "event", Rank: 6, Weight: 3, Do: func() {
				k.Fault("event.push")
				h := cl.Hosts[tp.Next(len(cl.Hosts))]
				if held := cl.Held(); len(held) > 0 && tp.Chance(1, 2) {
					// about a node that owes an answer
					if bh := cl.HostByAddr(held[tp.Next(len(held))].SC.C.Host); bh != nil {
						h = bh
					}
				}
				typ, ch := "TOPOLOGY_CHANGE", "NEW_NODE"
				if tp.Chance(1, 2) {
					typ, ch = "STATUS_CHANGE", []string{"UP", "DOWN"}[tp.Next(2)]
				}
				if tp.Chance(1, 3) {
					// a schema change: for a keyspace the handler waits for schema agreement
					// (queries on the control connection, while more events may follow)
					k.Fault("event.schema-change")
					tg := []string{"KEYSPACE", "KEYSPACE", "TABLE"}[tp.Next(3)]
					cl.PushEvent(&cqlspec.Response{EventType: "SCHEMA_CHANGE", Schema: &cqlspec.SchemaChange{Change: []string{"CREATED", "UPDATED", "DROPPED"}[tp.Next(3)], Target: tg, Keyspace: "ks", Name: "t"}})
				} else {
					cl.PushEvent(&cqlspec.Response{EventType: typ, EventChange: ch, EventIP: net.ParseIP(h.Addr).To4(), EventPort: 9042})
				}
				if tp.Chance(1, 2) {
					// ... and the driver's event debounce interval passes with whatever is
					// outstanding still outstanding
					k.Fault("event.push-then-debounce")
					for end := time.Now().Add(1100 * time.Millisecond); time.Now().Before(end); {
						k.AdvanceTime(time.Until(end))
						k.Quiesce()
						cl.Process()
					}
				}
			}})
			return acts
		})
	}
	k.FaultBudget = 8
	k.TimeMenu = []time.Duration{10 * time.Millisecond, time.Millisecond, 100 * time.Millisecond, time.Second, 2 * time.Second}
	k.PreStep = append(k.PreStep, func() {
		cl.Process()
		k.Quiesce() // the driver takes in what the nodes just answered (handshakes that end)
		lifeInvariants(k, cl, sess, numConns, false)
		CheckWaiters(k)
	})
	k.Loop(nil)

	// ---- settle: faults stop, everything reachable again ----
	k.BeginSettle()
	cutNext = 0
	atomic.StoreInt32(&authFailNext, 0)
	for sc := range muted {
		delete(muted, sc) // faults stop: keep-alive probes are answered again
	}
	cl.Net.ClearDialOnce()
	for _, h := range cl.Hosts {
		cl.Net.SetDialMode(h.Addr, simnet.DialAccept)
	}
	pump := func() { cl.Process(); cl.DeliverAll() }
	closeBound := time.Duration(4+2*nHosts)*maxDur(timeout, cfg.ConnectTimeout) + 30*time.Second
	if !k.SettleUntil(closeBound, 20*time.Millisecond, pump, k.TasksDone) && k.Violation() == nil {
		sig := "C17/session-close-hangs"
		if closeCalled == 0 || closeReturned+closeReturned2 == closeCalled {
			sig = "C06/request-never-completed"
		}
		k.Violate(sig[:3], sig, "after faults stopped, these calls were still blocked after %v simulated: %v; Close called %d times, returned %d times; driver goroutines:\n%s",
			closeBound, k.RunningOps(), closeCalled, closeReturned+closeReturned2, strings.Join(DriverGoroutines(), "\n\n"))
	}
	if k.Violation() == nil && closeCalled == 0 {
		// the session is still open: a reachable host whose pool lost connections is
		// refilled after queries routed to it and a settle
		// (two rounds: a query that finds a fill still winding down does not start another)
		for round := 0; round < 2; round++ {
			for i := 0; i < 2*nHosts && k.Violation() == nil; i++ {
				done := make(chan struct{})
				go func() {
					var got string
					_ = sess.Query(fmt.Sprintf("ECHO 'tok-9-%d'", round*100+i)).Scan(&got)
					close(done)
				}()
				k.SettleUntil(10*time.Second, 10*time.Millisecond, pump, func() bool {
					select {
					case <-done:
						return true
					default:
						return false
					}
				})
			}
			k.SettleUntil(5*time.Second, 50*time.Millisecond, pump, func() bool { return false })
		}
		lifeInvariants(k, cl, sess, numConns, true)
		for id, conns := range sess.VerifPoolConns() {
			live := 0
			for _, c := range conns {
				sc, _ := c.VerifNetConn().(*simnet.Conn)
				if c.Closed() || (sc != nil && (sc.ClientClosed() || sc.ServerClosed())) {
					if k.Violation() == nil {
						k.Violate("C17", "C17/closed-connection-kept-in-pool", "after a settle the pool of host %s still holds connection %s which is closed (driver closed=%v)", id, ConnName(c), c.Closed())
					}
					continue
				}
				live++
			}
			if live < numConns && k.Violation() == nil {
				k.Probe("pool-not-full-after-settle")
				if h := sess.VerifPoolHosts()[id]; h != nil && h.IsUp() {
					// the node is reachable, the driver considers it up, two rounds of queries
					// were routed to it and ten seconds have passed
					k.Violate("C17", "C17/lost-connection-not-replaced", "the pool of host %s (up, reachable) holds %d of %d connections after two rounds of queries and a settle", id, live, numConns)
				}
			}
		}
		k.Probe("open-session-settled")
		closed := make(chan struct{})
		go func() { sess.Close(); close(closed) }()
		if !k.SettleUntil(closeBound, 20*time.Millisecond, pump, func() bool {
			select {
			case <-closed:
				return true
			default:
				return false
			}
		}) && k.Violation() == nil {
			k.Violate("C17", "C17/session-close-hangs", "Session.Close on a settled session did not return within %v simulated; driver goroutines:\n%s", closeBound, strings.Join(DriverGoroutines(), "\n\n"))
		}
	}
	// ---- after Close ----
	if k.Violation() == nil {
		done := make(chan error, 1)
		go func() { done <- sess.Query("ECHO 'tok-8-0'").WithContext(context.Background()).Exec() }()
		k.Quiesce()
		select {
		case err := <-done:
			if !errors.Is(err, gocql.ErrSessionClosed) {
				k.Violate("C17", "C17/query-after-close-not-refused", "a query after Session.Close ended with %v instead of ErrSessionClosed", err)
			}
		default:
			k.Violate("C17", "C17/query-after-close-not-immediate", "a query after Session.Close did not fail immediately")
		}
	}
	allClosed := func() string {
		for _, c := range cl.Net.Conns() {
			if !c.ClientClosed() {
				return c.Name
			}
		}
		return ""
	}
	k.SettleUntil(closeBound, 100*time.Millisecond, pump, func() bool { return allClosed() == "" && len(DriverGoroutines()) == 0 })
	if name := allClosed(); name != "" && k.Violation() == nil {
		k.Violate("C17", "C17/conn-open-after-close", "connection %s still open %v after Session.Close returned", name, closeBound)
	}
	if gs := DriverGoroutines(); len(gs) > 0 && k.Violation() == nil {
		k.Violate("C17", "C17/goroutine-leak:"+TopFrames(gs[0], 1), "%d driver goroutine(s) still alive %v after Session.Close returned; first:\n%s", len(gs), closeBound, gs[0])
	}
	cl.CloseAll()
	k.SettleUntil(closeBound, 100*time.Millisecond, nil, func() bool { return len(kernel.BubbleGoroutines()) == 0 })
}

// lifeConviction is a user conviction policy whose AddFailure takes its time (it yields to
// the scheduler, like any callback into user code may block for a while).
type lifeConviction struct{ k *kernel.Kernel }

func (c lifeConviction) AddFailure(err error, host *gocql.HostInfo) bool {
	c.k.Yield("user.convict", "")
	return true
}
func (c lifeConviction) Reset(host *gocql.HostInfo) {}

// lifeInvariants: pool bounds at a quiescence.
// settled: nothing is being dialled, replaced or closed any more (ten quiet seconds after the
// last fault): the pool's share plus the control connection is all that may be open.
func lifeInvariants(k *kernel.Kernel, cl *node.Cluster, sess *gocql.Session, numConns int, settled bool) {
	if k.Violation() != nil {
		return
	}
	for id, conns := range sess.VerifPoolConns() {
		if len(conns) > numConns {
			k.Violate("C17", "C17/pool-exceeds-size", "the pool of host %s holds %d connections, NumConns is %d", id, len(conns), numConns)
			return
		}
	}
	// connections the dialer handed out and the driver has not closed, per host: the pool's
	// share plus the control connection plus at most one being replaced
	// Only connections whose handshake is over count: a goroutine that was filling a pool when
	// the pool was closed still dials, finishes the handshake and then discards what it got, so
	// connections in their handshake can be open next to those of the pool's successor.
	open := map[string]int{}
	for _, c := range cl.Net.Conns() {
		// a connection the server side already closed is on its way out
		if c.ClientClosed() || c.ServerClosed() {
			continue
		}
		if ssc := cl.SConnOf(c); ssc == nil || !ssc.Started || cl.HasHeld(ssc, "READY", "AUTH_SUCCESS") {
			continue
		}
		open[c.Host]++
	}
	// a pool that is being closed has given up its connections but not closed them yet
	// (the closer is held between the two, or inside the first Conn.Close): they are open
	// next to those of its successor
	// ... and a goroutine held between the end of a handshake and the moment it hands the
	// connection to its pool owns one connection that no pool holds yet (if the pool was
	// closed meanwhile, it closes the connection when it goes on)
	closing, dialed := 0, 0
	for _, key := range k.ParkedKeys() {
		// (pool.handleError: a connection whose Close reports an error calls the pool's error
		// handler from inside the loop in which the pool closes its connections)
		if strings.HasPrefix(key, "pool.close") || strings.HasPrefix(key, "close.") || strings.HasPrefix(key, "pool.handleError") {
			closing++
		}
		if strings.HasPrefix(key, "connect.dialed") {
			dialed++
		}
	}
	for host, n := range open {
		if settled && n > numConns+1 {
			k.Violate("C17", "C17/too-many-open-connections-after-settle", "%d connections are open to %s after faults stopped and ten quiet seconds passed; NumConns is %d (+1 for the control connection)", n, host, numConns)
			return
		}
		if n > numConns+2+closing*numConns+dialed {
			k.Violate("C17", "C17/too-many-open-connections", "%d connections are open to %s, NumConns is %d (+1 for the control connection, +1 being replaced, %d pool(s) in the middle of closing, %d connection(s) held just before their pool takes them)", n, host, numConns, closing, dialed)
			return
		}
	}
}
